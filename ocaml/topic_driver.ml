(* Model side of the M-TOPIC correspondence: same op lines as harness/src/bin/topic.rs,
   one answer per line.  With argument "unfixed" runs the pre-fix model (finding F1). *)
open Model
open Common

let unfixed = Array.length Sys.argv > 1 && Sys.argv.(1) = "unfixed"

let b x = if x then "T" else "F"
let o x = match x with Ok v -> b v | Err _ -> "ERR" | Panic _ -> "PANIC"

let () =
  iter_lines (fun line ->
      match split_ws line with
      | [ "M"; t; f ] ->
          let t = unhex t and f = unhex f in
          print_endline (o (if unfixed then matches_unfixed t f else matches t f))
      | [ "VF"; s ] -> print_endline (b (valid_filter (unhex s)))
      | [ "VT"; s ] -> print_endline (b (valid_topic (unhex s)))
      | [ "HW"; s ] -> print_endline (b (has_wildcards (unhex s)))
      | [] -> ()
      | _ -> failwith ("bad op: " ^ line))
