(* Model side of the M-LOG correspondence (C13): same op lines as harness/src/bin/log.rs,
   one answer line per op line.  All log and pool logic is the extracted Coq [step_item];
   this file only parses and prints.
     NEW <max_seg_size> <max_mem>     -> OK | PANIC        (resets log and pool)
     A <id> <size>                    -> <seg> <off> | PANIC
     R <seg> <off> <len>              -> N|D <s.seg> <s.off> <e.seg> <e.off> [<id>@<seg>.<off>]* | PANIC
     RP <k> <len>                     -> same | NOPOOL     (k < 0 counts from the newest: -1 = newest)
     NO                               -> <seg> <off> | PANIC
   Before a successful NEW (or after an append panicked) every op answers NOLOG.
   Numbers are unsigned 64-bit decimals. *)
open Model
open Common

(* unsigned 64-bit decimal text <-> extracted N (OCaml int is only 63 bits) *)
let n_of_u64 (x : int64) : n =
  let rec pos (x : int64) : positive =
    if Int64.equal x 1L then XH
    else
      let r = pos (Int64.shift_right_logical x 1) in
      if Int64.equal (Int64.logand x 1L) 0L then XO r else XI r
  in
  if Int64.equal x 0L then N0 else Npos (pos x)

let n_of_dec (s : string) : n = n_of_u64 (Int64.of_string ("0u" ^ s))

let u64_of_n (x : n) : int64 =
  let rec pos (p : positive) : int64 =
    match p with
    | XH -> 1L
    | XO q -> Int64.shift_left (pos q) 1
    | XI q -> Int64.logor (Int64.shift_left (pos q) 1) 1L
  in
  match x with N0 -> 0L | Npos p -> pos p

let dec (x : n) : string = Printf.sprintf "%Lu" (u64_of_n x)

let cur ((a, b) : cursor) : string = dec a ^ " " ^ dec b

let st : item state option ref = ref None

let print_ans (a : item ans) : unit =
  match a with
  | AnsCursor c -> print_endline (cur c)
  | AnsNoPool -> print_endline "NOPOOL"
  | AnsRead (p, out) ->
      let b = Buffer.create 64 in
      Buffer.add_string b (if is_done p then "D " else "N ");
      Buffer.add_string b (cur (pos_start p));
      Buffer.add_char b ' ';
      Buffer.add_string b (cur (pos_end p));
      List.iter
        (fun (((id, _sz), (sg, off)) : item * cursor) ->
          Buffer.add_char b ' ';
          Buffer.add_string b (dec id);
          Buffer.add_char b '@';
          Buffer.add_string b (dec sg);
          Buffer.add_char b '.';
          Buffer.add_string b (dec off))
        out;
      print_endline (Buffer.contents b)

let do_op (o : item op) (poison : bool) : unit =
  match !st with
  | None -> print_endline "NOLOG"
  | Some s -> (
      match step_item s o with
      | Ok (s', a) ->
          st := Some s';
          print_ans a
      | Err _ -> print_endline "ERR"
      | Panic _ ->
          if poison then st := None;
          print_endline "PANIC")

let () =
  iter_lines (fun line ->
      match split_ws line with
      | [ "NEW"; ms; mm ] -> (
          match init_item (n_of_dec ms) (n_of_dec mm) with
          | Ok s ->
              st := Some s;
              print_endline "OK"
          | _ ->
              st := None;
              print_endline "PANIC")
      | [ "A"; id; sz ] -> do_op (OpA (n_of_dec id, n_of_dec sz)) true
      | [ "R"; sg; off; len ] -> do_op (OpR ((n_of_dec sg, n_of_dec off), n_of_dec len)) false
      | [ "RP"; k; len ] ->
          if String.length k > 0 && k.[0] = '-' then
            let j = n_of_dec (String.sub k 1 (String.length k - 1)) in
            (* -1 = newest: index from the end j-1 *)
            do_op (OpRP (true, N.sub j (Npos XH), n_of_dec len)) false
          else do_op (OpRP (false, n_of_dec k, n_of_dec len)) false
      | [ "NO" ] -> do_op OpNO false
      | [] -> ()
      | _ -> failwith ("bad op: " ^ line))
