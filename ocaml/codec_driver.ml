(* Model side of the M-CODEC correspondence: same op lines as harness/src/bin/codec.rs, one
   answer line per op.  Ops (bytes in hex, "-" = empty):
     ENC <ver> <C|B> <max> <canonical-packet>   -> OK <bytes> <ret> <size|-> | ERR <kind> | PANIC
     DEC <ver> <C|B> <max> <bytes>              -> PKT <canonical-packet> <consumed> | MAL <kind> <consumed> | MORE <k> | PANIC
     STREAM <ver> <C|B> <max> <chunk>+          -> (PKT <canonical-packet> " | ")* (MAL <kind> | PANIC | END clean | END partial)
     UTF8 <bytes>                               -> T | F
     WF <ver> <C|B> <canonical-packet>          -> T | F        (model only: Coq wf_v4)
     NORM <ver> <canonical-packet>              -> <canonical-packet>   (model only: Coq norm)
   Only <ver> = 4 is handled here. *)
open Model
open Common

(* ---- fast hex: a table of the 256 byte values as extracted N *)
let ntab : n array = Array.init 256 n_of_int

let hv c =
  match c with
  | '0' .. '9' -> Char.code c - 48
  | 'a' .. 'f' -> Char.code c - 87
  | 'A' .. 'F' -> Char.code c - 55
  | _ -> failwith "bad hex"

let unhex_fast (s : string) : n list =
  if s = "-" then []
  else begin
    let l = String.length s / 2 in
    let acc = ref [] in
    for i = l - 1 downto 0 do
      acc := ntab.((hv s.[2 * i] lsl 4) lor hv s.[(2 * i) + 1]) :: !acc
    done;
    !acc
  end

let hexdigits = "0123456789abcdef"

let hex_fast (l : n list) : string =
  if l = [] then "-"
  else begin
    let b = Buffer.create 1024 in
    List.iter
      (fun x ->
        let v = int_of_n x in
        Buffer.add_char b hexdigits.[(v lsr 4) land 15];
        Buffer.add_char b hexdigits.[v land 15])
      l;
    Buffer.contents b
  end

(* ---- canonical packet text *)
let kv (tok : string) (key : string) : string =
  let p = key ^ "=" in
  let lp = String.length p in
  if String.length tok >= lp && String.sub tok 0 lp = p then String.sub tok lp (String.length tok - lp)
  else failwith ("expected " ^ key ^ "= in " ^ tok)

let nn s = n_of_int (int_of_string s)
let bb s = s = "1"

let qos_of_s = function
  | "0" -> AtMostOnce
  | "1" -> AtLeastOnce
  | "2" -> ExactlyOnce
  | s -> failwith ("bad qos " ^ s)

let s_of_qos = function AtMostOnce -> "0" | AtLeastOnce -> "1" | ExactlyOnce -> "2"
let list_of s f = if s = "none" then [] else List.map f (String.split_on_char ',' s)
let s_of_list l f = if l = [] then "none" else String.concat "," (List.map f l)

let rc_of_s s =
  match s with
  | "S0" -> RcSuccess AtMostOnce
  | "S1" -> RcSuccess AtLeastOnce
  | "S2" -> RcSuccess ExactlyOnce
  | "F" -> RcFailure
  | "Q0" -> RcQoS AtMostOnce
  | "Q1" -> RcQoS AtLeastOnce
  | "Q2" -> RcQoS ExactlyOnce
  | "U" -> RcUnspecified
  | _ when s.[0] = 'O' -> RcOther (nn (String.sub s 1 (String.length s - 1)))
  | _ -> failwith ("bad return code " ^ s)

let s_of_rc = function
  | RcSuccess q -> "S" ^ s_of_qos q
  | RcFailure -> "F"
  | RcQoS q -> "Q" ^ s_of_qos q
  | RcUnspecified -> "U"
  | RcOther b -> "O" ^ string_of_int (int_of_n b)

let parse_packet (t : string list) : packet =
  match t with
  | [ "CONNECT"; proto; ka; id; clean; will; login ] ->
      let will =
        match kv will "will" with
        | "none" -> None
        | s -> (
            match String.split_on_char ':' s with
            | [ a; b; q; r ] ->
                Some { w_topic = unhex_fast a; w_message = unhex_fast b; w_qos = qos_of_s q; w_retain = bb r }
            | _ -> failwith "bad will")
      in
      let login =
        match kv login "login" with
        | "none" -> None
        | s -> (
            match String.split_on_char ':' s with
            | [ a; b ] -> Some { l_username = unhex_fast a; l_password = unhex_fast b }
            | _ -> failwith "bad login")
      in
      Connect
        { c_protocol = nn (kv proto "proto"); c_keep_alive = nn (kv ka "ka"); c_client_id = unhex_fast (kv id "id");
          c_clean_session = bb (kv clean "clean"); c_last_will = will; c_login = login }
  | [ "CONNACK"; sp; code ] -> ConnAck (bb (kv sp "sp"), nn (kv code "code"))
  | [ "PUBLISH"; dup; qos; retain; topic; pkid; payload ] ->
      Publish
        ( bb (kv dup "dup"), qos_of_s (kv qos "qos"), bb (kv retain "retain"), unhex_fast (kv topic "topic"),
          nn (kv pkid "pkid"), unhex_fast (kv payload "payload") )
  | [ "PUBACK"; pkid; r ] -> PubAck (nn (kv pkid "pkid"), nn (kv r "reason"))
  | [ "PUBREC"; pkid; r ] -> PubRec (nn (kv pkid "pkid"), nn (kv r "reason"))
  | [ "PUBREL"; pkid; r ] -> PubRel (nn (kv pkid "pkid"), nn (kv r "reason"))
  | [ "PUBCOMP"; pkid; r ] -> PubComp (nn (kv pkid "pkid"), nn (kv r "reason"))
  | [ "SUBSCRIBE"; pkid; fs ] ->
      Subscribe
        ( nn (kv pkid "pkid"),
          list_of (kv fs "filters") (fun s ->
              match String.split_on_char ':' s with
              | [ p; q; o ] -> { f_path = unhex_fast p; f_qos = qos_of_s q; f_opts = nn o }
              | _ -> failwith "bad filter") )
  | [ "SUBACK"; pkid; cs ] -> SubAck (nn (kv pkid "pkid"), list_of (kv cs "codes") rc_of_s)
  | [ "UNSUBSCRIBE"; pkid; ts ] -> Unsubscribe (nn (kv pkid "pkid"), list_of (kv ts "topics") unhex_fast)
  | [ "UNSUBACK"; pkid; rs ] -> UnsubAck (nn (kv pkid "pkid"), list_of (kv rs "reasons") nn)
  | [ "PINGREQ" ] -> PingReq
  | [ "PINGRESP" ] -> PingResp
  | [ "DISCONNECT"; r ] -> Disconnect (nn (kv r "reason"))
  | _ -> failwith ("bad packet: " ^ String.concat " " t)

let si x = string_of_int (int_of_n x)
let sb x = if x then "1" else "0"

let show_packet (p : packet) : string =
  match p with
  | Connect c ->
      Printf.sprintf "CONNECT proto=%s ka=%s id=%s clean=%s will=%s login=%s" (si c.c_protocol) (si c.c_keep_alive)
        (hex_fast c.c_client_id) (sb c.c_clean_session)
        (match c.c_last_will with
        | None -> "none"
        | Some w -> Printf.sprintf "%s:%s:%s:%s" (hex_fast w.w_topic) (hex_fast w.w_message) (s_of_qos w.w_qos) (sb w.w_retain))
        (match c.c_login with
        | None -> "none"
        | Some l -> Printf.sprintf "%s:%s" (hex_fast l.l_username) (hex_fast l.l_password))
  | ConnAck (sp, code) -> Printf.sprintf "CONNACK sp=%s code=%s" (sb sp) (si code)
  | Publish (dup, q, retain, topic, pkid, payload) ->
      Printf.sprintf "PUBLISH dup=%s qos=%s retain=%s topic=%s pkid=%s payload=%s" (sb dup) (s_of_qos q) (sb retain)
        (hex_fast topic) (si pkid) (hex_fast payload)
  | PubAck (pkid, r) -> Printf.sprintf "PUBACK pkid=%s reason=%s" (si pkid) (si r)
  | PubRec (pkid, r) -> Printf.sprintf "PUBREC pkid=%s reason=%s" (si pkid) (si r)
  | PubRel (pkid, r) -> Printf.sprintf "PUBREL pkid=%s reason=%s" (si pkid) (si r)
  | PubComp (pkid, r) -> Printf.sprintf "PUBCOMP pkid=%s reason=%s" (si pkid) (si r)
  | Subscribe (pkid, fs) ->
      Printf.sprintf "SUBSCRIBE pkid=%s filters=%s" (si pkid)
        (s_of_list fs (fun f -> Printf.sprintf "%s:%s:%s" (hex_fast f.f_path) (s_of_qos f.f_qos) (si f.f_opts)))
  | SubAck (pkid, cs) -> Printf.sprintf "SUBACK pkid=%s codes=%s" (si pkid) (s_of_list cs s_of_rc)
  | Unsubscribe (pkid, ts) -> Printf.sprintf "UNSUBSCRIBE pkid=%s topics=%s" (si pkid) (s_of_list ts hex_fast)
  | UnsubAck (pkid, rs) -> Printf.sprintf "UNSUBACK pkid=%s reasons=%s" (si pkid) (s_of_list rs si)
  | PingReq -> "PINGREQ"
  | PingResp -> "PINGRESP"
  | Disconnect r -> Printf.sprintf "DISCONNECT reason=%s" (si r)

let show_err (e : err) : string =
  match e with
  | InvalidConnectReturnCode -> "InvalidConnectReturnCode"
  | InvalidReason -> "InvalidReason"
  | InvalidRemainingLength -> "InvalidRemainingLength"
  | InvalidProtocol -> "InvalidProtocol"
  | InvalidProtocolLevel -> "InvalidProtocolLevel"
  | IncorrectPacketFormat -> "IncorrectPacketFormat"
  | InvalidPacketType -> "InvalidPacketType"
  | InvalidRetainForwardRule -> "InvalidRetainForwardRule"
  | InvalidQoS -> "InvalidQoS"
  | InvalidSubscribeReasonCode -> "InvalidSubscribeReasonCode"
  | PacketIdZero -> "PacketIdZero"
  | EmptySubscription -> "EmptySubscription"
  | SubscriptionIdZero -> "SubscriptionIdZero"
  | PayloadSizeIncorrect -> "PayloadSizeIncorrect"
  | PayloadTooLong -> "PayloadTooLong"
  | PayloadSizeLimitExceeded -> "PayloadSizeLimitExceeded"
  | PayloadRequired -> "PayloadRequired"
  | PayloadNotUtf8 -> "PayloadNotUtf8"
  | TopicNotUtf8 -> "TopicNotUtf8"
  | BoundaryCrossed -> "BoundaryCrossed"
  | MalformedPacket -> "MalformedPacket"
  | MalformedRemainingLength -> "MalformedRemainingLength"
  | InvalidPropertyType -> "InvalidPropertyType"
  | ProtocolError -> "ProtocolError"
  | InsufficientBytes k -> "InsufficientBytes"
  | OutgoingPacketTooLarge -> "OutgoingPacketTooLarge"
  | Unrepresentable -> "Unrepresentable"
  | OutOfFuel -> "OutOfFuel"

let flav = function "C" -> Client | "B" -> Broker | s -> failwith ("bad flavour " ^ s)

let rec llen (l : n list) (acc : int) : int = match l with [] -> acc | _ :: r -> llen r (acc + 1)

let show_event = function
  | EvPacket p -> "PKT " ^ show_packet p
  | EvError e -> "MAL " ^ show_err e
  | EvPanic _ -> "PANIC"

(* ------------------------------------------------------------------ MQTT 5 *)

(* property set text: none | empty | <id>=<value>;...   value by the id's kind:
   byte/u16/u32/varint decimal, string/binary hex, user property hex~hex *)
let parse_props (s : string) : props =
  match s with
  | "none" -> None
  | "empty" -> Some []
  | _ ->
      Some
        (List.map
           (fun item ->
             let i = String.index item '=' in
             let id = int_of_string (String.sub item 0 i) in
             let v = String.sub item (i + 1) (String.length item - i - 1) in
             let pv =
               match kind_of_id (n_of_int id) with
               | Some KByte -> VByte (nn v)
               | Some KU16 -> VU16 (nn v)
               | Some KU32 -> VU32 (nn v)
               | Some KVarInt -> VVarInt (nn v)
               | Some KStr -> VStr (unhex_fast v)
               | Some KBin -> VBin (unhex_fast v)
               | Some KPair -> (
                   match String.split_on_char '~' v with
                   | [ k; x ] -> VPair (unhex_fast k, unhex_fast x)
                   | _ -> failwith "bad user property")
               | None -> failwith ("unknown property id " ^ string_of_int id)
             in
             (n_of_int id, pv))
           (String.split_on_char ';' s))

let show_props (ps : props) : string =
  match ps with
  | None -> "none"
  | Some [] -> "empty"
  | Some l ->
      String.concat ";"
        (List.map
           (fun (id, v) ->
             si id ^ "="
             ^
             match v with
             | VByte x | VU16 x | VU32 x | VVarInt x -> si x
             | VStr x | VBin x -> hex_fast x
             | VPair (k, x) -> hex_fast k ^ "~" ^ hex_fast x)
           l)

let parse_packet5 (t : string list) : packet5 =
  match t with
  | [ "CONNECT"; ka; id; clean; props; will; login ] ->
      let will =
        match kv will "will" with
        | "none" -> None
        | s -> (
            match String.split_on_char ':' s with
            | [ a; b; q; r; p ] ->
                Some { w5_topic = unhex_fast a; w5_message = unhex_fast b; w5_qos = qos_of_s q; w5_retain = bb r; w5_props = parse_props p }
            | _ -> failwith "bad will")
      in
      let login =
        match kv login "login" with
        | "none" -> None
        | s -> (
            match String.split_on_char ':' s with
            | [ a; b ] -> Some { l_username = unhex_fast a; l_password = unhex_fast b }
            | _ -> failwith "bad login")
      in
      Connect5
        { c5_keep_alive = nn (kv ka "ka"); c5_client_id = unhex_fast (kv id "id"); c5_clean_start = bb (kv clean "clean");
          c5_props = parse_props (kv props "props"); c5_will = will; c5_login = login }
  | [ "CONNACK"; sp; code; props ] -> ConnAck5 (bb (kv sp "sp"), nn (kv code "code"), parse_props (kv props "props"))
  | [ "PUBLISH"; dup; qos; retain; topic; pkid; payload; props ] ->
      Publish5
        ( bb (kv dup "dup"), qos_of_s (kv qos "qos"), bb (kv retain "retain"), unhex_fast (kv topic "topic"),
          nn (kv pkid "pkid"), unhex_fast (kv payload "payload"), parse_props (kv props "props") )
  | [ "PUBACK"; pkid; r; props ] -> PubAck5 (nn (kv pkid "pkid"), nn (kv r "reason"), parse_props (kv props "props"))
  | [ "PUBREC"; pkid; r; props ] -> PubRec5 (nn (kv pkid "pkid"), nn (kv r "reason"), parse_props (kv props "props"))
  | [ "PUBREL"; pkid; r; props ] -> PubRel5 (nn (kv pkid "pkid"), nn (kv r "reason"), parse_props (kv props "props"))
  | [ "PUBCOMP"; pkid; r; props ] -> PubComp5 (nn (kv pkid "pkid"), nn (kv r "reason"), parse_props (kv props "props"))
  | [ "SUBSCRIBE"; pkid; fs; props ] ->
      Subscribe5
        ( nn (kv pkid "pkid"),
          list_of (kv fs "filters") (fun s ->
              match String.split_on_char ':' s with
              | [ p; q; nl; pr; rule ] ->
                  { f5_path = unhex_fast p; f5_qos = qos_of_s q; f5_nolocal = bb nl; f5_preserve_retain = bb pr; f5_rule = nn rule }
              | _ -> failwith "bad filter"),
          parse_props (kv props "props") )
  | [ "SUBACK"; pkid; cs; props ] -> SubAck5 (nn (kv pkid "pkid"), list_of (kv cs "codes") rc_of_s, parse_props (kv props "props"))
  | [ "UNSUBSCRIBE"; pkid; ts; props ] ->
      Unsubscribe5 (nn (kv pkid "pkid"), list_of (kv ts "topics") unhex_fast, parse_props (kv props "props"))
  | [ "UNSUBACK"; pkid; rs; props ] -> UnsubAck5 (nn (kv pkid "pkid"), list_of (kv rs "reasons") nn, parse_props (kv props "props"))
  | [ "PINGREQ" ] -> PingReq5
  | [ "PINGRESP" ] -> PingResp5
  | [ "DISCONNECT"; r; props ] -> Disconnect5 (nn (kv r "reason"), parse_props (kv props "props"))
  | _ -> failwith ("bad v5 packet: " ^ String.concat " " t)

let show_packet5 (p : packet5) : string =
  match p with
  | Connect5 c ->
      Printf.sprintf "CONNECT ka=%s id=%s clean=%s props=%s will=%s login=%s" (si c.c5_keep_alive) (hex_fast c.c5_client_id)
        (sb c.c5_clean_start) (show_props c.c5_props)
        (match c.c5_will with
        | None -> "none"
        | Some w ->
            Printf.sprintf "%s:%s:%s:%s:%s" (hex_fast w.w5_topic) (hex_fast w.w5_message) (s_of_qos w.w5_qos) (sb w.w5_retain)
              (show_props w.w5_props))
        (match c.c5_login with
        | None -> "none"
        | Some l -> Printf.sprintf "%s:%s" (hex_fast l.l_username) (hex_fast l.l_password))
  | ConnAck5 (sp, code, ps) -> Printf.sprintf "CONNACK sp=%s code=%s props=%s" (sb sp) (si code) (show_props ps)
  | Publish5 (dup, q, retain, topic, pkid, payload, ps) ->
      Printf.sprintf "PUBLISH dup=%s qos=%s retain=%s topic=%s pkid=%s payload=%s props=%s" (sb dup) (s_of_qos q) (sb retain)
        (hex_fast topic) (si pkid) (hex_fast payload) (show_props ps)
  | PubAck5 (pkid, r, ps) -> Printf.sprintf "PUBACK pkid=%s reason=%s props=%s" (si pkid) (si r) (show_props ps)
  | PubRec5 (pkid, r, ps) -> Printf.sprintf "PUBREC pkid=%s reason=%s props=%s" (si pkid) (si r) (show_props ps)
  | PubRel5 (pkid, r, ps) -> Printf.sprintf "PUBREL pkid=%s reason=%s props=%s" (si pkid) (si r) (show_props ps)
  | PubComp5 (pkid, r, ps) -> Printf.sprintf "PUBCOMP pkid=%s reason=%s props=%s" (si pkid) (si r) (show_props ps)
  | Subscribe5 (pkid, fs, ps) ->
      Printf.sprintf "SUBSCRIBE pkid=%s filters=%s props=%s" (si pkid)
        (s_of_list fs (fun f ->
             Printf.sprintf "%s:%s:%s:%s:%s" (hex_fast f.f5_path) (s_of_qos f.f5_qos) (sb f.f5_nolocal) (sb f.f5_preserve_retain)
               (si f.f5_rule)))
        (show_props ps)
  | SubAck5 (pkid, cs, ps) -> Printf.sprintf "SUBACK pkid=%s codes=%s props=%s" (si pkid) (s_of_list cs s_of_rc) (show_props ps)
  | Unsubscribe5 (pkid, ts, ps) ->
      Printf.sprintf "UNSUBSCRIBE pkid=%s topics=%s props=%s" (si pkid) (s_of_list ts hex_fast) (show_props ps)
  | UnsubAck5 (pkid, rs, ps) -> Printf.sprintf "UNSUBACK pkid=%s reasons=%s props=%s" (si pkid) (s_of_list rs si) (show_props ps)
  | PingReq5 -> "PINGREQ"
  | PingResp5 -> "PINGRESP"
  | Disconnect5 (r, ps) -> Printf.sprintf "DISCONNECT reason=%s props=%s" (si r) (show_props ps)

let max5 s = if s = "none" then None else Some (nn s)

let show_event5 = function
  | EvPacket p -> "PKT " ^ show_packet5 p
  | EvError e -> "MAL " ^ show_err e
  | EvPanic _ -> "PANIC"

(* with argument "unfixed" / "fixed" the v5 decoder of that variant of the model is used
   (default: the model of the current code) *)
let variant = if Array.length Sys.argv > 1 then Sys.argv.(1) else ""
let rd5 fl bs max =
  match variant with "unfixed" -> read5_gen unfixed fl bs max | "fixed" -> read5_gen fixed fl bs max | _ -> read5 fl bs max

let () =
  iter_lines (fun line ->
      match split_ws line with
      | "ENC" :: "4" :: fl :: max :: pkt -> (
          let fl = flav fl in
          let p = parse_packet pkt in
          match write fl (nn max) p with
          | Ok (bs, ret) ->
              Printf.printf "OK %s %s %s\n" (hex_fast bs) (si ret) (match fl with Client -> si (size Client p) | Broker -> "-")
          | Err e -> Printf.printf "ERR %s\n" (show_err e)
          | Panic _ -> print_endline "PANIC")
      | [ "DEC"; "4"; fl; max; bs ] -> (
          let bs = unhex_fast bs in
          let total = llen bs 0 in
          match read (flav fl) bs (nn max) with
          | Packet (p, rest) -> Printf.printf "PKT %s %d\n" (show_packet p) (total - llen rest 0)
          | Malformed (e, rest) -> Printf.printf "MAL %s %d\n" (show_err e) (total - llen rest 0)
          | NeedMore k -> Printf.printf "MORE %s\n" (si k)
          | RPanic _ -> print_endline "PANIC")
      | "STREAM" :: "4" :: fl :: max :: chunks ->
          let evs, ending = run_stream4 (flav fl) (nn max) (List.map unhex_fast chunks) in
          let parts = List.map show_event evs in
          let parts =
            match ending with EndClean -> parts @ [ "END clean" ] | EndPartial -> parts @ [ "END partial" ] | EndDead -> parts
          in
          print_endline (String.concat " | " parts)
      | "ENC" :: "5" :: fl :: max :: pkt -> (
          let fl = flav fl in
          let p = parse_packet5 pkt in
          match write5 fl (max5 max) p with
          | Ok (bs, ret) ->
              Printf.printf "OK %s %s %s\n" (hex_fast bs) (si ret) (match fl with Client -> si (size5 p) | Broker -> "-")
          | Err e -> Printf.printf "ERR %s\n" (show_err e)
          | Panic _ -> print_endline "PANIC")
      | [ "DEC"; "5"; fl; max; bs ] -> (
          let bs = unhex_fast bs in
          let total = llen bs 0 in
          match rd5 (flav fl) bs (max5 max) with
          | Packet (p, rest) -> Printf.printf "PKT %s %d\n" (show_packet5 p) (total - llen rest 0)
          | Malformed (e, rest) -> Printf.printf "MAL %s %d\n" (show_err e) (total - llen rest 0)
          | NeedMore k -> Printf.printf "MORE %s\n" (si k)
          | RPanic _ -> print_endline "PANIC")
      | "STREAM" :: "5" :: fl :: max :: chunks ->
          let evs, ending = run_stream5 (flav fl) (max5 max) (List.map unhex_fast chunks) in
          let parts = List.map show_event5 evs in
          let parts =
            match ending with EndClean -> parts @ [ "END clean" ] | EndPartial -> parts @ [ "END partial" ] | EndDead -> parts
          in
          print_endline (String.concat " | " parts)
      | "WF" :: "5" :: fl :: pkt -> print_endline (if wf5 (flav fl) (parse_packet5 pkt) then "T" else "F")
      | "NORM" :: "5" :: fl :: pkt -> print_endline (show_packet5 (norm5 (flav fl) (parse_packet5 pkt)))
      | [ "UTF8"; bs ] -> print_endline (if utf8_valid (unhex_fast bs) then "T" else "F")
      | "WF" :: "4" :: fl :: pkt -> print_endline (if wf_v4 (flav fl) (parse_packet pkt) then "T" else "F")
      | "NORM" :: "4" :: pkt -> print_endline (show_packet (norm (parse_packet pkt)))
      | [] -> ()
      | _ -> failwith ("bad op: " ^ String.sub line 0 (min 200 (String.length line))))
