(* Model side of the M-CLIENT correspondence: same op lines as harness/src/bin/client.rs,
   one answer per line.
     NEW <ver> <max_inflight> <manual_acks> | OUT <request> | IN <packet> | CLEAN
   answers
     OK <packet|-> EV[..] INFL <n> COLL <0|1>      (OUT / IN)
     OK [<request> ..] EV[..] INFL <n> COLL <0|1>  (CLEAN)
     ERR <kind> EV[..] INFL <n> COLL <0|1> | PANIC | DEAD (after a panic, until NEW) *)
open Model
open Common

let i = int_of_n
let n s = n_of_int (int_of_string s)

let qos_s = function Q0 -> "0" | Q1 -> "1" | Q2 -> "2"
let qos_of = function "0" -> Q0 | "1" -> Q1 | "2" -> Q2 | s -> failwith ("bad qos " ^ s)

let pub_s p =
  Printf.sprintf "PUB:%s:%d:%d:%d" (qos_s p.p_qos) (i p.p_pkid) (i p.p_topic) (i p.p_payload)

let packet_s = function
  | PConnect -> "CONNECT"
  | PConnAck (sp, code) -> Printf.sprintf "CONNACK:%d:%d" (if sp then 1 else 0) (i code)
  | PPublish p -> pub_s p
  | PPubAck x -> Printf.sprintf "PUBACK:%d" (i x)
  | PPubRec x -> Printf.sprintf "PUBREC:%d" (i x)
  | PPubRel x -> Printf.sprintf "PUBREL:%d" (i x)
  | PPubComp x -> Printf.sprintf "PUBCOMP:%d" (i x)
  | PSubscribe (x, k) -> Printf.sprintf "SUB:%d:%d" (i x) (i k)
  | PSubAck x -> Printf.sprintf "SUBACK:%d" (i x)
  | PUnsubscribe (x, k) -> Printf.sprintf "UNSUB:%d:%d" (i x) (i k)
  | PUnsubAck x -> Printf.sprintf "UNSUBACK:%d" (i x)
  | PPingReq -> "PINGREQ"
  | PPingResp -> "PINGRESP"
  | PDisconnect -> "DISCONNECT"

let request_s = function
  | RPublish p -> pub_s p
  | RPubAck x -> Printf.sprintf "PUBACK:%d" (i x)
  | RPubRec x -> Printf.sprintf "PUBREC:%d" (i x)
  | RPubComp x -> Printf.sprintf "PUBCOMP:%d" (i x)
  | RPubRel x -> Printf.sprintf "PUBREL:%d" (i x)
  | RPingReq -> "PINGREQ"
  | RPingResp -> "PINGRESP"
  | RSubscribe k -> Printf.sprintf "SUB:0:%d" (i k)
  | RSubAck x -> Printf.sprintf "SUBACK:%d" (i x)
  | RUnsubscribe k -> Printf.sprintf "UNSUB:0:%d" (i k)
  | RUnsubAck x -> Printf.sprintf "UNSUBACK:%d" (i x)
  | RDisconnect -> "DISCONNECT"

let outgoing_s = function
  | OPublish x -> Printf.sprintf "PUB:%d" (i x)
  | OSubscribe x -> Printf.sprintf "SUB:%d" (i x)
  | OUnsubscribe x -> Printf.sprintf "UNSUB:%d" (i x)
  | OPubAck x -> Printf.sprintf "PUBACK:%d" (i x)
  | OPubRec x -> Printf.sprintf "PUBREC:%d" (i x)
  | OPubRel x -> Printf.sprintf "PUBREL:%d" (i x)
  | OPubComp x -> Printf.sprintf "PUBCOMP:%d" (i x)
  | OPingReq -> "PINGREQ"
  | OPingResp -> "PINGRESP"
  | ODisconnect -> "DISCONNECT"
  | OAwaitAck x -> Printf.sprintf "AWAITACK:%d" (i x)

let event_s = function
  | EvIn p -> "I(" ^ packet_s p ^ ")"
  | EvOut o -> "O(" ^ outgoing_s o ^ ")"

let error_s = function
  | EUnsolicited x -> Printf.sprintf "Unsolicited:%d" (i x)
  | EAwaitPingResp -> "AwaitPingResp"
  | EWrongPacket -> "WrongPacket"
  | ECollisionTimeout -> "CollisionTimeout"
  | EEmptySubscription -> "EmptySubscription"
  | EConnectionAborted -> "ConnectionAborted"

let parse_pub = function
  | [ q; id; t; p ] -> { p_qos = qos_of q; p_pkid = n id; p_topic = n t; p_payload = n p }
  | _ -> failwith "bad PUB"

let parse_request = function
  | "PUB" :: r -> RPublish (parse_pub r)
  | [ "PUBACK"; x ] -> RPubAck (n x)
  | [ "PUBREC"; x ] -> RPubRec (n x)
  | [ "PUBCOMP"; x ] -> RPubComp (n x)
  | [ "PUBREL"; x ] -> RPubRel (n x)
  | [ "PINGREQ" ] -> RPingReq
  | [ "PINGRESP" ] -> RPingResp
  | [ "SUB"; k ] -> RSubscribe (n k)
  | [ "SUBACK"; x ] -> RSubAck (n x)
  | [ "UNSUB"; k ] -> RUnsubscribe (n k)
  | [ "UNSUBACK"; x ] -> RUnsubAck (n x)
  | [ "DISCONNECT" ] -> RDisconnect
  | l -> failwith ("bad request: " ^ String.concat " " l)

let parse_packet = function
  | "PUB" :: r -> PPublish (parse_pub r)
  | [ "PUBACK"; x ] -> PPubAck (n x)
  | [ "PUBREC"; x ] -> PPubRec (n x)
  | [ "PUBREL"; x ] -> PPubRel (n x)
  | [ "PUBCOMP"; x ] -> PPubComp (n x)
  | [ "SUBACK"; x ] -> PSubAck (n x)
  | [ "UNSUBACK"; x ] -> PUnsubAck (n x)
  | [ "SUB"; x; k ] -> PSubscribe (n x, n k)
  | [ "UNSUB"; x; k ] -> PUnsubscribe (n x, n k)
  | [ "PINGREQ" ] -> PPingReq
  | [ "PINGRESP" ] -> PPingResp
  | [ "CONNECT" ] -> PConnect
  | [ "CONNACK"; sp; c ] -> PConnAck (sp = "1", n c)
  | [ "DISCONNECT" ] -> PDisconnect
  | l -> failwith ("bad packet: " ^ String.concat " " l)


(* ---------------------------------------------------------------- v5 *)
let optn = function "-" -> None | s -> Some (n s)
let pub5_s p =
  Printf.sprintf "PUB:%s:%d:%d:%d%s" (qos_s p.q_qos) (i p.q_pkid) (i p.q_topic) (i p.q_payload)
    (match p.q_alias with Some a -> Printf.sprintf ":a%d" (i a) | None -> "")
let ack_s k x r = if i r = 0 then Printf.sprintf "%s:%d" k (i x) else Printf.sprintf "%s:%d:%d" k (i x) (i r)
let opt_s = function Some x -> string_of_int (i x) | None -> "-"
let packet5_s = function
  | P5Auth -> "AUTH"
  | P5Connect -> "CONNECT"
  | P5ConnAck (sp, code, rm, tam) -> Printf.sprintf "CONNACK:%d:%d:%s:%s" (if sp then 1 else 0) (i code) (opt_s rm) (opt_s tam)
  | P5Publish p -> pub5_s p
  | P5PubAck (x, r) -> ack_s "PUBACK" x r
  | P5PubRec (x, r) -> ack_s "PUBREC" x r
  | P5PubRel (x, r) -> ack_s "PUBREL" x r
  | P5PubComp (x, r) -> ack_s "PUBCOMP" x r
  | P5Subscribe (x, k) -> Printf.sprintf "SUB:%d:%d" (i x) (i k)
  | P5SubAck x -> Printf.sprintf "SUBACK:%d" (i x)
  | P5Unsubscribe (x, k) -> Printf.sprintf "UNSUB:%d:%d" (i x) (i k)
  | P5UnsubAck x -> Printf.sprintf "UNSUBACK:%d" (i x)
  | P5PingReq -> "PINGREQ"
  | P5PingResp -> "PINGRESP"
  | P5Disconnect r -> if i r = 0 then "DISCONNECT" else Printf.sprintf "DISCONNECT:%d" (i r)
let request5_s = function
  | R5Publish p -> pub5_s p
  | R5PubAck x -> Printf.sprintf "PUBACK:%d" (i x)
  | R5PubRec x -> Printf.sprintf "PUBREC:%d" (i x)
  | R5PubComp x -> Printf.sprintf "PUBCOMP:%d" (i x)
  | R5PubRel x -> Printf.sprintf "PUBREL:%d" (i x)
  | R5PingReq -> "PINGREQ"
  | R5PingResp -> "PINGRESP"
  | R5Subscribe k -> Printf.sprintf "SUB:0:%d" (i k)
  | R5SubAck x -> Printf.sprintf "SUBACK:%d" (i x)
  | R5Unsubscribe k -> Printf.sprintf "UNSUB:0:%d" (i k)
  | R5UnsubAck x -> Printf.sprintf "UNSUBACK:%d" (i x)
  | R5Disconnect -> "DISCONNECT"
let event5_s = function
  | Ev5In p -> "I(" ^ packet5_s p ^ ")"
  | Ev5Out o -> "O(" ^ outgoing_s o ^ ")"
let error5_s = function
  | E5Unsolicited x -> Printf.sprintf "Unsolicited:%d" (i x)
  | E5AwaitPingResp -> "AwaitPingResp"
  | E5WrongPacket -> "WrongPacket"
  | E5CollisionTimeout -> "CollisionTimeout"
  | E5EmptySubscription -> "EmptySubscription"
  | E5InvalidAlias (a, m) -> Printf.sprintf "InvalidAlias:%d:%d" (i a) (i m)
  | E5ServerDisconnect r -> Printf.sprintf "ServerDisconnect:%d" (i r)
  | E5ConnFail c -> Printf.sprintf "ConnFail:%d" (i c)
let parse_pub5 = function
  | [ q; id; t; p ] -> { q_qos = qos_of q; q_pkid = n id; q_topic = n t; q_payload = n p; q_alias = None }
  | [ q; id; t; p; a ] -> { q_qos = qos_of q; q_pkid = n id; q_topic = n t; q_payload = n p; q_alias = optn a }
  | _ -> failwith "bad PUB"
let reason = function [] -> n "0" | [ r ] -> n r | _ -> failwith "bad reason"
let parse_request5 = function
  | "PUB" :: r -> R5Publish (parse_pub5 r)
  | [ "PUBACK"; x ] -> R5PubAck (n x)
  | [ "PUBREC"; x ] -> R5PubRec (n x)
  | [ "PUBCOMP"; x ] -> R5PubComp (n x)
  | [ "PUBREL"; x ] -> R5PubRel (n x)
  | [ "PINGREQ" ] -> R5PingReq
  | [ "PINGRESP" ] -> R5PingResp
  | [ "SUB"; k ] -> R5Subscribe (n k)
  | [ "SUBACK"; x ] -> R5SubAck (n x)
  | [ "UNSUB"; k ] -> R5Unsubscribe (n k)
  | [ "UNSUBACK"; x ] -> R5UnsubAck (n x)
  | [ "DISCONNECT" ] -> R5Disconnect
  | l -> failwith ("bad request: " ^ String.concat " " l)
let parse_packet5 = function
  | "PUB" :: r -> P5Publish (parse_pub5 r)
  | "PUBACK" :: x :: r -> P5PubAck (n x, reason r)
  | "PUBREC" :: x :: r -> P5PubRec (n x, reason r)
  | "PUBREL" :: x :: r -> P5PubRel (n x, reason r)
  | "PUBCOMP" :: x :: r -> P5PubComp (n x, reason r)
  | [ "SUBACK"; x ] -> P5SubAck (n x)
  | [ "UNSUBACK"; x ] -> P5UnsubAck (n x)
  | [ "SUB"; x; k ] -> P5Subscribe (n x, n k)
  | [ "UNSUB"; x; k ] -> P5Unsubscribe (n x, n k)
  | [ "PINGREQ" ] -> P5PingReq
  | [ "PINGRESP" ] -> P5PingResp
  | [ "CONNECT" ] -> P5Connect
  | [ "AUTH" ] -> P5Auth
  | [ "CONNACK"; sp; c; rm; tam ] -> P5ConnAck (sp = "1", n c, optn rm, optn tam)
  | "DISCONNECT" :: r -> P5Disconnect (reason r)
  | l -> failwith ("bad packet: " ^ String.concat " " l)

type st = Dead | V4 of state | V5 of state5

(* argument "unfixed": run the model of the code before the fix: commits (State4Orig.v) *)
let unfixed = Array.length Sys.argv > 1 && Sys.argv.(1) = "unfixed"

let tail_s s =
  let evs, s' = v4_drain s in
  let t =
    Printf.sprintf "EV[%s] INFL %d COLL %d"
      (String.concat " " (List.map event_s evs))
      (i (v4_inflight s'))
      (match v4_collision s' with Some _ -> 1 | None -> 0)
  in
  (t, s')

let run4 s o =
  match (if unfixed then v4_step_orig else v4_step) s o with
  | Ok (s', Wrote p) ->
      let t, s'' = tail_s s' in
      print_endline ("OK " ^ (match p with Some p -> packet_s p | None -> "-") ^ " " ^ t);
      V4 s''
  | Ok (s', Cleaned l) ->
      let t, s'' = tail_s s' in
      print_endline ("OK [" ^ String.concat " " (List.map request_s l) ^ "] " ^ t);
      V4 s''
  | Err (s', e) ->
      let t, s'' = tail_s s' in
      print_endline ("ERR " ^ error_s e ^ " " ^ t);
      V4 s''
  | Panic _ ->
      print_endline "PANIC";
      Dead

(* `driver known <K>`: evaluate the extracted known-finding predicate K (Coq: Client/Run4.v)
   on each history of the input (a history = NEW line + ops); prints K=1 / K=0 per history *)
let known name =
  let mx = ref (n_of_int 1) and manual = ref false and ops = ref [] and started = ref false in
  let emit () =
    if !started then begin
      let h = List.rev !ops in
      let k =
        match name with
        | "K29" -> v4_k29 !mx !manual h
        | "K30" -> v4_k30 h
        | "CONTRACT" -> v4_contract (v4_init !mx !manual) h
        | _ -> failwith ("unknown predicate " ^ name)
      in
      print_endline (if k then "K=1" else "K=0")
    end
  in
  iter_lines (fun line ->
      match split_ws line with
      | [] -> ()
      | [ "NEW"; "4"; m; ma ] -> emit (); started := true; ops := []; mx := n m; manual := (ma = "1")
      | "OUT" :: r -> ops := Out (parse_request r) :: !ops
      | "IN" :: r -> ops := Inc (parse_packet r) :: !ops
      | [ "CLEAN" ] -> ops := Clean :: !ops
      | _ -> failwith ("bad op: " ^ line));
  emit ()

let tail5_s s =
  let evs, s' = v5_drain s in
  let t =
    Printf.sprintf "EV[%s] INFL %d COLL %d"
      (String.concat " " (List.map event5_s evs))
      (i (v5_inflight s'))
      (match v5_collision s' with Some _ -> 1 | None -> 0)
  in
  (t, s')

let run5 s o =
  match (if unfixed then v5_step_orig else v5_step) s o with
  | Ok (s', Wrote5 p) ->
      let t, s'' = tail5_s s' in
      print_endline ("OK " ^ (match p with Some p -> packet5_s p | None -> "-") ^ " " ^ t);
      V5 s''
  | Ok (s', Cleaned5 l) ->
      let t, s'' = tail5_s s' in
      print_endline ("OK [" ^ String.concat " " (List.map request5_s l) ^ "] " ^ t);
      V5 s''
  | Err (s', e) ->
      let t, s'' = tail5_s s' in
      print_endline ("ERR " ^ error5_s e ^ " " ^ t);
      V5 s''
  | Panic _ ->
      print_endline "PANIC";
      Dead


(* ---------------------------------------------------------------- loop mode (M-LOOP, v4 and v5)
   `driver loop [unfixed]`: same op lines as harness/src/bin/clientloop.rs.  POLL picks the one
   thing poll() does next: connect, pop a queued notification, or the single ready select arm
   (AMBIG when both the network and the request arm are ready: tokio's select! is random).
   LNEW starts a history on the v4 loop model (Client/Loop.v), LNEW5 on the v5 one (Client/Loop5.v);
   the glue (virtual time, broker inbox, which arm is ready) is one functor over both. *)
let rec take k = function [] -> [] | x :: r -> if k = 0 then [] else x :: take (k - 1) r
let rec drop k = function [] -> [] | (_ :: r) as l -> if k = 0 then l else drop (k - 1) r

type 'l res = RStepped of 'l | RFailed of 'l * string | RDisabled | RPanic
type 'l conn = CEvent of 'l * string | CError of 'l * string | CDisabled | CPanic

let loop_unfixed = ref false

module type LM = sig
  type l
  type pk
  type rq
  val init : n -> bool -> l
  val user_send : l -> rq -> l
  val yield_ : l -> l res
  val take : l -> l res
  val cancel : l -> unit
  val net : l -> pk list -> l res
  val net_abort : l -> pk list -> l res
  (* poll() with no network: session_present and the other ACCEPT arguments *)
  val reconnect : l -> bool -> string list -> l conn
  val take_enabled : l -> bool
  val clean : l -> l option
  val readb_take : pk list -> pk list * pk list
  val has_events : l -> bool
  val has_pending : l -> bool
  val connected : l -> bool
  val wire : l -> string list
  val last_yielded : l -> string
  val pending_s : l -> string list
  val parse_packet : string list -> pk
  val parse_send : string -> string list -> rq
end

module L4 : LM = struct
  type l = lstate
  type pk = packet
  type rq = request
  let stp l o = (if !loop_unfixed then l_step_orig else l_step) l o
  let conv = function
    | Stepped l' -> RStepped l'
    | Failed (l', e) -> RFailed (l', error_s e)
    | Disabled -> RDisabled
    | LPanic _ -> RPanic
  let init = l_init
  let user_send l r = match stp l (UserSend r) with Stepped l' -> l' | _ -> l
  let yield_ l = conv (stp l Yield)
  let take l = conv (stp l TakeRequest)
  let cancel l = ignore (stp l TakeCancelled)
  let net l b = conv (stp l (Net b))
  let net_abort l b = conv (stp l (NetAbort b))
  let reconnect l sp _ =
    match stp l (Reconnect sp) with
    | Stepped l' -> CEvent (l', Printf.sprintf "I(CONNACK:%d:0)" (if sp then 1 else 0))
    | Failed (l', e) -> CError (l', error_s e)
    | Disabled -> CDisabled
    | LPanic _ -> CPanic
  let take_enabled l = (if !loop_unfixed then l_take_enabled_orig else l_take_enabled) l
  let clean l = match (if !loop_unfixed then l_clean_orig else l_clean) l with Ok l' -> Some l' | _ -> None
  let readb_take = l_readb_take
  let has_events l = v4_events (l_st l) <> []
  let has_pending l = l_pending l <> []
  let connected = l_connected
  let wire l = List.map packet_s (l_wire l)
  let last_yielded l = let ys = l_yielded l in event_s (List.nth ys (List.length ys - 1))
  let pending_s l = List.map request_s (l_pending l)
  let parse_packet = parse_packet
  let parse_send line = function
    | "PUB" :: q :: _ :: t :: p :: _ -> RPublish { p_qos = qos_of q; p_pkid = n "0"; p_topic = n t; p_payload = n p }
    | [ "SUB" ] -> RSubscribe (n "1")
    | [ "UNSUB" ] -> RUnsubscribe (n "1")
    | [ "DISCONNECT" ] -> RDisconnect
    | _ -> failwith ("bad SEND: " ^ line)
end

module L5 : LM = struct
  type l = lstate5
  type pk = packet5
  type rq = request5
  let stp l o = (if !loop_unfixed then l5_step_orig else l5_step) l o
  let lerr_s = function LE5State e -> error5_s e | LE5Aborted -> "ConnectionAborted"
  let conv = function
    | Stepped5 l' -> RStepped l'
    | Failed5 (l', e) -> RFailed (l', lerr_s e)
    | Disabled5 -> RDisabled
    | LPanic5 _ -> RPanic
  let init = l5_init
  let user_send l r = match stp l (UserSend5 r) with Stepped5 l' -> l' | _ -> l
  let yield_ l = conv (stp l Yield5)
  let take l = conv (stp l TakeRequest5)
  let cancel l = ignore (stp l TakeCancelled5)
  let net l b = conv (stp l (Net5 b))
  let net_abort l b = conv (stp l (NetAbort5 b))
  let last_yielded l = let ys = l5_yielded l in event5_s (List.nth ys (List.length ys - 1))
  (* the CONNACK goes through the state machine and its notification is queued; the same poll()
     then pops the OLDEST queued notification *)
  let reconnect l sp rest =
    let rm, tam = match rest with [] -> (None, None) | [ a ] -> (optn a, None) | a :: b :: _ -> (optn a, optn b) in
    match stp l (Reconnect5 (sp, rm, tam)) with
    | Stepped5 l1 -> (
        match stp l1 Yield5 with
        | Stepped5 l2 -> CEvent (l2, last_yielded l2)
        | _ -> CPanic)
    | Failed5 (l', e) -> CError (l', lerr_s e)
    | Disabled5 -> CDisabled
    | LPanic5 _ -> CPanic
  let take_enabled l = (if !loop_unfixed then l5_take_enabled_orig else l5_take_enabled) l
  let clean l = Some ((if !loop_unfixed then l5_clean_orig else l5_clean) l)
  let readb_take = l5_readb_take
  let has_events l = v5_events (l5_st l) <> []
  let has_pending l = l5_pending l <> []
  let connected = l5_connected
  let wire l = List.map packet5_s (l5_wire l)
  let pending_s l = List.map request5_s (l5_pending l)
  let parse_packet = parse_packet5
  let parse_send line = function
    | "PUB" :: q :: _ :: t :: p :: rest ->
        (* SEND PUB <qos> <id> <topic> <payload> [<topic alias|->] *)
        R5Publish { q_qos = qos_of q; q_pkid = n "0"; q_topic = n t; q_payload = n p; q_alias = (match rest with a :: _ -> optn a | [] -> None) }
    | [ "SUB" ] -> R5Subscribe (n "1")
    | [ "UNSUB" ] -> R5Unsubscribe (n "1")
    | [ "DISCONNECT" ] -> R5Disconnect
    | _ -> failwith ("bad SEND: " ^ line)
end

module Glue (M : LM) = struct
  let l = ref (M.init (n "1") false)
  let inbox = ref [] and dropped = ref false and next_acc = ref None and reported = ref 0
  (* virtual time (ms), pending_throttle, broker writes scheduled with NETAT: (time, packets) *)
  let now = ref 0 and throttle = ref 0 and sched = ref []

  let wire_delta () =
    let w = M.wire !l in
    let d = drop !reported w in
    reported := List.length w;
    String.concat " " d

  (* the arm has run: poll() returns the first queued notification *)
  let yield_one head =
    match M.yield_ !l with
    | RStepped l' ->
        l := l';
        Printf.printf "EVENT %s WIRE[%s]\n%!" (M.last_yielded l') (wire_delta ())
    | _ -> Printf.printf "%s WIRE[%s]\n%!" head (wire_delta ())

  let arm r =
    match r with
    | RStepped l' -> l := l'; yield_one "NOEVENT"
    | RFailed (l', e) -> l := l'; reported := 0; Printf.printf "ERROR %s WIRE[]\n%!" e
    | RDisabled -> print_endline "DISABLED"
    | RPanic -> print_endline "PANIC"

  let packets_of rest =
    List.concat_map (fun part -> match split_ws part with [] -> [] | toks -> [ M.parse_packet toks ]) (String.split_on_char ';' rest)

  let handle line toks =
    match toks with
    | [] -> ()
    | _ :: max :: manual :: rest when (match toks with ("LNEW" | "LNEW5") :: _ -> true | _ -> false) ->
        l := M.init (n max) (manual = "1");
        inbox := []; dropped := false; next_acc := None; reported := 0;
        now := 0; sched := []; throttle := (match rest with [ x ] -> int_of_string x | _ -> 0);
        print_endline "NEW"
    | "SEND" :: r -> l := M.user_send !l (M.parse_send line r); print_endline "OK"
    | "ACCEPT" :: sp :: rest -> next_acc := Some (sp = "1", rest); inbox := []; dropped := false; sched := []; print_endline "OK"
    | "NETAT" :: delay :: _ ->
        if M.connected !l && not !dropped then begin
          let rest = String.concat " " (List.tl (List.tl toks)) in
          sched := List.stable_sort (fun (a, _) (b, _) -> compare a b) (!sched @ [ (!now + int_of_string delay, packets_of rest) ])
        end;
        print_endline "OK"
    | "NET" :: _ ->
        if M.connected !l && not !dropped then inbox := !inbox @ packets_of (String.sub line 3 (String.length line - 3));
        print_endline "OK"
    | [ "DROP" ] -> dropped := true; print_endline "OK"
    | "POLL" :: _ | "POLLT" :: _ ->
        let ms = (match toks with [ "POLLT"; x ] -> int_of_string x | _ -> 1) in
        let limit = !now + ms in
        if not (M.connected !l) then begin
          match !next_acc with
          | Some (sp, rest) -> (
              next_acc := None;
              match M.reconnect !l sp rest with
              | CEvent (l', e) -> l := l'; reported := 0; Printf.printf "EVENT %s WIRE[CONNECT]\n%!" e
              | CError (l', e) -> l := l'; reported := 0; Printf.printf "ERROR %s WIRE[CONNECT]\n%!" e
              | CDisabled -> print_endline "DISABLED"
              | CPanic -> print_endline "PANIC")
          | None -> print_endline "NOCONN"
        end
        else if M.has_events !l then yield_one "NOEVENT"
        else begin
          let run_net () =
            let batch, rest = M.readb_take !inbox in
            inbox := rest;
            if List.length batch < 9 && !dropped then arm (M.net_abort !l batch)
            else if !dropped then begin
              (* a full batch, then the flush of its replies hits the closed transport *)
              match M.net !l batch with
              | RStepped l' when List.length (M.wire l') > List.length (M.wire !l) ->
                  (match M.net_abort !l batch with
                   | RFailed (l'', _) -> l := l''; reported := 0; Printf.printf "ERROR Deserialization WIRE[]\n%!"
                   | _ -> print_endline "PANIC")
              | r -> arm r
            end
            else arm (M.net !l batch)
          in
          (* deliver the broker writes that are due now *)
          let deliver_due () =
            let due, later = List.partition (fun (t, _) -> t <= !now) !sched in
            sched := later;
            List.iter (fun (_, pk) -> inbox := !inbox @ pk) due
          in
          deliver_due ();
          let net_ready = !inbox <> [] || !dropped in
          let take_ready = M.take_enabled !l in
          (* a retransmission from pending waits pending_throttle first (the sleep restarts with every poll) *)
          let take_wait = if take_ready && M.has_pending !l then !throttle else 0 in
          if net_ready && take_ready && take_wait = 0 then print_endline "AMBIG"
          else if net_ready then begin
            if take_ready then M.cancel !l;
            run_net ()
          end
          else if take_ready && take_wait = 0 then arm (M.take !l)
          else begin
            let ts = match !sched with (t, _) :: _ -> t | [] -> max_int in
            let tk = if take_ready then !now + take_wait else max_int in
            if ts >= limit && tk >= limit then begin
              (* nothing completes within the bound: the poll is dropped; a throttle wait in progress is cancelled *)
              if (ts = limit && ts <> max_int) || (tk = limit && tk <> max_int) then print_endline "AMBIG"
              else begin
                if take_ready then M.cancel !l;
                now := limit;
                Printf.printf "IDLE WIRE[%s]\n%!" (wire_delta ())
              end
            end
            else if ts = tk then print_endline "AMBIG"
            else if ts < tk then begin
              (* a broker packet arrives during the throttle wait: select() drops the request arm *)
              now := ts; deliver_due ();
              if take_ready then M.cancel !l;
              run_net ()
            end
            else begin now := tk; arm (M.take !l) end
          end
        end
    | [ "FINISH" ] -> (
        match M.clean !l with
        | Some l' -> Printf.printf "HELD [%s]\n%!" (String.concat " " (M.pending_s l'))
        | None -> print_endline "PANIC")
    | _ -> failwith ("bad loop op: " ^ line)
end

module G4 = Glue (L4)
module G5 = Glue (L5)

let loop_main unfixed =
  loop_unfixed := unfixed;
  let cur = ref 4 in
  iter_lines (fun line ->
      let toks = split_ws line in
      (match toks with "LNEW" :: _ -> cur := 4 | "LNEW5" :: _ -> cur := 5 | _ -> ());
      if !cur = 4 then G4.handle line toks else G5.handle line toks)

(* ---------------------------------------------------------------- keep-alive mode (M-KEEPALIVE)
   `driver ka [unfixed]`: the scenario lines of harness/src/bin/clientloop.rs (KA / KACONN).  The
   scripted broker (reply delays, silence, traffic) is replayed here as the event list the Coq
   model consumes: Tick at each timer deadline (prompt polling), PingResp at each reply, Other for
   the traffic.  At equal instants the timer goes first (what the real loop does when the reply is
   produced in that same instant; a reply already waiting races with it: see comp_client). *)
let ka_main unfixed =
  iter_lines (fun line ->
      match split_ws line with
      | [] -> ()
      | "KA" :: ver :: ka_ms :: delays :: silent :: traffic :: period :: horizon :: rest ->
          let v5 = String.length ver > 0 && ver.[0] = '5' in
          let ka = match rest with [ ska ] when v5 -> int_of_string ska * 1000 | _ -> int_of_string ka_ms in
          let stp = if v5 && unfixed then k_step_v5_orig else k_step in
          let delays = Array.of_list (List.map int_of_string (String.split_on_char ',' delays)) in
          let silent = int_of_string silent and period = int_of_string period and horizon = int_of_string horizon in
          let kan = n_of_int ka in
          let s = ref (fst (stp kan k_init (Connect (n_of_int 0)))) in
          (* traffic full1 / full2: the inflight window is full for the whole run (nothing the keep-alive
             logic reads); coll: a publish is parked on a packet id collision right after the connection *)
          if traffic = "coll" then s := fst (stp kan !s (Parked (n_of_int 0)));
          let pings = ref [] and resps = ref [] and due = ref [] and k = ref 0 in
          let next_tr = ref (if traffic = "up" || traffic = "down" then period else max_int) in
          let fin = ref None in
          while !fin = None do
            let d = match k_deadline !s with Some d -> int_of_n d | None -> max_int in
            let r = match !due with x :: _ -> x | [] -> max_int in
            let t = min d (min r !next_tr) in
            if t > horizon then fin := Some (Printf.sprintf "HORIZON@%d" horizon)
            else if t = d then begin
              let s', outs = stp kan !s (Tick (n_of_int t)) in
              s := s';
              List.iter (function
                | PingReqAt x ->
                    pings := int_of_n x :: !pings; incr k;
                    if silent = 0 || !k < silent then due := !due @ [ int_of_n x + delays.((!k - 1) mod Array.length delays) ]
                | ErrAwait x -> fin := Some (Printf.sprintf "ERROR AwaitPingResp@%d" (int_of_n x))
                | ErrCollision x -> fin := Some (Printf.sprintf "ERROR CollisionTimeout@%d" (int_of_n x))) outs
            end
            else if t = r then begin
              due := List.tl !due; resps := t :: !resps;
              s := fst (stp kan !s (PingResp (n_of_int t)))
            end
            else begin
              next_tr := !next_tr + period;
              s := fst (stp kan !s (Other (n_of_int t)))
            end
          done;
          let f l = String.concat " " (List.rev_map string_of_int l) in
          Printf.printf "KA C@0 PINGS[%s] RESPS[%s] END %s\n" (f !pings) (f !resps) (match !fin with Some x -> x | None -> "?")
      | [ "KAR"; ver; ka_ms; first; horizon ] ->
          let v5 = ver.[0] = '5' in
          let stp = if v5 && unfixed then k_step_v5_orig else k_step in
          let ka = int_of_string ka_ms and horizon = int_of_string horizon in
          let kan = n_of_int ka in
          let drop_at = if String.length first > 5 && String.sub first 0 5 = "drop@" then Some (int_of_string (String.sub first 5 (String.length first - 5))) else None in
          let s = ref (fst (stp kan k_init (Connect (n_of_int 0)))) in
          let pings1 = ref [] and err1 = ref None in
          (* connection 1: the broker never answers *)
          while !err1 = None do
            let d = match k_deadline !s with Some d -> int_of_n d | None -> max_int in
            (match drop_at with
             | Some x when x < d -> s := fst (stp kan !s (ConnFail (n_of_int x))); err1 := Some ("ConnectionAborted", x)
             | _ ->
                 let s', outs = stp kan !s (Tick (n_of_int d)) in
                 s := s';
                 List.iter (function
                   | PingReqAt x -> pings1 := int_of_n x :: !pings1
                   | ErrAwait x -> err1 := Some ("AwaitPingResp", int_of_n x)
                   | ErrCollision x -> err1 := Some ("CollisionTimeout", int_of_n x)) outs)
          done;
          let ek, et = match !err1 with Some x -> x | None -> ("?", 0) in
          (* connection 2, at once: every PINGREQ answered after ka/8 *)
          s := fst (stp kan !s (Connect (n_of_int et)));
          let pings2 = ref [] and due = ref [] and fin = ref None in
          while !fin = None do
            let d = match k_deadline !s with Some d -> int_of_n d | None -> max_int in
            let r = match !due with x :: _ -> x | [] -> max_int in
            let t = min d r in
            if t > horizon then fin := Some (Printf.sprintf "HORIZON@%d" horizon)
            else if t = d then begin
              let s', outs = stp kan !s (Tick (n_of_int t)) in
              s := s';
              List.iter (function
                | PingReqAt x -> pings2 := int_of_n x :: !pings2; due := !due @ [ int_of_n x + ka / 8 ]
                | ErrAwait x -> fin := Some (Printf.sprintf "ERROR AwaitPingResp@%d" (int_of_n x))
                | ErrCollision x -> fin := Some (Printf.sprintf "ERROR CollisionTimeout@%d" (int_of_n x))) outs
            end
            else begin due := List.tl !due; s := fst (stp kan !s (PingResp (n_of_int t))) end
          done;
          let f l = String.concat " " (List.rev_map string_of_int l) in
          Printf.printf "KAR PINGS1[%s] ERR1 %s@%d C2@%d PINGS2[%s] END %s\n" (f !pings1) ek et et (f !pings2) (match !fin with Some x -> x | None -> "?")
      | [ "KACONN"; _; tm; h ] ->
          let h = if h = "never" then None else Some (n h) in
          (match k_poll_connect (n_of_int (int_of_string tm * 1000)) h with
           | Connected x -> Printf.printf "KACONN CONNECTED@%d\n" (int_of_n x)
           | NetworkTimeout x -> Printf.printf "KACONN ERROR NetworkTimeout@%d\n" (int_of_n x))
      | _ -> failwith ("bad ka op: " ^ line))

let main () =
  let st = ref Dead in
  iter_lines (fun line ->
      match split_ws line with
      | [] -> ()
      | [ "NEW"; "4"; max; manual ] ->
          st := V4 (v4_init (n max) (manual = "1"));
          print_endline "NEW"
      | [ "NEW"; "5"; max; manual ] ->
          st := V5 (v5_init (n max) (manual = "1"));
          print_endline "NEW"
      | "NEW" :: _ -> failwith ("bad NEW: " ^ line)
      | toks -> (
          match !st with
          | Dead -> print_endline "DEAD"
          | V4 s -> (
              match toks with
              | "OUT" :: r -> st := run4 s (Out (parse_request r))
              | "IN" :: r -> st := run4 s (Inc (parse_packet r))
              | [ "CLEAN" ] -> st := run4 s Clean
              | _ -> failwith ("bad op: " ^ line))
          | V5 s -> (
              match toks with
              | "OUT" :: r -> st := run5 s (Out5 (parse_request5 r))
              | "IN" :: r -> st := run5 s (Inc5 (parse_packet5 r))
              | [ "CLEAN" ] -> st := run5 s Clean5
              | _ -> failwith ("bad op: " ^ line))))

let () =
  if Array.length Sys.argv > 2 && Sys.argv.(1) = "known" then known Sys.argv.(2)
  else if Array.length Sys.argv > 1 && Sys.argv.(1) = "ka" then ka_main (Array.length Sys.argv > 2 && Sys.argv.(2) = "unfixed")
  else if Array.length Sys.argv > 1 && Sys.argv.(1) = "loop" then loop_main (Array.length Sys.argv > 2 && Sys.argv.(2) = "unfixed")
  else main ()
