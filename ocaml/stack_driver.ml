(* Model side of M-STACK: evaluates the extracted [admission] / [classify] / [epilogue] /
   [to_packet] / [has_arm] / [write_view] on op lines, one answer per line.
     ADMIT <static> <cb> <first-read>
        static : -  |  S:<uhex>:<phex>,<uhex>:<phex>...  |  S:          (empty table)
        cb     : -  |  A  |  R  |  E:<cidhex or *>:<uhex>:<phex>
        first  : T | X | P,<kind>,<lvl 0|1>,<keepalive>,<cidhex>,<clean 0|1>,<N|L>,<uhex>,<phex>
                 [,<session expiry|->,<receive max|->,<max packet size|->,<topic alias max|->]
     EPI <ok|link|nio:<k>|nproto|nka|io:<k>|other> <timeout|fire|cancel|closed>
     IDS <connect client id hex> <generated id hex>  -> assigned id, id registered with the router,
                                                        id carried by Event::PublishWill
     ARM <v4|v5> <kind> <0|1>        -> current table, table before the F2 repair
     NOTIF <fwd0|fwd1|ack:<kind>|unsched|disc|shadow>  -> packet kind, props, both writers *)
open Model
open Common

let kind_of = function
  | "connect" -> KConnect | "connack" -> KConnAck | "publish" -> KPublish | "puback" -> KPubAck
  | "pubrec" -> KPubRec | "pubrel" -> KPubRel | "pubcomp" -> KPubComp | "subscribe" -> KSubscribe
  | "suback" -> KSubAck | "unsubscribe" -> KUnsubscribe | "unsuback" -> KUnsubAck
  | "pingreq" -> KPingReq | "pingresp" -> KPingResp | "disconnect" -> KDisconnect
  | s -> failwith ("bad kind " ^ s)

let kind_name = function
  | KConnect -> "connect" | KConnAck -> "connack" | KPublish -> "publish" | KPubAck -> "puback"
  | KPubRec -> "pubrec" | KPubRel -> "pubrel" | KPubComp -> "pubcomp" | KSubscribe -> "subscribe"
  | KSubAck -> "suback" | KUnsubscribe -> "unsubscribe" | KUnsubAck -> "unsuback"
  | KPingReq -> "pingreq" | KPingResp -> "pingresp" | KDisconnect -> "disconnect"

let bool_of s = s = "1"
let b x = if x then "1" else "0"

let parse_static s =
  if s = "-" then None
  else begin
    let body = String.sub s 2 (String.length s - 2) in
    if body = "" then Some []
    else
      Some
        (List.map
           (fun pr ->
             match String.split_on_char ':' pr with
             | [ u; p ] -> (unhex u, unhex p)
             | _ -> failwith "bad static pair")
           (String.split_on_char ',' body))
  end

let parse_cb s : bool * (str -> str -> str -> bool) =
  match String.split_on_char ':' s with
  | [ "-" ] -> (false, fun _ _ _ -> false)
  | [ "A" ] -> (true, fun _ _ _ -> true)
  | [ "R" ] -> (true, fun _ _ _ -> false)
  | [ "E"; cid; u; p ] ->
      let u = unhex u and p = unhex p in
      ( true,
        fun c user pass ->
          (cid = "*" || str_eqb (unhex cid) c) && str_eqb u user && str_eqb p pass )
  | _ -> failwith "bad cb"

let parse_first s =
  match String.split_on_char ',' s with
  | [ "T" ] -> Timeout
  | [ "X" ] -> ReadError
  | "P" :: k :: lvl :: ka :: cid :: clean :: l :: u :: p :: props ->
      let o x = if x = "-" then None else Some (n_of_int (int_of_string x)) in
      FirstPacket
        { fp_kind = kind_of k; fp_level_ok = bool_of lvl; fp_keep_alive = n_of_int (int_of_string ka);
          fp_client_id = unhex cid; fp_clean = bool_of clean;
          fp_login = (if l = "L" then Some { lg_user = unhex u; lg_pass = unhex p } else None);
          fp_props =
            (match props with
            | [ se; rm; mp; ta ] when not (se = "-" && rm = "-" && mp = "-" && ta = "-") ->
                Some { cp_session_expiry = o se; cp_receive_max = o rm; cp_max_packet = o mp; cp_topic_alias_max = o ta }
            | _ -> None) }
  | _ -> failwith ("bad first read " ^ s)

let io_of = function
  | "aborted" -> ConnectionAborted | "reset" -> ConnectionReset | "invalid" -> InvalidData
  | "pipe" -> BrokenPipe | _ -> OtherIo

let parse_start s =
  match String.split_on_char ':' s with
  | [ "ok" ] -> None
  | [ "link" ] -> Some ELink
  | [ "nio"; k ] -> Some (ENetworkIo (io_of k))
  | [ "nproto" ] -> Some ENetworkProtocol
  | [ "nka" ] -> Some ENetworkKeepAlive
  | [ "io"; k ] -> Some (EIo (io_of k))
  | [ "other" ] -> Some EOtherError
  | _ -> failwith "bad start result"

let parse_wait = function
  | "timeout" -> WaitTimeout | "fire" -> WaitMsg Fire | "cancel" -> WaitMsg Cancel
  | "closed" -> WaitClosed | _ -> failwith "bad wait"

let end_name = function
  | RouterDrop -> "RouterDrop" | PeerClosed -> "PeerClosed" | OtherError -> "OtherError" | Stopped -> "Stopped"

let a_publish = { p_dup = false; p_qos = N0; p_retain = false; p_topic = unhex "74"; p_pkid = N0; p_payload = [] }
let some_props = { pp_alias = None; pp_subids = []; pp_tag = n_of_int 1 }

let parse_notif s =
  match String.split_on_char ':' s with
  | [ "fwd0" ] -> NForward (None, a_publish, None)
  | [ "fwd1" ] -> NForward (None, a_publish, Some some_props)
  | [ "unsched" ] -> NUnschedule
  | [ "disc" ] -> NDisconnect (n_of_int 130)
  | [ "shadow" ] -> NShadow (unhex "74", [])
  | [ "ack"; k ] ->
      let one = n_of_int 1 in
      NAck
        (match k with
        | "connack" -> AConnAck (N0, false)
        | "puback" -> APubAck one
        | "suback" -> ASubAck (one, [ N0 ])
        | "pubrec" -> APubRec one
        | "pubrel" -> APubRel one
        | "pubcomp" -> APubComp one
        | "unsuback" -> AUnsubAck (one, [ N0 ])
        | "pingresp" -> APingResp
        | _ -> failwith "bad ack")
  | _ -> failwith "bad notification"

let view = function Ok _ -> "Ok" | Err _ -> "Err" | Panic _ -> "PANIC"

let () =
  iter_lines (fun line ->
      match split_ws line with
      | [ "ADMIT"; st; cb; fr ] ->
          let ext, f = parse_cb cb in
          let s = { st_auth = parse_static st; st_external = ext } in
          print_endline
            (match admission s f (parse_first fr) with
            | Admit -> "ADMIT"
            | Reject_no_connack -> "SILENT"
            | Reject_connack -> "CONNACK ClientIdentifierNotValid")  (* the one-constructor code type is erased by extraction *)
      | [ "EPI"; r; w ] ->
          let e = classify (parse_start r) in
          let d, p = epilogue e (parse_wait w) in
          Printf.printf "class=%s d=%s w=%s\n" (end_name e) (b d) (b p)
      | [ "IDS"; cid; gen ] ->
          let cid = unhex cid in
          let ids = remote_ids cid (unhex gen) in
          Printf.printf "assigned=%s reg=%s will=%s\n"
            (match ids.id_assigned with Some a -> hex a | None -> "none")
            (hex (registered_id cid ids)) (hex (will_event_id ids))
      | [ "ARM"; pr; k; props ] ->
          let pr = if pr = "v4" then V4 else V5 in
          Printf.printf "arm=%s unfixed=%s\n" (b (has_arm pr (kind_of k) (bool_of props)))
            (b (has_arm_unfixed pr (kind_of k) (bool_of props)))
      | [ "NOTIF"; nt ] -> (
          match to_packet (parse_notif nt) with
          | None -> print_endline "none"
          | Some pk ->
              Printf.printf "%s props=%s v4=%s v5=%s v4unfixed=%s\n" (kind_name (okind pk)) (b (ohas_props pk))
                (view (write_view V4 pk)) (view (write_view V5 pk)) (view (write_view_unfixed V4 pk)))
      | [] -> ()
      | _ -> failwith ("bad op: " ^ line))
