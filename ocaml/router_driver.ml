(* Model side of the M-ROUTER correspondence: same op lines as harness/src/bin/router.rs.
   "ORACLE ..." lines preceding an op are the recorded nondeterministic choices for it. *)
open Model
open Common

let n = n_of_int
let i = int_of_n
let b s = s = "1"
let ios = int_of_string

let parse_props s : pprops option =
  if s = "-" then None
  else
    match String.split_on_char ':' s with
    | [ a; su; t ] ->
        let a = String.sub a 1 (String.length a - 1) in
        let su = String.sub su 1 (String.length su - 1) in
        let t = String.sub t 1 (String.length t - 1) in
        Some
          { pp_alias = (if a = "x" then None else Some (n (ios a)));
            pp_subids = (if su = "x" then [] else List.map (fun x -> n (ios x)) (String.split_on_char ',' su));
            pp_tag = n (ios t) }
    | _ -> failwith "props"

let show_props (p : pprops option) =
  match p with
  | None -> "-"
  | Some p ->
      Printf.sprintf "A%s:S%s:T%d"
        (match p.pp_alias with None -> "x" | Some a -> string_of_int (i a))
        (match p.pp_subids with [] -> "x" | l -> String.concat "," (List.map (fun x -> string_of_int (i x)) l))
        (i p.pp_tag)

let nonempty l = List.filter (fun x -> x <> "") l

let parse_packet (t : string list) : packet =
  match t with
  | [ "PUB"; topic; payload; qos; pkid; retain; dup; props ] ->
      PPublish
        ( { p_dup = b dup; p_qos = n (ios qos); p_retain = b retain; p_topic = unhex topic;
            p_pkid = n (ios pkid); p_payload = unhex payload },
          parse_props props )
  | [ "SUB"; pkid; subid; fs ] ->
      let fs =
        List.map
          (fun f ->
            match String.split_on_char ':' f with
            | [ p; q ] -> (unhex p, n (ios q))
            | _ -> failwith "filter")
          (nonempty (String.split_on_char ',' fs))
      in
      PSubscribe (n (ios pkid), fs, if subid = "-" then None else Some (n (ios subid)))
  | [ "UNSUB"; pkid; fs ] -> PUnsubscribe (n (ios pkid), List.map unhex (nonempty (String.split_on_char ',' fs)))
  | [ "PUBACK"; k ] -> PPubAck (n (ios k))
  | [ "PUBREC"; k ] -> PPubRec (n (ios k))
  | [ "PUBREL"; k; h ] -> PPubRel (n (ios k), b h)
  | [ "PUBCOMP"; k ] -> PPubComp (n (ios k))
  | [ "PING" ] -> PPingReq
  | [ "DISC" ] -> PDisconnect
  | [ "OTHER" ] -> POther
  | _ -> failwith "packet"

let show_notification (x : notification) : string =
  match x with
  | NForward (c, p, pr) ->
      Printf.sprintf "FWD %s %s %s %d %d %d %d %s"
        (match c with None -> "-" | Some (s, o) -> Printf.sprintf "%d.%d" (i s) (i o))
        (hex p.p_topic) (hex p.p_payload) (i p.p_qos) (i p.p_pkid)
        (if p.p_retain then 1 else 0)
        (if p.p_dup then 1 else 0)
        (show_props pr)
  | NAck a -> (
      match a with
      | AConnAck (id, sp) -> Printf.sprintf "ACK CONNACK %d %d" (i id) (if sp then 1 else 0)
      | APubAck k -> Printf.sprintf "ACK PUBACK %d" (i k)
      | ASubAck (k, cs) ->
          Printf.sprintf "ACK SUBACK %d %s" (i k)
            (match cs with [] -> "-" | _ -> String.concat "," (List.map (fun c -> string_of_int (i c)) cs))
      | APubRec k -> Printf.sprintf "ACK PUBREC %d" (i k)
      | APubRel k -> Printf.sprintf "ACK PUBREL %d" (i k)
      | APubComp k -> Printf.sprintf "ACK PUBCOMP %d" (i k)
      | AUnsubAck (k, rs) ->
          Printf.sprintf "ACK UNSUBACK %d %s" (i k)
            (match rs with [] -> "-" | _ -> String.concat "," (List.map (fun c -> string_of_int (i c)) rs))
      | APingResp -> "ACK PINGRESP")
  | NUnschedule -> "UNSCHEDULE"
  | NDisconnect r -> Printf.sprintf "DISCONNECT %d" (i r)
  | NShadow (t, p) -> Printf.sprintf "SHADOW %s %s" (hex t) (hex p)

let strategy_of = function "rr" -> RoundRobin | "random" -> Random | _ -> Sticky

let () =
  let st : rstate option ref = ref None in
  let dead = ref false in
  let orc : oracle list ref = ref [] in
  iter_lines (fun line ->
      match split_ws line with
      | [] -> ()
      | "ORACLE" :: "matches" :: [ v ] ->
          orc := !orc @ [ OMatches (List.map (fun x -> n (ios x)) (String.split_on_char ',' v)) ]
      | "ORACLE" :: "retained" :: [ v ] -> orc := !orc @ [ ORetained (List.map unhex (String.split_on_char ',' v)) ]
      | "ORACLE" :: "random" :: [ v ] -> orc := !orc @ [ ORandom (n (ios v)) ]
      | "NEW" :: mc :: mo :: ss :: sc :: strat :: dbg :: init_filters ->
          orc := [];
          let cfg =
            { cf_max_connections = n (ios mc); cf_max_outgoing = n (ios mo); cf_seg_size = n (ios ss);
              cf_seg_count = n (ios sc); cf_init_filters = List.map unhex init_filters;
              cf_strategy = strategy_of strat; cf_debug_assertions = b dbg }
          in
          (match init cfg with
          | Ok s ->
              st := Some s;
              dead := false;
              print_endline "OK"
          | _ ->
              st := None;
              dead := true;
              print_endline "PANIC")
      | "SNAP" :: _ -> print_endline "SNAP"
      | "SEED" :: _ -> print_endline "OK"
      | t -> (
          let o = !orc in
          orc := [];
          if !dead then print_endline "DEAD"
          else
            match !st with
            | None -> print_endline "DEAD"
            | Some s -> (
                let t =
                  match t with
                  | ("XDATA" | "XREADY" | "XDISCONNECT" | "XSHADOW") :: r ->
                      String.sub (List.hd t) 1 (String.length (List.hd t) - 1) :: r
                  | _ -> t
                in
                let op =
                  match t with
                  | [ "CONNECT"; client; clean; dyn; amax; will ] ->
                      let w =
                        if will = "-" then None
                        else
                          match String.split_on_char ',' will with
                          | [ tp; msg; q; r; tg ] ->
                              Some
                                { w_topic = unhex tp; w_message = unhex msg; w_qos = n (ios q); w_retain = b r;
                                  w_props = (if tg = "x" then None else Some (n (ios (List.hd (String.split_on_char 'd' tg))))) }
                          | _ -> failwith "will"
                      in
                      OpConnect
                        { cr_client = unhex client; cr_clean = b clean; cr_dynamic = b dyn;
                          cr_alias_max = n (ios amax); cr_will = w }
                  | "PUSH" :: k :: pk -> OpPush (n (ios k), parse_packet pk)
                  | [ "DATA"; id ] -> OpData (n (ios id))
                  | [ "CONSUME" ] -> OpConsume
                  | [ "DRAIN"; k ] -> OpDrain (n (ios k))
                  | [ "READY"; id ] -> OpReady (n (ios id))
                  | [ "DISCONNECT"; id ] -> OpDisconnect (n (ios id))
                  | [ "SHADOW"; id; f ] -> OpShadow (n (ios id), unhex f)
                  | [ "WILL"; c ] -> OpWill (unhex c)
                  | [ "METERS" ] -> OpMeters
                  | _ -> failwith ("bad op: " ^ line)
                in
                match step_with s o op with
                | Ok (s', out) -> (
                    st := Some s';
                    match out with
                    | OutUnit -> print_endline "OK"
                    | OutConsume true -> print_endline "SOME"
                    | OutConsume false -> Printf.printf "NONE %d\n" (List.length s'.r_ready)
                    | OutNoLink -> print_endline "NOLINK"
                    | OutDrain ns -> print_endline ("[" ^ String.concat " | " (List.map show_notification ns) ^ "]"))
                | Err _ ->
                    dead := true;
                    print_endline "BADORACLE"
                | Panic tag ->
                    dead := true;
                    if Sys.getenv_opt "VERIF_PANIC_TAG" <> None then prerr_endline ("PANIC " ^ string_of_int (i tag) ^ " at: " ^ line);
                    print_endline "PANIC")))
