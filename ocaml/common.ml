(* Glue shared by all model drivers: conversion between OCaml ints / hex text and the
   extracted inductive N / positive / nat (no Extract Constant: numbers stay inductive). *)
open Model

let rec pos_of_int (i : int) : positive =
  if i = 1 then XH
  else if i land 1 = 0 then XO (pos_of_int (i lsr 1))
  else XI (pos_of_int (i lsr 1))

let n_of_int (i : int) : n = if i = 0 then N0 else Npos (pos_of_int i)

let rec int_of_pos (p : positive) : int =
  match p with XH -> 1 | XO q -> 2 * int_of_pos q | XI q -> 2 * int_of_pos q + 1

let int_of_n (x : n) : int = match x with N0 -> 0 | Npos p -> int_of_pos p

let rec nat_of_int (i : int) : nat = if i <= 0 then O else S (nat_of_int (i - 1))
let rec int_of_nat (x : nat) : int = match x with O -> 0 | S y -> 1 + int_of_nat y

let unhex (s : string) : n list =
  if s = "-" then []
  else begin
    let l = String.length s / 2 in
    let rec go i acc =
      if i < 0 then acc
      else go (i - 1) (n_of_int (int_of_string ("0x" ^ String.sub s (2 * i) 2)) :: acc)
    in
    go (l - 1) []
  end

let hex (l : n list) : string =
  if l = [] then "-"
  else String.concat "" (List.map (fun x -> Printf.sprintf "%02x" (int_of_n x)) l)

let split_ws (s : string) : string list =
  List.filter (fun x -> x <> "") (String.split_on_char ' ' (String.trim s))

let iter_lines (f : string -> unit) : unit =
  (try
     while true do
       f (input_line stdin)
     done
   with End_of_file -> ());
  flush stdout
