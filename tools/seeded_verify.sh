#!/bin/bash
# usage: seeded_verify.sh <worktree> : confirms a seeded change (patch in <wt>/seeded_out/patch.diff + demo)
# 1. patch applies to the clean tree  2. existing suite passes with it  3. demo fails with it, passes without
set -u
WT=$1
cd "$WT" || exit 2
export CARGO_TARGET_DIR=$WT/target CARGO_NET_OFFLINE=true
DEMO=$(cat seeded_out/demo_cmd.txt | grep -v '^#' | grep cargo | head -1)
echo "demo cmd: $DEMO"
git checkout -q -- rumqttd/src rumqttc/src
git apply --check seeded_out/patch.diff && echo "APPLIES: yes" || { echo "APPLIES: no"; exit 1; }
echo "--- demo WITHOUT the change"
eval "$DEMO" 2>&1 | grep -E "^test result|panicked|FAILED|error(\[|:)" | head -5
git apply seeded_out/patch.diff
echo "--- demo WITH the change"
eval "$DEMO" 2>&1 | grep -E "^test result|FAILED|error(\[|:)" | head -5
echo "--- existing suite WITH the change (demo file moved away)"
mkdir -p /tmp/demo_away && for f in rumqttd/tests/seeded_demo.rs rumqttc/tests/seeded_demo.rs; do [ -f $f ] && mv $f /tmp/demo_away/$(echo $f | tr / _); done
cargo test -p rumqttd -p rumqttc --offline 2>&1 | grep -E "^test result|FAILED|error(\[|:)" | grep -v " 0 passed" | head
for f in rumqttd/tests/seeded_demo.rs rumqttc/tests/seeded_demo.rs; do g=/tmp/demo_away/$(echo $f | tr / _); [ -f $g ] && mv $g $f; done
git diff --stat -- rumqttd/src rumqttc/src | tail -3
