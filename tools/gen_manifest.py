"""Regenerates /verif/MANIFEST.json from the table below (kept in one place so that the
claimed checks, the not_applicable list and the Props files stay in sync)."""
import json, os

ROOT = os.path.dirname(os.path.dirname(os.path.abspath(__file__)))

TECH = "Coq proof over an executable Gallina model + differential correspondence (extracted OCaml model vs the Rust code on the same op files) + property monitor on the implementation's traces"

ROUTER_NOTE = ("Trusted: Coq kernel, extraction (ExtrOcamlBasic only), the router driver (harness/src/bin/router.rs, field-by-field canonical text), "
               "tools/router_gen.py + router_mon.py. The theorems are about Router.Model (hand-written, line-for-line after routing.rs/scheduler.rs/logs.rs/iobufs.rs/"
               "waiters.rs/shared_subs.rs/graveyard.rs/connection.rs); the model is tied to the code by replaying every generated history (recorded HashMap-order/"
               "thread_rng choices given to the model as an oracle it checks for admissibility) and comparing every answer. Router thread / link task interleavings "
               "are represented by the order of ops; flume FIFO per sender assumed. Not modelled: meters, alerts, message expiry, custom_segment, tenant features.")

CLAIMS = {
    "C12": dict(
        text="Coq theorems (Props/C12.v) prove, for ALL byte strings, that the model of matches/valid_filter/valid_topic/has_wildcards is total (no panic) and equals the MQTT rules stated independently on level lists ('+' one level, trailing '#' parent and descendants, literal case-sensitive, '$' topics matched by nothing, wildcards only as whole levels with '#' last). The three Rust copies are tied to the model by running all of them and the extracted model on every (topic,filter) pair up to a length bound over an 8-symbol alphabet (incl. 2- and 4-byte UTF-8) and on random structured pairs; any difference is a violation with the input as replay.",
        note="Trusted: Coq kernel, extraction (ExtrOcamlBasic), the Rust/OCaml drivers; agreement of the three Rust copies with the model is checked exhaustively only up to the bound (3 symbols per string quick, 4 thorough) and randomly beyond.",
        ref="DESIGN.md §7 C12"),
    "C13": dict(
        text="Coq theorems (Props/C13.v, 11 statements, all closed) prove for the model of CommitLog/Segment, for ALL op sequences from new(): well-formedness, readv from any issued cursor returns exactly firstn n of the retained suffix in append order with each entry tagged by its own offset, the continuation resumes exactly (also across appends), Done iff caught up, stale cursors resume at the oldest retained entry, at most max_mem segments, only whole oldest segments discarded, and readv never panics for ANY cursor (fabricated included) under the stated u64 no-overflow bounds. The Rust CommitLog (exported under cfg) is tied to the model by exhaustive op sequences up to length 6 (7 thorough) over a 9-letter alphabet for max_mem 1 and 2 plus random histories, with an independent abstract-spec monitor on the implementation's answers.",
        note="Assumes cfg max_segment_size>=1024, max_mem_segments>=1; 2*entries<2^64, size+max_seg<=2^64, off+n<2^64 (readv with len near u64::MAX does overflow in the Rust code: stated hypothesis, callers pass <= max(100,max_outgoing_packet_count)). Dev profile only.",
        ref="DESIGN.md §7 C13"),
    "C19": dict(
        text="Router half of admission proved on Router.Model: a Connect whose client id contains any of + $ # / leaves the router state unchanged (no registration, no ConnAck) for every state (Props/C19.v); uniqueness of client ids among live connections and the max_connections bound are invariants proved over all op sequences when Props/C19.v pins c19_unique/c19_limit (see evidence.coverage.theorems for what is pinned in this run). The monitor checks on the real router that a link the rules reject never receives a ConnAck or any traffic, that ConnAcks carry the predicted slab id, and the session-present flag. The per-connection admission path (first packet, credentials) is M-STACK, see level_note.",
        note=ROUTER_NOTE + " PARTIAL: the network-facing admission path (link/remote.rs mqtt_connect/handle_auth: first packet must be CONNECT of the listener's version, keep-alive != 0, credentials) is not yet modelled; only the routing-core clauses of C19 are decided here.",
        ref="DESIGN.md §7 C19"),
}

CLAIMS["C04"] = dict(
    text="MQTT 3.1.1 part fully proved (Props/C04.v): for every well-formed packet of all 14 types and both crates' codecs (flavour Client/Broker), write succeeds, the number of bytes written equals the reported size, and read of those bytes followed by any rest returns exactly the (normalised) packet and the rest; client bytes decode in the broker to the same content and vice versa (c04_interop_v4); remaining-length codec round trip for all n <= 268435455 with the len_len boundaries. The four Rust codecs' v4 halves are tied to the model by byte-exact comparison of encoders and decoders on structured packets (all types, flags, QoS, ids, string sizes 0/1/127/128/65535, payloads straddling every remaining-length width) plus a round-trip monitor on the real code. MQTT 5 packets are NOT yet covered by a model or theorem (see evidence coverage.not_covered).",
    note="PARTIAL: MQTT 5 codecs not modelled yet (under construction); v4 complete. Round trip is stated up to `norm` (broker-only struct fields such as reason codes are not on the v4 wire); asymmetries between the crates are pinned as Examples. Trusted: Coq kernel, extraction, harness canonical packet text (field-by-field).",
    ref="DESIGN.md §7 C04")
CLAIMS["C05"] = dict(
    text="MQTT 3.1.1 part fully proved (Props/C05.v) for both crates' decoders: read never panics on any byte string and any max size; a packet/malformed result consumes exactly the declared frame (never beyond); a declared length above max is rejected from the header alone; NeedMore only while the header or the declared frame is incomplete, with 1 <= k <= missing; results are stable under appended bytes; the buffered decode loop yields the same packet sequence and terminal error for every chunking of the stream. Tied to the code by exhaustive header grammars, all byte strings up to 3 bytes (thorough), truncations and mutations of valid packets, and streams through the real tokio_util Framed<_, Codec> and rumqttd Network::read/readv over duplex pipes, compared with the model's feed loop. MQTT 5 decoders are NOT yet covered.",
    note="PARTIAL: MQTT 5 decoders not modelled yet. Assumes tokio_util::Framed calls decode on the accumulated buffer after every read (as the model's feed loop does) — this is what the STREAM correspondence ops check.",
    ref="DESIGN.md §7 C05")
CLAIMS["C01"] = dict(
    text="Safety part proved on Router.Model for ALL op sequences from init (Props/C01.v): every entry of the commit log of filter f is a publish whose topic matches f by the MQTT rule (C12's matches) with retain=false, the filter index and topic->filters cache only name existing logs with matching filters (c01_log_invariant), and whatever one sweep of a data request adds to any link buffer, every log-sourced forward is a stored entry of that request's log with its stored payload and topic (or an empty topic when a topic alias stands for it) — nothing unmatched, original topic/payload (c01_forward_matches). Exactly-once per matching subscription, acceptance order and completeness at quiescence are not yet theorems: they are decided on the implementation's traces by the monitor (router_mon: per-link multiset/order/completeness against its own ghost of accepted messages and subscription spans) over histories generated interactively against the real router, each replayed through the extracted model.",
    note=ROUTER_NOTE + " PARTIAL: exactness/order/completeness clauses are monitor-checked, not proved; the link between a request's log and the subscription filter that created it (RInv 2) is not yet an invariant theorem.",
    ref="DESIGN.md §7 C01")

CLAIMS["C03"] = dict(
    text="Fully proved on Router.Model for ALL op sequences (any events with any ids — live, never registered, removed, recycled —, any well-typed packets incl. arbitrary byte strings as topics, persistent and clean sessions, shared subscriptions, takeover; any admissible oracle), for both the release and the dev (debug assertions) profile (Props/C03.v, 15 statements): a structural invariant RInv (five slabs aligned with equal free lists, client-id map, live ids in waiters, valid log indices, window length <= MAX_INFLIGHT, well-formed logs, non-empty groups, ...; dev: per-connection requests carry pairwise different filters) holds in every reachable state, and from it no Panic branch of the model is reachable except the commit log's 64-bit counter overflow tag (needs ~2^64 appended entries/bytes) — c03_no_panic; and c03_still_serving: in any reachable state a fresh valid client id below capacity is registered, gets its ConnAck committed and is scheduled. The implementation is tied to the model by the router correspondence (hostile-heavy mix: events with arbitrary ids, unsolicited acks, stale links, malformed topics; every answer incl. PANIC compared) and the monitor reports any panic of the real router with the shrunk op sequence.",
    note=ROUTER_NOTE + " Configuration hypothesis cfg_ok: max_segment_size >= 1024, max_segment_count >= 1 (CommitLog::new panics otherwise at the first SUBSCRIBE: operator misconfiguration, not client behaviour). op_wf: a SUBSCRIBE's requested QoS is 0..2 (a Rust enum; the model uses N). The only panic left (P_ADD) is u64 offset overflow. Seventeen panics/defects found on the way were fixed in /repo (known_findings.json).",
    ref="DESIGN.md §7 C03")
CLAIMS["C19"]["text"] = ("Routing-core clauses fully proved on Router.Model (Props/C19.v): a Connect whose client id contains any of + $ # / leaves the router state unchanged (c19_clientid_rejected); in every state reachable by ANY op sequence two live connections never carry the same client id (a new one replaces the old: c19_unique/_reachable) and the number of live connections never exceeds max_connections (c19_limit/_reachable) — both corollaries of the router invariant RInv of C03. Admission decision of the per-connection task (first packet must be CONNECT, keep-alive != 0, client id non-empty unless clean session, credentials accepted by callback or static table) is modelled as a pure function (Stack.Model.admission) with c19_admit / c19_admit_complete proved, and the real task remote() is driven over in-memory streams (stack driver) and compared with it when comp_stack is present (see evidence.coverage). The monitor checks on the real router that a rejected link never receives a ConnAck or traffic, slab ids, and the session-present flag.")

CLAIMS["C09"] = dict(
    text="Proved on Router.Model for ALL op sequences from init (Props/C09.v, 18 statements; the number 100 is rewritten from Gen/Params.v, regenerated from iobufs.rs on every run): in every reachable state every connection's window has at most 100 entries, ids in 1..100, pairwise distinct, forming the cyclic run ending at the last issued id (c09_window); every QoS>0 forward a step puts on a link carries exactly the id recorded for it, fresh w.r.t. the still-unacknowledged ones (c09_forward_ids); forward_device_data never pushes more than free_slots (retained truncation, readv bound, round-robin 1); an ack that is not the window head closes THAT connection only and leaves every other connection's slab entries untouched (c09_unsolicited, c09_unsolicited_isolation); an in-order PUBACK/PUBREC makes a connection paused InflightFull or Caughtup Ready and queued in the same event (c09_resume). The fairness step (the id reaches the head of the ready queue and the interrupted request is swept again) is proved only as functional lemmas (_partial pins) and is decided on implementation traces by the monitor: window size/uniqueness on every forward, and at quiescence 'window was full, everything acknowledged in order, idle broker still owes acks/backlog'.",
    note=ROUTER_NOTE + " PARTIAL: no-further-stimulus liveness is a monitor clause (quiescence = ready queue empty, all buffers drained, all received forwards acknowledged, all owed Readys sent), not a theorem.",
    ref="DESIGN.md §7 C09")
CLAIMS["C06"] = dict(
    text="Proved on Router.Model (Props/C06.v, 11 statements): per packet kind exactly which acks are committed to the sender's ack log and that no other connection's log changes (QoS1 PUBLISH -> PUBACK even if the append fails; QoS2 -> PUBREC, recorded, NOT appended to any log; PUBREL -> PUBCOMP and the OLDEST recorded publish appended once; SUBSCRIBE -> one SUBACK with the requested QoS codes; UNSUBSCRIBE -> exactly one UNSUBACK with one reason per filter; PINGREQ -> PINGRESP; in-order PUBREC -> PUBREL) (c06_registered ...), acks of a batch are in packet order, and for ANY run from a reachable state the acks drained on a connection's link followed by what is still pending equal what was pending before followed by what was newly registered — nothing dropped, duplicated, reordered or delivered to another connection (c06_flush_in_order). 'Eventually sent' is decided on implementation traces: at quiescence an alive connection is owed nothing; order/identity of every ack is compared with the monitor's ghost. Two genuine defects (v5 PUBREL with properties ignored; 0 or k UNSUBACKs per UNSUBSCRIBE) were fixed.",
    note=ROUTER_NOTE + " PARTIAL: eventual flushing relies on the connection being scheduled (monitor clause at quiescence), see C09 note.",
    ref="DESIGN.md §7 C06")

CLAIMS["C20"] = dict(
    text="Proved (Props/C20.v): the conversion of router notifications to packets is total and returns no packet exactly for Unschedule and the non-device notifications; for every notification the router model can put in a link buffer (all constructors of the notification type: forwards with any stored properties/alias/subscription id, every ack kind, Disconnect, Unschedule) both the V4 and the V5 writer have a dispatch arm for the resulting (packet kind, properties present?) pair, so neither writer can reach unreachable!()/an error by dispatch (c20_encodable_dispatch, c20_write_no_panic, c20_batch_no_panic); content preservation of the conversion (c20_content); and the record that the unfixed V4 writer refuted it (c20_f2_unfixed_refuted). The REAL per-connection tasks remote_v4/remote_v5 are run over in-memory streams against a real router thread: publisher x subscriber over v4/v5 x QoS x every subset of the 8 PUBLISH properties (2^8 exhaustively), checking same topic/payload, properties preserved towards v5 (minus topic alias) and dropped towards v4, no task panic; plus the real Protocol::write on every notification kind with rumqttc decoding the bytes. Byte-level correctness of the encodings is C04 (v4 proved; v5 under construction).",
    note="PARTIAL: dispatch-level theorem + end-to-end runs; byte-level v5 encoding theorems belong to C04 (pending). Trusted: stack driver (harness/src/bin/stack.rs) incl. real-time fences; tokio, flume, the router thread scheduling are outside the model. Four defects found and fixed (F2, F15, F25, F26).",
    ref="DESIGN.md §7 C20")

ROUTER_PROPS = {
    "C01": "exact ordered delivery to matching subscriptions",
    "C03": "no client behaviour can crash the routing core",
    "C06": "exactly one matching ack per request, in order",
    "C08": "persistent sessions resume",
    "C09": "outbound window bounded, uniquely numbered, resumes on ack",
    "C14": "isolation between clients",
    "C15": "retained messages",
    "C16": "last will",
    "C17": "shared subscriptions",
}


def main():
    props = [json.loads(l) for l in open(os.path.join(ROOT, "properties.jsonl"))]
    extra = {}
    ep = os.path.join(ROOT, "tools", "manifest_extra.json")
    if os.path.exists(ep):
        extra = json.load(open(ep))
    claims = dict(CLAIMS)
    claims.update(extra)
    checks, na = [], []
    for p in props:
        pid = p["id"]
        has_props = os.path.exists(os.path.join(ROOT, "coq", "Props", pid + ".v"))
        if pid in claims and has_props:
            c = claims[pid]
            checks.append({
                "property_id": pid,
                "quick_cmd": "./check %s --tier quick" % pid,
                "thorough_cmd": "./check %s --tier thorough" % pid,
                "evidence_file": "/verif/evidence/%s.json" % pid,
                "replay_cmd_template": "./check %s --replay {path}" % pid,
                "engine": "coq-model",
                "level_claimed": {"category": "proof", "text": c["text"], "design_ref": c["ref"]},
                "level_note": c["note"],
                "technique": TECH,
            })
        else:
            na.append({"property_id": pid, "reason": "not claimed yet: its model/theorems are still under construction (DESIGN.md §10); "
                       "the technique applies and the property will be claimed once Props/%s.v is pinned and its check runs green" % pid})
    claimed = [c["property_id"] for c in checks]
    m = {"version": 1, "setup_cmd": "./check --setup",
         "hooks": {"guard": "rumqtt_verif",
                   "enable": "RUSTFLAGS=\"--cfg rumqtt_verif --check-cfg cfg(rumqtt_verif)\" (set by tools/lib.py for every harness build)",
                   "baseline_off_cmd": "cd /repo && cargo test --workspace --no-fail-fast --offline",
                   "source_commits": [l.split()[0] for l in os.popen("git -C /repo log --format='%h %s' | grep 'verif hook'").read().splitlines()],
                   "add_only": True},
         "engines": [{"name": "coq-model", "path": "/verif/coq", "serves_properties": claimed,
                      "kind_free_text": "Coq 8.16.1 development: executable Gallina models, theorems pinned in coq/Props, extraction to OCaml"},
                     {"name": "corr-harness", "path": "/verif/harness", "serves_properties": claimed,
                      "kind_free_text": "Rust drivers (path deps on /repo, --cfg rumqtt_verif) + OCaml drivers of the extracted models; differential correspondence; monitors in tools/*_mon.py"}],
         "checks": checks, "not_applicable": na,
         "notes": "See DESIGN.md. Each check = P (proof build + audit of Props/<id>.v) + C (correspondence impl vs extracted model) + M (property monitor on implementation traces). known_findings.json lists fixed and known findings."}
    json.dump(m, open(os.path.join(ROOT, "MANIFEST.json"), "w"), indent=1)
    print("claimed:", claimed)


if __name__ == "__main__":
    main()
