"""Scenario generator for the router correspondence: drives the REAL router (harness bin
`router`) interactively, playing the role of the links (well-behaved and hostile clients),
and records ops, oracle lines and answers.  The recorded op file (with the oracle lines)
is then replayed through the extracted Coq model.  All randomness comes from one lib.Rng."""
import subprocess
from collections import deque


def hx(s):
    b = s if isinstance(s, bytes) else s.encode("utf-8")
    return b.hex() if b else "-"


def unhx(h):
    return b"" if h == "-" else bytes.fromhex(h)


class Impl:
    def __init__(self, exe):
        self.p = subprocess.Popen([exe], stdin=subprocess.PIPE, stdout=subprocess.PIPE, text=True, bufsize=1)

    def op(self, line):
        self.p.stdin.write(line + "\n")
        self.p.stdin.flush()
        orc = []
        while True:
            a = self.p.stdout.readline()
            if not a:
                return orc, "EOF"
            a = a.rstrip("\n")
            if a.startswith("ORACLE "):
                orc.append(a)
            else:
                return orc, a

    def close(self):
        try:
            self.p.stdin.close()
            self.p.wait(timeout=10)
        except Exception:
            self.p.kill()


TOPICS = ["a", "a/b", "a/c", "b", "a/b/c", "c/b", "é/b"]
FILTERS = ["a", "a/b", "a/+", "+/b", "a/#", "#", "+/+", "b", "é/+"]
SHARED = ["$share/g/a/b", "$share/g/a/+", "$share/h/#"]
BAD_FILTERS = ["$SYS/x", "$sys"]


def parse_notifications(ans):
    """'[n | n | ...]' -> list of token lists"""
    if not ans.startswith("["):
        return []
    body = ans[1:-1].strip()
    if not body:
        return []
    return [x.split() for x in body.split(" | ")]


class Client:
    def __init__(self, name, link, clean, alias_max, will):
        self.name, self.link, self.clean, self.alias_max, self.will = name, link, clean, alias_max, will
        self.alias_sent, self.subs_seen = set(), set()
        self.id = None
        self.alive = True          # as far as this client knows
        self.subs = {}             # path -> qos (as requested, acknowledged or not)
        self.to_ack = deque()      # packets owed to the broker, in order (PUBACK/PUBREC/PUBCOMP)
        self.owe_ready = False
        self.pushed = 0            # packets pushed and not yet announced by DATA
        self.next_pkid = 1
        self.own_qos2 = deque()    # own QoS2 publishes awaiting PUBREC -> then PUBREL
        self.to_rel = deque()
        self.alias_map = {}        # alias -> topic, as a v5 subscriber would keep it
        self.received = []         # (topic, payload, qos, pkid, retain, cursor, props) in arrival order
        self.acks = []             # acks received in order


class Scenario:
    """One history: a NEW line and everything after it."""

    def __init__(self, rng, impl, kind, size):
        self.rng, self.impl, self.kind, self.size = rng, impl, kind, size
        self.ops, self.oracles, self.answers = [], [], []
        self.sem = []              # semantic log used by the monitors (see comp_router.py)
        self.clients = []          # every Client ever created, index = link number
        self.seq = 0
        self.dead = False
        self.cfg = None

    # ---------------------------------------------------------------- plumbing
    def do(self, line, sem=None):
        orc, ans = self.impl.op(line)
        self.ops.append(line)
        self.oracles.append(orc)
        self.answers.append(ans)
        if sem is not None:
            self.sem.append((len(self.ops) - 1,) + tuple(sem))
        if ans in ("PANIC", "DEAD", "EOF"):
            self.dead = True
        return ans

    def model_input(self):
        out = []
        for o, orc in zip(self.ops, self.oracles):
            out.extend(orc)
            out.append(o)
        return out

    # ---------------------------------------------------------------- actions
    def new(self):
        r = self.rng
        # the router's HashMap-order / thread_rng choices are drawn from this seed (hook), so that
        # the recorded history replays exactly
        self.do("SEED %d" % r.below(1 << 62), ("seed",))
        self.cfg = dict(maxconn=r.choice([2, 3, 4, 10]), maxout=r.choice([1, 3, 10, 200]),
                        segsize=r.choice([1024, 1024, 4096]), segcount=r.choice([1, 2, 3, 10]),
                        strategy=r.choice(["rr", "rr", "random", "sticky"]), dbg=1)
        if self.kind == "window":
            # backlogs far beyond the window and the outgoing buffer, but within log retention, so
            # that completeness after the last ack / Ready can be judged
            self.cfg.update(segsize=4096, segcount=10, maxout=r.choice([10, 200, 200]))
        if self.kind == "group":
            # one shared group per history, clean members only, within retention: the group
            # clauses of C17 (at most once, member order, completeness) are all decidable
            self.cfg.update(maxconn=10, segsize=4096, segcount=10, maxout=r.choice([3, 10, 200]))
            self.gpath = r.choice(SHARED)
        init = [hx(f) for f in (r.choice([[], [], ["a/b"], ["#", "a/+"]]))]
        c = self.cfg
        self.do("NEW %d %d %d %d %s %d %s" % (c["maxconn"], c["maxout"], c["segsize"], c["segcount"], c["strategy"],
                                              c["dbg"], " ".join(init)), ("new", dict(c), init))

    def connect(self, name=None, clean=None, hostile=False):
        r = self.rng
        if name is None:
            names = ["c%d" % i for i in range(5)]
            if hostile and r.chance(1, 4):
                names += ["", "x/y", "p+", "$d", "h#", "ü"]
            name = r.choice(names)
        if clean is None:
            clean = r.chance(*getattr(self, "p_clean", (1, 2)))
        alias_max = r.choice([0, 0, 0, 2, 10])
        will = "-"
        willd = None
        if r.chance(*getattr(self, "p_will", (1, 4))):
            wt = r.choice(TOPICS + (["$w", "\xff"] if hostile else []))
            wtb = b"\xff\xfe" if wt == "\xff" else wt.encode()
            self.seq += 1
            wm = "" if r.chance(1, 8) else "w%d" % self.seq
            wq, wr, wp = r.below(3), r.below(2), r.choice(["x", "x", "7", "7d0", "3d30"])
            will = "%s,%s,%d,%d,%s" % (hx(wtb), hx(wm), wq, wr, wp)
            willd = dict(topic=wtb, payload=wm.encode(), qos=wq, retain=wr, tag=wp)
        cl = Client(name, len(self.clients), clean, alias_max, willd)
        self.clients.append(cl)
        # a client that reconnects knows its old connection is gone
        for o in self.clients[:-1]:
            if o.name == name and o.alive:
                o.alive = False
                o.superseded = True
        self.do("CONNECT %s %d 0 %d %s" % (hx(name), 1 if clean else 0, alias_max, will),
                ("connect", cl.link, name, clean, alias_max, willd))
        return cl

    def live(self):
        return [c for c in self.clients if c.alive and c.id is not None]

    def push(self, cl, pkt, sem):
        self.do("PUSH %d %s" % (cl.link, pkt), ("push", cl.link) + tuple(sem))
        cl.pushed += 1

    def data(self, cl):
        if cl.id is None:
            return
        n = cl.pushed
        cl.pushed = 0
        self.do("DATA %d" % cl.id, ("data", cl.link, cl.id, n))

    def publish(self, cl, hostile=False):
        r = self.rng
        topic = r.choice(TOPICS).encode()
        if hostile and r.chance(1, 3):
            topic = r.choice([b"\xff\xfe", b"a/+", b"#", b"$SYS/x", b"", "é".encode(), b"a//b"])
        self.seq += 1
        payload = b"" if r.chance(1, 12) else ("m%d" % self.seq).encode()
        if payload and r.chance(1, 8):
            # a big message now and then: segments roll over and old ones are evicted
            payload += b"." * r.choice([200, 400, 1100])
        qos = r.below(3)
        retain = 1 if r.chance(*getattr(self, "p_retain", (1, 4))) else 0
        pkid = 0
        if qos > 0:
            pkid = cl.next_pkid
            cl.next_pkid = cl.next_pkid % 65535 + 1
        props = "-"
        if r.chance(1, 5):
            alias = "x"
            if r.chance(1, 2):
                alias = str(r.choice([1, 2, 3, 0, 4097] if hostile else [1, 2, 3]))
                if r.chance(1, 3) and alias in cl.alias_sent:
                    topic = b""          # reuse an alias established earlier
                elif alias not in ("0", "4097"):
                    cl.alias_sent.add(alias)
            subs = "x"
            if hostile and r.chance(1, 6):
                subs = "5"
            props = "A%s:S%s:T%d" % (alias, subs, r.choice([0, 0, 3]))
        # a retransmission (DUP=1) is, for the broker, a publish like any other
        dup = 1 if qos > 0 and r.chance(1, 7) else 0
        self.push(cl, "PUB %s %s %d %d %d %d %s" % (hx(topic), hx(payload), qos, pkid, retain, dup, props),
                  ("pub", topic, payload, qos, pkid, retain, props, self.seq))
        if qos == 2:
            cl.own_qos2.append(pkid)

    def subscribe(self, cl, hostile=False):
        r = self.rng
        n = 1 + r.below(3) if r.chance(1, 3) else 1
        fs = []
        if self.kind == "group":
            n = 0
            fs.append((self.gpath, r.below(3)))
        for _ in range(n):
            pool = (SHARED * 3 if self.kind == "shared" and r.chance(1, 2) else FILTERS) + (SHARED if r.chance(*getattr(self, "p_shared", (1, 3))) else []) + (BAD_FILTERS if hostile and r.chance(1, 4) else [])
            fs.append((r.choice(pool), r.below(3)))
        subid = "-"
        if r.chance(1, 6):
            subid = str(r.choice([1, 2, 9] + ([0] if hostile else [])))
        pkid = cl.next_pkid
        cl.next_pkid = cl.next_pkid % 65535 + 1
        if getattr(cl, "qos0_only", False):
            fs = [(p_, 0) for (p_, _q) in fs]
        for p_, _q in fs:
            cl.subs_seen.add(p_)
        self.push(cl, "SUB %d %s %s" % (pkid, subid, ",".join("%s:%d" % (hx(p), q) for p, q in fs)),
                  ("sub", pkid, subid, fs))

    def unsubscribe(self, cl):
        r = self.rng
        pool = sorted(cl.subs_seen) or FILTERS
        fs = [r.choice(pool + FILTERS[:2]) for _ in range(1 + r.below(2))]
        if self.kind == "group":
            fs = [self.gpath]
        pkid = cl.next_pkid
        cl.next_pkid = cl.next_pkid % 65535 + 1
        self.push(cl, "UNSUB %d %s" % (pkid, ",".join(hx(p) for p in fs)), ("unsub", pkid, fs))

    def drain(self, cl):
        ans = self.do("DRAIN %d" % cl.link, ("drain", cl.link))
        for n in parse_notifications(ans):
            if n[0] == "ACK":
                cl.acks.append(n[1:])
                if n[1] == "CONNACK":
                    cl.id = int(n[2])
                elif n[1] == "PUBREC":
                    cl.to_rel.append(int(n[2]))
                elif n[1] == "PUBREL":
                    cl.to_ack.append("PUBCOMP %s" % n[2])
            elif n[0] == "FWD":
                qos, pkid = int(n[4]), int(n[5])
                cl.received.append(n[1:])
                if qos == 1:
                    cl.to_ack.append("PUBACK %d" % pkid)
                elif qos == 2:
                    cl.to_ack.append("PUBREC %d" % pkid)
            elif n[0] == "UNSCHEDULE":
                cl.owe_ready = True
            elif n[0] == "DISCONNECT":
                cl.alive = False
        return ans

    def send_acks(self, cl, count=None):
        k = len(cl.to_ack) if count is None else min(count, len(cl.to_ack))
        for _ in range(k):
            a = cl.to_ack.popleft()
            self.push(cl, a if not a.startswith("PUBREL") else a + " 0", ("ack", a))
        while cl.to_rel:
            self.push(cl, "PUBREL %d 0" % cl.to_rel.popleft(), ("rel",))

    def ready(self, cl):
        if cl.id is not None:
            cl.owe_ready = False
            self.do("READY %d" % cl.id, ("ready", cl.link, cl.id))

    def consume(self, n=1):
        for _ in range(n):
            if self.dead:
                return "DEAD"
            a = self.do("CONSUME", ("consume",))
            if a == "NONE 0" or a in ("PANIC", "DEAD", "EOF"):
                return a            # ready queue empty: the router would block on its channel
        return "SOME"

    def end_connection(self, cl, how):
        """how: 'packet' (DISCONNECT packet), 'event' (link failure), 'event+will'"""
        if cl.id is None:
            return
        if how == "packet":
            self.push(cl, "DISC", ("disc",))
            self.data(cl)
        else:
            self.do("DISCONNECT %d" % cl.id, ("disconnect_event", cl.link, cl.id))
            if how == "event+will":
                self.do("WILL %s" % hx(cl.name), ("will_event", cl.name))
        cl.alive = False

    def settle(self, rounds=60):
        """run to idle: every live client drains, acks everything, sends owed Readys"""
        for _ in range(rounds):
            if self.dead:
                return False
            progress = False
            for cl in list(self.clients):
                if cl.pushed and cl.alive and cl.id is not None:
                    self.data(cl)
                    progress = True
            for _ in range(300):
                if self.consume() != "SOME":
                    break
                progress = True
            for cl in list(self.clients):
                if not cl.alive and not getattr(cl, "superseded", False) and cl.id is None:
                    continue
                a = self.drain(cl)
                if a != "[]":
                    progress = True
                if cl.alive and cl.id is not None:
                    if cl.to_ack or cl.to_rel:
                        self.send_acks(cl)
                        self.data(cl)
                        progress = True
                    if cl.owe_ready:
                        self.ready(cl)
                        progress = True
            if not progress:
                self.sem.append((len(self.ops), "quiescent"))
                # one more look at the ready queue AFTER the empty drains: the monitor's calm points
                # (drained, nothing owed, router idle since) need it
                self.consume()
                return True
        return False

    # ---------------------------------------------------------------- scenario kinds
    # weights of the actions per kind:
    # (connect, subscribe, unsubscribe, publish, consume, drain+ack, flush, end, reconnect, hostile)
    WEIGHTS = {
        "normal":   (4, 12, 4, 30, 20, 12, 4, 5, 3, 0),
        "hostile":  (4, 12, 4, 26, 18, 12, 4, 5, 3, 12),
        "session":  (2, 6, 0, 34, 18, 14, 4, 8, 10, 0),
        "window":   (1, 4, 0, 50, 14, 10, 3, 1, 1, 0),
        "shared":   (5, 16, 3, 32, 18, 12, 3, 4, 3, 0),
        "retained": (5, 18, 3, 30, 18, 12, 3, 3, 2, 0),
        "will":     (8, 8, 1, 20, 18, 10, 3, 14, 6, 0),
        "group":    (3, 10, 2, 34, 20, 14, 4, 3, 2, 0),
    }

    def run(self):
        self.new()
        r = self.rng
        kind = self.kind
        hostile = kind == "hostile"
        wts = self.WEIGHTS[kind]
        total = sum(wts)
        self.p_retain = {"retained": (1, 2)}.get(kind, (1, 4))
        self.p_will = {"will": (3, 4), "group": (0, 1)}.get(kind, (1, 4))
        self.p_shared = {"shared": (2, 3)}.get(kind, (1, 3))
        self.p_clean = {"session": (1, 5), "group": (1, 1)}.get(kind, (1, 2))
        self.burst = {"window": 150}.get(kind, 40)
        self.lazy_ack = False
        if kind == "group" and r.chance(1, 2):
            # members that let their window fill up: long bursts, acknowledgements are rare
            self.burst = 150
            self.lazy_ack = True
        for _ in range(1 + r.below(3) + (1 if kind in ("shared", "window", "group") else 0)):
            self._fresh_client(hostile)
        if kind == "window" and self.clients and r.chance(2, 3):
            # a slow consumer that never acknowledges anything (QoS 0 only): only Ready can resume it
            self.clients[0].qos0_only = True
        steps = 0
        while steps < self.size and not self.dead:
            steps += 1
            if r.chance(1, {"window": 160}.get(kind, 45)):
                # checkpoint: run to idle in mid-history, so that losses which a later disconnect
                # or takeover would hide are observable (calm-point completeness)
                self.settle()
                continue
            if kind == "retained" and r.chance(1, 30) and self.live():
                self._late_retained()
                continue
            live = self.live()
            x = r.below(total)
            act = 0
            while x >= wts[act]:
                x -= wts[act]
                act += 1
            if not live or act == 0:
                self._fresh_client(hostile)
                continue
            cl = r.choice(live)
            if act == 1:
                if kind == "session" and steps > self.size // 2:
                    continue            # keep the subscriptions stable in the second half
                self.subscribe(cl, hostile)
                if r.chance(3, 4):
                    self.data(cl)
            elif act == 2:
                self.unsubscribe(cl)
                if r.chance(3, 4):
                    self.data(cl)
            elif act == 3:
                for _ in range(1 + (r.below(self.burst) if r.chance(1, 6) else r.below(3))):
                    self.publish(cl, hostile)
                if r.chance(4, 5):
                    self.data(cl)
            elif act == 4:
                self.consume(1 + r.below(4))
            elif act == 5:
                if getattr(cl, "qos0_only", False) and r.chance(4, 5):
                    continue                      # lets its buffer fill up
                self.drain(cl)
                if r.chance(2, 3) and cl.alive and not (self.lazy_ack and r.chance(7, 8)):
                    if cl.to_ack or cl.to_rel:
                        self.send_acks(cl, None if r.chance(1, 2) else 1 + r.below(3))
                        if r.chance(4, 5):
                            self.data(cl)
                    if cl.owe_ready and r.chance(3, 4):
                        self.ready(cl)
            elif act == 6:
                if cl.pushed:
                    self.data(cl)
                elif cl.owe_ready:
                    self.ready(cl)
                else:
                    self.push(cl, "PING", ("ping",))
                    self.data(cl)
            elif act == 7:
                self.end_connection(cl, r.choice(["packet", "event", "event+will", "event+will"]))
            elif act == 8:
                # reconnect some earlier client id (takeover if it is still alive)
                old = r.choice(self.clients)
                ncl = self.connect(name=old.name, clean=r.chance(*self.p_clean) if kind in ("session", "group") else r.chance(1, 3))
                self._init_client(ncl)
            else:
                self._hostile_action(cl)
        if not self.dead:
            self.settled = self.settle()
        return self

    def _late_retained(self):
        """a subscription that finds NO retained message at its first sweep, then — with the router
        idle and the subscriber drained in between — the first retained publish on a matching topic:
        it must arrive live (unflagged), once"""
        r = self.rng
        live = self.live()
        sub = r.choice(live)
        self.late_n = getattr(self, "late_n", 0) + 1
        pkid = sub.next_pkid
        sub.next_pkid = sub.next_pkid % 65535 + 1
        flt = r.choice(["r/+", "r/#", "r/%d" % self.late_n])
        sub.subs_seen.add(flt)
        self.push(sub, "SUB %d - %s:%d" % (pkid, hx(flt), r.choice([0, 0, 1])), ("sub", pkid, "-", [(flt, 0)]))
        self.data(sub)
        self.settle()
        live = self.live()
        if not live:
            return
        pub = r.choice(live)
        self.seq += 1
        topic = ("r/%d" % self.late_n).encode()
        payload = ("m%d" % self.seq).encode()
        qos = r.below(2)
        pk = 0
        if qos:
            pk = pub.next_pkid
            pub.next_pkid = pub.next_pkid % 65535 + 1
        self.push(pub, "PUB %s %s %d %d 1 0 -" % (hx(topic), hx(payload), qos, pk), ("pub", topic, payload, qos, pk, 1, "-", self.seq))
        self.data(pub)
        self.settle()

    def _init_client(self, cl):
        cl.alias_sent = set()
        cl.subs_seen = set()
        # the link blocks until the ConnAck arrives: let the router run and drain it
        for _ in range(1 + self.rng.below(3)):
            self.consume()
        self.drain(cl)
        if cl.id is None:
            self.consume(4)
            self.drain(cl)
        if cl.id is None:
            cl.alive = False       # rejected (bad client id / no capacity): link gives up

    def _fresh_client(self, hostile):
        cl = self.connect(hostile=hostile)
        self._init_client(cl)
        return cl

    def _hostile_action(self, cl):
        r = self.rng
        ids = [c.id for c in self.clients if c.id is not None] + [0, 1, 2, 7, 63, 1000000]
        x = r.below(12)
        if x == 0:
            self.do("XREADY %d" % r.choice(ids), ("hostile_ready",))
        elif x == 1:
            self.do("XDATA %d" % r.choice(ids), ("hostile_data",))
        elif x == 2:
            self.do("XDISCONNECT %d" % r.choice(ids), ("hostile_disconnect",))
        elif x == 3:
            self.do("XSHADOW %d %s" % (r.choice(ids), hx(r.choice(FILTERS + ["zz"]))), ("hostile_shadow",))
        elif x == 4:
            self.do("WILL %s" % hx(r.choice([c.name for c in self.clients] + ["nobody"])), ("hostile_will",))
        elif x == 5:
            self.do("METERS", ("meters",))
        elif x in (6, 7):
            if r.chance(4, 5):
                self.drain(cl)       # the client has seen everything sent to it: the ack below is decidably unsolicited
            kind = r.choice(["PUBACK", "PUBREC", "PUBCOMP"])
            self.push(cl, "%s %d" % (kind, r.choice([0, 1, 2, 50, 100, 101, 65535])), ("bad_ack",))
            self.data(cl)
        elif x == 8:
            self.push(cl, "PUBREL %d %d" % (r.choice([1, 2, 3, 9]), r.below(2)), ("bad_rel",))
            self.data(cl)
        elif x == 9:
            self.push(cl, "OTHER", ("other",))
            self.data(cl)
        elif x == 10:
            # stale link: push into a dead link's buffer and announce it under its old id
            dead = [c for c in self.clients if not c.alive and c.id is not None]
            if dead:
                d = r.choice(dead)
                self.do("PUSH %d PING" % d.link, ("stale_push",))
                self.do("XDATA %d" % d.id, ("stale_data",))
        else:
            self.do("PUSH %d PING" % r.choice([0, 1, 99]), ("raw_push",))


def run_scenarios(exe, rng, n, kind, size):
    impl = Impl(exe)
    out = []
    try:
        for _ in range(n):
            sc = Scenario(rng, impl, kind, size)
            sc.run()
            out.append(sc)
    finally:
        impl.close()
    return out
