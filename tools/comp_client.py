"""C07 / C10 / C02 / C11 — MQTT client state machine (M-CLIENT, state-machine level).

One generated run (exhaustive small scope + random long runs) drives the real
`rumqttc::MqttState` (harness/src/bin/client.rs) and the extracted Coq model
(ocaml/client_driver.ml) with the same op file; answers are compared line by line, and the
property monitors below are evaluated on the IMPLEMENTATION's answers only (wire trace +
the public `inflight()` / `collision` observers; no internals).  The four properties share
the run through a cache under build/client/ keyed by seed, tier and the hashes of both
driver binaries and of this file (so any change of /repo that changes the harness binary,
or of the model, re-runs everything)."""
import hashlib, itertools, json, os, re, time
import lib

SHARED = ["C07", "C10", "C02", "C11"]     # one shared state-machine / loop run
PROPS = SHARED + ["C18"]                  # C18 (keep-alive) has its own run

CDIR = os.path.join(lib.BUILD, "client")
VERSIONS = ["4", "5"]

ASSUMPTIONS = [
    "state-machine level: the caller honours the MqttState contract that EventLoop::select implements — no QoS>0 publish is handed over while `collision` is parked, "
    "PubRel requests and publishes with a preset id only come from a previous clean(); histories that break it are still compared with the model but the property monitors stop at the breach",
    "manual_acks is read as suppressing the automatic PUBACK / PUBREC; the PUBCOMP answering a known PUBREL is always automatic (the API has no manual PubComp: Request::PubComp is unimplemented!())",
    "Publish content is (qos, pkid, topic, payload); dup/retain are never touched by state.rs and are fixed to false by the driver",
    "dev profile (overflow checks on); last_incoming/last_outgoing Instants and log lines are not modelled",
    "the event-loop half (select guard, pending replay, readb batches) is proved about Client/Loop.v (v4) and Client/Loop5.v (v5), pure models written after eventloop.rs and v5/eventloop.rs; "
    "each is tied to its real EventLoop by the end-to-end loop driver with the same op language (coverage.loop_*, loop_v5_*): deterministic histories only (cut where tokio's select! would choose at random)",
    "v5 loop: the broker's CONNACK carries session_present, receive-maximum and topic-alias-maximum only; the C07 window monitor on v5 traces uses min(receive-maximum of the last CONNACK, configured limit), "
    "an absent receive-maximum counting as 65535 (the client itself keeps the previous connection's limit in that case: never more than the monitor allows); a CONNACK announcing receive-maximum 0 is refused "
    "(ConnFail) and ends the connection attempt like any failure (fix 6b2911f, F38; before it the connection stayed in use with the previous limit: Loop5.lstep5_keep); the in-order retransmission clause of C11 is v4-only "
    "(v5 clean() returns index order: there is no last_puback); outbound topic aliases go through the loop (user publishes with an alias and a topic — the client API rejects alias-only publishes — under topic-alias-maxima {absent, 3, 10}); a publish refused with InvalidAlias on its FIRST attempt counts as never accepted (the user gets the error), a CARRIED one refused on retransmission is the known finding K-C02-v5-alias; inbound aliases are state-level only",
    "tokio (timers, select! fairness), the keep-alive arm and network timeouts are outside the loop model; pending_throttle is in the driver glue (virtual time), not in the Coq model beyond TakeCancelled; "
    "keep-alive is set to 3600 s in the loop driver so it never fires",
]

ANS = re.compile(r"^(OK|ERR) (\[.*?\]|\S+) EV\[(.*?)\] INFL (\d+) COLL (\d)$")


# ----------------------------------------------------------------------------- monitors

class Mon:
    """Monitor of one history (from NEW to the next NEW), fed (op tokens, implementation answer).
    Keeps only what can be read off the wire: which publishes were written / parked, which
    acks were accepted.  `viol` collects (property, text)."""

    __slots__ = ("ver", "max", "manual", "dead", "breach", "coll", "unacked", "released", "parked",
                 "inc2", "inorder", "viol", "nontrivial", "limit", "alias_max", "aliases", "prev_held", "handed_back")

    def __init__(self, ver, mx, manual):
        self.ver, self.max, self.manual = ver, mx, manual
        self.dead = False
        self.breach = None       # text of the first contract breach by the caller
        self.coll = 0
        self.unacked = {}        # id -> (q,t,p), in send order
        self.released = []       # ids with PUBREL sent, PUBCOMP outstanding
        self.parked = None       # (id,q,t,p)
        self.inc2 = set()        # incoming QoS2 ids recorded
        self.inorder = True      # only QoS1 publishes so far, every PUBACK hit the oldest
        self.viol = []
        self.nontrivial = set()
        self.limit = mx          # v5: configured upper limit; self.max follows CONNACK receive-maximum
        self.alias_max = 0       # v5: broker's topic-alias-maximum
        self.aliases = set()     # v5: inbound aliases the broker has defined
        self.prev_held = 0
        self.handed_back = []    # what the last CLEAN returned and has not been replayed yet

    def copy(self):
        m = Mon.__new__(Mon)
        m.ver, m.max, m.manual, m.dead, m.breach, m.coll = self.ver, self.max, self.manual, self.dead, self.breach, self.coll
        m.unacked = dict(self.unacked)
        m.released = list(self.released)
        m.parked = self.parked
        m.inc2 = set(self.inc2)
        m.inorder = self.inorder
        m.viol = list(self.viol)
        m.nontrivial = set(self.nontrivial)
        m.limit, m.alias_max, m.aliases, m.prev_held = self.limit, self.alias_max, set(self.aliases), self.prev_held
        m.handed_back = list(self.handed_back)
        return m

    def v(self, prop, text):
        if self.breach is None:
            self.viol.append((prop, text))

    def held(self):
        return len(self.unacked) + len(self.released)

    def expect_events(self, prop, evs, want, what):
        if evs != want:
            self.v(prop, "%s: notifications %s, expected %s" % (what, evs, want))

    def resolve(self, kind, i, body, oev, what):
        """an accepted final ack of id i: a publish parked on i must be written now"""
        if self.parked and self.parked[0] == i:
            k, q, t, p = self.parked
            want = "PUB:%s:%d:%s:%s" % (q, k, t, p)
            self.nontrivial.add("collision-resolved-by-" + kind)
            if body != want:
                self.v("C02", "%s freed id %d but the publish parked on it was not written (got %s, expected %s)" % (what, i, body, want))
                self.v("C07", "%s freed id %d but the parked collision was not resolved (got %s)" % (what, i, body))
            else:
                self.unacked[k] = (q, t, p)
                self.parked = None
            self.expect_events("C10", oev, ["O(PUB:%d)" % k] if body == want else oev, what)
        else:
            if body != "-":
                self.v("C10", "%s: nothing parked on id %d, yet %s was written" % (what, i, body))
            self.expect_events("C10", oev, [], what)

    def feed(self, t, ans):
        if self.dead:
            return
        if ans == "PANIC":
            self.dead = True
            if t[0] == "IN":
                self.v("C10", "panic on incoming packet %s" % " ".join(t[1:]))
            elif t[0] == "CLEAN":
                self.v("C02", "clean() panicked")
            elif t[1] in ("PUBCOMP", "PINGRESP", "SUBACK", "UNSUBACK") or (t[1] == "PUBREL" and not 1 <= int(t[2]) <= self.limit):
                pass  # requests the client API cannot produce
            else:
                self.v("C07", "panic on user request %s" % " ".join(t[1:]))
            return
        m = ANS.match(ans)
        if not m:
            self.v("C10", "unparsable answer %r" % ans)
            return
        st, body, evs, infl, coll = m.group(1), m.group(2), m.group(3).split(), int(m.group(4)), int(m.group(5))
        iev = [e for e in evs if e.startswith("I(")]
        oev = [e for e in evs if e.startswith("O(")]
        what = " ".join(t)
        if t[0] == "OUT":
            self.out(t[1:], st, body, evs, iev, oev, what)
        elif t[0] == "IN":
            self.inc(t[1:], st, body, evs, iev, oev, what)
        else:
            self.clean(st, body, evs, what)
        # the public inflight() counter is what the event loop's flow control reads
        if infl != self.held():
            self.v("C07", "%s: inflight() = %d but %d publishes/releases are unacknowledged on the wire" % (what, infl, self.held()))
        # (v5: the tables hold `limit` ids; keeping the count under a lowered receive-maximum is the
        #  event loop's guard `inflight >= max_outgoing_inflight`, not the state machine's)
        if self.held() > self.limit:
            self.v("C07", "%s: %d unacknowledged > limit %d" % (what, self.held(), self.limit))
        if coll != (1 if self.parked else 0):
            self.v("C07", "%s: collision flag %d but parked=%s" % (what, coll, self.parked))
        self.coll = coll

    def idok(self, i, what):
        if not 1 <= i <= self.max:
            self.v("C07", "%s: packet id %d outside 1..%d on the wire" % (what, i, self.max))

    def out(self, r, st, body, evs, iev, oev, what):
        k = r[0]
        if iev:
            self.v("C10", "%s produced Incoming notifications %s" % (what, iev))
        if k == "PUB":
            q, i, tp, pl = r[1], int(r[2]), r[3], r[4]
            if len(r) > 5 and r[5] != "-":
                pl = pl + ":a" + r[5]      # the alias travels with the content
                if int(r[5]) > self.alias_max:
                    if not (st == "ERR" and body == "InvalidAlias:%s:%d" % (r[5], self.alias_max)):
                        self.v("C10", "%s: alias above the broker's maximum %d answered %s %s" % (what, self.alias_max, st, body))
                    self.expect_events("C10", evs, [], what)
                    self.nontrivial.add("v5-invalid-alias")
                    return
            if q != "0" and self.coll:
                self.breach = self.breach or "publish handed over while a collision is parked"
            if q != "0" and i != 0:
                item = "PUB:%s:%d:%s:%s" % (q, i, tp, pl)
                if item in self.handed_back:
                    self.handed_back.remove(item)
                else:
                    self.breach = self.breach or "publish with a preset id that the last clean() did not hand back"
            if q != "0" and i > self.limit:
                if not (st == "ERR" and body == "Unsolicited:%d" % i):
                    self.v("C07", "%s: id above the limit accepted (%s %s)" % (what, st, body))
                self.expect_events("C10", evs, [], what)
                return
            if st != "OK":
                self.v("C10", "%s rejected: %s" % (what, body))
                return
            if q == "0":
                if body != "PUB:0:%d:%s:%s" % (i, tp, pl):
                    self.v("C10", "%s: wrote %s" % (what, body))
                self.expect_events("C10", evs, ["O(PUB:%d)" % i], what)
                return
            if q == "2":
                self.inorder = False
            if body == "-":
                if len(oev) != 1 or not oev[0].startswith("O(AWAITACK:"):
                    self.v("C10", "%s: nothing written, notifications %s (expected one AwaitAck)" % (what, evs))
                    return
                kid = int(oev[0][11:-1])
                self.nontrivial.add("collision-parked")
                if kid not in self.unacked and kid not in self.released:
                    self.v("C07", "%s: parked on id %d which no unacknowledged publish holds" % (what, kid))
                if i and kid != i:
                    self.v("C11", "%s: preset id changed to %d" % (what, kid))
                self.parked = (kid, q, tp, pl)
                return
            f = body.split(":", 4)
            if f[0] != "PUB" or len(f) != 5 or f[1] != q or f[3] != tp or f[4] != pl:
                self.v("C10", "%s: wrote %s" % (what, body))
                return
            kid = int(f[2])
            if i == 0:
                self.idok(kid, what)     # a fresh id obeys the current limit (v5: receive-maximum)
            elif not 1 <= kid <= self.limit:
                self.v("C07", "%s: packet id %d outside 1..%d on the wire" % (what, kid, self.limit))
            if i and kid != i:
                self.v("C11", "%s: preset id changed to %d" % (what, kid))
            if kid in self.unacked or kid in self.released:
                self.v("C07", "%s: id %d put on the wire again while still unacknowledged (%s)" % (
                    what, kid, "publish" if kid in self.unacked else "release awaiting PUBCOMP"))
                self.nontrivial.add("id-reuse")
            self.unacked.pop(kid, None)
            self.unacked[kid] = (q, tp, pl)
            self.expect_events("C10", evs, ["O(PUB:%d)" % kid], what)
            if len(self.unacked) > 1 and kid < max(self.unacked):
                self.nontrivial.add("wrapped")
            return
        if k in ("SUB", "UNSUB"):
            n = int(r[1])
            if k == "SUB" and n == 0:
                if not (st == "ERR" and body == "EmptySubscription"):
                    self.v("C10", "%s: %s %s" % (what, st, body))
                self.expect_events("C10", evs, [], what)
                return
            f = body.split(":")
            if st != "OK" or f[0] != k or int(f[2]) != n:
                self.v("C10", "%s: %s %s" % (what, st, body))
                return
            self.idok(int(f[1]), what)
            self.expect_events("C10", evs, ["O(%s:%s)" % (k, f[1])], what)
            return
        if k in ("PUBACK", "PUBREC"):
            if not (st == "OK" and body == "%s:%s" % (k, r[1])):
                self.v("C10", "%s: %s %s" % (what, st, body))
            self.expect_events("C10", evs, ["O(%s:%s)" % (k, r[1])], what)
            return
        if k == "PUBREL":
            i = int(r[1])
            if not 1 <= i <= self.limit or i in self.unacked or i in self.released or ("PUBREL:%d" % i) not in self.handed_back:
                self.breach = self.breach or "PubRel request for an id that did not come from clean()"
                return
            self.handed_back.remove("PUBREL:%d" % i)
            if not (st == "OK" and body == "PUBREL:%d" % i):
                self.v("C10", "%s: %s %s" % (what, st, body))
            self.released.append(i)
            self.expect_events("C10", evs, ["O(PUBREL:%d)" % i], what)
            return
        if k == "PINGREQ":
            if st == "OK":
                if body != "PINGREQ":
                    self.v("C10", "%s: wrote %s" % (what, body))
                self.expect_events("C10", evs, ["O(PINGREQ)"], what)
            else:
                self.expect_events("C10", evs, [], what)
            return
        if k == "DISCONNECT":
            if not (st == "OK" and body == "DISCONNECT"):
                self.v("C10", "%s: %s %s" % (what, st, body))
            self.expect_events("C10", evs, ["O(DISCONNECT)"], what)
            return
        self.breach = self.breach or "request %s cannot be produced by the client API" % k

    def inc(self, r, st, body, evs, iev, oev, what):
        k = r[0]
        rr = list(r)
        if k == "PUB" and len(rr) > 5:
            rr = rr[:5] + (["a" + rr[5]] if rr[5] != "-" else [])
        canon = "I(" + ":".join(rr) + ")"
        if not evs or evs[0] != canon or len(iev) != 1:
            self.v("C10", "%s: notifications %s do not start with exactly one %s" % (what, evs, canon))
        if st == "ERR" and oev:
            self.v("C10", "%s: returned %s (nothing written) but announced %s" % (what, body, oev))
        if k == "PUB":
            q, i = r[1], int(r[2])
            want = "-"
            if len(r) > 5 and r[5] != "-":
                if r[3] != "0":
                    self.aliases.add(r[5])
                elif r[5] not in self.aliases:
                    # unknown alias on an empty topic: protocol error, DISCONNECT 0x82 written, nothing else
                    self.nontrivial.add("v5-protocol-error")
                    if not (st == "OK" and body == "DISCONNECT:130"):
                        self.v("C10", "%s: unknown topic alias answered %s %s (expected DISCONNECT:130 written)" % (what, st, body))
                    self.expect_events("C10", oev, ["O(DISCONNECT)"], what)
                    return
            if q == "1" and not self.manual:
                want = "PUBACK:%d" % i
            if q == "2":
                self.inc2.add(i)
                if not self.manual:
                    want = "PUBREC:%d" % i
            if st != "OK" or body != want:
                self.v("C10", "%s (manual_acks=%d): answered %s %s, expected %s" % (what, self.manual, st, body, want))
            self.expect_events("C10", oev, [] if want == "-" else ["O(%s)" % want], what)
            if q != "0":
                self.nontrivial.add("inbound-qos%s" % q)
            return
        if k in ("PUBACK", "PUBREC", "PUBCOMP", "PUBREL"):
            i = int(r[1])
            unsol = "Unsolicited:%d" % i
            refused = len(r) > 2 and r[2] not in ("0", "16")
            if refused:
                self.nontrivial.add("v5-failure-reason")
            if k == "PUBREL":
                if i in self.inc2:
                    self.inc2.discard(i)
                    if not (st == "OK" and body == "PUBCOMP:%d" % i):
                        self.v("C10", "%s: release of a known id answered %s %s" % (what, st, body))
                    self.expect_events("C10", oev, ["O(PUBCOMP:%d)" % i], what)
                    self.nontrivial.add("inbound-release")
                else:
                    if not (st == "ERR" and body == unsol):
                        self.v("C10", "%s: unsolicited release answered %s %s" % (what, st, body))
                    self.nontrivial.add("unsolicited")
                return
            if k == "PUBACK" and i in self.unacked:
                if next(iter(self.unacked)) != i:
                    self.inorder = False
                    self.nontrivial.add("out-of-order-ack")
                if st != "OK":
                    self.v("C10", "%s: solicited ack answered ERR %s" % (what, body))
                    return
                del self.unacked[i]
                self.resolve("PUBACK", i, body, oev, what)
                return
            if k == "PUBREC" and i in self.unacked and refused:
                # v5: the broker refused the publish: the flow ends, the id is free, no PUBREL
                self.inorder = False
                if st != "OK":
                    self.v("C10", "%s: solicited PUBREC answered ERR %s" % (what, body))
                    return
                del self.unacked[i]
                self.resolve("PUBREC", i, body, oev, what)
                return
            if k == "PUBREC" and i in self.unacked:
                self.inorder = False
                if not (st == "OK" and body == "PUBREL:%d" % i):
                    self.v("C10", "%s: answered %s %s, expected PUBREL" % (what, st, body))
                    return
                del self.unacked[i]
                self.released.append(i)
                self.expect_events("C10", oev, ["O(PUBREL:%d)" % i], what)
                return
            if k == "PUBCOMP" and i in self.released:
                if st != "OK":
                    self.v("C10", "%s: solicited PUBCOMP answered ERR %s" % (what, body))
                    return
                self.released.remove(i)
                self.resolve("PUBCOMP", i, body, oev, what)
                return
            self.nontrivial.add("unsolicited")
            if k == "PUBACK":
                self.inorder = False   # a spurious PUBACK: the broker is not "acknowledging in order" (it moves last_puback)
            if not (st == "ERR" and body == unsol):
                self.v("C10", "%s: unsolicited ack answered %s %s (expected ERR %s)" % (what, st, body, unsol))
            return
        if k in ("SUBACK", "UNSUBACK", "PINGRESP"):
            if not (st == "OK" and body == "-"):
                self.v("C10", "%s: %s %s" % (what, st, body))
            self.expect_events("C10", oev, [], what)
            return
        if self.ver == "5" and k == "CONNACK":
            if r[2] != "0":
                if not (st == "ERR" and body.startswith("ConnFail:")):
                    self.v("C10", "%s: %s %s (expected ERR ConnFail)" % (what, st, body))
                return
            if r[3] == "0":
                # F37 (fix: commit b2fc5b9): receive-maximum 0 is a protocol error: refused, the limit
                # and the allocator stay as they were (the monitor keeps self.max, so any id above
                # it on a later SUBSCRIBE / PUBLISH is a C07 violation); topic_alias_max, which the
                # code reads first, is taken over
                if not (st == "ERR" and body == "ConnFail:130"):
                    self.v("C07", "%s: receive-maximum 0 answered %s %s (expected ERR ConnFail:130)" % (what, st, body))
                self.expect_events("C10", oev, [], what)
                if r[4] != "-":
                    self.alias_max = int(r[4])
                self.nontrivial.add("v5-receive-max-zero")
                return
            if not (st == "OK" and body == "-"):
                self.v("C10", "%s: %s %s" % (what, st, body))
            if r[4] != "-":
                self.alias_max = int(r[4])
            if r[3] != "-":
                self.max = min(int(r[3]), self.limit)
                self.nontrivial.add("v5-receive-max")
            return
        if self.ver == "5" and k == "DISCONNECT":
            if not (st == "ERR" and body == "ServerDisconnect:%s" % (r[1] if len(r) > 1 else "0")):
                self.v("C10", "%s: %s %s (expected ERR ServerDisconnect)" % (what, st, body))
            return
        if not (st == "ERR" and body == "WrongPacket"):
            self.v("C10", "%s: %s %s (expected ERR WrongPacket)" % (what, st, body))

    def clean(self, st, body, evs, what):
        if st != "OK" or not body.startswith("["):
            self.v("C02", "CLEAN: %s %s" % (st, body))
            return
        got = body[1:-1].split()
        pubs = ["PUB:%s:%d:%s:%s" % (q, i, t, p) for i, (q, t, p) in self.unacked.items()]
        park = ["PUB:%s:%d:%s:%s" % (self.parked[1], self.parked[0], self.parked[2], self.parked[3])] if self.parked else []
        rels = ["PUBREL:%d" % i for i in self.released]
        want = pubs + park + rels
        if self.unacked or self.parked or self.released:
            self.nontrivial.add("clean-with-unacked")
        missing = [x for x in want if got.count(x) < want.count(x)]
        extra = [x for x in got if got.count(x) > want.count(x)]
        if missing:
            self.v("C02", "CLEAN returned %s: accepted and not finally acknowledged but not handed back for retransmission: %s" % (got, missing))
        if extra:
            self.v("C11", "CLEAN returned %s: carries %s which is not owed (owed: %s)" % (got, extra, want))
        if self.ver == "4" and self.inorder and not missing and not extra:
            gp = [x for x in got if x.startswith("PUB:")]
            if gp != pubs + park:
                self.v("C11", "CLEAN returned publishes in order %s, original send order is %s" % (gp, pubs + park))
            if len(pubs) > 1 and any(int(a.split(":")[2]) > int(b.split(":")[2]) for a, b in zip(pubs, pubs[1:])):
                self.nontrivial.add("clean-order-across-wrap")
        if evs:
            self.v("C10", "CLEAN queued notifications %s" % evs)
        self.unacked, self.released, self.parked, self.inc2 = {}, [], None, set()
        self.handed_back = list(got)


def monitor_history(lines, answers):
    """lines: op lines of ONE history (first is NEW).  Returns the Mon after feeding all."""
    t = lines[0].split()
    m = Mon(t[1], int(t[2]), int(t[3]))
    for l, a in zip(lines[1:], answers[1:]):
        m.feed(l.split(), a)
    return m


# ----------------------------------------------------------------------------- generators

def exhaustive_alphabet(mx, ver="4"):
    al = ["OUT PUB 1 0 1 1", "OUT PUB 2 0 2 2", "OUT SUB 1"]
    for i in range(1, mx + 1):
        al += ["IN PUBACK %d" % i, "IN PUBREC %d" % i, "IN PUBCOMP %d" % i]
    al += ["IN PUBACK %d" % (mx + 1), "CLEAN"]
    if ver == "5":
        al += ["IN PUBACK 1 128", "IN PUBREC 1 128"]
    return al


def exhaustive_histories(ver, mx, length):
    al = exhaustive_alphabet(mx, ver)
    new = "NEW %s %d 0" % (ver, mx)
    for seq in itertools.product(al, repeat=length):
        yield [new] + list(seq)


def order_histories(ver, mx, length):
    """C11 order across repeated failures: every sequence over {publish QoS1, PUBACK of the oldest
    unacknowledged, RESUME = clean() + exact replay of what it returns} of the given length,
    closed by a final CLEAN.  The replay is predicted by the generator's tracker (rotation at
    last_puback), so outside K29/K30 the expected order of the last clean() is the original send order."""
    def rec(ops, tr, tag, n):
        if n == 0:
            yield ops + ["CLEAN"]
            return
        if tr.coll is None:
            t2 = tag + 1
            tr2 = copy_tracker(tr)
            tr2.publish(1, t2)
            yield from rec(ops + ["OUT PUB 1 0 %d %d" % (t2 % 50, t2)], tr2, t2, n - 1)
        if tr.pub:
            tr2 = copy_tracker(tr)
            i = next(iter(tr2.pub))
            tr2.ack("PUBACK", i)
            yield from rec(ops + ["IN PUBACK %d" % i], tr2, tag, n - 1)
        if tr.pub or tr.coll:
            tr2 = copy_tracker(tr)
            pubs, rels, park = tr2.clean()
            new = ["CLEAN"]
            for (i, q, t) in pubs:
                new.append("OUT PUB %d %d %d %d" % (q, i, t % 50, t)); tr2.publish(q, t, i)
            if park:
                new.append("OUT PUB %d %d %d %d" % (park[1], park[0], park[2] % 50, park[2])); tr2.publish(park[1], park[2], park[0])
            yield from rec(ops + new, tr2, tag, n - 1)
    yield from rec(["NEW %s %d 0" % (ver, mx)], Tracker(mx, ver), 0, length)


def copy_tracker(tr):
    t = Tracker(tr.max, tr.ver)
    t.last, t.limit, t.lp = tr.last, tr.limit, tr.lp
    t.pub, t.rel, t.coll, t.inc2 = dict(tr.pub), list(tr.rel), tr.coll, list(tr.inc2)
    return t


INCOMING_ALPHABET = ["IN PUB 0 0 1 1", "IN PUB 1 {i} 1 1", "IN PUB 2 {i} 1 1", "IN PUBREL {i}", "IN PUBACK {i}", "IN PUBREC {i}",
                     "IN PUBCOMP {i}", "IN SUBACK {i}", "IN UNSUBACK {i}", "IN PINGRESP", "IN PINGREQ", "IN CONNACK 1 0",
                     "IN DISCONNECT", "IN CONNECT", "IN SUB {i} 1", "IN UNSUB {i} 1"]


INCOMING_ALPHABET_V5 = ["IN PUB 0 0 1 1", "IN PUB 1 {i} 1 1", "IN PUB 2 {i} 1 1", "IN PUBREL {i}", "IN PUBREL {i} 146", "IN PUBACK {i}",
                        "IN PUBACK {i} 128", "IN PUBREC {i}", "IN PUBREC {i} 135", "IN PUBCOMP {i}", "IN PUBCOMP {i} 146", "IN SUBACK {i}",
                        "IN UNSUBACK {i}", "IN PINGRESP", "IN PINGREQ", "IN CONNACK 1 0 - -", "IN CONNACK 1 0 1 5", "IN CONNACK 0 135 - -", "IN CONNACK 1 0 0 -", "IN CONNACK 1 0 0 9",
                        "IN DISCONNECT 139", "IN DISCONNECT", "IN CONNECT", "IN SUB {i} 1", "IN UNSUB {i} 1",
                        "IN PUB 1 {i} 0 1 7", "IN PUB 1 {i} 3 1 7", "IN PUB 2 {i} 0 1 8"]


def incoming_histories(ver, mx, length):
    """C10: every incoming packet type x id in {0,1,max,max+1,65535}, manual on/off, after 0-2 publishes."""
    ids = sorted({0, 1, mx, mx + 1, 65535})
    al = []
    for a in (INCOMING_ALPHABET_V5 if ver == "5" else INCOMING_ALPHABET):
        al += sorted({a.format(i=i) for i in ids})
    for manual in (0, 1):
        for pre in ([], ["OUT PUB 1 0 1 1"], ["OUT PUB 2 0 2 2", "OUT PUB 1 0 1 1"]):
            for seq in itertools.product(al, repeat=length):
                yield ["NEW %s %d %d" % (ver, mx, manual)] + pre + list(seq)


class Tracker:
    """Generator-side approximation of which ids the client holds (used only to aim acks;
    never as an oracle)."""

    def __init__(self, mx, ver="4"):
        self.max, self.last, self.limit, self.ver = mx, 0, mx, ver
        self.pub, self.rel, self.coll = {}, [], None
        self.inc2 = []
        self.lp = 0          # v4 last_puback: written by every PUBACK whose id is inside the table

    def next(self):
        n = self.last + 1
        self.last = 0 if n == self.max else n
        return n

    def publish(self, q, t, i=0):
        i = i or self.next()
        if i > self.limit:
            return
        if i in self.pub or i in self.rel:
            self.coll = (i, q, t)
        else:
            self.pub[i] = (q, t)

    def ack(self, kind, i):
        freed = False
        if kind == "PUBACK" and i <= self.limit:
            self.lp = i
        if kind == "PUBACK" and i in self.pub:
            del self.pub[i]; freed = True
        elif kind == "PUBREC" and i in self.pub:
            del self.pub[i]; self.rel.append(i)
        elif kind == "PUBCOMP" and i in self.rel:
            self.rel.remove(i); freed = True
        if freed and self.coll and self.coll[0] == i:
            self.pub[i] = (self.coll[1], self.coll[2]); self.coll = None

    def clean(self):
        rot = list(range(self.lp + 1, self.limit + 1)) + list(range(1, self.lp + 1)) if self.ver == "4" else list(range(1, self.limit + 1))
        pubs = [(i, self.pub[i][0], self.pub[i][1]) for i in rot if i in self.pub]
        rels = sorted(self.rel)
        park = self.coll
        self.pub, self.rel, self.coll, self.inc2 = {}, [], None, []
        return pubs, rels, park


def random_history(rng, ver, style, mx, nops):
    """style: inorder | reorder | hostile | mixed"""
    manual = 1 if rng.chance(1, 6) else 0
    ops = ["NEW %s %d %d" % (ver, mx, manual)]
    tr = Tracker(mx, ver)
    tag = 0
    qos2 = style not in ("inorder", "order") and rng.chance(2, 3)
    while len(ops) < nops:
        r = rng.below(100)
        held = list(tr.pub) + tr.rel
        window_open = len(held) < mx and tr.coll is None
        if r < 40 and (window_open or (style == "hostile" and rng.chance(1, 10)) or (tr.coll is None and rng.chance(1, 3))):
            tag += 1
            q = 2 if (qos2 and rng.chance(1, 3)) else 1
            ops.append("OUT PUB %d 0 %d %d" % (q, tag % 50, tag))
            tr.publish(q, tag)
        elif r < 44 and style == "order":
            ops.append(rng.choice(["OUT PUB 0 0 1 1", "OUT PINGREQ", "IN PINGRESP", "IN PUB 1 1 1 1"]))
        elif r < 44:
            ops.append(rng.choice(["OUT SUB 1", "OUT UNSUB 1", "OUT SUB 2", "OUT PUB 0 0 1 1", "OUT PINGREQ", "IN PINGRESP", "IN SUBACK 1"]))
            if ops[-1].startswith(("OUT SUB", "OUT UNSUB")):
                tr.next()
        elif r < 84 and held:
            if style in ("inorder", "order"):
                i = list(tr.pub)[0] if tr.pub else tr.rel[0]
            else:
                i = rng.choice(held)
            if i in tr.pub:
                q = tr.pub[i][0]
                kind = "PUBACK" if q == 1 else "PUBREC"
                if style in ("hostile", "mixed") and rng.chance(1, 12):
                    kind = rng.choice(["PUBACK", "PUBREC", "PUBCOMP"])
            else:
                kind = "PUBCOMP"
                if style in ("hostile", "mixed") and rng.chance(1, 12):
                    kind = rng.choice(["PUBACK", "PUBREC"])
            suffix = ""
            if ver == "5" and rng.chance(1, 6):
                suffix = " " + (rng.choice(["128", "135", "16"]) if kind in ("PUBACK", "PUBREC") else "146")
                if kind == "PUBREC" and suffix not in (" 16",):
                    tr.ack("PUBACK", i)      # refused: the flow ends
            ops.append("IN %s %d%s" % (kind, i, suffix))
            tr.ack(kind, i)
            if style in ("hostile", "mixed") and rng.chance(1, 8):   # duplicate ack
                ops.append("IN %s %d" % (kind, i))
                tr.ack(kind, i)
        elif r < 90 and style in ("hostile", "mixed"):
            i = rng.choice([0, 1, mx, mx + 1, 65535, 1 + rng.below(mx)])
            i = min(i, 65535)
            kind = rng.choice(["PUBACK", "PUBREC", "PUBCOMP", "PUBREL"])
            ops.append("IN %s %d" % (kind, i))
            tr.ack(kind, i)
        elif r < 95 and style != "order":
            i = rng.choice([1, 2, mx, 1 + rng.below(mx)])
            q = rng.below(3)
            ops.append("IN PUB %d %d 1 1" % (q, i))
            if q == 2:
                tr.inc2.append(i)
            if tr.inc2 and rng.chance(1, 2):
                j = rng.choice(tr.inc2)
                tr.inc2.remove(j)
                ops.append("IN PUBREL %d" % j)
            if manual and q and rng.chance(1, 2):
                ops.append("OUT %s %d" % ("PUBACK" if q == 1 else "PUBREC", i))
        elif r < 98 or (style == "order" and r < 100):
            pubs, rels, park = tr.clean()
            ops.append("CLEAN")
            if style == "order" or rng.chance(3, 4):   # session resumed: replay what clean() should have returned
                for (i, q, t) in pubs:
                    ops.append("OUT PUB %d %d %d %d" % (q, i, t % 50, t))
                    tr.publish(q, t, i)
                for i in rels:
                    ops.append("OUT PUBREL %d" % i)
                    tr.rel.append(i)
                if park:
                    ops.append("OUT PUB %d %d %d %d" % (park[1], park[0], park[2] % 50, park[2]))
                    tr.publish(park[1], park[2], park[0])
        elif ver == "5" and rng.chance(1, 2):
            c = rng.below(5)
            if c == 0:
                rm = rng.choice([0, 1, 2, mx, max(1, mx // 2), 65535])
                ops.append("IN CONNACK 1 0 %d %s" % (rm, rng.choice(["-", "3", "10"])))
                if rm != 0:          # receive-maximum 0 is refused (F37): limit and allocator unchanged
                    tr.max = min(rm, tr.limit)
                    if tr.last >= tr.max:
                        tr.last = 0
            elif c == 1:
                tag += 1
                ops.append("OUT PUB 1 0 %d %d %d" % (tag % 50, tag, rng.choice([1, 3, 4, 11])))
                # (the tracker does not know the alias maximum: it may or may not be accepted)
            elif c == 2:
                ops.append("IN PUB %d %d %d 1 %d" % (rng.below(3), 1 + rng.below(mx), rng.choice([0, 0, 5]), rng.choice([7, 8])))
            elif c == 3:
                ops.append("IN DISCONNECT %s" % rng.choice(["139", "130", "142"]))
            else:
                ops.append("IN PUBREL %d 146" % (1 + rng.below(mx)))
        else:
            ops.append(rng.choice(["OUT DISCONNECT", "IN CONNACK 0 0" if ver == "4" else "IN CONNACK 0 0 - -", "OUT PINGREQ",
                                   "IN PUBACK %d" % min(mx + 1, 65535)]))
    return ops


def corpus_histories(ver, prefix):
    """histories under corpus/client/<prefix>*.txt (witnesses of past findings; always run first)"""
    d = os.path.join(lib.ROOT, "corpus", "client")
    out = []
    for f in sorted(os.listdir(d)) if os.path.isdir(d) else []:
        if not (f.startswith(prefix) and f.endswith(".txt")):
            continue
        cur = None
        for l in open(os.path.join(d, f)).read().splitlines():
            l = l.strip()
            if not l or l.startswith("#"):
                continue
            if l.startswith(("NEW", "LNEW")):
                if cur:
                    out.append(cur)
                cur = [l]
            elif cur is not None:
                cur.append(l)
        if cur:
            out.append(cur)
    if prefix == "state":
        out = [h for h in out if h[0].split()[1] == ver]
    return out


def gen_histories(ctx, ver):
    """yields (group, history) — group names the generator (for the histograms)."""
    th = ctx.thorough()
    for h in corpus_histories(ver, "state"):
        yield "corpus", h
    depths = ((1, 7 if th else 6), (2, 5), (3, 5 if th else 4)) if ver == "4" else ((1, 6 if th else 5), (2, 5 if th else 4), (3, 4))
    for mx, L in depths:
        for h in exhaustive_histories(ver, mx, L):
            yield "exh-max%d-len%d" % (mx, L), h
    for mx in (1, 2, 3):
        for h in incoming_histories(ver, mx, 2 if th else 1):
            yield "incoming-max%d" % mx, h
    if ver == "4":
        for mx, L in ((2, 14 if th else 12), (3, 13 if th else 12)):
            for h in order_histories(ver, mx, L):
                yield "order-max%d-len%d" % (mx, L), h
    rng = lib.Rng(ctx.seed * 1000 + int(ver))
    n = 20000 if th else 3000
    for k in range(n):
        style = ["inorder", "reorder", "hostile", "mixed", "order"][k % 5]
        mx = [1, 2, 3, 4, 5, 10, 100, 65535][rng.below(8)] if k % 3 else [1, 2, 3][rng.below(3)]
        if style == "order":
            mx = [2, 3, 4, 5][rng.below(4)]
        yield "rand-" + style, random_history(rng, ver, style, mx, 30 + rng.below(170 if mx < 65535 else 40))



# ----------------------------------------------------------------------------- the event loop, end to end

LOOP_WIRE = re.compile(r"^(EVENT|ERROR|IDLE)(?: (\S+))? WIRE\[(.*)\]$")


class LoopMon:
    """Monitor of one loop history, fed (op line, implementation answer): the real EventLoop over
    the in-memory transport.  Session-level view: every QoS>0 publish the broker has seen is
    U(nacknowledged) / R(eleased, PUBCOMP outstanding) / A(cknowledged); `cur` are the ids active on
    the current connection.  An acknowledgement written by the broker (NET) takes effect when the
    client's read batch that contains it runs: the POLL answering with the Incoming notification
    of the oldest unread broker packet, or with an error (a batch is at most 9 packets; an
    Unsolicited error stops it at the offending packet)."""

    def __init__(self, mx, ver="4"):
        self.max = mx
        self.ver = ver
        self.limit = mx                # v5: min(receive-maximum of the last CONNACK (absent = 65535), configured limit)
        self.wire_gen = {}             # tag -> number of failures before its publish / release was last written
        self.alias = {}                # v5: tag -> topic alias the user attached to the publish
        self.known = {}                # known-finding id -> text of the first occurrence in this history
        self.viol = []
        self.sent = []                 # tags of accepted user publishes with qos > 0, in order
        self.sent_gen = {}             # tag -> number of failures before it was issued
        self.gen = 0
        self.excuse_point = 0          # publishes sent before the last reconnect WITHOUT session may be dropped
        self.st = {}                   # tag -> ["U"|"R"|"A"|"X", id]
        self.cur = {}                  # id -> tag: active on this connection
        self.resumed = False
        self.netq = []                 # broker packets written on this connection, not yet read: (kind, id)
        self.spurious = False          # an aborted batch held an ack the monitor cannot attribute (see feed)
        self.nontrivial = set()
        # C11 order (MQTT 3.1.1, QoS1 acknowledged in order, outside K29/K30): original send order
        # C10 on the loop: what the broker wrote (FIFO of [connection, packet]) vs the Incoming notifications
        self.wq = []
        self.conn_id = 0
        self.owed_acks = []            # acks owed for inbound QoS1/2 publishes of this connection, in order
        self.alive = False
        self.first = []                # tags in the order they were first put on the wire
        self.order_ok = True           # still inside the class: QoS<=1 only, no SUB/UNSUB, acks in order, session always resumed
        self.conn_last = -1            # original position of the last publish written on this connection
        self.failures = 0

    def v(self, prop, text):
        self.viol.append((prop, text))

    def owed(self):
        """what earlier connections left unacknowledged and this one has not retransmitted yet"""
        return [(tg, x[0], x[1]) for tg, x in self.st.items() if x[0] in "UR" and self.cur.get(x[1]) != tg]

    @staticmethod
    def key(fields):
        """(kind, id) of a broker packet given as its fields; a v5 PUBREC carrying a failure reason
        (>= 128) is its own kind: it ends the flow"""
        kind = fields[0]
        i = int(fields[1]) if len(fields) > 1 and fields[1].isdigit() else 0
        if kind == "PUBREC" and len(fields) > 2 and fields[2].isdigit() and int(fields[2]) >= 128:
            kind = "PUBREC!"
        return (kind, i)

    def apply(self, kind, i):
        """one broker packet processed by the client; False = the client must have refused it"""
        tg = self.cur.get(i)
        x = self.st.get(tg)
        if kind == "PUBREC!":
            # v5: the broker refused the QoS2 publish: no PUBREL, the id is free, the publish is done with
            if x is None or x[0] != "U":
                return False
            x[0] = "A"; del self.cur[i]
            self.nontrivial.add("v5-pubrec-refused")
        elif kind == "PUBACK":
            if x is None or x[0] != "U":
                self.order_ok = False      # a PUBACK that acknowledges nothing moves last_puback
                return False
            oldest = next((g for g in self.first if self.st.get(g, ["A"])[0] == "U"), None)
            if oldest != tg:
                self.order_ok = False      # not acknowledged in order
            x[0] = "A"; del self.cur[i]
        elif kind == "PUBREC":
            if x is None or x[0] != "U":
                return False
            x[0] = "R"
        elif kind == "PUBCOMP":
            if x is None or x[0] != "R":
                return False
            x[0] = "A"; del self.cur[i]
        return True

    def run_batch(self, stop_on_refusal):
        """returns the acks that could not be applied yet: in a batch the client accepted as a whole
        they acknowledge a publish written (collision resolved) earlier in that same batch, which
        the monitor only sees in this poll's WIRE"""
        batch, self.netq = self.netq[:9], self.netq[9:]
        unread = [w for w in self.wq if w[0] == self.conn_id and not w[2]]
        deferred = []
        for k, (kind, i) in enumerate(batch):
            if k < len(unread):
                unread[k][2] = True          # handed to the state machine (surfaced even if it is then refused)
            if not self.apply(kind, i):
                if stop_on_refusal:
                    self.netq = []
                    return []
                deferred.append((kind, i))
        return deferred

    def feed(self, line, ans):
        t = line.split()
        if t[0] == "SEND":
            if t[1] == "PUB" and t[2] != "0" and ans == "OK":
                self.sent.append(t[5]); self.sent_gen[t[5]] = self.gen
                if len(t) > 6 and t[6] != "-":
                    self.alias[t[5]] = int(t[6])
            if t[1] in ("SUB", "UNSUB") or (t[1] == "PUB" and t[2] == "2"):
                self.order_ok = False      # K30 / not a QoS1-only history
            return
        if t[0] in ("NET", "NETAT"):
            body = line[3:] if t[0] == "NET" else line.split(None, 2)[2]
            for part in body.split(";"):
                f = part.split()
                if f:
                    self.netq.append(self.key(f))
                    if self.alive:
                        if len(f) > 1 and f[-1] == "0" and (f[0] == "DISCONNECT" or (len(f) == 3 and f[0] in ("PUBACK", "PUBREC", "PUBREL", "PUBCOMP"))):
                            f = f[:-1]         # reason code 0 is not printed
                        self.wq.append([self.conn_id, ":".join(f), False])      # [connection, packet, read by the client]
                        if f[0] == "PUB" and f[1] in ("1", "2"):
                            self.owed_acks.append("%s:%s" % ("PUBACK" if f[1] == "1" else "PUBREC", f[2]))
                        if len(self.wq) >= 10:
                            self.nontrivial.add("burst-10-or-more")
            return
        if t[0] == "DROP":
            self.alive = False
            return
        if t[0] == "FINISH":
            held = ans[6:-1].split() if ans.startswith("HELD [") else []
            held_tags = {h.split(":")[4] for h in held if h.startswith("PUB:")}
            held_rel = {int(h.split(":")[1]) for h in held if h.startswith("PUBREL:")}
            for k, tag in enumerate(self.sent):
                x = self.st.get(tag)
                if k < self.excuse_point or tag in held_tags or (x and (x[0] in "AKN" or (x[0] == "R" and x[1] in held_rel))):
                    continue
                if self.spurious and x is None:
                    continue
                self.v("C02", "publish with payload %s was accepted, never finally acknowledged, and is not held for retransmission at the end (held: %s)" % (tag, held))
            return
        if t[0] not in ("POLL", "POLLT"):
            return
        if ans.startswith("PANIC"):
            if not getattr(self, "panicked", False):
                self.v("C10", "EventLoop::poll() panicked at `%s` (the last packets the broker wrote: %s)" % (line, [w[1] for w in self.wq][-3:]))
            self.panicked = True
            return
        m = LOOP_WIRE.match(ans)
        if not m:
            if ans not in ("AMBIG", "NOCONN", "DISABLED"):
                self.v("C10", "unparsable loop answer %r" % ans)
            return
        kind, arg, wire = m.group(1), m.group(2), m.group(3).split()
        deferred = []
        if "CONNECT" in wire:
            # this poll connected (v4: it returns the CONNACK; v5: the CONNACK notification is queued
            # behind what the previous connection left unread, and a refused CONNACK is an ERROR)
            self.cur, self.netq = {}, []
            self.conn_id += 1
            self.alive = True
            self.owed_acks = []
            self.conn_last = -1
        if kind == "ERROR" and arg.startswith("ConnFail"):
            # v5: the state machine refused the CONNACK (receive-maximum 0): the connection attempt ends
            # like any failure (fix 6b2911f, F38); its CONNACK notification, already queued, comes out
            # of a later poll and is read for session_present only (see below)
            self.nontrivial.add("v5-connack-refused")
        if kind == "ERROR" and arg.startswith("InvalidAlias:"):
            # v5: handle_outgoing_packet refused a publish whose topic alias exceeds the broker's maximum;
            # select() had already taken the request (from pending or the channel): it is gone.  Requests
            # are taken carried-over first (state.clean() in id order), so the refused one is the carried
            # publish with that alias and the lowest id — class K-C02-v5-alias (an ACCEPTED publish is
            # dropped) — else the oldest publish with that alias that was never on the wire (refused on its
            # first attempt: never accepted, the user gets the error: marked N)
            a = int(arg.split(":")[1])
            carried = sorted((x[1], tg) for tg, x in self.st.items() if x[0] == "U" and self.cur.get(x[1]) != tg and self.alias.get(tg) == a)
            if carried:
                tg = carried[0][1]
                self.st[tg][0] = "K"
                self.known.setdefault("K-C02-v5-alias", "publish with payload %s (id %d, topic alias %d) was carried over and its retransmission was refused with %s: dropped" % (
                    tg, carried[0][0], a, arg))
                self.nontrivial.add("v5-alias-replay-refused")
            else:
                fresh = [tg for tg in self.sent[self.excuse_point:] if tg not in self.st and self.alias.get(tg) == a]
                if fresh:
                    self.st[fresh[0]] = ["N", 0]
                    self.nontrivial.add("v5-alias-refused-first-attempt")
        if kind == "ERROR":
            self.alive = False
            self.owed_acks = []
            if self.netq and arg == "ConnectionAborted":
                # the connection ended right after this batch: the client processed all of it, its
                # replies were never flushed.  An ack the monitor cannot attribute may have hit a
                # publish the client had just recorded under that id (collision resolved inside the
                # batch, write unflushed): a duplicate ack from the broker then acknowledges, for the
                # client, a publish the broker never saw.  That is the broker's doing; the end-of-history
                # C02 check is then limited to publishes the broker has seen.
                if self.run_batch(stop_on_refusal=False):
                    self.spurious = True
            elif self.netq:
                self.run_batch(stop_on_refusal=True)
            self.wq = [w for w in self.wq if w[2]]       # what this connection never read is gone with it
            self.netq = []
            self.gen += 1
            self.failures += 1
            self.nontrivial.add("failure-with-unacked" if self.cur else "failure")
            return
        if kind == "EVENT" and arg.startswith("I(") and not arg.startswith("I(CONNACK:"):
            x = arg[2:-1]
            if self.netq and self.key(x.split(":")) == self.netq[0] and not any(w[2] for w in self.wq):
                deferred = self.run_batch(stop_on_refusal=False)      # this poll ran the read batch
            if self.wq and self.wq[0][1] == x and self.wq[0][2]:
                self.wq.pop(0)
            else:
                self.v("C10", "the client surfaced %s but the next packet the broker wrote is %s: a packet was skipped, repeated or reordered" % (
                    x, self.wq[0][1] if self.wq else "nothing"))
        if kind == "IDLE" and self.alive:
            left = [w[1] for w in self.wq if w[0] == self.conn_id]
            if left:
                self.v("C10", "the loop is idle but %d packets the broker wrote were never surfaced, first %s" % (len(left), left[0]))
                self.wq = []
            if self.owed_acks:
                self.v("C10", "the loop is idle but inbound publishes were not answered: missing %s" % self.owed_acks[:3])
                self.owed_acks = []
        if kind == "EVENT" and arg.startswith("I(CONNACK:"):
            ca = arg[2:-1].split(":")
            if self.ver == "5" and len(ca) > 3 and ca[3] != "0":
                self.limit = self.max if ca[3] == "-" else min(int(ca[3]), self.max)
                if self.limit < self.max:
                    self.nontrivial.add("v5-receive-maximum-lowers-window")
            if arg[10] != "1":
                self.order_ok = False      # K29: the session was not resumed
            if arg[10] == "1":
                self.resumed = True
                if self.owed():
                    self.nontrivial.add("resume-with-unacked")
            else:
                self.excuse_point, self.resumed = len(self.sent), False
                for x in self.st.values():
                    if x[0] in "UR":
                        x[0] = "X"
                self.nontrivial.add("no-session")

        if kind == "EVENT" and arg.startswith("O(AWAITACK:"):
            self.nontrivial.add("loop-collision")
        for w in wire:
            f = w.split(":")
            if f[0] == "PUB" and f[1] != "0":
                i, tag = int(f[2]), f[4]
                if not 1 <= i <= self.max:
                    self.v("C07", "publish %s on the wire with id outside 1..%d" % (w, self.max))
                if i in self.cur:
                    self.v("C07", "%s written while id %d is still unacknowledged on this connection (by payload %s)" % (w, i, self.cur[i]))
                x = self.st.get(tag)
                clash = [(tg, y[0]) for tg, y in self.st.items() if tg != tag and y[0] in "UR" and y[1] == i]
                if clash:
                    self.v("C07", "%s written while id %d still belongs to the unacknowledged %s of payload %s" % (
                        w, i, "release" if clash[0][1] == "R" else "publish", clash[0][0]))
                if x is not None and x[0] == "X":
                    self.v("C11", "%s was sent before the last CONNACK without session (session_present = 0) and is sent again on the new session" % w)
                if x is not None and x[0] in "UR":
                    if x[1] != i:
                        self.v("C11", "%s retransmitted with id %d, originally %d" % (w, i, x[1]))
                else:
                    ow = [o for o in self.owed() if self.wire_gen.get(o[0], -1) < self.sent_gen.get(tag, -1)]
                    if self.resumed and ow and x is None:
                        # retransmit first, over any number of failures: what earlier connections left
                        # unacknowledged (state.clean(), then what was still pending from an unfinished
                        # replay) goes out before every publish that has never been on the wire — whether
                        # the user issued it after the last failure or during an earlier, interrupted replay.
                        # Compared are the owed ones that were last on the wire BEFORE the connection during
                        # (or after) which this publish was issued: those were ahead of it in pending all
                        # along.  (One written on the same connection may legitimately follow it: a parked
                        # publish recorded by an ack inside an aborted read batch was "sent" for the client.)
                        self.v("C11", "publish %s, never sent before (issued by the user after failure number %d of %d), was written on the resumed session before the retransmission of %s" % (
                            w, self.sent_gen.get(tag, -1), self.gen, ow))
                    self.st[tag] = ["U", i]
                self.cur[i] = tag
                self.wire_gen[tag] = self.gen
                if tag not in self.first:
                    self.first.append(tag)
                pos = self.first.index(tag)
                if self.ver == "5":
                    self.order_ok = False      # v5 clean() returns index order (no last_puback): the order clause is v4's (c11_order_v4)
                if self.order_ok and self.failures >= 1 and pos < self.conn_last:
                    self.v("C11", "after %d failure(s) the resumed session sent %s (originally sent as number %d) after a publish originally sent as number %d: not the original order %s" % (
                        self.failures, w, pos + 1, self.conn_last + 1, [g for g in self.first if self.st.get(g, ["A"])[0] in "UR"]))
                if self.order_ok and self.failures >= 2:
                    self.nontrivial.add("order-after-repeated-failure")
                self.conn_last = max(self.conn_last, pos)
                if len(self.cur) > self.limit:
                    self.v("C07", "%d unacknowledged on the wire > limit %d%s" % (
                        len(self.cur), self.limit, " (receive-maximum of the last CONNACK)" if self.limit < self.max else ""))
            elif f[0] in ("PUBACK", "PUBREC"):
                if self.owed_acks and self.owed_acks[0] == w:
                    self.owed_acks.pop(0)
                else:
                    self.v("C10", "%s written, but the next inbound publish waiting for its answer is %s" % (w, self.owed_acks[0] if self.owed_acks else "none"))
            elif f[0] == "PUBREL":
                i = int(f[1])
                for tg, x in self.st.items():
                    if x[0] == "R" and x[1] == i:
                        self.cur[i] = tg
                        self.wire_gen[tg] = self.gen
            while deferred and self.apply(*deferred[0]):
                deferred.pop(0)


def burst_lines():
    return ["BURST %s %d %s" % (v, n, mix) for v in ("4", "5") for n in (1, 8, 9, 10, 11, 19, 20, 21, 25, 40) for mix in ("1", "2", "m")]


def burst_monitor(line, ans):
    """C10 on a read burst (v4 and v5 event loop): every packet the broker wrote in one go is
    surfaced once, in wire order, and every QoS1/2 publish is answered with its PUBACK/PUBREC"""
    t = line.split()
    n, mix = int(t[2]), t[3]
    m = re.match(r"^BURST I\[(.*?)\] W\[(.*?)\] END (.*)$", ans)
    if not m:
        return ["unparsable answer %r" % ans]
    qs = [(1 if mix == "1" else 2 if mix == "2" else k % 3) for k in range(1, n + 1)]
    want_i = ["PUB:%d:%d:%d" % (q, k if q else 0, k) for k, q in zip(range(1, n + 1), qs)]
    want_w = ["CONNECT"] + ["%s:%d" % ("PUBACK" if q == 1 else "PUBREC", k) for k, q in zip(range(1, n + 1), qs) if q]
    v = []
    got_i, got_w = m.group(1).split(), m.group(2).split()
    if got_i != want_i:
        k = next((i for i in range(min(len(got_i), len(want_i))) if got_i[i] != want_i[i]), min(len(got_i), len(want_i)))
        v.append("%s: the broker wrote %d packets at once; the client surfaced %d; first difference at position %d: surfaced %s, written %s" % (
            line, n, len(got_i), k + 1, got_i[k] if k < len(got_i) else "nothing", want_i[k] if k < len(want_i) else "nothing"))
    if got_w != want_w:
        v.append("%s: acknowledgements on the wire %s, expected %s" % (line, got_w[:12], want_w[:12]))
    if m.group(3) != "IDLE":
        v.append("%s: the loop ended with %s" % (line, m.group(3)))
    return v


def gen_loop_history(rng, model, mx, style="mixed", ver="4"):
    """model-guided: the extracted loop model answers each op, the broker script (which acks to
    send) is chosen from what the model says is on the wire; returns (ops, model_answers).
    ver 5: the v5 loop (LNEW5); every CONNACK carries a receive-maximum drawn from
    {absent, 1, 2, max, max+1, 65535, rarely 0 = refused}; acks carry reason codes now and then (a
    PUBREC with a failure reason ends the flow); the server sometimes sends DISCONNECT instead of
    closing the connection."""
    ops, answers = [], []

    def do(op):
        model.stdin.write(op + "\n"); model.stdin.flush()
        a = model.stdout.readline().rstrip("\n")
        ops.append(op); answers.append(a)
        return a

    thr = rng.choice([300, 300, 50, 1000]) if style == "throttle" else 0
    v5 = ver == "5"
    do("%s %d 0%s" % ("LNEW5" if v5 else "LNEW", mx, " %d" % thr if thr else ""))

    def accept(sp):
        if not v5:
            return do("ACCEPT %d" % sp)
        rm = rng.choice(["-", "-", "1", "2", str(mx), str(mx + 1), "65535"])
        if rng.chance(1, 25):
            rm = "0"
        # topic-alias-maximum: absent keeps the previous connection's (0 at first): aliased publishes
        # sent under 10 are carried over to connections that allow 3 or 10
        return do("ACCEPT %d %s %s" % (sp, rm, rng.choice(["10", "10", "3", "-"])))

    def alias():
        """v5, mixed style: now and then the user attaches a topic alias (within / above later maxima)"""
        if v5 and style == "mixed" and rng.chance(1, 5):
            return " %d" % rng.choice([1, 2, 3, 5, 8, 12])
        return ""

    def hangup():
        """the connection ends: the broker closes it, or (v5) announces it with DISCONNECT"""
        if v5 and rng.chance(1, 4):
            return do("NET DISCONNECT %d" % rng.choice([139, 142, 130]))
        return do("DROP")

    def puback(i):
        return "PUBACK %d%s" % (i, " %d" % rng.choice([16, 128, 135]) if v5 and rng.chance(1, 6) else "")

    def pubrec(i):
        """returns (packet, flow ended)"""
        if v5 and rng.chance(1, 4):
            return "PUBREC %d %d" % (i, rng.choice([128, 135, 151])), True
        return "PUBREC %d%s" % (i, " 16" if v5 and rng.chance(1, 8) else ""), False

    def connect(sp):
        """ACCEPT + the poll that connects; a refused CONNACK (receive-maximum 0) ends that attempt:
        accept again with an acceptable one"""
        accept(sp); a = do("POLL"); note(a)
        if a.startswith("ERROR ConnFail"):
            do("ACCEPT %d %s 10" % (sp, rng.choice(["-", "1", str(mx)]))); a = do("POLL"); note(a)
        return a

    unacked, rel, tag = {}, [], 0       # broker view of this connection
    btag = [0]                          # inbound publishes carry unique payload tags

    def note(a):
        m = LOOP_WIRE.match(a)
        if not m:
            return a
        for w in m.group(3).split():
            f = w.split(":")
            if f[0] == "PUB" and f[1] != "0":
                unacked[int(f[2])] = f[1]
            elif f[0] == "PUBREL":
                unacked.pop(int(f[1]), None)
                if int(f[1]) not in rel:
                    rel.append(int(f[1]))
        return m.group(1)

    connect(1)

    def drain():
        for _ in range(60):
            a = do("POLLT %d" % (4 * thr + 7) if thr else "POLL")
            if note(a) in ("IDLE", "AMBIG", "NOCONN", "DISABLED", "ERROR"):
                return a
        return "IDLE"

    steps = 6 + rng.below(14)
    for _ in range(steps):
        r = rng.below(100)
        if style == "throttle":
            # pending_throttle > 0: broker packets (and failures) arrive while a retransmission waits
            if r < 35:
                for _ in range(1 + rng.below(3)):
                    tag += 1
                    do("SEND PUB %d 0 %d %d" % (2 if rng.chance(1, 4) else 1, tag % 50, tag))
                a = drain()
            elif r < 55 and (unacked or rel):
                pk = []
                for i in list(unacked)[:1 + rng.below(2)]:
                    if unacked[i] == "1":
                        pk.append(puback(i)); unacked.pop(i)
                    else:
                        x, ended = pubrec(i)
                        pk.append(x)
                        if ended:
                            unacked.pop(i)
                for i in rel[:1]:
                    pk.append("PUBCOMP %d" % i); rel.remove(i)
                do("NET " + " ; ".join(pk)); a = drain()
            else:
                hangup(); a = drain()
            if a.startswith(("AMBIG", "DISABLED")):
                break
            if a.startswith(("ERROR", "NOCONN")):
                unacked.clear(); del rel[:]
                a = connect(1)
                for _ in range(40):
                    # v5: the notifications the old connection left unread (incl. the CONNACK of a refused
                    # attempt), then the CONNACK, come out first (no time passes): the scheduled broker
                    # writes below start after them
                    if not v5 or (a.startswith("EVENT I(CONNACK") and a.split()[1].split(":")[3] != "0") or not a.startswith("EVENT"):
                        break
                    a = do("POLL"); note(a)
                # the broker talks during the throttle waits of the resumed session
                for _ in range(1 + rng.below(3)):
                    btag[0] += 1
                    d = rng.choice([thr // 3, thr // 2 + 1, thr - 1, 1]) if thr > 2 else 1
                    do("NETAT %d PUB 0 0 %d %d" % (d, btag[0] % 50, 100000 + btag[0]))
                    a = do("POLLT %d" % (4 * thr + 7)); note(a)
                    if a.startswith(("AMBIG", "DISABLED", "ERROR")):
                        break
                if a.startswith(("AMBIG", "DISABLED")):
                    break
                drain()
            continue
        if style == "order":
            # QoS1 only, acks of the oldest first, session always resumed, failures also while replaying
            if r < 40:
                for _ in range(1 + rng.below(3)):
                    tag += 1
                    do("SEND PUB 1 0 %d %d" % (tag % 50, tag))
                a = drain()
            elif r < 65 and unacked:
                do("NET " + " ; ".join("PUBACK %d" % i for i in list(unacked)[:1 + rng.below(2)]))
                for i in list(unacked)[:len(ops[-1].split(";"))]:
                    unacked.pop(i)
                a = drain()
            else:
                hangup()
                a = drain()
            if a.startswith(("AMBIG", "DISABLED")):
                break
            if a.startswith(("ERROR", "NOCONN")):
                unacked.clear(); del rel[:]
                connect(1)
                for _ in range(rng.below(4)):          # replay partly ...
                    a = do("POLL"); note(a)
                if rng.chance(1, 2):                   # ... the user goes on publishing (those wait in the channel) ...
                    for _ in range(1 + rng.below(2)):
                        tag += 1
                        do("SEND PUB 1 0 %d %d" % (tag % 50, tag))
                if rng.chance(1, 2):                   # ... and fail again before any PUBACK
                    hangup(); a = drain()
                    if a.startswith("ERROR"):
                        unacked.clear(); del rel[:]
                        connect(1)
                drain()
            continue
        if style == "burst" or r >= 97:
            # many broker packets readable in ONE poll: the 10-packet read batch and beyond
            n = rng.choice([9, 10, 11, 20, 25])
            pk = []
            for i in list(unacked)[:rng.below(3)]:
                if unacked[i] == "1":
                    pk.append("PUBACK %d" % i); unacked.pop(i)
            mix = rng.below(4)
            while len(pk) < n:
                btag[0] += 1
                q = [1, 2, rng.below(3), 1 + rng.below(2)][mix]
                pk.append("PUB %d %d %d %d" % (q, (btag[0] % 60000) + 1 if q else 0, btag[0] % 50, 100000 + btag[0]))
            do("NET " + " ; ".join(pk))
            if rng.chance(1, 8):
                do("DROP")
            a = drain()
            if style == "burst" and rng.chance(1, 2):
                tag += 1
                do("SEND PUB 1 0 %d %d" % (tag % 50, tag)); a = drain()
        elif r < 45:
            for _ in range(1 + rng.below(3)):
                tag += 1
                kind = rng.below(10)
                if kind == 0:
                    do("SEND SUB")
                elif kind == 1:
                    do("SEND PUB 0 0 %d %d" % (tag % 50, tag))
                else:
                    do("SEND PUB %d 0 %d %d%s" % (2 if rng.chance(1, 3) else 1, tag % 50, tag, alias()))
            a = drain()
        elif r < 80 and (unacked or rel):
            pk = []
            ids = list(unacked)
            if rng.chance(1, 2):
                ids = ids[::-1]
            for i in ids[:1 + rng.below(3)]:
                if unacked[i] == "1":
                    pk.append(puback(i)); unacked.pop(i)
                else:
                    x, ended = pubrec(i)
                    pk.append(x)
                    if ended:
                        unacked.pop(i)
            for i in rel[:rng.below(3)]:
                pk.append("PUBCOMP %d" % i); rel.remove(i)
            if rng.chance(1, 10):
                pk.append("PUBACK %d" % (1 + rng.below(mx)))     # maybe unsolicited
            if not pk:
                continue
            do("NET " + " ; ".join(pk))
            if rng.chance(1, 6):
                do("DROP")
            a = drain()
        elif r < 95:
            hangup()
            a = drain()
        else:
            a = drain()
        if a.startswith(("AMBIG", "DISABLED")):
            break
        if a.startswith("ERROR") or a.startswith("NOCONN"):
            unacked.clear(); del rel[:]
            a = connect(0 if rng.chance(1, 6) else 1)
            if rng.chance(1, 5):      # second failure before pending is drained, maybe with user requests in the channel
                note(do("POLL"))
                if rng.chance(1, 2):
                    tag += 1
                    do("SEND PUB %d 0 %d %d" % (2 if rng.chance(1, 3) else 1, tag % 50, tag))
                do("DROP"); a = drain()
                if a.startswith("ERROR"):
                    unacked.clear(); del rel[:]
                    connect(1)
            drain()
    do("FINISH")
    return ops, answers


LOOP_CUT = ("AMBIG", "NOCONN", "DISABLED", "PANIC")


def loop_family_moves(ver):
    """the alphabet of the exhaustive loop families: (op, session_present of the reconnect that
    follows a failure, receive-maximum and topic-alias-maximum of that CONNACK)"""
    mv = [("SEND PUB 1 0 1 {t}", 1, "-", "10"), ("SEND PUB 2 0 1 {t}", 1, "-", "10"), ("NET PUBACK 1", 1, "-", "10"), ("NET PUBACK 2", 1, "-", "10"),
          ("NET PUBREC 1", 1, "-", "10"), ("NET PUBCOMP 1", 1, "-", "10"), ("DROP", 1, "-", "10"), ("DROP", 0, "-", "10")]
    if ver == "5":
        mv += [("NET PUBREC 1 128", 1, "-", "10"), ("DROP", 1, "1", "10"), ("NET DISCONNECT 139", 1, "-", "10"),
               ("SEND PUB 1 0 1 {t} 5", 1, "-", "10"), ("DROP", 1, "-", "3")]
    return mv


def loop_family(model, ver, mx, k):
    """exhaustive small family, model-guided only in where it stops polling: every sequence of k
    moves of [loop_family_moves]; after each move the loop is polled until it is idle or fails; a
    failed connection is re-accepted (with the move's session_present / receive-maximum)"""
    import itertools
    v5 = ver == "5"
    for seq in itertools.product(loop_family_moves(ver), repeat=k):
        ops, answers = [], []

        def do(op):
            model.stdin.write(op + "\n"); model.stdin.flush()
            a = model.stdout.readline().rstrip("\n")
            ops.append(op); answers.append(a)
            return a

        def settle():
            a = "IDLE"
            for _ in range(8):
                a = do("POLL")
                if a.startswith(("IDLE", "ERROR") + LOOP_CUT):
                    break
            return a

        do("%s %d 0" % ("LNEW5" if v5 else "LNEW", mx))
        do("ACCEPT 1 - 10" if v5 else "ACCEPT 1"); settle()
        tag = 0
        for (op, sp, rm, tam) in seq:
            tag += 1
            do(op.format(t=tag))
            a = settle()
            if a in LOOP_CUT:
                break
            if a.startswith("ERROR"):
                do("ACCEPT %d%s" % (sp, " %s %s" % (rm, tam) if v5 else ""))
                a = settle()
                if a in LOOP_CUT:
                    break
        do("FINISH")
        yield ops, answers


def loop_renegotiate_family(model):
    """v5 only: a CONNACK that lowers receive-maximum below the id of a publish still unacknowledged,
    then a second failure before it is acknowledged (clean() must hand back slots above the negotiated
    limit too): max_inflight mx, mx publishes, the first a acknowledged, failure, resume with
    receive-maximum rm < mx, j more acks, second failure, resume, everything acknowledged"""
    for mx in (2, 3, 4):
        for q2 in (0, 1):
            for a in range(mx):
                for rm in range(1, mx):
                    for j in range(0, 3):
                        for rm2 in ("-", "1"):
                            ops, answers = [], []

                            def do(op):
                                model.stdin.write(op + "\n"); model.stdin.flush()
                                x = model.stdout.readline().rstrip("\n")
                                ops.append(op); answers.append(x)
                                return x

                            wire = []

                            def settle():
                                x = "IDLE"
                                for _ in range(12):
                                    x = do("POLL")
                                    m = LOOP_WIRE.match(x)
                                    if m:
                                        wire.extend(w for w in m.group(3).split() if w.startswith(("PUB:", "PUBREL:")))
                                    if x.startswith(("IDLE", "ERROR") + LOOP_CUT):
                                        break
                                return x

                            def ack_next(n):
                                """acknowledge up to n of what is on the wire of this connection, oldest first"""
                                for _ in range(n):
                                    if not wire:
                                        return
                                    f = wire.pop(0).split(":")
                                    if f[0] == "PUBREL":
                                        do("NET PUBCOMP %s" % f[1])
                                    elif f[1] == "1":
                                        do("NET PUBACK %s" % f[2])
                                    else:
                                        do("NET PUBREC %s" % f[2])
                                    settle()

                            do("LNEW5 %d 0" % mx); do("ACCEPT 1"); settle()
                            for t in range(1, mx + 1):
                                do("SEND PUB %d 0 1 %d" % (2 if q2 and t == mx else 1, t))
                            settle(); ack_next(a)
                            do("DROP"); settle(); del wire[:]
                            do("ACCEPT 1 %d" % rm); settle(); ack_next(j)
                            do("DROP"); settle(); del wire[:]
                            do("ACCEPT 1 %s" % rm2); settle()
                            for _ in range(3 * mx):
                                if not wire:
                                    break
                                ack_next(1)
                            do("FINISH")
                            yield mx, ops, answers


def loop_replay_cut_family(model, ver):
    """retransmit first over REPEATED failures: n publishes (the last one QoS2 or not) unacknowledged,
    failure, resume, the replay is cut after r retransmissions (POLL pacing) while the user has put u
    new publishes into the channel (pending_throttle 300 ms holds the rest of the replay back, so the failure
    that follows is not racing the request arm), second failure (optionally a third, after r2 more), resume, all
    acknowledged in order; max_inflight from below n to above n+u"""
    v5 = ver == "5"
    for mx in (2, 3, 10):
        for n in (2, 3):
            for q2 in (0, 1):
                for r in range(0, n + 1):
                    for u in (1, 2):
                        for r2 in (None, 0, 1):
                            ops, answers = [], []

                            def do(op):
                                model.stdin.write(op + "\n"); model.stdin.flush()
                                x = model.stdout.readline().rstrip("\n")
                                ops.append(op); answers.append(x)
                                return x

                            wire = []

                            def poll():
                                x = do("POLLT 301")
                                m = LOOP_WIRE.match(x)
                                if m:
                                    wire.extend(w for w in m.group(3).split() if w.startswith(("PUB:", "PUBREL:")))
                                return x

                            def settle():
                                x = "IDLE"
                                for _ in range(14):
                                    x = poll()
                                    if x.startswith(("IDLE", "ERROR") + LOOP_CUT):
                                        break
                                return x

                            acc = "ACCEPT 1 - 10" if v5 else "ACCEPT 1"
                            do("%s %d 0 300" % ("LNEW5" if v5 else "LNEW", mx)); do(acc); settle()
                            tag = 0
                            for _ in range(n):
                                tag += 1
                                do("SEND PUB %d 0 1 %d" % (2 if q2 and tag == n else 1, tag))
                            settle()
                            do("DROP"); settle(); del wire[:]
                            do(acc); poll()
                            for _ in range(r):
                                poll()
                            for _ in range(u):
                                tag += 1
                                do("SEND PUB 1 0 1 %d" % tag)
                            do("DROP"); settle(); del wire[:]
                            if r2 is not None:
                                do(acc); poll()
                                for _ in range(r2):
                                    poll()
                                tag += 1
                                do("SEND PUB 1 0 1 %d" % tag)
                                do("DROP"); settle(); del wire[:]
                            do(acc); settle()
                            for _ in range(4 * (n + u + 1)):
                                if not wire:
                                    break
                                f = wire.pop(0).split(":")
                                do("NET PUBCOMP %s" % f[1] if f[0] == "PUBREL" else ("NET PUBACK %s" % f[2] if f[1] == "1" else "NET PUBREC %s" % f[2]))
                                settle()
                            do("FINISH")
                            yield mx, ops, answers


def loop_run(ctx, mexe):
    """end-to-end: the real EventLoop, v4 and v5 (harness bin clientloop) vs Client/Loop.v and
    Client/Loop5.v, plus the loop monitors on the implementation's answers"""
    import subprocess
    res = {"histories": 0, "ops": 0, "div": [], "viol": {p: [] for p in SHARED}, "nontrivial": {}, "built": False,
           "truncated": 0, "samples": [], "by_version": {"4": 0, "5": 0}, "groups": {}, "nontrivial_v5": {}, "known": {}}
    lexe, out = lib.cargo_driver("clientloop")
    if os.environ.get("VERIF_CLIENTLOOP_IMPL"):
        lexe = os.environ["VERIF_CLIENTLOOP_IMPL"]
    if not lexe:
        res["build_error"] = out[-2000:]
        return res
    res["built"] = True
    th = ctx.thorough()
    n = 3000 if th else 400
    model = subprocess.Popen([mexe, "loop"], stdin=subprocess.PIPE, stdout=subprocess.PIPE, text=True, bufsize=1)
    hs = []          # (version, max, group, ops, model answers)

    def keep(ver, mx, group, ops, mans):
        # never compare past a point where the real select! may legitimately choose differently
        cut = next((i for i, a in enumerate(mans) if a in LOOP_CUT), None)
        if cut is not None:
            ops, mans = ops[:cut], mans[:cut]
            res["truncated"] += 1
        hs.append((ver, mx, group, ops, mans))

    for ver in VERSIONS:
        rng = lib.Rng(ctx.seed * 7 + 5 + (0 if ver == "4" else 1000003))
        for k in range(n):
            mx = [1, 1, 2, 2, 3, 5][rng.below(6)]
            style = "order" if k % 3 == 2 else ("burst" if k % 6 == 1 else ("throttle" if k % 6 == 3 else "mixed"))
            if style == "order":
                mx = [2, 3, 3, 4][rng.below(4)]
            ops, mans = gen_loop_history(rng, model, mx, style, ver)
            keep(ver, mx, "rand-" + style, ops, mans)
        for (mx, k) in ([(1, 4), (2, 4)] if th else [(1, 3), (2, 3)]):
            for ops, mans in loop_family(model, ver, mx, k):
                keep(ver, mx, "exhaustive-max%d-moves%d" % (mx, k), ops, mans)
    for mx, ops, mans in loop_renegotiate_family(model):
        keep("5", mx, "renegotiate-then-second-failure", ops, mans)
    for ver in VERSIONS:
        for mx, ops, mans in loop_replay_cut_family(model, ver):
            keep(ver, mx, "replay-cut-by-second-failure", ops, mans)
    model.stdin.close(); model.wait()
    kdir = os.path.join(lib.ROOT, "corpus", "known")
    for f in sorted(os.listdir(kdir)) if os.path.isdir(kdir) else []:
        # witnesses of the client's known findings: run every time, so the KNOWN-FINDING line is
        # printed as long as the behaviour is there
        if f.startswith("k-c02-v5") and f.endswith(".txt"):
            h = [l.strip() for l in open(os.path.join(kdir, f)).read().splitlines() if l.strip() and not l.startswith("#")]
            rc0, mans, _ = lib.run_on_text(mexe, "\n".join(h) + "\n", args=["loop"])
            if rc0 == 0 and len(mans) == len(h):
                keep("5", int(h[0].split()[1]), "known-witness", h, mans)
    for ver, prefix in (("4", "loop"), ("5", "loop5")):
        for h in corpus_histories(ver, prefix):
            if ver == "4" and not h[0].startswith("LNEW "):
                continue
            rc0, mans, _ = lib.run_on_text(mexe, "\n".join(h) + "\n", args=["loop"])
            if rc0 == 0 and len(mans) == len(h):
                cut = next((i for i, a in enumerate(mans) if a in LOOP_CUT), None)
                if cut is not None:
                    h, mans = h[:cut], mans[:cut]
                hs.insert(0, (ver, int(h[0].split()[1]), "corpus", h, mans))
    text = "\n".join("\n".join(ops) for (_, _, _, ops, _) in hs) + "\n"
    rc, impl, err = lib.run_on_text(lexe, text)
    total = sum(len(ops) for (_, _, _, ops, _) in hs)
    if rc != 0 or len(impl) != total:
        res["driver_failure"] = "clientloop exit %d, %d/%d lines\n%s" % (rc, len(impl), total, err[-1000:])
        return res
    pos = 0
    nsamp = {"4": 0, "5": 0}
    for (ver, mx, group, ops, mans) in hs:
        a = impl[pos:pos + len(ops)]; pos += len(ops)
        res["histories"] += 1; res["ops"] += len(ops)
        res["by_version"][ver] += 1
        g = "v%s-%s" % (ver, group)
        res["groups"][g] = res["groups"].get(g, 0) + 1
        if a != mans and len(res["div"]) < 5:
            k = next(i for i in range(len(ops)) if a[i] != mans[i])
            res["div"].append({"history": ops[:k + 1], "impl": a[k], "model": mans[k], "version": ver})
        mon = LoopMon(mx, ver)
        for o, x in zip(ops, a):
            mon.feed(o, x)
        for tg in mon.nontrivial:
            res["nontrivial"][tg] = res["nontrivial"].get(tg, 0) + 1
            if ver == "5":
                res["nontrivial_v5"][tg] = res["nontrivial_v5"].get(tg, 0) + 1
        for kid, txt in mon.known.items():
            e = res["known"].setdefault(kid, {"count": 0, "history": ops, "text": txt})
            e["count"] += 1
            if len(ops) < len(e["history"]):
                e["history"], e["text"] = ops, txt
        for (p, txt) in mon.viol:
            if len(res["viol"][p]) < 200:
                res["viol"][p].append({"history": ops, "text": ("(v5 event loop) " if ver == "5" else "") + txt})
        if nsamp[ver] < 1 and len(ops) > 25 and group.startswith("rand"):
            nsamp[ver] += 1
            res["samples"].append({"version": ver, "ops": ops[:40], "impl_answers": a[:40]})
    # read bursts through the v4 and the v5 event loop
    bl = burst_lines()
    rcb, bans, _ = lib.run_on_text(lexe, "\n".join(bl) + "\n")
    res["bursts"] = len(bl)
    if rcb != 0 or len(bans) != len(bl):
        res["driver_failure"] = "clientloop failed on the BURST scenarios (exit %d, %d/%d lines)" % (rcb, len(bans), len(bl))
        return res
    for l, a in zip(bl, bans):
        for txt in burst_monitor(l, a):
            res["viol"]["C10"].append({"history": [l], "text": txt})
    return res


# ----------------------------------------------------------------------------- C18: keep-alive, end to end

KA_LINE = re.compile(r"^KA C@(\S+) PINGS\[(.*?)\] RESPS\[(.*?)\] END (ERROR (\S+)|HORIZON)@(\d+)$")
KR_LINE = re.compile(r"^KAR PINGS1\[(.*?)\] ERR1 (\S+)@(\d+) C2@(\S+) PINGS2\[(.*?)\] END (ERROR (\S+)|HORIZON)@(\d+)$")
KC_LINE = re.compile(r"^KACONN (CONNECTED|ERROR (\S+))@(\d+)$")

C18_ASSUMPTIONS = [
    "time is tokio's paused virtual clock; the event loop is polled continuously (the theorems' 'prompt polling' hypothesis); the scripted broker sits on the in-memory transport hook",
    "PARTIAL: tokio's timer wheel, the order tokio's select! picks when the keep-alive timer and a PINGRESP are ready at the same instant, and real-time scheduling delays are not modelled. "
    "Measured with the driver: a PINGRESP that becomes readable at exactly t + keep_alive races with the timer arm (both outcomes observed, about half each); a reply produced in that very instant loses; "
    "the timer is reset to now + keep_alive when the arm RUNS, so under real time every gap is keep_alive + the polling latency (model: ex_late_poll_shifts_period)",
    "a handshake completing at exactly connection_timeout races with the timeout (observed: NetworkTimeout); only the strict cases are claimed",
    "StateError::CollisionTimeout (second timer firing while a packet id collision is parked) is a different failure and is carved out (c18_collision_timeout_distinct)",
    "v5: MqttOptions::set_keep_alive rejects values below 5 s at configuration time (assert), so keep-alive 0 cannot be configured; the server can still assign any value, "
    "0 included, through CONNACK Server Keep Alive (0 turns keep-alive off since fix: commit 30fc7fa)",
]


def c18_scenarios(ctx):
    """(line, spec) — spec tells the monitor what the broker script was"""
    th = ctx.thorough()
    rng = lib.Rng(ctx.seed * 13 + 18)
    out = []

    def ka(ver, ka_ms, delays, silent, traffic, period, horizon, ska=None, race=False):
        line = "KA %s %d %s %d %s %d %d" % (ver, ka_ms, ",".join(str(d) for d in delays), silent, traffic, period, horizon)
        if ska is not None:
            line += " %d" % ska
        eff = ska * 1000 if ska is not None else ka_ms
        out.append((line, {"kind": "ka", "ver": ver[0], "ka": eff, "delays": delays, "silent": silent, "traffic": traffic, "horizon": horizon, "race": race}))

    for ver, kas in (("4", (1000, 5000, 60000)), ("5", (5000, 60000))):
        for K in kas:
            hz = lambda n: n * K + K // 16 + 7          # never on the timer grid
            for traffic, period in (("none", 1000), ("up", K // 7 + 3), ("down", K // 5 + 1)):
                for j in range(8):                       # the reply-delay grid 0, KA/8, ..., 7KA/8
                    ka(ver, K, [j * K // 8], 0, traffic, period, hz(6))
                for d in (K - 1, K + 1, K + K // 8, 2 * K, 5 * K // 2):   # just in time / too late
                    ka(ver, K, [d], 0, traffic, period, hz(6))
                for silent in (1, 2, 3, 5):              # the broker goes silent from that ping on
                    ka(ver, K, [K // 8, 7 * K // 8, 0], silent, traffic, period, hz(silent + 4))
            ka(ver, K, [K], 0, "none", 1000, hz(6), race=True)            # reply at exactly KA: a race, not compared
            # the inflight window stays FULL (max_inflight 1 / 2, that many QoS1 publishes never acknowledged),
            # or a publish stays parked on a packet id collision, across every keep-alive expiry: the ping
            # does not wait for flow control
            for traffic in ("full1", "full2"):
                for d in (0, K // 8, 7 * K // 8):
                    ka(ver, K, [d], 0, traffic, 1000, hz(5))
                for silent in (1, 2, 3):
                    ka(ver, K, [K // 8], silent, traffic, 1000, hz(silent + 3))
                ka(ver, K, [K + 1], 0, traffic, 1000, hz(5))
            for silent in (0, 1, 2):
                ka(ver, K, [K // 8], silent, "coll", 1000, hz(5))
    # keep-alive 0 (v4 option; v5: assigned by the server) over a long virtual time
    for traffic in ("none", "up", "down"):
        ka("4", 0, [100], 0, traffic, 977, 3_600_000)
        ka("5", 5000, [100], 0, traffic, 977, 3_600_000, ska=0)
    ka("5", 5000, [250], 0, "none", 1000, 21_000, ska=2)                 # server keep alive below the client-side minimum
    ka("5", 5000, [250], 3, "down", 611, 40_000, ska=3)
    # a PINGRESP written in the same instant as other broker traffic (same read batch)
    for K in (1000, 5000):
        ka("4", K, [K // 4], 0, "down", K // 4, 6 * K + K // 16 + 7)
        ka("5" if K >= 5000 else "4", K, [K // 2, K // 4], 4, "down", K // 4, 8 * K + K // 16 + 7)
    for k in range(3000 if th else 600):                                 # random mixes of delays
        ver = "4" if k % 3 else "5"
        K = rng.choice([1000, 5000, 60000] if ver == "4" else [5000, 60000])
        n = 1 + rng.below(5)
        delays = [rng.below(K) if rng.chance(5, 6) else K + 1 + rng.below(K) for _ in range(n)]
        silent = 0 if rng.chance(2, 3) else 1 + rng.below(8)
        traffic = rng.choice(["none", "up", "down"])
        ka(ver, K, delays, silent, traffic, 50 + rng.below(K), (4 + rng.below(8)) * K + K // 16 + 3)
    # keep-alive across a reconnection: the previous connection ended with a PINGREQ outstanding
    for ver, kas in (("4", (1000, 5000, 60000)), ("5", (5000, 60000))):
        for K in kas:
            for first in ("silent", "drop@%d" % (K + K // 2), "drop@%d" % (K + 1), "drop@%d" % (2 * K - 1), "drop@%d" % (K // 2)):
                out.append(("KAR %s %d %s %d" % (ver, K, first, 7 * K + K // 16 + 7), {"kind": "kar", "ka": K, "first": first, "race": False}))
    for ver in ("4", "5"):
        for tm in (1, 2, 5):
            for h in ("never", str(tm * 1000 - 1), str(tm * 500), "0", str(tm * 1000 + 1), str(tm * 3000)):
                out.append(("KACONN %s %d %s" % (ver, tm, h), {"kind": "conn", "tm": tm * 1000, "h": None if h == "never" else int(h), "race": False}))
            out.append(("KACONN %s %d %d" % (ver, tm, tm * 1000), {"kind": "conn", "tm": tm * 1000, "h": tm * 1000, "race": True}))
    return out


def c18_monitor(line, spec, ans):
    """the property, on the real loop's timeline.  Returns (violations, triggers)."""
    v, trig = [], set()
    if spec["kind"] == "kar":
        m = KR_LINE.match(ans)
        if not m:
            return ["unparsable answer %r" % ans], trig
        K, first = spec["ka"], spec["first"]
        p1 = [int(x) for x in m.group(1).split()]
        e1, t1 = m.group(2), int(m.group(3))
        trig.add("reconnect-after-" + ("unanswered-ping" if first == "silent" or (p1 and first != "silent") else "drop"))
        if first == "silent":
            if not (p1 == [K] and e1 == "AwaitPingResp" and t1 == 2 * K):
                v.append("silent broker: expected one PINGREQ at %d and AwaitPingResp at %d, got %s" % (K, 2 * K, ans))
        else:
            d = int(first[5:])
            if not (e1 == "ConnectionAborted" and t1 == d and p1 == [x for x in (K,) if x < d]):
                v.append("connection closed at %d: expected ConnectionAborted then, got %s" % (d, ans))
        if m.group(4) == "-":
            v.append("the client never reconnected: %s" % ans)
            return v, trig
        c2 = int(m.group(4))
        p2 = [int(x) for x in m.group(5).split()]
        end = int(m.group(8))
        if m.group(7):
            v.append("after the reconnection every PINGREQ is answered within %d ms, yet poll() returned %s at %d (PINGREQs on the new connection: %s)" % (
                K // 8, m.group(7), end, p2))
        want = list(range(c2 + K, end + 1, K))
        if not m.group(7) and p2 != want:
            v.append("new connection established at %d: PINGREQs at %s, expected %s" % (c2, p2, want))
        if len(p2) >= 3:
            trig.add("three-round-trips-after-reconnect")
        return v, trig
    if spec["kind"] == "conn":
        m = KC_LINE.match(ans)
        if not m:
            return ["unparsable answer %r" % ans], trig
        if spec["race"]:
            return v, trig
        tm, h = spec["tm"], spec["h"]
        if h is not None and h < tm:
            if not (m.group(1) == "CONNECTED" and int(m.group(3)) == h):
                v.append("handshake completed at %d < connection_timeout %d but poll() answered %s" % (h, tm, ans))
        else:
            trig.add("connect-timeout")
            if not (m.group(2) == "NetworkTimeout" and int(m.group(3)) == tm):
                v.append("handshake %s, connection_timeout %d: expected NetworkTimeout at %d, got %s" % ("never completes" if h is None else "takes %d" % h, tm, tm, ans))
        return v, trig
    m = KA_LINE.match(ans)
    if not m:
        return ["unparsable answer %r" % ans], trig
    if spec["race"]:
        return v, trig
    c = int(m.group(1)) if m.group(1) != "-" else None
    pings = [int(x) for x in m.group(2).split()]
    resps = [int(x) for x in m.group(3).split()]
    err, end = m.group(5), int(m.group(6))
    K, delays, silent = spec["ka"], spec["delays"], spec["silent"]
    if c is None:
        return ["the connection was never established: %s" % ans], trig
    if K == 0:
        trig.add("keep-alive-zero")
        if pings or err:
            v.append("keep-alive 0 yet %s" % ans)
        return v, trig
    if spec["traffic"] in ("full1", "full2"):
        trig.add("window-full-across-keep-alive-expiry")
    elif spec["traffic"] == "coll":
        # the carve-out the property names: a publish parked on a packet id collision for two timer
        # firings is reported as CollisionTimeout at the second one, answered pings or not; the first
        # ping still goes out on time
        trig.add("collision-parked-across-keep-alive-expiry")
        if pings != [c + K]:
            v.append("collision parked: expected exactly one PINGREQ, at %d, got %s" % (c + K, pings))
        if err != "CollisionTimeout" or end != c + 2 * K:
            v.append("collision parked since %d: expected CollisionTimeout at the second timer firing (%d), got %s at %d" % (c, c + 2 * K, err or "no error", end))
        return v, trig
    elif spec["traffic"] != "none":
        trig.add("one-way-traffic-" + spec["traffic"])
    # at least one PINGREQ per interval: the first KA after the connection, then every KA
    prev = c
    for t in pings:
        if t - prev > K:
            v.append("no PINGREQ between %d and %d (keep-alive %d): gap %d" % (prev, t, K, t - prev))
        elif t - prev != K:
            v.append("PINGREQ at %d, %d after the previous one; the model says exactly every %d" % (t, t - prev, K))
        prev = t
    last = err and end or end
    if not err and end - prev > K:
        v.append("no PINGREQ between %d and the end of the run at %d (keep-alive %d)" % (prev, end, K))
    # which ping is the first the broker does not answer in time
    first_bad = None
    for k in range(1, 10000):
        d = delays[(k - 1) % len(delays)]
        if (silent and k >= silent) or d >= K:
            first_bad = k
            break
        if c + k * K > spec["horizon"]:
            break
    if first_bad is None or c + (first_bad + 1) * K > spec["horizon"]:
        if err:
            v.append("every PINGREQ was answered within the interval, yet poll() returned %s at %d" % (err, end))
        trig.add("all-answered-in-time")
    else:
        t_bad = c + first_bad * K
        trig.add("broker-silent" if (silent and first_bad >= silent) else "reply-too-late")
        if err != "AwaitPingResp":
            v.append("the PINGREQ written at %d got no PINGRESP within %d ms, yet the run ended with %s at %d" % (t_bad, K, err or "no error", end))
        else:
            if end != t_bad + K:
                v.append("unanswered PINGREQ at %d: failure reported at %d, expected %d" % (t_bad, end, t_bad + K))
            # the broker stopped answering after its last in-time reply (or was never heard)
            in_time = [r for r in resps if r < t_bad]
            s_silent = max(in_time) if in_time else c
            if end > s_silent + 2 * K:
                v.append("broker silent from %d, failure only reported at %d > %d" % (s_silent, end, s_silent + 2 * K))
    return v, trig


def c18_spec_of_line(l):
    t = l.split()
    if t[0] == "KAR":
        return {"kind": "kar", "ka": int(t[2]), "first": t[3], "race": False}
    if t[0] == "KA":
        return {"kind": "ka", "ver": t[1][0], "ka": (int(t[8]) * 1000 if len(t) > 8 else int(t[2])), "delays": [int(x) for x in t[3].split(",")],
                "silent": int(t[4]), "traffic": t[5], "horizon": int(t[7]), "race": t[1].endswith("b")}
    return {"kind": "conn", "tm": int(t[2]) * 1000, "h": None if t[3] == "never" else int(t[3]), "race": False}


def run_c18(ctx):
    p_ok = ctx.proof_side(["Extract/ClientX.vo"])
    ctx.assumptions += C18_ASSUMPTIONS
    mexe, iexe, out = drivers()
    lexe, lout = lib.cargo_driver("clientloop")
    if os.environ.get("VERIF_CLIENTLOOP_IMPL"):
        lexe = os.environ["VERIF_CLIENTLOOP_IMPL"]
    if not mexe or not lexe:
        ctx.violation("tie-broken", "the loop driver / model driver no longer builds against /repo:\n" + ((out or "") + (lout or ""))[-3000:], False,
                      "harness build failed; correspondence EventLoop keep-alive (impl) = Client.KeepAlive not checked")
        return
    sc = c18_scenarios(ctx)
    d = os.path.join(lib.ROOT, "corpus", "client")
    for f in sorted(os.listdir(d)) if os.path.isdir(d) else []:
        if f.startswith("ka") and f.endswith(".txt"):
            for l in open(os.path.join(d, f)).read().splitlines():
                if l.strip() and not l.startswith("#"):
                    sc.insert(0, (l.strip(), c18_spec_of_line(l.strip())))
    text = "\n".join(l for (l, _) in sc) + "\n"
    rc1, impl, e1 = lib.run_on_text(lexe, text)
    rc2, model, e2 = lib.run_on_text(mexe, text, args=["ka"])
    if rc1 != 0 or rc2 != 0 or len(impl) != len(sc) or len(model) != len(sc):
        ctx.violation("driver-failed", "exit codes impl=%d model=%d, lines %d/%d of %d\n%s\n%s" % (rc1, rc2, len(impl), len(model), len(sc), e1[-1500:], e2[-1500:]),
                      False, "a driver did not answer every scenario")
        return
    # the race at exactly KA, measured: how often the reply wins when it is already readable
    race_line = "KA 4b 1000 1000 0 none 1000 6070"
    wins = losses = 0
    runs = 24
    for _ in range(runs):
        _, a, _ = lib.run_on_text(lexe, race_line + "\n")
        m = KA_LINE.match(a[0]) if a else None
        if m:
            npings = len(m.group(2).split())
            wins += max(0, npings - 1)          # each further PINGREQ means the previous reply was read first
            losses += 1 if m.group(5) else 0
    viols, divs, trig, ntriv = [], [], {}, set()
    for (line, spec), a, mo in zip(sc, impl, model):
        vs, tg = c18_monitor(line, spec, a)
        for x in tg:
            trig[x] = trig.get(x, 0) + 1
        if tg - {"all-answered-in-time"}:
            ntriv.add(line)
        for x in vs:
            viols.append((line, x, a, mo))
        if a != mo and not spec["race"]:
            divs.append((line, a, mo))
    ctx.cov["rule"] = ("keep-alive scenarios on the real rumqttc::EventLoop (v4 and v5) over the in-memory transport under paused tokio time, polled continuously, against a scripted broker; "
                       "KA in {1 s, 5 s, 60 s} (v5: 5 s, 60 s, and server-assigned 0 / 2 / 3 s); reply delay on the grid {0, KA/8, ..., 7KA/8}, KA-1, and too late (KA+1 .. 5KA/2); broker silent from ping 1/2/3/5 on; "
                       "user-only and broker-only QoS0 traffic at periods unrelated to KA; the inflight window full (max_inflight 1 / 2, that many QoS1 publishes never acknowledged) or a publish parked on a "
                       "packet id collision across every keep-alive expiry, with an answering, a late and a silent broker; keep-alive 0 over one hour of virtual time; random delay mixes; connect handshake never / before / after connection_timeout. "
                       "Each scenario also runs on the extracted Coq model (Client/KeepAlive.v) and the timelines are compared. non-trivial = scenario with a silent or late broker, one-way traffic, keep-alive 0 or a connect timeout; distinct scenario lines counted.")
    ctx.cov["evaluations"] = len(sc)
    ctx.cov["traces_validated_against_impl"] = len(sc)
    ctx.cov["distinct_nontrivial"] = len(ntriv)
    ctx.cov["trigger_histogram"] = trig
    ctx.cov["samples"] = [{"scenario": l, "impl": a, "model": mo} for ((l, _), a, mo) in list(zip(sc, impl, model))[:3] + list(zip(sc, impl, model))[40:42]]
    ctx.cov["loop_driver"] = True
    ctx.cov["reply_at_exactly_keep_alive"] = {"scenario": race_line, "runs": runs, "rounds_reply_read_first": wins, "rounds_timer_first": losses,
                                               "note": "PINGRESP already readable at the instant the timer fires: tokio's select! decides; both outcomes are legitimate and outside the claim"}
    if viols:
        viols.sort(key=lambda x: len(x[0]))
        line, x, a, mo = viols[0]
        content = "# C18 replay (keep-alive scenario, end to end): run: ./check C18 --replay <this file>\n# %s\n# impl : %s\n# model: %s\n%s\n" % (x, a, mo, line)
        ctx.violation("input", content, True, "%s  [%s]" % (x, line))
    elif divs:
        line, a, mo = divs[0]
        content = "# C18: the real event loop and Client/KeepAlive.v (Coq model) give different timelines; the property monitor is green.\n# impl : %s\n# model: %s\n%s\n" % (a, mo, line)
        ctx.violation("correspondence", content, False, "event loop and keep-alive model differ on %d scenarios" % len(divs))
    elif not p_ok:
        ctx.violation("proof", "Proof obligations of Props/C18.v no longer check:\n%s\nNo scenario was found on which the real loop fails the keep-alive monitor (%d scenarios)." % (
            getattr(ctx, "proof_error", ""), len(sc)), False, "theorems of Props/C18.v do not check")
    ctx.log("scenarios=%d monitor-violations=%d divergences=%d race at exactly KA: reply first %d, timer first %d" % (len(sc), len(viols), len(divs), wins, losses))


def replay_c18(ctx, path):
    mexe, iexe, out = drivers()
    lexe, _ = lib.cargo_driver("clientloop")
    if os.environ.get("VERIF_CLIENTLOOP_IMPL"):
        lexe = os.environ["VERIF_CLIENTLOOP_IMPL"]
    lines = [l.strip() for l in open(path).read().splitlines() if l.strip() and not l.startswith("#")]
    if not lines:
        print(open(path).read())
        return 1
    rc = 0
    _, impl, _ = lib.run_on_text(lexe, "\n".join(lines) + "\n")
    _, model, _ = lib.run_on_text(mexe, "\n".join(lines) + "\n", args=["ka"])
    for l, a, mo in zip(lines, impl, model):
        spec = c18_spec_of_line(l)
        vs, _ = c18_monitor(l, spec, a)
        print("%s\n   impl : %s\n   model: %s%s" % (l, a, mo, "" if a == mo else "   <-- DIFFERS"))
        for x in vs:
            print("   monitor C18: " + x)
        if vs or a != mo:
            rc = 1
    if rc:
        print("VIOLATION property=C18 replay=%s" % path)
    return rc

# ----------------------------------------------------------------------------- running

def drivers():
    mexe, mout = lib.ocaml_driver("client", "ClientX")
    iexe, iout = lib.cargo_driver("client")
    if os.environ.get("VERIF_CLIENT_IMPL"):
        iexe = os.environ["VERIF_CLIENT_IMPL"]
    return mexe, iexe, (mout or "") + (iout or "")


def setup():
    ok, out = lib.coq_make(["Props/%s.vo" % p for p in PROPS] + ["Extract/ClientX.vo"])
    if not ok:
        print(out[-3000:])
        return False
    mexe, iexe, out = drivers()
    if not mexe or not iexe:
        print(out[-3000:])
        return False
    lexe, out = lib.cargo_driver("clientloop")
    if not lexe:
        print(out[-3000:])
        return False
    return True


def run_pair(mexe, iexe, text):
    rc1, impl, e1 = lib.run_on_text(iexe, text)
    rc2, model, e2 = lib.run_on_text(mexe, text)
    return rc1, impl, e1, rc2, model, e2


def file_hash(p):
    h = hashlib.sha256()
    with open(p, "rb") as f:
        for b in iter(lambda: f.read(1 << 20), b""):
            h.update(b)
    return h.hexdigest()


def all_known():
    ks = list(lib.known_findings())
    extra = os.environ.get("VERIF_CLIENT_KNOWN_EXTRA")   # proposed entries, for testing before the lead commits them
    if extra and os.path.exists(extra):
        ks += json.load(open(extra)).get("findings", [])
    return ks


def known_entries(prop):
    return [k for k in all_known() if k.get("property") == prop and k.get("status") == "known"]


_KCACHE = {}


def known_batch(mexe, entry, histories):
    """evaluate the entry's predicate on many histories with one driver run (fills the cache)"""
    name = entry.get("predicate")
    todo = [h for h in histories if (name, "\n".join(h)) not in _KCACHE]
    if not name or not todo:
        return
    rc, out, _ = lib.run_on_text(mexe, "\n".join("\n".join(h) for h in todo) + "\n", args=["known", name])
    if rc == 0 and len(out) == len(todo):
        for h, o in zip(todo, out):
            _KCACHE[(name, "\n".join(h))] = o.strip() == "K=1"


def known_match(mexe, entry, history):
    """A known finding is identified by an executable predicate over the op history, computed by
    the extracted Coq predicate (ocaml driver, `known <name>` mode; Coq: Client/Run4.v)."""
    name = entry.get("predicate")
    if not name:
        return False
    key = (name, "\n".join(history))
    if key not in _KCACHE:
        known_batch(mexe, entry, [history])
    return _KCACHE.get(key, False)


def shrink(iexe, history, prop, sig, mexe=None, kentries=()):
    """delta-debugging on the ops of one history: keep removing chunks while the implementation
    still fails the same property monitor — and the smaller history is still outside every
    known-finding class (otherwise shrinking would walk into a known finding)."""
    def fails(h):
        rc, impl, _ = lib.run_on_text(iexe, "\n".join(h) + "\n")
        if rc != 0 or len(impl) != len(h):
            return False
        if not any(p == prop for (p, _) in monitor_history(h, impl).viol):
            return False
        return not any(known_match(mexe, k, h) for k in kentries)
    head, ops = history[0], history[1:]
    n = 2
    while len(ops) >= 2:
        chunk = max(1, len(ops) // n)
        reduced = False
        for i in range(0, len(ops), chunk):
            cand = ops[:i] + ops[i + chunk:]
            if cand and fails([head] + cand):
                ops, n, reduced = cand, max(n - 1, 2), True
                break
        if not reduced:
            if chunk == 1:
                break
            n = min(len(ops), n * 2)
    return [head] + ops


def shrink_div(iexe, mexe, history):
    def fails(h):
        rc1, impl, _, rc2, model, _ = run_pair(mexe, iexe, "\n".join(h) + "\n")
        return impl != model
    head, ops = history[0], history[1:]
    changed = True
    while changed and len(ops) > 1:
        changed = False
        for i in range(len(ops)):
            cand = ops[:i] + ops[i + 1:]
            if fails([head] + cand):
                ops, changed = cand, True
                break
    return [head] + ops


def full_run(ctx, mexe, iexe):
    """the shared generated run; returns a JSON-able summary"""
    t0 = time.time()
    os.makedirs(CDIR, exist_ok=True)
    res = {"evaluations": 0, "ops": 0, "groups": {}, "errors": {}, "nontrivial": {}, "distinct_nontrivial": {p: 0 for p in SHARED},
           "viol": {p: [] for p in SHARED}, "div": [], "samples": [], "driver_failure": None, "breached": 0}
    seen_nt = {p: set() for p in SHARED}
    NT = {"C07": ("collision-parked", "collision-resolved-by-PUBACK", "collision-resolved-by-PUBCOMP", "wrapped", "out-of-order-ack", "id-reuse"),
          "C10": ("unsolicited", "inbound-qos1", "inbound-qos2", "inbound-release"),
          "C02": ("clean-with-unacked", "collision-resolved-by-PUBCOMP", "collision-resolved-by-PUBACK"),
          "C11": ("clean-with-unacked", "clean-order-across-wrap")}
    for ver in VERSIONS:
        batch, groups = [], []

        def flush():
            if not batch:
                return
            text = "\n".join("\n".join(h) for h in batch) + "\n"
            rc1, impl, e1, rc2, model, e2 = run_pair(mexe, iexe, text)
            nlines = sum(len(h) for h in batch)
            if rc1 != 0 or rc2 != 0 or len(impl) != nlines or len(model) != nlines:
                res["driver_failure"] = "exit codes impl=%d model=%d, lines %d/%d of %d\n%s\n%s" % (rc1, rc2, len(impl), len(model), nlines, e1[-800:], e2[-800:])
                return
            same = impl == model
            pos = 0
            prev, stack = None, []   # incremental monitoring along shared prefixes
            for h, g in zip(batch, groups):
                a = impl[pos:pos + len(h)]
                if not same and a != model[pos:pos + len(h)] and len(res["div"]) < 5:
                    mm = model[pos:pos + len(h)]
                    k = next(i for i in range(len(h)) if a[i] != mm[i])
                    res["div"].append({"history": h[:k + 1], "impl": a[k], "model": mm[k]})
                pos += len(h)
                # common prefix with the previous history of this batch
                cp = 0
                if prev is not None and prev[0] == h[0]:
                    while cp + 1 < len(h) and cp + 1 < len(prev) and prev[cp + 1] == h[cp + 1]:
                        cp += 1
                    stack = stack[:cp + 1]
                    m = stack[-1].copy()
                else:
                    t = h[0].split()
                    m = Mon(t[1], int(t[2]), int(t[3]))
                    stack = [m.copy()]
                    cp = 0
                for i in range(cp + 1, len(h)):
                    m.feed(h[i].split(), a[i])
                    stack.append(m.copy())
                prev = h
                res["evaluations"] += 1
                res["ops"] += len(h) - 1
                res["groups"][g] = res["groups"].get(g, 0) + 1
                if m.breach:
                    res["breached"] += 1
                for x in a:
                    if x.startswith("ERR"):
                        kk = x.split()[1].split(":")[0]
                        res["errors"][kk] = res["errors"].get(kk, 0) + 1
                    elif x == "PANIC":
                        res["errors"]["PANIC"] = res["errors"].get("PANIC", 0) + 1
                for tag in m.nontrivial:
                    res["nontrivial"][tag] = res["nontrivial"].get(tag, 0) + 1
                hh = None
                for p in SHARED:
                    if any(tag in m.nontrivial for tag in NT[p]):
                        hh = hh or hashlib.md5("\n".join(h).encode()).digest()
                        seen_nt[p].add(hh)
                for (p, txt) in m.viol:
                    if len(res["viol"][p]) < 20000:
                        res["viol"][p].append({"history": h, "text": txt})
                if len(res["samples"]) < 6 and (res["evaluations"] in (1, 5000) or (g.startswith("rand") and res["groups"][g] == 2)):
                    res["samples"].append({"group": g, "ops": h[:40], "impl_answers": a[:40]})
            batch.clear(); groups.clear()

        for g, h in gen_histories(ctx, ver):
            batch.append(h); groups.append(g)
            if len(batch) >= 20000:
                flush()
                if res["driver_failure"]:
                    return res
        flush()
    for p in SHARED:
        res["distinct_nontrivial"][p] = len(seen_nt[p])
    res["loop"] = loop_run(ctx, mexe)
    res["wall_generated_run_s"] = round(time.time() - t0, 1)
    return res


def cached_run(ctx, mexe, iexe):
    key = hashlib.sha256(("%d|%s|%s|%s|%s|%s" % (ctx.seed, ctx.tier, file_hash(mexe), file_hash(iexe), file_hash(os.path.abspath(__file__)),
                                              json.dumps(all_known(), sort_keys=True))).encode()).hexdigest()[:24]
    path = os.path.join(CDIR, "run-%s.json" % key)
    if os.path.exists(path) and not os.environ.get("VERIF_CLIENT_NOCACHE"):
        try:
            r = json.load(open(path))
            r["from_cache"] = True
            return r
        except Exception:
            pass
    r = full_run(ctx, mexe, iexe)
    os.makedirs(CDIR, exist_ok=True)
    for f in os.listdir(CDIR):
        if f.startswith("run-") and f.endswith(".json"):
            try:
                if time.time() - os.path.getmtime(os.path.join(CDIR, f)) > 6 * 3600:
                    os.remove(os.path.join(CDIR, f))
            except OSError:
                pass
    tmp = path + ".tmp%d" % os.getpid()
    json.dump(r, open(tmp, "w"))
    os.replace(tmp, path)
    r["from_cache"] = False
    return r


RULES = {
    "C07": "non-trivial = history in which a publish was parked on an id collision, a parked publish was resolved by PUBACK/PUBCOMP, ids wrapped around, or an ack arrived out of order",
    "C10": "non-trivial = history with an inbound QoS1/QoS2 publish, an inbound release of a recorded id, or an unsolicited ack/release (ids 0, in range, max+1, 65535)",
    "C02": "non-trivial = history in which clean() ran with at least one accepted QoS>0 publish / release unacknowledged, or a collision was resolved",
    "C11": "non-trivial = history in which clean() ran with unacknowledged work (in-order QoS1 histories additionally check the returned order, incl. across id wrap-around)",
}


def run(ctx):
    prop = ctx.prop
    if prop == "C18":
        return run_c18(ctx)
    p_ok = ctx.proof_side(["Extract/ClientX.vo"])
    ctx.assumptions += ASSUMPTIONS
    mexe, iexe, out = drivers()
    if not mexe or not iexe:
        ctx.violation("tie-broken", "the client correspondence harness no longer builds against /repo:\n" + out[-3000:], False,
                      "harness build failed; correspondence MqttState(impl)=Client.State4 not checked")
        return
    r = cached_run(ctx, mexe, iexe)
    th = ctx.thorough()
    ctx.cov["rule"] = ("one shared run for C07/C10/C02/C11 (cached per seed/tier/binaries): exhaustive op sequences of exact length %s for max_inflight 1/2/3 over the alphabet "
                       "{publish QoS1, publish QoS2, subscribe, PUBACK/PUBREC/PUBCOMP k for every k<=max, PUBACK max+1, CLEAN} (prefix-closed, so all shorter ones are covered); "
                       "every incoming packet type x id in {0,1,max,max+1,65535} x manual_acks after 0-2 publishes; random long runs (in-order broker, reordering broker, "
                       "duplicating/unsolicited acks, ids above max, clean+replay) with max in {1,2,3,4,5,10,100,65535}. Each history runs on rumqttc::MqttState and on the extracted Coq model; "
                       "monitors read the implementation's answers only. " % ("7/5/5 (v4), 6/5/4 (v5)" if th else "6/5/4 (v4), 5/4/4 (v5)")) + RULES[prop] + "; distinct histories counted by hash."
    ctx.cov["evaluations"] = r["evaluations"]
    ctx.cov["ops"] = r["ops"]
    ctx.cov["traces_validated_against_impl"] = r["evaluations"] if not r["driver_failure"] else 0
    ctx.cov["distinct_nontrivial"] = r["distinct_nontrivial"][prop]
    ctx.cov["exhaustive"] = True
    ctx.cov["generator_histogram"] = r["groups"]
    ctx.cov["error_histogram"] = r["errors"]
    ctx.cov["trigger_histogram"] = r["nontrivial"]
    ctx.cov["histories_past_contract_breach"] = r["breached"]
    ctx.cov["samples"] = r["samples"]
    ctx.cov["shared_run_from_cache"] = r.get("from_cache", False)
    ctx.cov["shared_run_wall_s"] = r.get("wall_generated_run_s")
    lp = r.get("loop", {})
    ctx.cov["loop_driver"] = bool(lp.get("built"))
    ctx.cov["loop_histories_end_to_end"] = lp.get("histories", 0)
    ctx.cov["loop_ops"] = lp.get("ops", 0)
    ctx.cov["loop_trigger_histogram"] = lp.get("nontrivial", {})
    ctx.cov["loop_histories_cut_at_select_ambiguity"] = lp.get("truncated", 0)
    ctx.cov["loop_samples"] = lp.get("samples", [])[:1]
    ctx.cov["loop_read_burst_scenarios_v4_v5"] = lp.get("bursts", 0)
    ctx.cov["loop_v4_histories"] = lp.get("by_version", {}).get("4", 0)
    ctx.cov["loop_v5_histories"] = lp.get("by_version", {}).get("5", 0)
    ctx.cov["loop_generator_histogram"] = lp.get("groups", {})
    ctx.cov["loop_v5_trigger_histogram"] = lp.get("nontrivial_v5", {})
    ctx.cov["loop_rule"] = ("end to end: the real rumqttc::EventLoop (v4) and rumqttc::v5::EventLoop over the in-memory transport hook under paused tokio time with a scripted broker "
                            "(harness bin clientloop; LNEW / LNEW5) against Client/Loop.v and Client/Loop5.v (ocaml driver, loop mode), answer by answer; the C07/C10/C02/C11 loop monitors read the "
                            "implementation's answers of both versions. Per version: model-guided random histories in four styles (mixed: user sends, polls, broker acks in and out of order, unsolicited acks, "
                            "drops incl. inside a read batch, reconnects with/without session, second failure before pending is drained; order: QoS1 in-order with repeated failures; burst: 9-25 packets readable "
                            "in one poll; throttle: pending_throttle > 0 with broker writes during the wait), max_inflight in {1,2,3,4,5}, plus the exhaustive families: every sequence of %d moves over "
                            "{publish QoS1, publish QoS2, PUBACK 1, PUBACK 2, PUBREC 1, PUBCOMP 1, drop+resume, drop+new session} (v5 also: PUBREC 1 with a failure reason, drop+resume with receive-maximum 1, "
                            "server DISCONNECT, publish QoS1 with topic alias 5, drop+resume with topic-alias-maximum 3) for max_inflight 1 and 2, polled to idle after each move; v5 also the family 'receive-maximum lowered below a held id, then a second failure': max_inflight 2-4, all in flight, "
                            "0..max-1 acknowledged, failure, resume with receive-maximum 1..max-1, 0-2 acks, second failure, resume, all acknowledged; both versions the family 'replay cut by a second failure': "
                            "2-3 unacknowledged publishes, failure, resume, 0..n retransmissions, 1-2 new user publishes in the channel, second failure (optionally a third after 0-1 more), resume, acks in order, max_inflight 2/3/10. v5 only: every CONNACK carries a receive-maximum from {absent, 1, 2, max, max+1, 65535, rarely 0}, "
                            "acks carry reason codes now and then, the server sometimes sends DISCONNECT instead of closing, every CONNACK carries a topic-alias-maximum from {10, 3, absent} and (mixed style, exhaustive families) some publishes carry a topic alias. "
                            "A history is cut where both the network and the request arm of select! are ready (tokio picks at random)" % (4 if th else 3))
    if r["driver_failure"]:
        ctx.violation("driver-failed", r["driver_failure"], False, "a driver did not answer every op")
        return
    # ---- M: monitor failures on the implementation
    reported = False
    groups = {}
    for v in r["viol"][prop]:
        groups.setdefault(v["text"].split(":")[0][:60], []).append(v)
    viols = sorted(r["viol"][prop], key=lambda v: len(v["history"]))
    done_known = set()
    kentries = known_entries(prop)
    ctx.log("shared run done (%d monitor violations for %s); classifying against %d known-finding predicates" % (len(viols), prop, len(kentries)))
    for k in kentries:
        known_batch(mexe, k, [v["history"] for v in viols])
    ctx.cov["monitor_violations_seen"] = len(viols)
    ctx.log("classification done")
    for v in viols:
        h = v["history"]
        kn = [k for k in kentries if known_match(mexe, k, h)]
        if kn:
            for k in kn:
                if k["id"] not in done_known:
                    done_known.add(k["id"])
                    ctx.known_finding(k["line"])
            continue
        if reported:
            continue
        ctx.log("shrinking a %d-op history: %s" % (len(h), v["text"][:100]))
        small = shrink(iexe, h, prop, v["text"], mexe, kentries)
        ctx.log("shrunk to %d ops" % len(small))
        rc, impl, _ = lib.run_on_text(iexe, "\n".join(small) + "\n")
        rc2, model, _ = lib.run_on_text(mexe, "\n".join(small) + "\n")
        mon = monitor_history(small, impl)
        txt = next((t for (p, t) in mon.viol if p == prop), v["text"])
        if any(known_match(mexe, k, small) for k in kentries):
            small = h          # cannot happen (the shrinker stays outside the known classes); report the original
            rc, impl, _ = lib.run_on_text(iexe, "\n".join(small) + "\n")
            rc2, model, _ = lib.run_on_text(mexe, "\n".join(small) + "\n")
            txt = v["text"]
        content = "# %s replay (client state machine): one op per line; run: ./check %s --replay <this file>\n# %s\n" % (prop, prop, txt)
        content += "".join("# %-28s impl: %-60s model: %s\n" % (o, a, b) for o, a, b in zip(small, impl, model))
        content += "\n".join(small) + "\n"
        ctx.violation("input", content, True, txt)
        reported = True
    # ---- known findings identified by the loop monitor (class rule in LoopMon.feed)
    for kid, e in sorted((lp.get("known") or {}).items()):
        entry = next((k for k in kentries if k.get("id") == kid), None)
        if entry is not None:
            ctx.known_finding(entry["line"])
        elif prop == "C02" and not reported:
            # the class is not (or no longer) registered as a known finding of this property: a plain loss
            content = "# %s replay (event loop, end to end): one op per line; run: ./check %s --replay <this file>\n# %s\n" % (prop, prop, e["text"])
            content += "\n".join(e["history"]) + "\n"
            ctx.violation("input-loop", content, True, e["text"])
            reported = True
    ctx.cov["loop_known_finding_histories"] = {kid: e["count"] for kid, e in (lp.get("known") or {}).items()}
    # ---- the event loop, end to end
    if lp and not reported:
        if not lp.get("built") or lp.get("driver_failure"):
            ctx.violation("tie-broken-loop", "the loop driver (harness bin clientloop) does not build / run against /repo:\n%s" % (
                lp.get("build_error") or lp.get("driver_failure")), False, "loop driver failed; correspondence EventLoop(impl)=Client.Loop not checked")
            reported = True
        else:
            lv = sorted(lp["viol"].get(prop, []), key=lambda v: len(v["history"]))
            if lv:
                v = lv[0]
                content = "# %s replay (event loop, end to end): one op per line; run: ./check %s --replay <this file>\n# %s\n" % (prop, prop, v["text"])
                content += "\n".join(v["history"]) + "\n"
                ctx.violation("input-loop", content, True, v["text"])
                reported = True
            elif lp["div"]:
                d = lp["div"][0]
                content = "# %s: correspondence EventLoop v%s (implementation) = Client.Loop%s (Coq model) broken; no loop monitor failed.\n# last op: impl %r, model %r\n" % (
                    prop, d.get("version", "4"), "5" if d.get("version") == "5" else "", d["impl"], d["model"])
                content += "\n".join(d["history"]) + "\n"
                ctx.violation("correspondence-loop", content, False, "event loop and Client/Loop.v differ (%d diverging histories); monitors green" % len(lp["div"]))
                reported = True
    # ---- C: model vs implementation
    if r["div"] and not reported:
        d = r["div"][0]
        small = shrink_div(iexe, mexe, d["history"])
        rc1, impl, _, rc2, model, _ = run_pair(mexe, iexe, "\n".join(small) + "\n")
        content = "# %s: correspondence MqttState (implementation) = Client.State4 (Coq model) broken; no property monitor failed on the implementation.\n" % prop
        content += "".join("# %-28s impl: %-60s model: %s\n" % (o, a, b) for o, a, b in zip(small, impl, model))
        content += "\n".join(small) + "\n"
        ctx.violation("correspondence", content, False, "implementation and model differ (%d diverging histories shown of this run); monitors green" % len(r["div"]))
    elif not p_ok and not reported:
        ctx.violation("proof", "Proof obligations of Props/%s.v no longer check:\n%s\nNo history was found on which the implementation fails the %s monitor (%d histories, %d ops)." % (
            prop, getattr(ctx, "proof_error", ""), prop, r["evaluations"], r["ops"]), False, "theorems of Props/%s.v do not check" % prop)
    ctx.log("histories=%d ops=%d monitor-violations(%s)=%d divergences=%d cached=%s" % (
        r["evaluations"], r["ops"], prop, len(r["viol"][prop]), len(r["div"]), r.get("from_cache")))


def replay(ctx, path):
    if ctx.prop == "C18":
        return replay_c18(ctx, path)
    mexe, iexe, out = drivers()
    lines = [l.strip() for l in open(path).read().splitlines() if l.strip() and not l.startswith("#")]
    if lines and lines[0].startswith("BURST"):
        lexe, _ = lib.cargo_driver("clientloop")
        if os.environ.get("VERIF_CLIENTLOOP_IMPL"):
            lexe = os.environ["VERIF_CLIENTLOOP_IMPL"]
        _, impl, _ = lib.run_on_text(lexe, "\n".join(lines) + "\n")
        rc = 0
        for l, a in zip(lines, impl):
            print("%s\n   impl: %s" % (l, a[:400]))
            for x in burst_monitor(l, a):
                print("   monitor C10: " + x); rc = 1
        if rc:
            print("VIOLATION property=%s replay=%s" % (ctx.prop, path))
        return rc
    if lines and lines[0].startswith("LNEW"):
        lexe, _ = lib.cargo_driver("clientloop")
        if os.environ.get("VERIF_CLIENTLOOP_IMPL"):
            lexe = os.environ["VERIF_CLIENTLOOP_IMPL"]
        txt = "\n".join(lines) + "\n"
        _, impl, _ = lib.run_on_text(lexe, txt)
        _, model, _ = lib.run_on_text(mexe, txt, args=["loop"])
        mon = LoopMon(int(lines[0].split()[1]), "5" if lines[0].startswith("LNEW5") else "4")
        rc = 0
        for l, a, m in zip(lines, impl, model):
            print("%-34s impl[%s]  model[%s]%s" % (l, a, m, "" if a == m else "   <-- DIFFERS"))
            mon.feed(l, a)
            if a != m:
                rc = 1
        for kid, t in mon.known.items():
            entry = next((k for k in known_entries("C02") if k.get("id") == kid), None)
            if entry is not None:
                print("KNOWN-FINDING: property=C02 %s\n   here: %s" % (entry["line"], t))
            else:
                print("monitor C02: %s" % t)
                if ctx.prop == "C02":
                    rc = 1
        for (p, t) in mon.viol:
            print("monitor %s: %s" % (p, t))
            if p == ctx.prop:
                rc = 1
        if rc:
            print("VIOLATION property=%s replay=%s" % (ctx.prop, path))
        return rc
    if not lines or not lines[0].startswith("NEW"):
        print("replay file holds no op history (it names a broken proof / correspondence):")
        print(open(path).read())
        return 1
    txt = "\n".join(lines) + "\n"
    _, impl, _ = lib.run_on_text(iexe, txt)
    _, model, _ = lib.run_on_text(mexe, txt)
    rc = 0
    hs, cur = [], []
    for l, a, m in zip(lines, impl, model):
        print("%-28s impl[%s]  model[%s]%s" % (l, a, m, "" if a == m else "   <-- DIFFERS"))
        if l.startswith("NEW") and cur:
            hs.append(cur); cur = []
        cur.append((l, a))
        if a != m:
            rc = 1
    hs.append(cur)
    for h in hs:
        mon = monitor_history([x for x, _ in h], [y for _, y in h])
        for (p, t) in mon.viol:
            print("monitor %s: %s" % (p, t))
            if p == ctx.prop:
                rc = 1
    if rc:
        print("VIOLATION property=%s replay=%s" % (ctx.prop, path))
    return rc
