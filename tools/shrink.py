"""Delta debugging (ddmin) over a list of op lines."""


def ddmin(items, test, keep_first=1, max_tests=4000):
    """Smallest sub-list (keeping the first `keep_first` items) on which test() is still True."""
    head, cur = items[:keep_first], items[keep_first:]
    n = 2
    tests = 0
    while len(cur) >= 1 and tests < max_tests:
        chunk = max(1, len(cur) // n)
        subsets = [cur[i:i + chunk] for i in range(0, len(cur), chunk)]
        reduced = False
        for i in range(len(subsets)):
            comp = [x for j, s in enumerate(subsets) if j != i for x in s]
            tests += 1
            if test(head + comp):
                cur = comp
                n = max(n - 1, 2)
                reduced = True
                break
        if not reduced:
            if chunk == 1:
                break
            n = min(len(cur), n * 2)
    return head + cur
