"""usage: VERIF_REPO=<worktree> python3 tools/seeded_run.py <prop> [<prop>...]
Runs the C+M parts of the checks against a scratch worktree (seeded-change testing); the
proof side is run only when Props/<prop>.v exists."""
import os, sys
sys.path.insert(0, os.path.dirname(os.path.abspath(__file__)))
import importlib, lib

COMPONENTS = ["comp_topic", "comp_log", "comp_router", "comp_codec"]
for c in ("comp_client", "comp_stack"):
    if os.path.exists(os.path.join(lib.ROOT, "tools", c + ".py")):
        COMPONENTS.append(c)
reg = {}
for c in COMPONENTS:
    m = importlib.import_module(c)
    for p in m.PROPS:
        reg[p] = m
rc = 0
for prop in sys.argv[1:]:
    ctx = lib.Ctx(prop, os.environ.get("VERIF_TIER", "quick"), int(os.environ.get("VERIF_SEED", "20260923")))
    if not os.path.exists(os.path.join(lib.COQ, "Props", prop + ".v")):
        ctx.proof_side = lambda *a, **k: True
    ctx.replay_dir = os.path.join(lib.BUILD, "replays-seeded")
    os.makedirs(ctx.replay_dir, exist_ok=True)
    try:
        reg[prop].run(ctx)
    except Exception as e:
        import traceback
        traceback.print_exc()
        ctx.violation("check-crashed", "crash", False, str(e))
    for k in ctx.known:
        print("KNOWN-FINDING: property=%s %s" % (prop, k))
    for (tag, path, found, text) in ctx.violations:
        print("VIOLATION property=%s replay=%s%s :: %s" % (prop, path, "" if found else " no-failing-input-found", text[:200]))
        rc = 1
    if not ctx.violations:
        print("PASS property=%s (evaluations=%s)" % (prop, ctx.cov.get("evaluations")))
sys.exit(rc)
