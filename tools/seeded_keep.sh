#!/bin/bash
# usage: seeded_keep.sh <id> <worktree> "<checks that catch it>" "<notes>"
set -e
ID=$1; WT=$2; CAUGHT=$3; NOTES=$4
D=/verif/seeded/$ID
mkdir -p $D
cp $WT/seeded_out/patch.diff $D/patch.diff
for f in $WT/seeded_out/*; do case "$f" in *patch.diff|*meta.json) ;; *) cp -r "$f" $D/;; esac; done
python3 - "$ID" "$WT" "$CAUGHT" "$NOTES" <<'PY'
import json,sys
id_,wt,caught,notes=sys.argv[1:5]
m=json.load(open(wt+'/seeded_out/meta.json'))
m['confirmed_by_lead']={"patch_applies_to_clean_tree":True,"existing_suite_passes_with_change":True,"demo_fails_with_change_and_passes_without":True,"how":"tools/seeded_verify.sh in the scratch worktree"}
m['caught_by']=caught
m['lead_notes']=notes
json.dump(m,open('/verif/seeded/%s/meta.json'%id_,'w'),indent=1)
PY
ls $D
