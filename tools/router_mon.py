"""Property monitors for the router properties, evaluated on the IMPLEMENTATION's trace
(op lines + the answers the real router gave).  They use nothing but ops and answers, so a
replay file is self-contained.  Each monitor keeps its own ghost of what the property
says must happen (accepted messages, expected acks, unacknowledged forwards ...).

A monitor returns a list of (op_index, text).  Monitors are written to be SOUND (no alarm
when the property holds): whenever the ghost cannot decide (connection ended mid-batch,
retention may have evicted, ...) the corresponding clause is skipped, and the skip is counted."""
from collections import deque, defaultdict
from router_gen import unhx, parse_notifications

MAX_INFLIGHT = 100


def topic_matches(topic, flt):
    """the MQTT rule (same as Coq Topic.Spec) on bytes"""
    if topic[:1] == b"$":
        return False
    ts, fs = topic.split(b"/"), flt.split(b"/")
    i = 0
    for i, f in enumerate(fs):
        if f == b"#":
            return True
        if i >= len(ts):
            return False
        if ts[i] == b"#":
            return False
        if f != b"+" and f != ts[i]:
            return False
    return len(ts) == len(fs)


def strip_share(path):
    """(group key, filter): the group is identified by share name AND topic filter"""
    if path.startswith(b"$share/"):
        rest = path[7:]
        if b"/" in rest:
            _g, p = rest.split(b"/", 1)
            return rest, p
    return None, path


def utf8_ok(b):
    try:
        b.decode("utf-8")
        return True
    except UnicodeDecodeError:
        return False


class Link:
    def __init__(self, k, name, clean, alias_max, will, at):
        self.k, self.name, self.clean, self.alias_max, self.will, self.at = k, name, clean, alias_max, will, at
        self.id = None
        self.pid = None             # connection id predicted by the ghost's slab
        self.drained_epoch = -1     # epoch of the last DRAIN of this link
        self.session_present = None
        self.registered = None      # None unknown yet / True / False (rejected)
        self.ended = None           # op index at which the router dropped the connection (ghost)
        self.end_kind = None
        self.pending = []           # pushed, not yet announced
        self.subs = {}              # path(bytes) -> (qos, active_from: acceptance counter, new: bool)
        self.recorded = deque()     # QoS2 publishes received by the broker, awaiting PUBREL
        self.expected_acks = []     # ghost: acks the broker owes, in order
        self.final_batch_from = None
        self.got_acks = []
        self.fwd = []               # forwards drained: dicts
        self.unacked = deque()      # pkids of QoS>0 forwards not yet acknowledged (broker view)
        self.owe_ready = False
        self.resumed = False
        self.alias_in = {}          # client->broker topic aliases (ghost)
        self.notes = []


class World:
    """Ghost of the property-level semantics, advanced op by op."""

    def __init__(self, ops, answers):
        self.ops, self.answers = ops, answers
        self.links = []
        self.owner = {}             # connection id -> link
        self.byname = {}            # client id -> live link
        self.accepted = []          # (n, topic, payload, retain_flag, publisher link, qos, op index)
        self.retained = {}          # topic -> (payload, n)
        self.retained_hist = defaultdict(list)   # topic -> [(acceptance n, payload or None)]
        self.sessions = {}          # client id -> saved subs for persistent sessions (ghost)
        self.wills = {}             # client id -> will dict
        self.log_bytes = defaultdict(int)        # filter -> bytes appended (retention proviso)
        self.filters_known = set()
        self.cfg = None
        self.v = []                 # violations: (op index, prop, text)
        self.skips = defaultdict(int)
        self.panic_at = None
        self.live_count = 0
        self.stats = defaultdict(int)
        self.log_cum = defaultdict(list)     # filter -> [(acceptance index, cumulative bytes incl. it)]
        self.pause_reasons = defaultdict(set)
        self.free_ids = []          # ghost of the slab free list (LIFO)
        self.next_id = 0
        self.lost = None            # op index at which the ghost's id prediction was refuted
        self.epoch = 0              # number of CONSUME ops so far (forwards are pushed only there)
        self.rewound_groups = {}    # group -> op index of the first cursor rewind (known finding)
        self.recreated_groups = {}  # group -> op index at which a resumed member re-created it (known finding)
        self.idle_points = []       # op indices at which the router was idle (CONSUME -> NONE 0)
        self.last_some = -1
        self.cur_op = 0
        self.known = []             # (op index, prop, finding id, text)

    def viol(self, i, prop, text):
        self.v.append((i, prop, text))

    # ------------------------------------------------------------------ helpers
    def end_link(self, l, i, kind):
        if l.ended is not None:
            return
        l.ended, l.end_kind = i, kind
        l.ended_n = len(self.accepted)
        if l.pid is not None and self.owner.get(l.pid) is l:
            del self.owner[l.pid]
            self.free_ids.append(l.pid)
        if self.byname.get(l.name) is l:
            del self.byname[l.name]
        if l.registered:
            self.live_count -= 1
        # known finding K-C17-rewind: a persistent member leaves with unacknowledged forwards ->
        # handle_disconnection rewinds the GROUP cursor to its oldest unacknowledged message
        if not l.clean and l.unacked:
            for p_ in list(l.subs):
                g_, _f = strip_share(p_)
                if g_ is not None:
                    self.rewound_groups.setdefault(g_, i)
        # persistent session state
        if not l.clean:
            self.sessions[l.name] = ({p: (q, l) for p, (q, _a, _n) in l.subs.items()},
                                     list(getattr(l, "rel_pending", [])), l)
        else:
            self.sessions.pop(l.name, None)
        l.final_batch_from = l.final_batch_from if l.final_batch_from is not None else len(l.expected_acks)

    def accept(self, i, l, topic, payload, retain, qos):
        if topic == b"":
            # an empty topic name (invalid MQTT, accepted by the router) cannot be told apart from
            # "topic replaced by its alias" on the subscriber side: not tracked
            self.skips["empty-topic-publish"] += 1
            return
        n = len(self.accepted)
        self.accepted.append((n, topic, payload, retain, l.k if l else None, qos, self.cur_op))
        if retain and payload == b"":
            self.retained.pop(topic, None)
            self.retained_hist[topic].append((n, None))
        elif retain:
            self.retained[topic] = (payload, n)
            self.retained_hist[topic].append((n, payload))
        for f in self.filters_known:
            if topic_matches(topic, f):
                self.log_bytes[f] += 4 + len(topic) + len(payload)
                self.log_cum[f].append((n, self.log_bytes[f]))

    # ------------------------------------------------------------------ ops
    def run(self):
        for i, (op, ans) in enumerate(zip(self.ops, self.answers)):
            t = op.split()
            if ans in ("PANIC",):
                self.panic_at = i
                self.viol(i, "C03", "router panicked on: %s" % op)
                break
            if ans in ("DEAD", "EOF", "BADORACLE"):
                break
            self.cur_op = i
            getattr(self, "op_" + t[0], lambda *a: None)(i, t, ans)
        return self

    def op_NEW(self, i, t, ans):
        self.cfg = dict(maxconn=int(t[1]), maxout=int(t[2]), segsize=int(t[3]), segcount=int(t[4]),
                        strategy=t[5], dbg=int(t[6]))
        for f in t[7:]:
            self.filters_known.add(unhx(f))

    def op_CONNECT(self, i, t, ans):
        name = unhx(t[1])
        will = None
        if t[5] != "-":
            w = t[5].split(",")
            will = dict(topic=unhx(w[0]), payload=unhx(w[1]), qos=int(w[2]), retain=int(w[3]), tag=w[4])
        l = Link(len(self.links), name, t[2] == "1", int(t[4]), will, i)
        self.links.append(l)
        valid = not any(c in name for c in b"+$#/")
        if not valid:
            l.registered = False
            l.ended, l.end_kind = i, "rejected"
            return
        old = self.byname.get(name)
        if old is not None:
            self.end_link(old, i, "takeover")
        if self.live_count >= self.cfg["maxconn"]:
            l.registered = False
            l.ended, l.end_kind = i, "rejected-full"
            return
        l.registered = True
        self.live_count += 1
        self.byname[name] = l
        if self.free_ids:
            l.pid = self.free_ids.pop()
        else:
            l.pid = self.next_id
            self.next_id += 1
        self.owner[l.pid] = l
        sess = self.sessions.pop(name, None)
        l.expect_session = (not l.clean) and sess is not None
        if not l.clean and sess is not None:
            l.resumed = True
            l.prev = sess[2]
            for p, (q, _old) in sess[0].items():
                l.subs[p] = (q, len(self.accepted), False)
                l.resumed_subs = getattr(l, "resumed_subs", []) + [(p, q, 0)]
            # known finding K-C17-rejoin: a shared group whose live members have all left is dropped;
            # this resumed member re-creates it from its own saved cursor
            for p_ in sess[0]:
                g_, _f = strip_share(p_)
                if g_ is not None and not any(o is not l and o.registered and o.ended is None and p_ in o.subs for o in self.links):
                    self.recreated_groups.setdefault(g_, i)
            # releases still awaiting PUBCOMP are announced again, right after the ConnAck
            l.rel_pending = deque(sess[1])
            for pk in sess[1]:
                l.expected_acks.append(("PUBREL", str(pk)))
        if will is not None:
            self.wills[name] = will
        else:
            self.wills.pop(name, None)      # a will-less Connect clears an older registration

    def op_PUSH(self, i, t, ans):
        k = int(t[1])
        if k < len(self.links) and ans == "OK":
            self.links[k].pending.append((i, t[2:]))
            self.links[k].calm_drain = None

    def op_DATA(self, i, t, ans):
        l = self.owner.get(int(t[1]))
        if l is None:
            return
        batch, l.pending = l.pending, []
        batch_start = len(l.expected_acks)
        for (pi, p) in batch:
            brk = self.packet(pi, i, l, p)
            if brk and brk != "disconnect-packet":
                l.misbehaved = True
            if brk:
                l.final_batch_from = batch_start
                self.end_link(l, i, brk)
                break
        if getattr(l, "deferred_end", None) and l.ended is None:
            l.final_batch_from = batch_start
            self.end_link(l, i, l.deferred_end)

    def packet(self, pi, i, l, p):
        """ghost of one packet; returns an end-kind string when the batch breaks"""
        kind = p[0]
        if kind == "PUB":
            topic, payload, qos, pkid, retain, props = unhx(p[1]), unhx(p[2]), int(p[3]), int(p[4]), p[5] == "1", p[7]
            if qos == 1:
                l.expected_acks.append(("PUBACK", str(pkid)))
            if qos == 2:
                l.expected_acks.append(("PUBREC", str(pkid)))
                l.recorded.append((topic, payload, retain, props))
                return None
            return self.do_publish(pi, l, topic, payload, retain, props, qos)
        if kind == "PUBREL":
            l.expected_acks.append(("PUBCOMP", p[1]))
            if not l.recorded:
                return "bad-pubrel"
            topic, payload, retain, props = l.recorded.popleft()
            r = self.do_publish(pi, l, topic, payload, retain, props, 2)
            return r
        if kind == "SUB":
            subid = p[2]
            codes = []
            bad = None
            for f in [x for x in p[3].split(",") if x]:
                path_h, q = f.split(":")
                path = unhx(path_h)
                if path.startswith(b"$") and not path.startswith(b"$share"):
                    bad = "bad-filter"
                    break
                if subid == "0":
                    bad = "bad-subid"
                    break
                g, flt = strip_share(path)
                self.filters_known.add(flt)
                if flt not in self.log_bytes:
                    self.log_bytes[flt] += 0
                new = path not in l.subs
                if new:
                    l.subs[path] = (int(q), len(self.accepted), True)
                    l.new_subs = getattr(l, "new_subs", []) + [(path, int(q), len(self.accepted), self.cur_op)]
                codes.append(q)
            l.expected_acks.append(("SUBACK", p[1], ",".join(codes) if codes else "-"))
            if bad:
                l.misbehaved = True
                l.pending_end = bad
                # the flag is set but the batch goes on; the connection is closed after it
                l.deferred_end = bad
            return None
        if kind == "UNSUB":
            reasons = []
            for f in [x for x in p[2].split(",") if x]:
                path = unhx(f)
                if path in l.subs:
                    del l.subs[path]
                    reasons.append("0")
                    l.unsubbed = getattr(l, "unsubbed", []) + [(path, len(self.accepted))]
                    l.unsubbed_ops = getattr(l, "unsubbed_ops", []) + [(path, len(self.accepted), self.cur_op)]
                else:
                    reasons.append("17")
            # exactly one UNSUBACK per UNSUBSCRIBE, one reason per filter
            l.expected_acks.append(("UNSUBACK", p[1], ",".join(reasons) if reasons else "-"))
            return None
        if kind == "PUBACK" or kind == "PUBREC":
            if not l.unacked or l.unacked[0][0] != int(p[1]):
                self.undecidable_ack(i, l)
                # the window is left as it is: the head was not acknowledged and must be sent
                # again when a persistent session resumes
                return "unsolicited-ack"
            head = l.unacked.popleft()
            if len(head) > 2:
                head[2]["acked"] = True
            if kind == "PUBREC":
                if head[1] != 2:
                    pass
                l.expected_acks.append(("PUBREL", p[1]))
                l.rel_pending = getattr(l, "rel_pending", deque())
                l.rel_pending.append(int(p[1]))
            return None
        if kind == "PUBCOMP":
            rp = getattr(l, "rel_pending", deque())
            if not rp or rp[0] != int(p[1]):
                return "unsolicited-pubcomp"     # the pending release stays pending
            rp.popleft()
            return None
        if kind == "PING":
            l.expected_acks.append(("PINGRESP",))
            return None
        if kind == "DISC":
            self.wills.pop(l.name, None)
            return "disconnect-packet"
        return None

    def do_publish(self, pi, l, topic, payload, retain, props, qos):
        if props != "-":
            a, s, _t = props.split(":")
            if s != "Sx":
                return "pub-subids"
            if a != "Ax":
                alias = int(a[1:])
                if alias == 0 or alias > 4096:
                    return "pub-bad-alias"
                if topic == b"":
                    if alias not in l.alias_in:
                        return "pub-unknown-alias"
                    topic = l.alias_in[alias]
                else:
                    if not utf8_ok(topic):
                        return "pub-bad-utf8"
                    l.alias_in[alias] = topic
            elif topic == b"":
                return "pub-empty-topic"        # [MQTT-4.7.3-1]: closes the connection (ProtocolError)
        elif topic == b"":
            return "pub-empty-topic"
        if not utf8_ok(topic):
            return "pub-bad-utf8"
        self.accept(pi, l, topic, payload, retain, qos)
        return None

    def op_CONSUME(self, i, t, ans):
        self.epoch += 1
        if ans == "SOME":
            self.last_some = i
        if ans == "NONE 0":
            self.idle_points.append(i)
            # links that were drained, owed nothing and had an empty window at a DRAIN after which
            # the router did nothing but find its queue empty: all their requests are parked, so
            # every subscription in force has had its first sweep
            for l in self.links:
                d = getattr(l, "calm_drain", None)
                if d is not None and self.last_some < d and l.ended is None:
                    l.calm_points = getattr(l, "calm_points", []) + [i]
                    l.calm_pairs = getattr(l, "calm_pairs", []) + [(d, i)]

    def undecidable_ack(self, i, l):
        """an ack that does not match what the client has SEEN: unsolicited only if nothing can
        be sitting undrained in the link's buffer; otherwise the ghost cannot decide"""
        if l.drained_epoch == self.epoch:
            return False
        if self.lost is None:
            self.lost = i
        return True

    def op_DRAIN(self, i, t, ans):
        k = int(t[1])
        if k >= len(self.links):
            return
        l = self.links[k]
        l.drained_epoch = self.epoch
        if l.ended is not None:
            l.drained_after_end = True
        for n in parse_notifications(ans):
            if n[0] == "ACK":
                if n[1] == "CONNACK":
                    l.id = int(n[2])
                    l.session_present = n[3] == "1"
                    if l.pid != l.id and self.lost is None:
                        self.lost = i
                    if l.registered is False:
                        self.viol(i, "C19", "link %d (%r) was not admissible but received a ConnAck" % (k, l.name))
                    if "FAIL" in n:
                        self.viol(i, "C19", "non-success ConnAck from the router")
                else:
                    l.got_acks.append(tuple(n[1:]))
            elif n[0] == "FWD":
                f = dict(cursor=n[1], topic=unhx(n[2]), payload=unhx(n[3]), qos=int(n[4]), pkid=int(n[5]),
                         retain=n[6] == "1", dup=n[7] == "1", props=n[8], at=i)
                # v5 subscriber side: resolve broker topic aliases as a client would
                if f["props"] != "-":
                    a = f["props"].split(":")[0]
                    if a != "Ax":
                        al = int(a[1:])
                        if f["topic"] == b"":
                            f["topic_resolved"] = getattr(l, "alias_out", {}).get(al)
                        else:
                            l.alias_out = getattr(l, "alias_out", {})
                            l.alias_out[al] = f["topic"]
                f.setdefault("topic_resolved", f["topic"])
                if f["topic_resolved"] in (None, b""):
                    self.skips["empty-or-unresolved-topic-forward"] += 1   # not judged by the delivery clauses
                    l.unresolved_fwd = getattr(l, "unresolved_fwd", 0) + 1
                else:
                    l.fwd.append(f)
                if f["qos"] > 0 and l.ended is not None and not l.clean and f["topic_resolved"]:
                    # a QoS>0 forward drained only after the persistent connection had ended was in
                    # its window, unacknowledged, at the disconnection: the rewind of K-C17-rewind
                    # took place although the ghost could not see it then
                    for p_ in list(l.subs):
                        g_, f_ = strip_share(p_)
                        if g_ is not None and topic_matches(f["topic_resolved"], f_):
                            self.rewound_groups.setdefault(g_, l.ended)
                if f["qos"] > 0:
                    # ---- C09: window
                    if f["pkid"] == 0 or f["pkid"] > MAX_INFLIGHT:
                        self.viol(i, "C09", "forward to link %d carries packet id %d outside 1..%d" % (k, f["pkid"], MAX_INFLIGHT))
                    if any(u[0] == f["pkid"] for u in l.unacked):
                        self.viol(i, "C09", "packet id %d re-used for link %d while still unacknowledged" % (f["pkid"], k))
                    l.unacked.append((f["pkid"], f["qos"], f))
                    if len(l.unacked) > MAX_INFLIGHT:
                        self.viol(i, "C09", "link %d has %d unacknowledged QoS>0 forwards (> %d)" % (k, len(l.unacked), MAX_INFLIGHT))
            elif n[0] == "UNSCHEDULE":
                l.owe_ready = True
                self.pause_reasons[k].add("busy")
            elif n[0] == "DISCONNECT":
                l.got_disconnect = n[1]
        if len(l.unacked) == MAX_INFLIGHT:
            self.pause_reasons[k].add("inflight-full")
        l.calm_drain = i if (not l.owe_ready and not l.unacked and not l.pending) else None
        # ---- C19: a connection the admission rules accept (valid id; after a takeover of the
        # same client id the broker is below max_connections) is acknowledged: once the router
        # has gone idle after the Connect event, the ConnAck must be in the link's buffer
        if l.registered and l.id is None and l.ended is None and not getattr(l, "c19_flagged", False) \
                and any(l.at < p_ < i for p_ in self.idle_points):
            l.c19_flagged = True
            self.viol(i, "C19", "admissible link %d (%r) was not acknowledged: the router went idle after its Connect and no ConnAck arrived" % (k, l.name))

    def op_READY(self, i, t, ans):
        l = self.owner.get(int(t[1]))
        if l is not None:
            l.owe_ready = False

    def op_DISCONNECT(self, i, t, ans):
        l = self.owner.get(int(t[1]))
        if l is not None:
            self.end_link(l, i, "disconnect-event")

    # ---- foreign / stale signals: same router event, not sent by the addressed connection's link
    def op_XDATA(self, i, t, ans):
        self.op_DATA(i, t, ans)

    def op_XREADY(self, i, t, ans):
        l = self.owner.get(int(t[1]))
        if l is not None and not l.owe_ready:
            return      # ignored by the router unless the connection is paused Busy; ghost: no effect
        self.op_READY(i, t, ans)

    def op_XSHADOW(self, i, t, ans):
        pass

    def op_XDISCONNECT(self, i, t, ans):
        l = self.owner.get(int(t[1]))
        if l is not None:
            # known finding K10: events address connections by bare slab key; a signal that the
            # connection's own link did not send ends it
            l.foreign_end = i
            self.known.append((i, "C14", "K10", "link %d (%r) was closed by a Disconnect event its own link did not send (key %s)" % (l.k, l.name, t[1])))
        self.op_DISCONNECT(i, t, ans)

    def op_WILL(self, i, t, ans):
        name = unhx(t[1])
        w = self.wills.pop(name, None)
        if w is not None and utf8_ok(w["topic"]):
            self.accept(i, None, w["topic"], w["payload"], bool(w["retain"]), w["qos"])
            self.stats["wills_published"] += 1

    # deferred end after a batch with a bad SUBSCRIBE
    def post_batch(self):
        pass


def finish_deferred(w):
    pass


# ---------------------------------------------------------------------- end-of-history checks

def quiescent_end(w):
    """True when the history ends in: CONSUME->NONE, then every live link DRAINed to '[]',
    nothing pushed-but-unannounced, nothing unacknowledged, no Ready owed."""
    ops, ans = w.ops, w.answers
    if w.panic_at is not None or len(ans) < len(ops):
        return False
    i = len(ops) - 1
    while i >= 0 and ops[i] == "CONSUME" and ans[i] == "NONE 0":
        i -= 1                      # trailing looks at the empty ready queue
    drained = set()
    while i >= 0 and ops[i].startswith("DRAIN"):
        if ans[i] != "[]":
            return False
        drained.add(int(ops[i].split()[1]))
        i -= 1
    if i < 0 or not (ops[i] == "CONSUME" and ans[i] == "NONE 0"):
        return False
    for l in w.links:
        if l.registered and l.ended is None:
            if l.k not in drained or l.pending or l.unacked or l.owe_ready or l.id is None:
                return False
            if "unknown-data" in l.notes or "maybe-disconnected" in l.notes:
                return False
    return True


def spinning_end(w):
    """the history ends with the router consuming for ever without producing anything although
    no client owes it anything: >= 2000 CONSUMEs answered SOME in the last 3000 ops, all of
    which are CONSUME or DRAIN, every DRAIN empty"""
    ops, ans = w.ops, w.answers
    if w.panic_at is not None or len(ans) < len(ops) or len(ops) < 3000:
        return False
    some = 0
    for o, a in zip(ops[-3000:], ans[-3000:]):
        if o == "CONSUME":
            some += a == "SOME"
        elif o.startswith("DRAIN"):
            if a != "[]":
                return False
        else:
            return False
    return some >= 2000


def check_end(w):
    """clauses that need the whole history"""
    q = quiescent_end(w)
    w.quiescent = q
    if spinning_end(w):
        shared = any(strip_share(p_)[0] is not None for l in w.links for (p_, _q, _s, _a) in getattr(l, "new_subs", []))
        if shared and w.rewound_groups:
            # the rewind leaves the group cursor behind a member that parked at the log end: the
            # rewound messages are only handed out at the next publish (same known finding)
            w.known.append((len(w.ops) - 1, "C17", "K-C17-rewind", "after a group cursor rewind (groups %s) the router keeps skipping a shared request: the group's current member is parked beyond the rewound cursor" % sorted(w.rewound_groups)))
        else:
          w.viol(len(w.ops) - 1, "C17" if shared else "C01",
               "the router never goes idle: it keeps consuming ready connections without forwarding anything although every client has drained, acknowledged and sent its Readys%s" % (
                   " (a shared subscription request is skipped for ever: the group's turn rests on a member that cannot take it)" if shared else ""))
    ended_by_deferred = set()
    for l in w.links:
        if not l.registered:
            if l.fwd or l.got_acks:
                w.viol(l.at, "C19", "rejected link %d received traffic" % l.k)
            continue
        unreliable = bool(l.notes)
        # ---------------- C06: acks = expected, in order, nothing foreign
        exp = [tuple(x) for x in l.expected_acks]
        got = [tuple(x) for x in l.got_acks]
        if not unreliable:
            n = min(len(exp), len(got))
            if got[:n] != exp[:n] or len(got) > len(exp):
                j = next((j for j in range(n) if got[j] != exp[j]), n)
                w.viol(l.at, "C06", "link %d (%r): ack #%d is %s, expected %s" % (
                    l.k, l.name, j, got[j] if j < len(got) else None, exp[j] if j < len(exp) else "nothing more"))
            elif q and l.ended is None and not getattr(l, "deferred_end", None) and len(got) != len(exp):
                w.viol(l.at, "C06", "link %d (%r): idle broker still owes %s" % (l.k, l.name, exp[len(got):][:3]))
                if "inflight-full" in w.pause_reasons.get(l.k, ()):
                    # C09: after in-order acks the broker must resume without further stimulus
                    w.viol(l.at, "C09", "link %d (%r) had a full window, acknowledged everything in order, and the idle broker still owes it %s" % (
                        l.k, l.name, exp[len(got):][:3]))
        # ---------------- session present flag (C08)
        if l.session_present is not None and hasattr(l, "expect_session") and not unreliable:
            if l.session_present != l.expect_session:
                w.viol(l.at, "C08", "link %d (%r, clean=%s): session_present=%s, expected %s" % (
                    l.k, l.name, l.clean, l.session_present, l.expect_session))
    check_delivery(w, q)
    return w


def still_retained(w, flt, n, nb):
    """is the message with acceptance index n certainly still in the log of filter flt when nb
    messages have been accepted?  (segcount-1) closed segments of >= segsize bytes each are always
    kept; with a single segment only a log that never rolled over is safe"""
    cum = w.log_cum.get(flt, [])
    import bisect
    j = bisect.bisect_left(cum, (nb, -1))          # entries with index < nb
    total = cum[j - 1][1] if j > 0 else 0
    if total < w.cfg["segsize"]:
        return True                                 # never rolled over
    if w.cfg["segcount"] < 2:
        return False
    k = bisect.bisect_left(cum, (n, -1))
    before = cum[k - 1][1] if k > 0 else 0          # bytes before message n
    return total - before <= (w.cfg["segcount"] - 1) * w.cfg["segsize"]


def expected_for(w, l, path, qos, since, until=None):
    g, flt = strip_share(path)
    out = []
    for (n, topic, payload, _r, _pub, _q, _i) in w.accepted:
        if n < since or (until is not None and n >= until):
            continue
        if payload != b"" and topic_matches(topic, flt):
            out.append((topic, payload))
    return out


def check_delivery(w, q):
    """C01 (exactness for non-shared subscriptions of clean, never-resumed links),
    C15 (retained flags), C17 (shared groups: at most once across members)."""
    # -------- C17: a message forwarded through a group reaches at most one member (per group)
    # identify forwards that can only stem from a shared subscription: the receiver has no
    # matching non-shared subscription at all during its life.
    for l in w.links:
        if not l.registered:
            continue
        unreliable = bool(l.notes) or l.resumed or not l.clean
        live = [f for f in l.fwd if not (f["retain"] and f["cursor"] == "-")]
        retained = [f for f in l.fwd if f["retain"] and f["cursor"] == "-"]
        # every subscription the link ever held (path -> list of (qos, from, to))
        spans = defaultdict(list)
        for (path, qos, since) in getattr(l, "resumed_subs", []):
            spans[path].append([qos, since, None])
        for (path, qos, since, _pi) in getattr(l, "new_subs", []):
            spans[path].append([qos, since, None])
        for (path, at) in getattr(l, "unsubbed", []):
            for s in spans.get(path, []):
                if s[2] is None:
                    s[2] = at
                    break
        # ---- nothing unmatched (C01 safety), for every link whatever its history
        for f in live:
            tp = f["topic_resolved"]
            if tp is None or tp == b"":
                w.skips["alias-unresolved"] += 1
                continue
            if f["payload"] == b"":
                continue
            ok = False
            for path, ss in spans.items():
                g, flt = strip_share(path)
                if topic_matches(tp, flt):
                    ok = True
            if not ok:
                w.viol(f["at"], "C01", "link %d (%r) received %r on %r which matches none of its subscriptions %s" % (
                    l.k, l.name, f["payload"], tp, sorted(spans)))
            # original topic and payload: must be an accepted message
            if not any(a[1] == tp and a[2] == f["payload"] for a in w.accepted):
                w.viol(f["at"], "C01", "link %d received (%r, %r) which the broker never accepted" % (l.k, tp, f["payload"]))
        # ---- retained flag discipline (C15)
        for f in retained:
            tp = f["topic_resolved"]
            if tp is None:
                w.skips["alias-unresolved"] += 1
                continue
            hist = w.retained_hist.get(tp, [])
            if not any(pl == f["payload"] for (_n, pl) in hist):
                w.viol(f["at"], "C15", "link %d got retained-flagged (%r,%r) that never was the retained message of that topic" % (l.k, tp, f["payload"]))
            ok = any(strip_share(p)[0] is None and topic_matches(tp, p) for p in spans)
            if not ok:
                w.viol(f["at"], "C15", "link %d got a retained replay on %r without a matching non-shared subscription" % (l.k, tp))
            # the replay belongs to a subscription's FIRST sweep: a message accepted after the router
            # went idle with that subscription in force (and the window never full) cannot be replayed
            # (only QoS0 subscriptions: a QoS>0 request's first sweep is postponed while the window is
            # full, which the ghost cannot see for forwards that were pushed but not yet drained)
            if True:
                acc_ops = [a[6] for a in w.accepted if a[1] == tp and a[2] == f["payload"] and a[3]]
                cands = [(p_, at_) for (p_, _q, _s, at_) in getattr(l, "new_subs", []) if strip_share(p_)[0] is None and topic_matches(tp, p_)]
                qos0_only = all(_q == 0 for (p_, _q, _s, at_) in getattr(l, "new_subs", []) if strip_share(p_)[0] is None and topic_matches(tp, p_))
                if acc_ops and cands and qos0_only and not l.resumed and all(any(at_ < i0 < min(acc_ops) for i0 in getattr(l, "calm_points", [])) for (_p, at_) in cands):
                    w.viol(f["at"], "C15", "link %d got %r on %r flagged retained although it was accepted after the router had gone idle with the subscription already in force (replay after the first sweep)" % (l.k, f["payload"], tp))
        for f in live:
            if f["retain"]:
                w.viol(f["at"], "C15", "live forward flagged retained: link %d %r" % (l.k, f["payload"]))
        has_shared = any(strip_share(p)[0] is not None for p in spans)
        # ---- completeness at calm points (C01), for every link whatever became of it later: at a
        # DRAIN d after which the router only found its queue empty, with nothing owed by the client
        # (window empty, no Ready owed, nothing pushed), every message accepted before d that matches
        # a non-shared subscription made on this connection and still in force at d has arrived
        if not l.notes and not getattr(l, "unresolved_fwd", 0) and getattr(l, "foreign_end", None) is None:
            acc_ops = [a[6] for a in w.accepted]
            import bisect
            done = False
            for (d, i0) in getattr(l, "calm_pairs", []):
                nb = bisect.bisect_left(acc_ops, d)
                got_by = set((f["topic_resolved"], f["payload"]) for f in l.fwd if f["at"] <= d)
                for (path, qos, since, _pi) in getattr(l, "new_subs", []):
                    g_, flt = strip_share(path)
                    if g_ is not None or since >= nb:
                        continue
                    untils = [at for (pp, at) in getattr(l, "unsubbed", []) if pp == path and at >= since]
                    if untils and min(untils) <= nb:
                        continue
                    for (n, topic, payload, _r, _pub, _q, _i) in w.accepted[since:nb]:
                        if payload != b"" and topic_matches(topic, flt) and (topic, payload) not in got_by:
                            if not still_retained(w, flt, n, nb):
                                w.skips["completeness-skipped-retention"] += 1
                                continue
                            w.viol(d, "C01", "link %d (%r) drained at op %d, owed nothing, the router idle since: (%r, %r), accepted before under its subscription %r, never arrived" % (
                                l.k, l.name, d, topic, payload, path))
                            done = True
                            break
                    if done:
                        break
                w.stats["c01_calm_points_checked"] += 1
                if done:
                    break
        # ---- C08 at calm points: a resumed connection that is drained, owes nothing, with the router
        # idle since, has received (A) everything accepted while the client was away and (B) again
        # every QoS>0 forward its previous connection had received and not acknowledged
        if l.resumed and not l.notes and not getattr(l, "unresolved_fwd", 0) and getattr(l, "foreign_end", None) is None \
                and getattr(l, "calm_pairs", None) and getattr(l, "prev", None) is not None:
            prevl = l.prev
            rsubs = [(p_, q_) for (p_, q_, _s) in getattr(l, "resumed_subs", [])]
            if prevl.notes or getattr(prevl, "unresolved_fwd", 0) or any(strip_share(p_)[0] is not None for (p_, _q) in rsubs):
                w.skips["c08-calm-skipped"] += 1
            else:
                import bisect
                acc_ops = [a[6] for a in w.accepted]
                (d, _i0) = l.calm_pairs[-1]
                nb = bisect.bisect_left(acc_ops, d)
                gone = set(pp for (pp, _at, uop) in getattr(l, "unsubbed_ops", []) if uop < d)
                got_by = set((f["topic_resolved"], f["payload"]) for f in l.fwd if f["at"] <= d)
                away_from = getattr(prevl, "ended_n", None)
                bad = None
                # when did each subscription of the session take effect (acceptance counter)?
                chain_, c_ = [], l
                while c_ is not None:
                    chain_.append(c_)
                    c_ = getattr(c_, "prev", None) if c_.resumed else None
                since_of = {}
                for x_ in reversed(chain_):
                    for (p_, _qq, s_, _pi) in getattr(x_, "new_subs", []):
                        since_of[p_] = s_
                    for (p_, _a) in getattr(x_, "unsubbed", []):
                        since_of.pop(p_, None)
                for (path, qos) in rsubs:
                    if path in gone or bad or path not in since_of:
                        continue
                    if away_from is not None:
                        for (n, topic, payload, _r, _pub, _q, _i) in w.accepted[away_from:nb]:
                            if payload != b"" and topic_matches(topic, path) and (topic, payload) not in got_by and still_retained(w, path, n, nb):
                                bad = "(%r, %r), accepted while the client was away, never arrived" % (topic, payload)
                                break
                    if bad or qos == 0:
                        continue
                    for f in prevl.fwd:
                        if f["qos"] > 0 and not f.get("acked") and f["cursor"] != "-" and f["payload"] != b"" and f["topic_resolved"] is not None \
                                and topic_matches(f["topic_resolved"], path) and (f["topic_resolved"], f["payload"]) not in got_by:
                            ns = [a[0] for a in w.accepted if a[1] == f["topic_resolved"] and a[2] == f["payload"] and a[0] >= since_of[path]]
                            # the unacknowledged copy may stem from ANY of the session's subscriptions that match
                            # the topic (cursor tags do not name the log): every such log must still hold it
                            others = [p2 for (p2, _q2) in rsubs if p2 in since_of and topic_matches(f["topic_resolved"], p2)]
                            if ns and all(still_retained(w, p2, ns[0], nb) and ns[0] >= since_of[p2] for p2 in others):
                                bad = "(%r, %r), forwarded to the previous connection (link %d) and never acknowledged, was not sent again" % (f["topic_resolved"], f["payload"], prevl.k)
                                break
                if bad:
                    w.viol(d, "C08", "resumed link %d (%r) drained at op %d, owed nothing, the router idle since: %s" % (l.k, l.name, d, bad))
                w.stats["c08_calm_points_checked"] += 1
        if unreliable:
            w.skips["delivery-exactness-skipped-link"] += 1
            # persistent / resumed links: redeliveries make the upper bounds and the order clause
            # undecidable, but the LOWER bound at quiescence stands for every subscription made on
            # this very connection that is still in force: whatever was accepted after it took
            # effect must have arrived at least once
            if not l.notes and q and l.ended is None and not has_shared:
                got_any = set((f["topic_resolved"], f["payload"]) for f in l.fwd if f["payload"] != b"" and f["topic_resolved"] is not None)
                for (path, qos, since, _pi) in getattr(l, "new_subs", []):
                    if strip_share(path)[0] is not None:
                        continue
                    if any(pp == path and at >= since for (pp, at) in getattr(l, "unsubbed", [])):
                        continue
                    if not (w.log_bytes[path] < w.cfg["segcount"] * w.cfg["segsize"]):
                        w.skips["completeness-skipped-retention"] += 1
                        continue
                    miss = [x for x in expected_for(w, l, path, qos, since, None) if x not in got_any]
                    if miss:
                        w.viol(l.at, "C01", "idle broker: link %d (%r, persistent/resumed) is missing %r accepted after its subscription %r took effect" % (l.k, l.name, miss[0], path))
                        break
                w.stats["c01_lower_bound_persistent_links"] += 1
            continue
        # ---- exactness per message (C01): count = number of matching non-shared subscription spans
        counts = defaultdict(int)
        for f in live:
            if f["payload"] != b"" and f["topic_resolved"] is not None:
                counts[(f["topic_resolved"], f["payload"])] += 1
        exp_counts = defaultdict(int)      # upper bound: every span, open or closed
        must_counts = defaultdict(int)     # lower bound at quiescence: spans still open
        for path, ss in spans.items():
            g, flt = strip_share(path)
            if g is not None:
                continue
            for (qos, since, until) in ss:
                end = until
                for (tp, pl) in expected_for(w, l, path, qos, since, end):
                    exp_counts[(tp, pl)] += 1
                    if until is None:
                        must_counts[(tp, pl)] += 1
        within_retention = all(w.log_bytes[strip_share(p)[1]] < w.cfg["segcount"] * w.cfg["segsize"] for p in spans)
        for key, c in counts.items():
            e = exp_counts.get(key, 0)
            if c > e and not has_shared:
                w.viol(l.at, "C01", "link %d (%r) received %r %d times, %d matching subscriptions" % (l.k, l.name, key, c, e))
        if q and l.ended is None and within_retention and not has_shared:
            # messages accepted while a subscription was being removed/re-added in the same
            # batch are judged by the spans above, which follow processing order exactly
            for key, e in must_counts.items():
                if counts.get(key, 0) < e:
                    w.viol(l.at, "C01", "idle broker: link %d (%r) is missing %r (got %d of %d)" % (l.k, l.name, key, counts.get(key, 0), e))
                    if "inflight-full" in w.pause_reasons.get(l.k, ()):
                        w.viol(l.at, "C09", "link %d (%r) had a full window and acknowledged everything in order, but the idle broker never forwarded the rest of its backlog (%r)" % (l.k, l.name, key))
                    break
        elif q and l.ended is None and not within_retention:
            w.skips["completeness-skipped-retention"] += 1
        # ---- order within one subscription (C01): expected list is a subsequence of what arrived
        if not has_shared:
            for path, ss in spans.items():
                for (qos, since, until) in ss:
                    exp = expected_for(w, l, path, qos, since, until)
                    es = set(exp)
                    got = [(f["topic_resolved"], f["payload"]) for f in live if (f["topic_resolved"], f["payload"]) in es]
                    # first occurrences must respect acceptance order
                    seen, firsts = set(), []
                    for x in got:
                        if x not in seen:
                            seen.add(x)
                            firsts.append(x)
                    pos = {x: j for j, x in enumerate(exp)}
                    idx = [pos[x] for x in firsts]
                    if len(spans) == 1 and len(ss) == 1 and idx != sorted(idx):
                        w.viol(l.at, "C01", "link %d (%r): subscription %r delivered out of acceptance order" % (l.k, l.name, path))
    # -------- C15 completeness: a NEW non-shared subscription receives, flagged retained, the retained
    # message of every matching topic, provided they fit in the delivery window.  Judged at the calm
    # points of the connection that holds the subscription — which may be a later connection of the
    # same persistent session if the one that subscribed ended before it was served.
    import bisect as _bs
    acc_ops = [a[6] for a in w.accepted]
    for l in w.links:
        if not l.registered or not getattr(l, "calm_pairs", None) or getattr(l, "foreign_end", None) is not None:
            continue
        chain, c = [], l
        while c is not None:
            chain.append(c)
            c = getattr(c, "prev", None) if c.resumed else None
        chain.reverse()
        if any(x.notes or getattr(x, "unresolved_fwd", 0) for x in chain):
            continue
        qos_fwd_total = sum(1 for x in chain for f in x.fwd if f["qos"] > 0)
        (d, _i0) = l.calm_pairs[-1]
        nb = _bs.bisect_left(acc_ops, d)
        flagged = defaultdict(set)
        for x in chain:
            for f in x.fwd:
                if f["retain"] and f["cursor"] == "-" and f["topic_resolved"] is not None and (x is not l or f["at"] <= d):
                    flagged[f["topic_resolved"]].add(f["payload"])
        done = False
        for xi, x in enumerate(chain):
            for (path, qos, since, sop) in getattr(x, "new_subs", []):
                if strip_share(path)[0] is not None or since > nb or (x is l and sop >= d):
                    continue
                # still in force at d: not unsubscribed afterwards anywhere in the chain
                gone = any(pp == path and at >= since for y in chain[xi:] for (pp, at) in getattr(y, "unsubbed", []))
                if gone or (x is not l and sop > (x.ended if x.ended is not None else 10 ** 9)):
                    continue
                # topics holding a retained message at subscription time and ever since (until d)
                cands = []
                maybe = 0          # topics that may have held a retained message when the sweep ran
                for tp, hist in w.retained_hist.items():
                    if not topic_matches(tp, path):
                        continue
                    before = [pl for (n, pl) in hist if n < since]
                    during = [pl for (n, pl) in hist if since <= n < nb]
                    if (before and before[-1] is not None) or any(pl is not None for pl in during):
                        maybe += 1
                    if before and before[-1] is not None and all(pl is not None for pl in during):
                        cands.append((tp, set([before[-1]] + during)))
                if not cands:
                    continue
                room = w.cfg["maxout"] if qos == 0 else 100 - qos_fwd_total
                if maybe > room:
                    w.skips["c15-replay-may-not-fit"] += 1
                    continue
                for (tp, vals) in cands:
                    if not (flagged.get(tp, set()) & vals):
                        w.viol(d, "C15", "link %d (%r): new subscription %r (made on link %d) never received the retained message of %r (%r) although the connection was drained, owed nothing and the router idle at op %d" % (
                            l.k, l.name, path, x.k, tp, sorted(vals)[:2], d))
                        done = True
                        break
                w.stats["c15_replay_completeness_checked"] += 1
                if done:
                    break
            if done:
                break
    # -------- C08: persistent sessions
    for l in w.links:
        if not l.registered or l.notes:
            continue
        first_sub = min([pi for (_p, _q, _s, pi) in getattr(l, "new_subs", [])] + [10 ** 9])
        if not l.resumed:
            # a connection without a resumed session starts with no subscriptions and no backlog
            for f in l.fwd:
                if f["at"] < first_sub:
                    w.viol(f["at"], "C08", "link %d (%r, clean=%s, no session) received %r before subscribing to anything" % (l.k, l.name, l.clean, f["payload"]))
                    break
            continue
        # chain of links of this session, oldest first
        chain, c = [], l
        while c is not None:
            chain.append(c)
            c = getattr(c, "prev", None) if c.resumed else None
        chain.reverse()
        if any(x.notes for x in chain):
            continue
        if getattr(l, "new_subs", None) or getattr(l, "unsubbed", None):
            w.skips["c08-subs-changed-after-resume"] += 1
            continue
        paths = [p for (p, _q, _s) in getattr(l, "resumed_subs", [])]
        if any(strip_share(p)[0] is not None for p in paths):
            w.skips["c08-shared-sub"] += 1
            # known finding K-C08-shared-window: the session holds a plain and a shared subscription
            # on the SAME filter (one log, one window key): unacknowledged shared forwards rewind the
            # plain request too, and the plain subscription sends acknowledged messages again
            plain = set(p for p in paths if strip_share(p)[0] is None)
            both = [p for p in paths if strip_share(p)[0] is not None and strip_share(p)[1] in plain]
            if both:
                prevl = chain[-2]
                acked = defaultdict(int)
                for f in prevl.fwd:
                    if f.get("acked") and f["payload"] != b"" and f["topic_resolved"] is not None:
                        acked[(f["topic_resolved"], f["payload"])] += 1
                unacked_prev = sum(1 for f in prevl.fwd if f["qos"] > 0 and not f.get("acked"))
                again = defaultdict(int)
                for f in l.fwd:
                    if f["payload"] != b"" and f["topic_resolved"] is not None and not (f["retain"] and f["cursor"] == "-"):
                        again[(f["topic_resolved"], f["payload"])] += 1
                for key, n_again in again.items():
                    n_prev_total = sum(1 for f in prevl.fwd if (f["topic_resolved"], f["payload"]) == key)
                    if acked.get(key, 0) > 0 and unacked_prev > 0 and n_again > n_prev_total - acked[key]:
                        w.known.append((l.at, "C08", "K-C08-shared-window", "resumed link %d (%r) holds %r and %r: %r, %d cop%s of which it had acknowledged, arrived %d times again" % (
                            l.k, l.name, strip_share(both[0])[1], both[0], key, acked[key], "y" if acked[key] == 1 else "ies", n_again)))
                        break
            continue
        # when did each subscription of the session take effect (acceptance counter)
        since = {}
        for x in chain:
            for (p, _qq, s_, _pi) in getattr(x, "new_subs", []):
                since.setdefault(p, s_)
            for (p, _a) in getattr(x, "unsubbed", []):
                since.pop(p, None)
        if set(since) != set(paths):
            w.skips["c08-sub-history-unclear"] += 1
            continue
        final_prev = defaultdict(int)
        for x in chain[:-1]:
            for f in x.fwd:
                if f["retain"] and f["cursor"] == "-":
                    continue
                if f["topic_resolved"] is None or f["payload"] == b"":
                    continue
                if f["qos"] == 0 or f.get("acked"):
                    final_prev[(f["topic_resolved"], f["payload"])] += 1
        got = defaultdict(int)
        for f in l.fwd:
            if f["retain"] and f["cursor"] == "-":
                continue
            if f["topic_resolved"] is None or f["payload"] == b"":
                continue
            got[(f["topic_resolved"], f["payload"])] += 1
        k = defaultdict(int)
        for p in paths:
            for (n, topic, payload, _r, _pub, _q, _i) in w.accepted:
                if n >= since[p] and payload != b"" and topic_matches(topic, p):
                    k[(topic, payload)] += 1
        # a subscription the session dropped earlier may have produced earlier (final) deliveries
        # that cannot be told apart from those of the kept ones: skip such messages
        dropped = set(p for x in chain for (p, _a) in getattr(x, "unsubbed", []))
        ambiguous = set(key for key in set(got) | set(k) | set(final_prev)
                        if any(topic_matches(key[0], strip_share(p)[1]) for p in dropped))
        for key in ambiguous:
            got.pop(key, None); k.pop(key, None); final_prev.pop(key, None)
        w.skips["c08-ambiguous-message"] += len(ambiguous)
        for key, cnt in got.items():
            if cnt > k.get(key, 0) - final_prev.get(key, 0):
                w.viol(l.at, "C08", "resumed link %d (%r): %r delivered %d times after resume; %d matching subscriptions, %d final deliveries before" % (
                    l.k, l.name, key, cnt, k.get(key, 0), final_prev.get(key, 0)))
                break
        within = all(w.log_bytes[p] < w.cfg["segcount"] * w.cfg["segsize"] for p in paths)
        if q and l.ended is None and within:
            for key, kk in k.items():
                if final_prev.get(key, 0) + got.get(key, 0) < kk:
                    w.viol(l.at, "C08", "resumed link %d (%r): idle broker never delivered %r (final before resume %d, after %d, subscriptions %d)" % (
                        l.k, l.name, key, final_prev.get(key, 0), got.get(key, 0), kk))
                    break
        w.stats["c08_resumed_links_checked"] += 1

    # -------- C17: at most one member per group and message
    groups = defaultdict(list)
    for l in w.links:
        if not l.registered:
            continue
        for (path, qos, since, _pi) in getattr(l, "new_subs", []):
            g, flt = strip_share(path)
            if g is not None:
                groups[g].append((l, path, flt))
    for g, members in groups.items():
        # ---- completeness / member order for groups whose members never left
        mlinks = []
        for (l, path, flt) in members:
            if l not in mlinks:
                mlinks.append(l)
        simple = all(len(set(x[0] for x in getattr(l, "new_subs", []))) == 1 and not getattr(l, "unsubbed", None)
                     and l.clean and not l.resumed and not l.notes for l in mlinks)
        paths_g = set(path for (_l, path, _f) in members)
        if simple and len(paths_g) == 1:
            flt = members[0][2]
            start = min(x[2] for l in mlinks for x in getattr(l, "new_subs", []))
            exp = [(tp, pl) for (n, tp, pl, _r, _p, _q, _i) in w.accepted if n >= start and pl != b"" and topic_matches(tp, flt)]
            pos = {x: j for j, x in enumerate(exp)}
            union = set()
            for l in mlinks:
                got = [(f["topic_resolved"], f["payload"]) for f in l.fwd if (f["topic_resolved"], f["payload"]) in pos]
                union.update(got)
                idx = [pos[x] for x in got]
                if idx != sorted(idx):
                    w.viol(l.at, "C17", "group %r member link %d saw its share out of acceptance order" % (g, l.k))
            never_left = all(l.ended is None for l in mlinks)
            within = w.log_bytes[flt] < w.cfg["segcount"] * w.cfg["segsize"]
            if q and never_left and within:
                missing = [x for x in exp if x not in union]
                if missing:
                    w.viol(mlinks[0].at, "C17", "group %r (%d members, none ever left): idle broker never forwarded %r to any member (%d missing of %d)" % (
                        g, len(mlinks), missing[0], len(missing), len(exp)))
                w.stats["c17_groups_complete_checked"] += 1
        # ---- completeness for any group that kept at least one member from some moment T to the end
        if q and len(paths_g) == 1:
            path_g = next(iter(paths_g))
            flt = members[0][2]
            ambiguous = False
            iv = []
            for l in mlinks:
                if l.notes or l.resumed or not l.clean:
                    ambiguous = True
                if l.ended is not None and not getattr(l, "drained_after_end", False):
                    ambiguous = True      # forwards may sit, never looked at, in the ended link's buffer
                other = [p_ for (p_, _q, _s, _a) in getattr(l, "new_subs", []) if p_ != path_g]
                if any(topic_matches(b"x", b"x") and True for _ in ()) :
                    pass
                if any(strip_share(p_)[1] is not None and (strip_share(p_)[1] == flt or True) and p_ != path_g and
                       any(topic_matches(a[1], strip_share(p_)[1]) and topic_matches(a[1], flt) for a in w.accepted) for p_ in other):
                    ambiguous = True      # the member also receives the group's topics through another subscription
                for (p_, _q, since, sop) in getattr(l, "new_subs", []):
                    if p_ != path_g:
                        continue
                    until = None
                    for (pu, at, uop) in getattr(l, "unsubbed_ops", []):
                        if pu == path_g and at >= since and uop >= sop:
                            until = uop
                            break
                    if until is None and l.ended is not None:
                        until = l.ended
                    iv.append((sop, until, since))     # membership in OP time (+ acceptance counter at its start)
            if not ambiguous and iv and g not in w.rewound_groups:
                end_n = len(w.accepted)
                # T = earliest start of a chain of membership intervals that overlap in op time up to
                # the end: an empty group is dropped and re-created at the log tail, whatever was
                # accepted but not yet forwarded is legitimately gone ("while the group stayed non-empty")
                open_iv = [x for x in iv if x[1] is None]
                if open_iv:
                    Top = min(x[0] for x in open_iv)
                    changed = True
                    while changed:
                        changed = False
                        for (a_, b_, _n) in iv:
                            if b_ is not None and a_ < Top < b_:
                                Top = a_
                                changed = True
                    T = max(n_ for (a_, _b, n_) in iv if a_ == Top)
                    within = w.log_bytes[flt] < w.cfg["segcount"] * w.cfg["segsize"]
                    if within:
                        exp = [(tp, pl) for (n, tp, pl, _r, _p, _q, _i) in w.accepted if n >= T and pl != b"" and topic_matches(tp, flt)]
                        union = set()
                        for l in mlinks:
                            union.update((f["topic_resolved"], f["payload"]) for f in l.fwd)
                        missing = [x for x in exp if x not in union]
                        if missing:
                            w.viol(mlinks[0].at, "C17", "group %r always had a member since acceptance #%d, broker idle and everything acknowledged, but %r was never forwarded to any member (%d missing of %d)" % (
                                g, T, missing[0], len(missing), len(exp)))
                        w.stats["c17_groups_cover_checked"] += 1
        # links that hold ONLY shared subscriptions on this group's filters: their forwards are group forwards
        pure = [l for (l, path, flt) in members
                if all(strip_share(p)[0] is not None for p in set(x[0] for x in getattr(l, "new_subs", []))) and l.clean and not l.resumed]
        # a resumed persistent member whose session holds nothing but this group's subscription: its
        # forwards are group forwards as well; judged only against OTHER clients (its own earlier
        # connection may legitimately have received the same message unacknowledged)
        for l in w.links:
            if l.registered and l.resumed and not l.notes and not getattr(l, "new_subs", None):
                rs = set(p_ for (p_, _q, _s) in getattr(l, "resumed_subs", []))
                if rs and rs <= paths_g and len(rs) == 1 and l not in pure:
                    pure.append(l)
                    l.pure_resumed = True
        seen = {}
        for l in sorted(set(pure), key=lambda x: x.k):
            groups_of_l = set(strip_share(p)[0] for p in set(x[0] for x in getattr(l, "new_subs", [])) | set(p_ for (p_, _q, _s) in (getattr(l, "resumed_subs", []) if getattr(l, "pure_resumed", False) else [])))
            if len(groups_of_l) != 1:
                continue
            c = defaultdict(int)
            for f in l.fwd:
                if f["payload"] == b"" or f["topic_resolved"] is None:
                    continue
                key = (f["topic_resolved"], f["payload"])
                c[key] += 1
            n_paths = len(set(x[0] for x in getattr(l, "new_subs", []))) or 1
            for key, cnt in c.items():
                if cnt > n_paths and not getattr(l, "pure_resumed", False):
                    if g in w.rewound_groups:
                        w.known.append((l.at, "C17", "K-C17-rewind", "group %r member link %d got %r %d times after the group cursor was rewound" % (g, l.k, key, cnt)))
                    elif g in w.recreated_groups:
                        w.known.append((l.at, "C17", "K-C17-rejoin", "group %r member link %d got %r %d times after the group was re-created by a resumed member" % (g, l.k, key, cnt)))
                    else:
                        w.viol(l.at, "C17", "group %r member link %d got %r %d times" % (g, l.k, key, cnt))
                if n_paths == 1:
                    if key in seen and seen[key] is not l and seen[key].name != l.name:
                        if g in w.rewound_groups:
                            w.known.append((l.at, "C17", "K-C17-rewind", "group %r: %r forwarded to two members after the group cursor was rewound" % (g, key)))
                        elif g in w.recreated_groups:
                            w.known.append((l.at, "C17", "K-C17-rejoin", "group %r: %r forwarded to two members after the group was re-created by a resumed member" % (g, key)))
                        else:
                            w.viol(l.at, "C17", "group %r: %r forwarded to two members (links %d and %d)" % (g, key, seen[key].k, l.k))
                    seen[key] = l


def evaluate(ops, answers):
    w = World(ops, answers).run()
    check_end(w)
    # ---- C14: in a history where somebody misbehaved or foreign signals occurred, every alarm
    # about a link that itself behaved well is (also) an isolation failure
    hostile = any(getattr(l, "misbehaved", False) for l in w.links) or any(o.split()[0].startswith("X") for o in ops[: len(answers)])
    # any history with at least two clients: whatever the OTHER clients did (legitimately or not),
    # a failure towards a client that itself behaved well is an isolation failure as well
    several = len(set(l.name for l in w.links if l.registered)) >= 2
    if hostile or several:
        good = {l.k for l in w.links if l.registered and not getattr(l, "misbehaved", False) and getattr(l, "foreign_end", None) is None}
        import re as _re
        extra = []
        for (i, pr, text) in w.v:
            m = _re.search(r"link (\d+)", text)
            if pr in ("C01", "C06", "C08", "C09") and m and int(m.group(1)) in good:
                extra.append((i, "C14", "well-behaved " + text))
        w.v.extend(extra)
        for l in w.links:
            if l.k in good and getattr(l, "got_disconnect", None) is not None and l.end_kind in (None, "disconnect-event", "takeover", "disconnect-packet"):
                w.viol(l.at, "C14", "well-behaved link %d (%r) was sent DISCONNECT %s by the router" % (l.k, l.name, l.got_disconnect))
        w.stats["c14_good_links_in_hostile_histories"] += len(good)
    # ---- C16: a delivery alarm about a registered will message is (also) a last-will failure:
    # the will was due and did not arrive / arrived although it was not due / arrived twice
    will_payloads = set()
    for l in w.links:
        if l.will is not None and l.will["payload"]:
            will_payloads.add(l.will["payload"])
    if will_payloads:
        import re as _re2
        extra = []
        for (i, pr, text) in w.v:
            if pr in ("C01", "C08"):
                for m in _re2.finditer(r"b'(w\d+)'", text):
                    if m.group(1).encode() in will_payloads:
                        extra.append((i, "C16", "last will %r: %s" % (m.group(1), text)))
                        break
        w.v.extend(extra)
    if w.lost is not None:
        # the ghost's picture of which connection owns which id was refuted by a ConnAck:
        # nothing it concluded about deliveries/acks is reliable; keep only the panic clause
        keep = lambda v: v[1] == "C03" or (v[1] == "C19" and v[0] < w.lost)
        dropped = [v for v in w.v if not keep(v)]
        w.v = [v for v in w.v if keep(v)]
        w.skips["ghost-lost-history"] += 1
        w.skips["ghost-lost-dropped-alarms"] += len(dropped)
        w.dropped = dropped
    return w
