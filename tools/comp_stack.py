"""M-STACK — the broker's per-connection task end to end (server::broker::remote over in-memory
duplex streams against a real Router thread): C20 here; check_admission (C19), check_wills (C16)
and check_isolation (C14) are called from comp_router.

P: Props/C20.v (Stack/Proofs.v).  C: the real task / the real Protocol::write vs the extracted
Stack.Model (admission, epilogue, to_packet, has_arm).  M: the properties themselves evaluated on
what the client side of each connection receives.

A scenario is a small script (see harness/src/bin/stack.rs); the script is the replay."""
import concurrent.futures, hashlib, itertools, os, subprocess
import lib

PROPS = ["C20"]
JOBS = 8
CHUNK = 25
T = 6000          # generous per-read timeout (ms); never waited for on the paths we expect

KINDS = ["connect", "connack", "publish", "puback", "pubrec", "pubrel", "pubcomp", "subscribe",
         "suback", "unsubscribe", "unsuback", "pingreq", "pingresp", "disconnect"]
BROKER_KINDS = {"connack", "publish", "puback", "pubrec", "pubrel", "pubcomp", "suback", "unsuback", "pingresp", "disconnect"}


def hx(s):
    b = s.encode("utf-8") if isinstance(s, str) else bytes(s)
    return b.hex() if b else "-"


def unhx(h):
    return b"" if h == "-" else bytes.fromhex(h)


# ------------------------------------------------------------------ drivers

def impl_exe():
    o = os.environ.get("VERIF_STACK_IMPL")
    if o:
        return o, ""
    return lib.cargo_driver("stack")


def model_exe():
    return lib.ocaml_driver("stack", "StackX")


def setup():
    ok, out = lib.coq_make(["Props/C20.vo", "Extract/StackX.vo"])
    if not ok:
        print(out[-3000:])
        return False
    exe, out = model_exe()
    if not exe:
        print(out[-3000:])
        return False
    exe, out = lib.cargo_driver("stack")
    if not exe:
        print(out[-3000:])
    return exe is not None


class Scn:
    """one scenario: script lines + the generator's parameters; after the run, one output per line"""

    def __init__(self, group, name, **meta):
        self.group, self.name, self.meta = group, name, meta
        self.lines = ["SCENARIO " + name]
        self.labels = {}
        self.out = None

    def add(self, line, label=None):
        if label:
            self.labels[label] = len(self.lines)
        self.lines.append(line)
        return self

    def end(self):
        self.labels["END"] = len(self.lines)
        self.lines.append("END")
        return self

    def text(self):
        return "\n".join(self.lines) + "\n"

    def get(self, label):
        if self.out is None or label not in self.labels or self.labels[label] >= len(self.out):
            return ""
        return self.out[self.labels[label]]

    def replay_text(self, why):
        head = "# %s replay (stack driver script; run: ./check %s --replay <this file>)\n# %s\n" % (
            self.meta.get("prop", "C20"), self.meta.get("prop", "C20"), why.replace("\n", " "))
        head += "#@ group=%s %s\n" % (self.group, " ".join("%s=%s" % (k, repr(v).replace(" ", "")) for k, v in sorted(self.meta.items()) if k != "prop"))
        return head + self.text()


def run_chunk(exe, scns):
    txt = "".join(s.text() for s in scns)
    try:
        p = subprocess.run([exe], input=txt.encode(), stdout=subprocess.PIPE, stderr=subprocess.PIPE, timeout=1200)
        lines = p.stdout.decode("utf-8", "replace").splitlines()
    except subprocess.TimeoutExpired:
        lines = []
    i = 0
    for s in scns:
        n = len(s.lines)
        s.out = lines[i:i + n] if i + n <= len(lines) else None
        i += n


def run_scenarios(exe, scns, jobs=JOBS):
    chunks = [scns[i:i + CHUNK] for i in range(0, len(scns), CHUNK)]
    with concurrent.futures.ThreadPoolExecutor(max_workers=jobs) as ex:
        list(ex.map(lambda c: run_chunk(exe, c), chunks))


def parse_recv(line):
    """'RECV a | b | EOF' -> [(kind, {k: v}), ...]; terminal markers are kinds EOF/TIMEOUT/BAD"""
    if not line.startswith("RECV"):
        return [("?" + line, {})]
    body = line[4:].strip()
    if body in ("", "-"):
        return []
    out = []
    for it in body.split(" | "):
        parts = it.split(";")
        d = {}
        for p in parts[1:]:
            if "=" in p:
                k, v = p.split("=", 1)
                d[k] = v
            else:
                d[p] = ""
        k = parts[0]
        if k.startswith("BAD"):
            d["_"] = it
            k = "BAD"
        out.append((k, d))
    return out


def model_answers(mexe, ops):
    if not ops:
        return []
    rc, lines, err = lib.run_on_text(mexe, "\n".join(ops) + "\n")
    if rc != 0 or len(lines) != len(ops):
        raise RuntimeError("model driver failed: rc=%d %d/%d %s" % (rc, len(lines), len(ops), err[-500:]))
    return lines


# ------------------------------------------------------------------ ADMISSION (C19)

STATIC = [("user", "pass"), ("other", "pw2")]
CREDS = {"absent": None, "wronguser": ("nouser", "pass"), "wrongpass": ("user", "pass2"),
         "prefix": ("user", "pas"), "crossed": ("user", "pw2"), "right": ("user", "pass")}
CONFIGS = {"none": (None, "-"), "static": (STATIC, "-"), "static-empty": ([], "-"),
           "cbA": (None, "A"), "cbR": (None, "R"), "cbE": (None, "E:*:user:pass"), "cbEcid": (None, "E:c1:user:pass"),
           "bothA": (STATIC, "A"), "bothR": (STATIC, "R"), "bothE": ([("user", "zzz")], "E:*:user:pass")}
CIDS = {"normal": ("c1", 1), "normal-persist": ("c1", 0), "empty-clean": ("", 1), "empty-persist": ("", 0),
        "plus": ("a+b", 1), "dollar": ("$c", 1), "hash": ("c#", 1), "slash": ("a/b", 1)}
RAW_FIRST = {  # first packets that are not CONNECT, as raw frames of the listener's version
    "v4": {"connack": "20020000", "puback": "40020001", "pubrec": "50020001", "pubrel": "62020001", "pubcomp": "70020001",
           "suback": "9003000100", "unsuback": "b0020001", "pingreq": "c000", "pingresp": "d000", "disconnect": "e000"},
    "v5": {"connack": "2003000000", "puback": "40020001", "pubrec": "50020001", "pubrel": "62020001", "pubcomp": "70020001",
           "suback": "900400010000", "unsuback": "b00400010000", "pingreq": "c000", "pingresp": "d000", "disconnect": "e000"},
}
MALFORMED = {"type15": "f000", "type0": "0000", "badlen": "30ffffffff7f", "oversize": "30ffff7f",
             "connect-truncated": "100400044d51", "connect-badname": "100c00044d5158540402000500000163",
             "publish-noflags-len0": "3000", "reserved-flags-sub": "80050001000161"}


def cb_accepts(cb, cid, user, pw):
    if cb == "A":
        return True
    if cb == "R":
        return False
    _, c, u, p = cb.split(":")
    return (c == "*" or c == cid) and u == user and p == pw


def rule_admissible(m):
    """property C19, first sentence, straight from its text (independent of the Coq model)"""
    if m["first"] != "connect" or not m["level_ok"]:
        return False
    if m["ka"] == 0:
        return False
    cid, clean = m["cid"], m["clean"]
    if any(ch in cid for ch in "+$#/"):
        return False
    if cid == "" and not clean:
        return False
    static, cb = CONFIGS[m["config"]]
    if static is None and cb == "-":
        return True
    cr = CREDS[m["creds"]]
    if cr is None:
        return False
    if cb != "-":
        return cb_accepts(cb, cid, cr[0], cr[1])
    return dict(static).get(cr[0]) == cr[1]


def listen_opts(config):
    static, cb = CONFIGS[config]
    o = []
    if static is not None:
        o.append("static=" + (",".join("%s:%s" % (hx(u), hx(p)) for u, p in static) if static else "-"))
    if cb != "-":
        if cb.startswith("E:"):
            _, c, u, p = cb.split(":")
            o.append("cb=E:%s:%s:%s" % ("*" if c == "*" else hx(c), hx(u), hx(p)))
        else:
            o.append("cb=" + cb)
    return " ".join(o)


CPROPS = ["sexp", "rmax", "mps", "tam"]     # session expiry, receive maximum, maximum packet size, topic alias maximum


def cprops_of(m):
    """CONNECT properties of the scenario as {name: value} (MQTT 5 codec only)"""
    cp = m.get("cprops") or ()
    return dict(cp) if not isinstance(cp, dict) else cp


def model_admit_op(m):
    static, cb = CONFIGS[m["config"]]
    st = "-" if static is None else "S:" + ",".join("%s:%s" % (hx(u), hx(p)) for u, p in static)
    if cb.startswith("E:"):
        _, c, u, p = cb.split(":")
        cbs = "E:%s:%s:%s" % ("*" if c == "*" else hx(c), hx(u), hx(p))
    else:
        cbs = cb
    f = m["first"]
    if f == "connect":
        cr = CREDS[m["creds"]]
        fr = "P,connect,%d,%d,%s,%d,%s,%s,%s" % (1 if m["level_ok"] else 0, m["ka"], hx(m["cid"]), m["clean"],
                                                  "L" if cr else "N", hx(cr[0]) if cr else "-", hx(cr[1]) if cr else "-")
        cp = cprops_of(m)
        if cp:
            fr += "," + ",".join(str(cp[k]) if k in cp else "-" for k in CPROPS)
    elif f in KINDS:
        fr = "P,%s,1,0,-,0,N,-,-" % f
    elif f in ("nothing", "partial"):
        fr = "T"
    else:
        fr = "X"
    return "ADMIT %s %s %s" % (st, cbs, fr)


PROBE_T, INTR1, INTR2, MARK = "probe/x", "INTRUDER1", "INTRUDER2", "MARKER"


def admission_scenario(i, m):
    s = Scn("admission", "adm-%d" % i, prop="C19", **m)
    lv = m["lv"]
    s.add("LISTEN L %s %s timeout=200" % (lv, listen_opts(m["config"])))
    s.add("LISTEN O v4")
    s.add("OPEN obs O")
    s.add("SEND obs connect;id=%s;ka=60;clean=1 subscribe;pkid=1;f=%s;q=0" % (hx("observer"), hx("probe/#")))
    s.add("RECV obs 2 %d" % T, "obs0")
    s.add("OPEN c L")
    probe1 = "subscribe;pkid=1;f=%s;q=0 publish;t=%s;p=%s;q=0" % (hx("probe/#"), hx(PROBE_T), hx(INTR1))
    probe2 = "subscribe;pkid=2;f=%s;q=0 publish;t=%s;p=%s;q=0" % (hx("probe/#"), hx(PROBE_T), hx(INTR2))
    f = m["first"]
    if f == "connect":
        other = "5" if lv == "v4" else "4"
        item = "connect;id=%s;ka=%d;clean=%d" % (hx(m["cid"]), m["ka"], m["clean"])
        cr = CREDS[m["creds"]]
        if cr:
            item += ";user=%s;pass=%s" % (hx(cr[0]), hx(cr[1]))
        if not m["level_ok"]:
            item += ";v=" + other
        for k, v in cprops_of(m).items():
            item += ";%s=%d" % (k, v)
        first = item
    elif f in ("subscribe", "unsubscribe"):
        first = "%s;pkid=1;f=%s" % (f, hx("probe/#")) + (";q=0" if f == "subscribe" else "")
    elif f == "publish":
        first = "publish;t=%s;p=%s;q=0" % (hx(PROBE_T), hx("FIRST"))
    elif f in RAW_FIRST[lv]:
        first = "raw;" + RAW_FIRST[lv][f]
    elif f in MALFORMED:
        first = "raw;" + MALFORMED[f]
    elif f == "partial":
        first = "raw;1020"
    else:
        first = None
    if f == "eof":
        s.add("EOF c")
    elif f == "nothing":
        pass
    elif f == "partial":
        s.add("SEND c " + first)
    else:
        # the probe travels in the same write as the first packet: it is already buffered when
        # the first packet is judged
        s.add("SEND c %s %s" % (first, probe1))
    s.add("RECV c 2 %d" % T, "resp")
    s.add("SEND c " + probe2, "second")
    s.add("CLOSE c")
    s.add("JOIN c %d" % T, "join")
    # fence: the connection task is over; whatever it sent to the router precedes this marker
    s.add("SEND obs publish;t=%s;p=%s;q=0" % (hx(PROBE_T), hx(MARK)))
    s.add("UNTIL obs %s %d" % (hx(MARK), T), "fence")
    return s.end()


def gen_admission(ctx, rng):
    ms = []
    full = ctx.thorough()
    combos = []
    for lv in ("v4", "v5"):
        for level_ok in (True, False):
            for config in CONFIGS:
                for creds in CREDS:
                    for cidk in CIDS:
                        for ka in (0, 5):
                            combos.append((lv, level_ok, config, creds, cidk, ka))
    if not full:
        # core slice exhaustively + a seeded sample of the rest
        core = [c for c in combos if c[1] and ((c[4] == "normal" and c[5] == 5) or (c[2] in ("none", "static") and c[3] in ("absent", "right")))]
        cs = set(core)
        rest = [c for c in combos if c not in cs]
        pick = []
        for _ in range(1200):
            pick.append(rest[rng.below(len(rest))])
        combos = core + pick
    for (lv, level_ok, config, creds, cidk, ka) in combos:
        cid, clean = CIDS[cidk]
        ms.append(dict(lv=lv, first="connect", level_ok=level_ok, config=config, creds=creds, cidk=cidk, cid=cid, clean=clean, ka=ka))
    # MQTT 5 CONNECT properties: their presence / value must not change the decision
    for lv, level_ok in (("v5", True), ("v4", False)):
        for cidk in ("normal", "normal-persist", "empty-clean", "empty-persist"):
            for sexp in (None, 0, 1, 0xFFFFFFFF):
                for extra in ((), (("rmax", 1), ("mps", 64), ("tam", 3)), (("rmax", 65535), ("mps", 268435460), ("tam", 65535))):
                    for config, creds in ((("none", "absent"), ("static", "right"), ("static", "wrongpass")) if (full or not extra) else (("none", "absent"),)):
                        if lv == "v4" and (extra or config != "none"):
                            continue
                        cid, clean = CIDS[cidk]
                        cp = tuple(([("sexp", sexp)] if sexp is not None else []) + list(extra))
                        ms.append(dict(lv=lv, first="connect", level_ok=level_ok, config=config, creds=creds, cidk=cidk, cid=cid, clean=clean, ka=5, cprops=cp))
    others = [k for k in KINDS if k != "connect"] + list(MALFORMED) + ["nothing", "partial", "eof"]
    for lv in ("v4", "v5"):
        for f in others:
            for config in (("none", "static", "cbA") if full or f in ("publish", "subscribe", "connack", "nothing") else ("static",)):
                ms.append(dict(lv=lv, first=f, level_ok=True, config=config, creds="absent", cidk="-", cid="", clean=1, ka=0))
    return [admission_scenario(i, m) for i, m in enumerate(ms)]


def classify_response(s):
    items = parse_recv(s.get("resp"))
    if not items:
        return "none"
    k, d = items[0]
    if k == "connack":
        return "success" if d.get("code") == "Success" else "errconnack:" + d.get("code", "?")
    if k == "EOF":
        return "silent"
    return "other:" + k


def intruder_seen(s):
    items = parse_recv(s.get("fence"))
    pay = [unhx(d.get("p", "-")) for k, d in items if k == "publish"]
    ok = bool(items) and items[-1][0] == "publish" and pay and pay[-1] == MARK.encode()
    return any(p in (INTR1.encode(), INTR2.encode()) for p in pay), ok


def check_admission(ctx, scns=None):
    """C19 (per-connection half).  Returns [(text, replay_text)]: property violations first; a
    text starting with 'correspondence-only:' is a divergence between the real task and the Coq
    model (Stack.Model.admission) on which the property itself was not violated."""
    iexe, iout = impl_exe()
    mexe, mout = model_exe()
    if not iexe or not mexe:
        return [("correspondence-only: stack harness does not build: " + (iout or mout)[-1500:], "# harness build failed\n")]
    rng = lib.Rng(ctx.seed ^ 0xC19)
    if scns is None:
        scns = corpus_scenarios("admission") + gen_admission(ctx, rng)
        run_scenarios(iexe, scns)
    model = model_answers(mexe, [model_admit_op(s.meta) for s in scns])
    viol, corr = [], []
    hist, nontriv = {}, set()
    for s, md in zip(scns, model):
        m = s.meta
        if s.out is None:
            corr.append(("correspondence-only: the stack driver did not answer scenario %s" % s.name, s.replay_text("driver gave no output")))
            continue
        obs = classify_response(s)
        seen, fence_ok = intruder_seen(s)
        rule = rule_admissible(m)
        metachar = any(ch in m["cid"] for ch in "+$#/")
        exp = {"ADMIT": "silent" if metachar else "success", "SILENT": "silent",
               "CONNACK ClientIdentifierNotValid": "errconnack"}[md]
        obs_c = "errconnack" if obs.startswith("errconnack") else obs
        key = "%s:%s->%s" % (m["first"] if m["first"] != "connect" else "connect/" + m["config"] + "/" + m["creds"], md.split()[0], obs_c)
        hist[key] = hist.get(key, 0) + 1
        if m["first"] == "connect" and m["config"] != "none":
            nontriv.add((m["lv"], m["level_ok"], m["config"], m["creds"], m["cidk"], m["ka"], tuple(m.get("cprops") or ())))
        elif m["first"] == "connect" and m.get("cprops"):
            nontriv.add((m["lv"], m["level_ok"], m["config"], m["creds"], m["cidk"], m["ka"], tuple(m["cprops"])))
        panic = "panic" in s.get("join") or "panics=-" not in s.get("END")
        if (obs == "success" or seen) and not rule:
            viol.append(("admission: %s listener, first packet %s (config %s, credentials %s, client id %r clean=%s, keep-alive %s, level ok=%s%s): "
                         "%s although the rule forbids it" % (m["lv"], m["first"], m["config"], m["creds"], m["cid"], m["clean"], m["ka"], m["level_ok"],
                                                             ", CONNECT properties %s" % dict(m["cprops"]) if m.get("cprops") else "",
                                                             "got a successful CONNACK" if obs == "success" else "its SUBSCRIBE/PUBLISH reached the routing core"),
                         s.replay_text("a connection that must not be admitted was admitted")))
        elif obs_c != exp or not fence_ok or (obs == "success") != seen or panic:
            corr.append(("correspondence-only: admission scenario %s: model says %s (expect %s), implementation %s, intruder seen=%s, fence ok=%s, %s / %s" % (
                s.name, md, exp, obs, seen, fence_ok, s.get("join"), s.get("END")), s.replay_text("real task and Stack.Model.admission disagree")))
    ctx.cov["stack_admission"] = {"scenarios": len(scns), "distinct_nontrivial": len(nontriv),
                                  "rule": "non-trivial = CONNECT against a listener with credentials or a callback configured, or carrying MQTT 5 CONNECT properties; distinct parameter tuples",
                                  "histogram": dict(sorted(hist.items())[:400]), "property_violations": len(viol), "correspondence_divergences": len(corr)}
    return viol + corr


# ------------------------------------------------------------------ WILLS (C16)

ENDS = ["eof", "malformed", "disc_eof", "disc_garbage", "disc_pub", "pub_disc", "router_close", "partial_eof", "oversize",
        "unsuback_eof", "connack_eof", "keepalive"]
DISC_FIRST = {"disc_eof", "disc_garbage", "disc_pub", "pub_disc"}
WILL_T, WILL_P, MARK2 = "w/dev1", "LASTWILL", "MARKER2"
# how RemoteLink::start ends for each kind (input of Stack.Model.classify)
END_CLASS = {"eof": "nio:aborted", "malformed": "nproto", "disc_eof": "link", "disc_garbage": "nio:invalid", "disc_pub": "link",
             "pub_disc": "link", "router_close": "link", "partial_eof": "nio:reset", "oversize": "nproto", "keepalive": "nka",
             "unsuback_eof": "nio:aborted", "connack_eof": "nio:aborted"}


def will_scenario(i, m):
    s = Scn("wills", "will-%d" % i, prop="C16", **m)
    lv = m["lv"]
    s.add("LISTEN L4 v4").add("LISTEN L5 v5")
    s.add("OPEN h L4")
    s.add("SEND h connect;id=%s;ka=60;clean=1" % hx("helper"))
    s.add("RECV h 1 %d" % T)
    subs = []
    if m["nsubs"] >= 1:
        subs.append(("s1", "L4", WILL_T))
    if m["nsubs"] >= 2:
        subs.append(("s2", "L5", "w/#"))
    for (n, l, f) in subs:
        s.add("OPEN %s %s" % (n, l))
        s.add("SEND %s connect;id=%s;ka=60;clean=1 subscribe;pkid=1;f=%s;q=%d" % (n, hx(n), hx(f), m["subq"]))
        s.add("RECV %s 2 %d" % (n, T), "sub-" + n)
    # anon: empty client id (clean session): the broker assigns "rumqtt-<uuid>" and must publish the will under it
    c = "connect;id=%s;ka=%d;clean=1" % (hx("" if m.get("anon") else "dev1"), 1 if m["end"] == "keepalive" else 60)
    if m["will"] != "none":
        c += ";wt=%s;wm=%s;wq=%d;wr=%d" % (hx(WILL_T), hx(WILL_P), {"q0": 0, "q1": 1, "retained": 1}[m["will"]], 1 if m["will"] == "retained" else 0)
    s.add("OPEN c " + ("L4" if lv == "v4" else "L5"))
    s.add("SEND c " + c)
    s.add("RECV c 1 %d" % T, "connack")
    if m["traffic"]:
        s.add("SEND c subscribe;pkid=3;f=%s;q=1 publish;t=%s;p=%s;q=1;pkid=4" % (hx("own/#"), hx("own/t"), hx("TRAFFIC")))
        s.add("RECV c 3 %d" % T, "traffic")
    e = m["end"]
    pub = "publish;t=%s;p=%s;q=0" % (hx("w/other"), hx("AFTER"))
    if e == "eof":
        s.add("EOF c")
    elif e == "malformed":
        s.add("SEND c raw;f000")
    elif e == "disc_eof":
        s.add("SEND c disconnect").add("EOF c")
    elif e == "disc_garbage":
        s.add("SEND c disconnect raw;f000")
    elif e == "disc_pub":
        s.add("SEND c disconnect " + pub)
    elif e == "pub_disc":
        s.add("SEND c %s disconnect" % pub)
    elif e == "router_close":
        s.add("SEND c puback;pkid=77")
    elif e == "partial_eof":
        s.add("SEND c raw;3010").add("EOF c")
    elif e == "oversize":
        s.add("SEND c raw;30ffff7f")
    elif e in ("unsuback_eof", "connack_eof"):
        # packets only a server sends: the router ignores them, the connection goes on until EOF
        s.add("SEND c raw;" + RAW_FIRST[lv][e.split("_")[0]]).add("EOF c")
    elif e == "keepalive":
        pass
    s.add("RECV c 3 %d" % T, "tail")
    s.add("JOIN c %d" % T, "join")
    s.add("SEND h publish;t=%s;p=%s;q=0" % (hx(WILL_T), hx(MARK)))
    for (n, l, f) in subs:
        s.add("UNTIL %s %s %d" % (n, hx(MARK), T), "fence-" + n)
    if m["late"]:
        s.add("OPEN late L4")
        s.add("SEND late connect;id=%s;ka=60;clean=1 subscribe;pkid=1;f=%s;q=0" % (hx("late"), hx("w/#")))
        s.add("RECV late 2 %d" % T)
        s.add("SEND h publish;t=%s;p=%s;q=0" % (hx(WILL_T), hx(MARK2)))
        s.add("UNTIL late %s %d" % (hx(MARK2), T), "fence-late")
    return s.end()


def gen_wills(ctx, rng):
    ms = []
    full = ctx.thorough()
    for lv in ("v4", "v5"):
        for will in ("none", "q0", "q1", "retained"):
            for end in ENDS:
                if end == "keepalive":
                    continue
                for nsubs in (0, 1, 2):
                    variants = [(0, 0), (1, 1), (0, 1), (1, 0)] if full else [(rng.below(2), 1 if (nsubs == 0 or will == "retained") else rng.below(2))]
                    for (traffic, late) in variants:
                        ms.append(dict(lv=lv, will=will, end=end, nsubs=nsubs, traffic=traffic, late=late, subq=rng.below(3)))
    # the anonymous client (empty client id, the broker assigns one): every end kind, v4 and v5
    for lv in ("v4", "v5"):
        for will in (("q0", "q1", "retained", "none") if full else ("q1", "retained")):
            for end in ENDS:
                if end == "keepalive":
                    continue
                for nsubs in ((0, 1, 2) if full else (1 + rng.below(2),)):
                    ms.append(dict(lv=lv, will=will, end=end, nsubs=nsubs, traffic=rng.below(2), late=1 if will == "retained" else rng.below(2),
                                   subq=rng.below(3), anon=1))
    ka = [("v4", "q0", 1, 0), ("v5", "retained", 2, 0), ("v4", "none", 1, 0), ("v4", "q1", 1, 1), ("v5", "q0", 2, 1)] + (
        [("v5", "q1", 1, 0), ("v4", "retained", 0, 0), ("v5", "none", 2, 0), ("v5", "retained", 1, 1), ("v4", "none", 1, 1)] if full else [])
    for (lv, will, nsubs, anon) in ka:
        ms.append(dict(lv=lv, will=will, end="keepalive", nsubs=nsubs, traffic=0, late=1, subq=0, anon=anon))
    return [will_scenario(i, m) for i, m in enumerate(ms)]


def count_before_marker(line, payload, marker):
    items = parse_recv(line)
    pubs = [(unhx(d.get("p", "-")), d) for k, d in items if k == "publish"]
    ok = bool(items) and items[-1][0] == "publish" and unhx(items[-1][1].get("p", "-")) == marker
    hits = [d for (p, d) in pubs if p == payload]
    return len(hits), ok, hits


def check_wills(ctx, scns=None):
    """C16 (end to end).  Returns [(text, replay_text)] like check_admission."""
    iexe, iout = impl_exe()
    mexe, mout = model_exe()
    if not iexe or not mexe:
        return [("correspondence-only: stack harness does not build: " + (iout or mout)[-1500:], "# harness build failed\n")]
    rng = lib.Rng(ctx.seed ^ 0xC16)
    if scns is None:
        scns = corpus_scenarios("wills") + gen_wills(ctx, rng)
        run_scenarios(iexe, scns)
    model = model_answers(mexe, ["EPI %s timeout" % END_CLASS[s.meta["end"]] for s in scns])
    gen_id = "rumqtt-0123456789abcdef0123456789abcdef"
    ids = model_answers(mexe, ["IDS %s %s" % (hx("" if s.meta.get("anon") else "dev1"), hx(gen_id)) for s in scns])
    viol, corr, hist, nontriv = [], [], {}, set()
    for s, md, idl in zip(scns, model, ids):
        m = s.meta
        idm = dict(kv.split("=") for kv in idl.split())
        if s.out is None:
            corr.append(("correspondence-only: the stack driver did not answer scenario %s" % s.name, s.replay_text("driver gave no output")))
            continue
        # model: PublishWill is sent, and names the client by the id its will is registered under
        model_w = md.endswith("w=1") and idm["will"] == idm["reg"]
        fire = m["will"] != "none" and m["end"] not in DISC_FIRST     # the property
        exp = 1 if (fire and model_w) else 0
        bad, fence_bad = [], []
        for n in [x for x in ("s1", "s2") if ("fence-" + x) in s.labels]:
            cnt, ok, hits = count_before_marker(s.get("fence-" + n), WILL_P.encode(), MARK.encode())
            if not ok:
                fence_bad.append(n)
            if cnt != exp:
                bad.append("%s received the will %d time(s), expected %d" % (n, cnt, exp))
            for d in hits:
                if unhx(d.get("t", "-")) != WILL_T.encode():
                    bad.append("%s received the will on topic %r" % (n, unhx(d.get("t", "-"))))
        if "fence-late" in s.labels:
            cnt, ok, hits = count_before_marker(s.get("fence-late"), WILL_P.encode(), MARK2.encode())
            want = 1 if (exp and m["will"] == "retained") else 0
            if not ok:
                fence_bad.append("late")
            if cnt != want:
                bad.append("late subscriber received the will %d time(s), expected %d (retained=%s)" % (cnt, want, m["will"] == "retained"))
            if want and hits and hits[0].get("r") != "1":
                bad.append("late subscriber got the retained will without the retain flag")
        connack = parse_recv(s.get("connack"))
        admitted = bool(connack) and connack[0][0] == "connack" and connack[0][1].get("code") == "Success"
        id_bad = None
        if admitted and m["lv"] == "v5":
            # MQTT 5 tells the client the id it was given: assigned iff the model says so
            acid = connack[0][1].get("acid")
            if (acid is not None) != (idm["assigned"] != "none") or (acid is not None and not unhx(acid).startswith(b"rumqtt-")):
                id_bad = "CONNACK assigned client id %r, model assigned=%s" % (acid, idm["assigned"] != "none")
        join = s.get("join")
        key = "%s%s/%s->%s" % ("anon:" if m.get("anon") else "", m["end"], "will" if m["will"] != "none" else "nowill", "fired" if exp else "silent")
        hist[key] = hist.get(key, 0) + 1
        if m["will"] != "none":
            nontriv.add((m["lv"], m["will"], m["end"], m["nsubs"], m["traffic"], m["late"], m.get("anon", 0)))
        if bad and admitted:
            viol.append(("last will: %s client (%s) %s a will, connection ended by %s: %s (%s, %s)" % (
                m["lv"], "empty client id, broker-assigned" if m.get("anon") else "client id dev1",
                "with" if m["will"] != "none" else "without", m["end"], "; ".join(bad), join, s.get("END")),
                s.replay_text("will delivered a wrong number of times")))
        elif id_bad:
            corr.append(("correspondence-only: will scenario %s: %s" % (s.name, id_bad), s.replay_text("assigned client id differs from Stack.Model.remote_ids")))
        elif fence_bad or not admitted or join != "JOIN done" or "panics=- stuck=-" not in s.get("END"):
            corr.append(("correspondence-only: will scenario %s: fences broken at %s, admitted=%s, %s, %s" % (s.name, fence_bad, admitted, join, s.get("END")),
                         s.replay_text("scenario did not run as designed (task panicked / stuck / fence lost)")))
    ctx.cov["stack_wills"] = {"scenarios": len(scns), "distinct_nontrivial": len(nontriv),
                              "rule": "non-trivial = client registered a will; distinct (version, will kind, end kind, subscribers, traffic, late subscriber, named / anonymous client)",
                              "histogram": hist, "property_violations": len(viol), "correspondence_divergences": len(corr)}
    return viol + corr


# ------------------------------------------------------------------ CROSS-VERSION (C20)

P8 = ["pfi", "mei", "alias", "rt", "cd", "up", "sid", "ct"]
PVAL = {"pfi": "1", "mei": "100000", "alias": "3", "rt": hx("resp/t"), "cd": "0102ff", "up": "%s.%s,%s.%s" % (hx("k1"), hx("v1"), hx("k1"), hx("v2")),
        "sid": "4", "ct": hx("text/plain")}
X_T, X_P = "x/a", "PAYLOAD-é"


BOUNDS = [127, 128, 129, 16383, 16384]
SID_BOUNDS = [1, 127, 128, 129, 16383, 16384, 2097151, 2097152]


def pattern(n):
    return bytes((i * 7 + 1) % 256 for i in range(n))


def sid_of(m):
    """subscription identifier of the v5 subscriber (0 = none); old replays carry True/False"""
    v = m.get("subid", 0)
    return 9 if v is True else int(v)


def topic_of(m):
    n = int(m.get("tlen", 0) or 0)
    return X_T if n < 3 else "x/" + "t" * (n - 2)


def pval(m, k):
    if k == "cd" and int(m.get("cdlen", 0) or 0) > 0:
        return pattern(int(m["cdlen"])).hex()
    return PVAL[k]


def cross_scenario(i, m):
    s = Scn("cross", "x-%d" % i, prop="C20", **m)
    q = m["q"]
    s.add("LISTEN L4 v4").add("LISTEN L5 v5")
    s.add("OPEN h L4")
    s.add("SEND h connect;id=%s;ka=60;clean=1" % hx("helper"))
    s.add("RECV h 1 %d" % T)
    for (n, l) in (("s4", "L4"), ("s5", "L5")):
        s.add("OPEN %s %s" % (n, l))
        sid = ";sid=%d" % sid_of(m) if (n == "s5" and sid_of(m)) else ""
        s.add("SEND %s connect;id=%s;ka=60;clean=1 subscribe;pkid=1;f=%s;q=%d%s" % (n, hx(n), hx("x/#"), q, sid))
        s.add("RECV %s 2 %d" % (n, T), "sub-" + n)
    s.add("OPEN p " + ("L4" if m["pv"] == "v4" else "L5"))
    s.add("SEND p connect;id=%s;ka=60;clean=1" % hx("pub"))
    s.add("RECV p 1 %d" % T, "pconn")
    item = "publish;t=%s;p=%s;q=%d;pkid=%d" % (hx(topic_of(m)), hx(payload_of(m)), q, 5 if q else 0)
    for k in m["props"]:
        item += ";%s=%s" % (k, pval(m, k))
    s.add("SEND p " + item)
    if "sid" in m["props"]:
        if q == 2:
            # a QoS 2 publish is only recorded until its release: the router judges it at PUBREL
            s.add("RECV p 1 %d" % T, "prec")
            s.add("SEND p pubrel;pkid=5")
        s.add("RECV p 2 %d" % T, "pend")
        s.add("JOIN p %d" % T, "pjoin")
        s.add("SEND h publish;t=%s;p=%s;q=0" % (hx(X_T), hx(MARK)))
    else:
        if q == 1:
            s.add("RECV p 1 %d" % T, "pack")
        elif q == 2:
            s.add("RECV p 1 %d" % T, "pack")
            s.add("SEND p pubrel;pkid=5")
            s.add("RECV p 1 %d" % T, "pcomp")
        s.add("SEND p publish;t=%s;p=%s;q=0" % (hx(X_T), hx(MARK)))
    for n in ("s4", "s5"):
        s.add("UNTIL %s %s %d" % (n, hx(MARK), T), "fence-" + n)
    # acks of the forwarded message and two more ack kinds through both writers
    for n in ("s4", "s5"):
        if "sid" not in m["props"]:
            if q == 1:
                s.add("SEND %s puback;pkid=1" % n)
            elif q == 2:
                s.add("SEND %s pubrec;pkid=1" % n)
                s.add("RECV %s 1 %d" % (n, T), "rel-" + n)
                s.add("SEND %s pubcomp;pkid=1" % n)
        s.add("SEND %s pingreq unsubscribe;pkid=9;f=%s" % (n, hx("x/#")))
        s.add("RECV %s 2 %d" % (n, T), "tail-" + n)
    return s.end()


def gen_cross(ctx, rng):
    ms = []
    subsets = [tuple(k for j, k in enumerate(P8) if (b >> j) & 1) for b in range(256)]
    if ctx.thorough():
        for sub in subsets:
            for q in (0, 1, 2):
                for subid in (False, True):
                    ms.append(dict(pv="v5", q=q, props=sub, subid=subid, psize=(0, 9, 3000)[rng.below(3)]))
    else:
        special = [subsets[0], subsets[255], subsets[255 - 64]] + [(k,) for k in P8]
        for sub in subsets:
            for q in ((0, 1, 2) if sub in special else (rng.below(3),)):
                ms.append(dict(pv="v5", q=q, props=sub, subid=rng.below(4) == 0, psize=(9, 9, 0, 3000)[rng.below(4)]))
    for q in (0, 1, 2):
        for subid in (False, True):
            for psize in (0, 9, 3000):
                ms.append(dict(pv="v4", q=q, props=(), subid=subid, psize=psize))
    ms += gen_cross_boundaries(ctx, rng)
    return [cross_scenario(i, m) for i, m in enumerate(ms)]


def gen_cross_boundaries(ctx, rng):
    """values at which a variable byte integer on the wire grows by one byte: subscription
    identifiers, the length of the property block and the remaining length of the PUBLISH that
    each subscriber receives (128, 16384, 2097152 and their neighbours)"""
    ms = []
    qs = (lambda: (0, 1, 2)) if ctx.thorough() else (lambda: (rng.below(3),))
    # subscription identifier of the v5 subscriber
    for sid in SID_BOUNDS:
        for (pv, props) in (("v4", ()), ("v5", ()), ("v5", ("up", "ct"))):
            for q in qs():
                ms.append(dict(pv=pv, q=q, props=props, subid=sid, psize=9, boundary="sid"))
    # property block received by the v5 subscriber exactly L bytes: correlation data (3 + n)
    # alone, with the subscription identifier (1 + its varint), with two more properties (2 + 5)
    for L in BOUNDS:
        for (props, sid, base) in ((("cd",), 0, 3), (("cd",), 1, 5), (("cd",), 128, 6), (("pfi", "mei", "cd", "alias"), 0, 10)):
            for q in qs():
                ms.append(dict(pv="v5", q=q, props=props, subid=sid, psize=9, cdlen=L - base, boundary="proplen"))
    # remaining length of the forwarded PUBLISH exactly R, at the v4 and at the v5 subscriber:
    # 2 + topic + (2 if qos) + (v5: property length byte) + payload; by payload and by topic size
    for R in BOUNDS:
        for recv in ("s4", "s5"):
            for pv in ("v4", "v5"):
                for q in qs():
                    fixed = 2 + (2 if q else 0) + (1 if recv == "s5" else 0)
                    ms.append(dict(pv=pv, q=q, props=(), subid=0, psize=R - fixed - 3, boundary="remlen"))
                    if R < 1000:
                        ms.append(dict(pv=pv, q=q, props=(), subid=0, psize=10, tlen=R - fixed - 10, boundary="remlen-topic"))
    return ms


def payload_of(m):
    n = m.get("psize", 9)
    if n == 9:
        return X_P.encode("utf-8")
    return pattern(n)


def cross_expect_props(m):
    e = {k: pval(m, k) for k in m["props"] if k not in ("alias", "sid")}
    if sid_of(m):
        e["sid"] = str(sid_of(m))
    return e


def check_cross_one(s):
    """-> (list of property failures, list of harness problems)"""
    m = s.meta
    bad, harness = [], []
    end = s.get("END")
    if "panics=-" not in end:
        bad.append("a connection task panicked: " + end)
    if "stuck=-" not in end:
        harness.append("task stuck: " + end)
    for n in ("s4", "s5"):
        sub = parse_recv(s.get("sub-" + n))
        if [k for k, _ in sub] != ["connack", "suback"]:
            harness.append("%s did not get CONNACK+SUBACK: %s" % (n, s.get("sub-" + n)))
    rejected = "sid" in m["props"]
    for n in ("s4", "s5"):
        items = parse_recv(s.get("fence-" + n))
        if not items or items[-1][0] != "publish" or unhx(items[-1][1].get("p", "-")) != MARK.encode():
            bad.append("%s: fence not reached: %s" % (n, s.get("fence-" + n)[:200]))
            continue
        msgs = [d for k, d in items[:-1]]
        kinds = [k for k, d in items[:-1]]
        if rejected:
            if msgs:
                bad.append("%s received %d packet(s) of a PUBLISH that carries a subscription identifier (must be rejected)" % (n, len(msgs)))
            continue
        if kinds != ["publish"]:
            bad.append("%s received %s instead of exactly one PUBLISH" % (n, kinds))
            continue
        d = msgs[0]
        if unhx(d.get("t", "-")) != topic_of(m).encode() or unhx(d.get("p", "-")) != payload_of(m):
            bad.append("%s: topic/payload changed: %s" % (n, d))
        got = {k: v for k, v in d.items() if k in P8}
        if n == "s4":
            if got or "props" in d:
                bad.append("s4 (3.1.1) received properties: %s" % d)
        else:
            exp = cross_expect_props(m)
            g2 = dict(got)
            if "mei" in exp and "mei" in g2 and 0 <= int(exp["mei"]) - int(g2["mei"]) <= 30:
                g2["mei"] = exp["mei"]
            if g2 != exp:
                bad.append("s5 (5.0) properties differ: sent %s (minus topic alias), received %s" % (exp, got))
    if rejected:
        pend = parse_recv(s.get("pend"))
        ks = [k for k, _ in pend]
        if "BAD" in ks:
            bad.append("the publisher's connection, closed by the router, received bytes that do not decode as a DISCONNECT: %s" % s.get("pend"))
        elif "EOF" not in ks:
            bad.append("publisher of a PUBLISH with a subscription identifier was not disconnected: %s" % s.get("pend"))
        elif ks not in (["EOF"], ["disconnect", "EOF"]):
            bad.append("publisher's connection received unexpected packets before the close: %s" % s.get("pend"))
    else:
        if m["q"] >= 1:
            a = parse_recv(s.get("pack"))
            if [k for k, _ in a] != [{1: "puback", 2: "pubrec"}[m["q"]]] or a[0][1].get("pkid") != "5":
                bad.append("publisher did not get its %s: %s" % ({1: "PUBACK", 2: "PUBREC"}[m["q"]], s.get("pack")))
        if m["q"] == 2:
            a = parse_recv(s.get("pcomp"))
            if [k for k, _ in a] != ["pubcomp"]:
                bad.append("publisher did not get PUBCOMP: %s" % s.get("pcomp"))
            for n in ("s4", "s5"):
                a = parse_recv(s.get("rel-" + n))
                if [k for k, _ in a] != ["pubrel"]:
                    bad.append("%s did not get PUBREL after PUBREC: %s" % (n, s.get("rel-" + n)))
    for n in ("s4", "s5"):
        a = [k for k, _ in parse_recv(s.get("tail-" + n))]
        if sorted(a) != ["pingresp", "unsuback"]:
            bad.append("%s: PINGRESP/UNSUBACK not received: %s" % (n, s.get("tail-" + n)))
    return bad, harness


# ------------------------------------------------------------------ TOPIC ALIASES (C20, "same topic")

AL = {"A": "al/a", "B": "al/b", "C": "al/c/deep"}
# steps: (topic key or "" for an empty topic, alias index or None) | "reconnect"
ALIAS_SEQS = {
    "set-use": [("A", 0), ("", 0), ("", 0)],
    "remap": [("A", 0), ("B", 0), ("", 0)],
    "set-use-remap-use": [("A", 0), ("", 0), ("B", 0), ("", 0), ("C", 0), ("", 0)],
    "remap-back": [("A", 0), ("B", 0), ("A", 0), ("", 0)],
    "remap-same": [("A", 0), ("A", 0), ("", 0), ("B", 0), ("B", 0), ("", 0)],
    "two-swapped": [("A", 0), ("B", 1), ("", 0), ("", 1), ("B", 0), ("A", 1), ("", 0), ("", 1)],
    "two-one-remapped": [("A", 0), ("B", 1), ("C", 0), ("", 1), ("", 0)],
    "plain-between": [("A", 0), ("B", None), ("", 0), ("B", 0), ("A", None), ("", 0)],
    "unknown-alias": [("A", 0), ("", 1)],
    "reconnect-forgets": [("A", 0), ("", 0), "reconnect", ("", 0)],
    "reconnect-remap": [("A", 0), "reconnect", ("B", 0), ("", 0)],
}
ALIAS_VALUES = [(1, 2), (2, 1), (7, 4096), (4096, 4095)]


def alias_expected(m):
    """the MQTT 5 rule: per connection alias -> topic, set (or re-set) by a publish that names a
    topic, used by a publish with an empty topic; an unknown alias is a protocol error that ends
    the connection.  -> (delivered [(topic, payload)], index of the rejected step or None)"""
    amap, out = {}, []
    for j, st in enumerate(ALIAS_SEQS[m["seq"]]):
        if st == "reconnect":
            amap = {}
            continue
        tk, ai = st
        pay = ("m%d" % j).encode()
        if tk:
            if ai is not None:
                amap[ai] = AL[tk]
            out.append((AL[tk], pay))
        else:
            if ai not in amap:
                return out, j
            out.append((amap[ai], pay))
    return out, None


def alias_scenario(i, m):
    s = Scn("alias", "alias-%d" % i, prop="C20", **m)
    q = m["q"]
    vals = ALIAS_VALUES[m["vals"]]
    s.add("LISTEN L4 v4").add("LISTEN L5 v5")
    s.add("OPEN h L4")
    s.add("SEND h connect;id=%s;ka=60;clean=1" % hx("helper"))
    s.add("RECV h 1 %d" % T)
    for (n, l) in (("s4", "L4"), ("s5", "L5")):
        s.add("OPEN %s %s" % (n, l))
        tam = ";tam=%d" % m["stam"] if (n == "s5" and m["stam"]) else ""
        s.add("SEND %s connect;id=%s;ka=60;clean=1%s subscribe;pkid=1;f=%s;q=%d" % (n, hx(n), tam, hx("al/#"), m["subq"]))
        s.add("RECV %s 2 %d" % (n, T), "sub-" + n)
    exp, rej = alias_expected(m)
    conn, gen = "p0", 0
    s.add("OPEN p0 L5")
    s.add("SEND p0 connect;id=%s;ka=60;clean=1" % hx("pub"))
    s.add("RECV p0 1 %d" % T, "pconn0")
    nacks = 0
    for j, st in enumerate(ALIAS_SEQS[m["seq"]]):
        if st == "reconnect":
            s.add("SEND %s disconnect" % conn)
            s.add("EOF %s" % conn)
            s.add("JOIN %s %d" % (conn, T))
            gen += 1
            conn = "p%d" % gen
            s.add("OPEN %s L5" % conn)
            s.add("SEND %s connect;id=%s;ka=60;clean=1" % (conn, hx("pub")))
            s.add("RECV %s 1 %d" % (conn, T), "pconn%d" % gen)
            nacks = 0
            continue
        tk, ai = st
        item = "publish;t=%s;p=%s;q=%d;pkid=%d" % (hx(AL[tk]) if tk else "-", hx("m%d" % j), q, (j + 1) if q else 0)
        if ai is not None:
            item += ";alias=%d" % vals[ai]
        s.add("SEND %s %s" % (conn, item))
        if rej == j:
            break
        if q:
            nacks += 1
    if rej is None:
        # same link, so the marker is behind every publish of the sequence
        s.add("SEND %s publish;t=%s;p=%s;q=0" % (conn, hx("al/mark"), hx(MARK)))
        if q:
            s.add("RECV %s %d %d" % (conn, nacks, T), "packs")
    else:
        s.add("RECV %s %d %d" % (conn, nacks + 2, T), "pend")
        s.add("JOIN %s %d" % (conn, T), "pjoin")
        s.add("SEND h publish;t=%s;p=%s;q=0" % (hx("al/mark"), hx(MARK)))
    for n in ("s4", "s5"):
        s.add("UNTIL %s %s %d" % (n, hx(MARK), T), "fence-" + n)
    return s.end()


def gen_alias(ctx, rng):
    ms = []
    for seq in ALIAS_SEQS:
        combos = [(q, vals, stam) for q in (0, 1) for vals in range(len(ALIAS_VALUES)) for stam in (0, 5)]
        if not ctx.thorough():
            combos = [(0, 0, 0), (1, 1, 5)] + [combos[rng.below(len(combos))] for _ in range(2)]
        for (q, vals, stam) in combos:
            ms.append(dict(seq=seq, q=q, vals=vals, stam=stam, subq=rng.below(2)))
    return [alias_scenario(i, m) for i, m in enumerate(ms)]


def check_alias_one(s):
    """-> (property failures, harness problems): every subscriber, v4 and v5, receives every
    message of the sequence under the topic the publisher's alias stood for at that moment"""
    m = s.meta
    bad, harness = [], []
    end = s.get("END")
    if "panics=-" not in end:
        bad.append("a connection task panicked: " + end)
    if "stuck=-" not in end:
        harness.append("task stuck: " + end)
    exp, rej = alias_expected(m)
    for n in ("s4", "s5"):
        if [k for k, _ in parse_recv(s.get("sub-" + n))] != ["connack", "suback"]:
            harness.append("%s did not get CONNACK+SUBACK: %s" % (n, s.get("sub-" + n)))
        items = parse_recv(s.get("fence-" + n))
        if not items or items[-1][0] != "publish" or unhx(items[-1][1].get("p", "-")) != MARK.encode():
            bad.append("%s: fence not reached: %s" % (n, s.get("fence-" + n)[:200]))
            continue
        got, rmap = [], {}
        for k, d in items[:-1] + [items[-1]]:
            if k != "publish":
                bad.append("%s received a %s" % (n, k))
                continue
            t = unhx(d.get("t", "-")).decode("utf-8", "replace")
            if "alias" in d:      # broker -> subscriber alias (the subscriber announced topic_alias_max)
                if n == "s4":
                    bad.append("s4 (3.1.1) received a topic alias")
                if t:
                    rmap[d["alias"]] = t
                else:
                    t = rmap.get(d["alias"], "<unknown alias %s>" % d["alias"])
            elif not t:
                t = "<empty topic>"
            got.append((t, unhx(d.get("p", "-"))))
        got = got[:-1]
        if got != exp:
            k = next((i for i, (a, b) in enumerate(zip(got, exp)) if a != b), min(len(got), len(exp)))
            bad.append("%s: sequence %s: message %d delivered as %s, expected %s (received %d, expected %d messages)" % (
                n, m["seq"], k, got[k] if k < len(got) else "nothing", exp[k] if k < len(exp) else "nothing", len(got), len(exp)))
    if rej is not None:
        ks = [k for k, _ in parse_recv(s.get("pend"))]
        if "EOF" not in ks or "BAD" in ks:
            bad.append("publisher using an unknown topic alias was not disconnected cleanly: %s" % s.get("pend")[:200])
    return bad, harness


# ------------------------------------------------------------------ BIG BATCHES (C20: everything the router emits reaches the wire)

BIG_T = 4000      # the whole batch must arrive without any later traffic on the connection
BIG_NS = [199, 200, 201, 400]
BIG_WINDOW = 200   # max_outgoing_packet_count of the driver's RouterConfig


def chunked_publishes(s, conn, items, label):
    """QoS 1 publishes in writes of 50, each write followed by reading its 50 PUBACKs"""
    for a in range(0, len(items), 50):
        part = items[a:a + 50]
        s.add("SEND %s %s" % (conn, " ".join(part)))
        s.add("RECV %s %d %d" % (conn, len(part), T), "%s-%d" % (label, a))


def big_scenario(i, m):
    """N messages become due for one QoS 0 subscription at once (retained replay on SUBSCRIBE, or the
    backlog of a persistent session on reconnect): with max_outgoing_packet_count = 200 the router
    hands them over in buffer-full batches ending in Unschedule; then nothing else happens on that
    connection.  Everything must still arrive."""
    s = Scn("big", "big-%d" % i, prop="C20", **m)
    n, sl, pl = m["n"], ("L4" if m["sv"] == "v4" else "L5"), ("L4" if m["pv"] == "v4" else "L5")
    s.add("LISTEN L4 v4").add("LISTEN L5 v5")
    s.add("OPEN p " + pl)
    s.add("SEND p connect;id=%s;ka=60;clean=1" % hx("pub"))
    s.add("RECV p 1 %d" % T, "pconn")
    if m["kind"] == "retained":
        chunked_publishes(s, "p", ["publish;t=%s;p=%s;q=1;pkid=%d;r=1" % (hx("big/r%d" % j), hx("b%d" % j), j % 60000 + 1) for j in range(n)], "packs")
        s.add("OPEN s " + sl)
        s.add("SEND s connect;id=%s;ka=60;clean=1 subscribe;pkid=1;f=%s;q=0" % (hx("bigsub"), hx("big/#")))
        s.add("RECV s %d %d" % (min(n, BIG_WINDOW) + 2, BIG_T), "batch")
    else:
        s.add("OPEN s0 " + sl)
        s.add("SEND s0 connect;id=%s;ka=60;clean=0;sexp=3600 subscribe;pkid=1;f=%s;q=0" % (hx("bigsub"), hx("big/#")))
        s.add("RECV s0 2 %d" % T, "sub0")
        s.add("SEND s0 disconnect").add("EOF s0")
        s.add("JOIN s0 %d" % T, "join0")
        chunked_publishes(s, "p", ["publish;t=%s;p=%s;q=1;pkid=%d" % (hx("big/t"), hx("b%d" % j), j % 60000 + 1) for j in range(n)], "packs")
        s.add("OPEN s " + sl)
        s.add("SEND s connect;id=%s;ka=60;clean=0;sexp=3600" % hx("bigsub"))
        s.add("RECV s %d %d" % (n + 1, BIG_T), "batch")
    # nothing may be left over: a later message is the next thing the subscriber sees
    s.add("SEND p publish;t=%s;p=%s;q=0" % (hx("big/mark"), hx(MARK)))
    s.add("UNTIL s %s %d" % (hx(MARK), T), "fence")
    return s.end()


def gen_big(ctx, rng):
    ms = []
    for kind in ("retained", "backlog"):
        for n in BIG_NS + ([1, 100, 198, 399, 401, 600] if ctx.thorough() else []):
            for sv in ("v4", "v5"):
                for pv in (("v4", "v5") if ctx.thorough() else (("v4", "v5")[rng.below(2)],)):
                    ms.append(dict(kind=kind, n=n, sv=sv, pv=pv))
    return [big_scenario(i, m) for i, m in enumerate(ms)]


def check_big_one(s):
    m = s.meta
    bad, harness = [], []
    end = s.get("END")
    if "panics=-" not in end:
        bad.append("a connection task panicked: " + end)
    if "stuck=-" not in end:
        harness.append("task stuck: " + end)
    n = m["n"]
    for lab in [l for l in s.labels if l.startswith("packs-")]:
        ks = [k for k, _ in parse_recv(s.get(lab))]
        if any(k != "puback" for k in ks) or not ks:
            harness.append("publisher did not get its PUBACKs: %s" % s.get(lab)[:160])
    items = parse_recv(s.get("batch"))
    head = 2 if m["kind"] == "retained" else 1
    want_head = ["connack", "suback"][:head]
    ks = [k for k, _ in items]
    pubs = [(unhx(d.get("t", "-")).decode("utf-8", "replace"), unhx(d.get("p", "-")).decode("utf-8", "replace")) for k, d in items if k == "publish"]
    if m["kind"] == "retained":
        exp = [("big/r%d" % j, "b%d" % j) for j in range(n)]
        # retained replay: order is the router's HashMap order, and (property C15: "provided those fit in
        # its delivery window") the router drops what exceeds max_outgoing_packet_count = 200 of the driver's config
        same = len(set(pubs)) == len(pubs) == min(n, BIG_WINDOW) and set(pubs) <= set(exp) and ks[:head] == want_head
    else:
        exp = [("big/t", "b%d" % j) for j in range(n)]
        same = pubs == exp and ks[:head] == want_head
    if not same:
        tail = ks[-1] if ks else "nothing"
        bad.append("%s subscriber, %s of %d messages (window 200) and then silence: received %d of them (%s%s) within %d ms without further traffic" % (
            m["sv"], "retained replay" if m["kind"] == "retained" else "persistent-session backlog", n, len(pubs),
            "head %s, " % ks[:head], "ended by " + tail, BIG_T))
    f = parse_recv(s.get("fence"))
    if same and ([k for k, _ in f] != ["publish"] or unhx(f[0][1].get("p", "-")) != MARK.encode()):
        bad.append("after the batch the subscriber received %d unexpected packet(s) before the next message: %s" % (len(f) - 1, s.get("fence")[:200]))
    return bad, harness


# ------------------------------------------------------------------ ISOLATION (C14, link-layer half)

# how a connection is thrown out: (listener version, item(s) sent, how RemoteLink::start ends = input of Stack.Model.classify)
OFFENCES = {
    "v5-empty-topic": ("v5", "raw;300400000041", "link"),                                     # PUBLISH, empty topic, no alias
    "v5-unknown-alias": ("v5", "publish;t=-;p=%s;q=0;alias=9" % hx("X"), "link"),
    "v5-alias-too-big": ("v5", "publish;t=%s;p=%s;q=0;alias=4097" % (hx("x/t"), hx("X")), "link"),
    "v5-publish-subid": ("v5", "publish;t=%s;p=%s;q=1;pkid=3;sid=4" % (hx("x/t"), hx("X")), "link"),
    "v5-subscribe-subid0": ("v5", "subscribe;pkid=2;f=%s;q=0;sid=0" % hx("x/#"), "link"),
    "v4-empty-topic": ("v4", "raw;3003000041", "link"),
    # controls: closes without a Disconnect notification, and ends the connection chose itself
    "v4-unsolicited-puback": ("v4", "puback;pkid=77", "link"),
    "v5-unsolicited-pubrec": ("v5", "pubrec;pkid=77", "link"),
    "v5-client-disconnect": ("v5", "disconnect", "link"),
    "v4-eof": ("v4", None, "nio:aborted"),
}
ISO_MODES = ["after", "burst", "before"]


def iso_scenario(i, m):
    """an offender is thrown out by the router; a well-behaved client with another client id
    connects right after (so it is given the connection id the offender vacated) / in the same
    instant, subscribes and publishes; it must not notice anything"""
    s = Scn("iso", "iso-%d" % i, prop="C14", **m)
    ov, item, _ = OFFENCES[m["off"]]
    s.add("TAP")
    s.add("LISTEN L4 v4").add("LISTEN L5 v5")
    s.add("OPEN off " + ("L4" if ov == "v4" else "L5"))
    s.add("SEND off connect;id=%s;ka=60;clean=1" % hx("offender"))
    s.add("RECV off 1 %d" % T, "oconn")
    s.add("OPEN good " + ("L4" if m["gv"] == "v4" else "L5"))
    good = "connect;id=%s;ka=60;clean=1 subscribe;pkid=1;f=%s;q=0 publish;t=%s;p=%s;q=0" % (hx("good"), hx("iso/good"), hx("iso/good"), hx("HELLO"))
    if item is None:
        s.add("EOF off")
        s.add("SEND good " + good)
    elif m["mode"] == "after":
        s.add("SEND off " + item)
        s.add("SEND good " + good)
    elif m["mode"] == "burst":
        s.add("SENDM off %s | good %s" % (item, good))
    else:
        s.add("SENDM good %s | off %s" % (good, item))
    s.add("RECV good 3 %d" % T, "good1")
    s.add("RECV off 2 %d" % T, "oend")
    s.add("JOIN off %d" % T, "ojoin")
    s.add("SEND good publish;t=%s;p=%s;q=0 pingreq" % (hx("iso/good"), hx("AGAIN")))
    s.add("RECV good 2 %d" % T, "good2")
    s.add("EVENTS", "events")
    return s.end()


def gen_iso(ctx, rng):
    ms = []
    reps = 10 if ctx.thorough() else 2
    for off in OFFENCES:
        for mode in (ISO_MODES if OFFENCES[off][1] is not None else ["after"]):
            for gv in ("v4", "v5"):
                for r in range(reps if mode == "after" else max(1, reps // 2)):
                    ms.append(dict(off=off, mode=mode, gv=gv, rep=r))
    return [iso_scenario(i, m) for i, m in enumerate(ms)]


def check_isolation(ctx, scns=None):
    """C14, last sentence, at the link layer.  Returns [(text, replay_text)] like check_admission:
    a harmed bystander is a property violation; an Event::Disconnect sent for a connection the
    router itself had dropped (Stack.Model.epilogue says none is sent) without visible harm is
    'correspondence-only:'."""
    iexe, iout = impl_exe()
    mexe, mout = model_exe()
    if not iexe or not mexe:
        return [("correspondence-only: stack harness does not build: " + (iout or mout)[-1500:], "# harness build failed\n")]
    rng = lib.Rng(ctx.seed ^ 0xC14)
    if scns is None:
        scns = corpus_scenarios("iso") + gen_iso(ctx, rng)
        run_scenarios(iexe, scns)
    model = model_answers(mexe, ["EPI %s timeout" % OFFENCES[s.meta["off"]][2] for s in scns])
    viol, corr, hist, reused = [], [], {}, 0
    for s, md in zip(scns, model):
        m = s.meta
        if s.out is None:
            corr.append(("correspondence-only: the stack driver did not answer scenario %s" % s.name, s.replay_text("driver gave no output")))
            continue
        model_d = 1 if " d=1 " in md + " " else 0
        ev = s.get("events").split()[1:]
        n_disc = sum(1 for e in ev if e.endswith(":Disconnect"))
        ids = [e.split(":")[0] for e in ev if e.endswith(":DeviceData")]
        slot_reused = len(set(ids)) == 1 and len(ids) >= 2
        reused += 1 if slot_reused else 0
        g1 = parse_recv(s.get("good1"))
        g2 = parse_recv(s.get("good2"))
        k1 = [k for k, _ in g1]
        harm = []
        if k1 != ["connack", "suback", "publish"] or g1[0][1].get("code") != "Success" or unhx(g1[2][1].get("p", "-")) != b"HELLO":
            harm.append("after CONNECT+SUBSCRIBE+PUBLISH the bystander got %s" % (s.get("good1")[5:160] or "nothing"))
        elif sorted(k for k, _ in g2) != ["pingresp", "publish"]:
            harm.append("later PUBLISH+PINGREQ of the bystander got %s" % (s.get("good2")[5:160] or "nothing"))
        key = "%s/%s:%s" % (m["off"], m["mode"], "reused" if slot_reused else "fresh")
        hist[key] = hist.get(key, 0) + 1
        late = n_disc > model_d
        oconn = parse_recv(s.get("oconn"))
        ran = bool(oconn) and oconn[0][0] == "connack" and s.get("ojoin") == "JOIN done" and "panics=- stuck=-" in s.get("END")
        if harm:
            viol.append(("isolation: offender (%s) thrown out, %s bystander connecting %s: %s%s [events: %s]" % (
                m["off"], m["gv"], {"after": "right after", "burst": "in the same instant", "before": "just before"}[m["mode"]], "; ".join(harm),
                "; the offender's task sent Event::Disconnect for the connection id the router had already freed%s" % (" and given to the bystander" if slot_reused else "") if late else "",
                " ".join(ev)), s.replay_text("a client that did nothing wrong lost its connection")))
        elif late or n_disc != model_d:
            corr.append(("correspondence-only: isolation scenario %s (%s): the tasks sent %d Event::Disconnect, Stack.Model.epilogue says %d [events: %s]" % (
                s.name, m["off"], n_disc, model_d, " ".join(ev)), s.replay_text("Event::Disconnect sent where the model sends none (or vice versa); no bystander was harmed in this run")))
        elif not ran:
            corr.append(("correspondence-only: isolation scenario %s did not run as designed: %s %s %s" % (s.name, s.get("oconn"), s.get("ojoin"), s.get("END")),
                         s.replay_text("scenario did not run as designed")))
    ctx.cov["stack_isolation"] = {"scenarios": len(scns), "bystander_got_offenders_connection_id": reused,
                                  "rule": "each scenario: offender dropped by the router (%s), a bystander with another client id connects right after / in the same write burst / just before, subscribes, publishes, "
                                          "publishes again and pings; every event the tasks send to the router is logged (TAP). non-trivial = the bystander was given the offender's connection id" % ", ".join(OFFENCES),
                                  "distinct_nontrivial": reused, "histogram": hist, "property_violations": len(viol), "correspondence_divergences": len(corr)}
    return viol + corr


WRITE_VARIANTS = [(v, k, p, x) for v in ("v4", "v5") for k in KINDS for p in (0, 1) for x in (0, 1)]


def check_dispatch(iexe, mexe):
    """real Protocol::write on every (writer, packet kind, properties?, reason variant) vs has_arm
    of the model; broker-side packets must also decode back (rumqttc's decoder) with nothing left"""
    ops = ["WRITE %s %s %d %d" % t for t in WRITE_VARIANTS]
    rc, impl, err = lib.run_on_text(iexe, "\n".join(ops) + "\n")
    model = model_answers(mexe, ["ARM %s %s %d" % (v, k, p) for (v, k, p, x) in WRITE_VARIANTS])
    bad_prop, bad_corr, n = [], [], 0
    if len(impl) != len(ops):
        return [], ["driver answered %d of %d WRITE ops" % (len(impl), len(ops))], 0
    for (v, k, p, x), a, m in zip(WRITE_VARIANTS, impl, model):
        n += 1
        arm = m.startswith("arm=1")
        okw = a.startswith("WRITE Ok")
        if k in BROKER_KINDS and not okw:
            bad_prop.append("WRITE %s %s %d %d => %s" % (v, k, p, x, a))
        elif arm != okw:
            bad_corr.append("WRITE %s %s %d %d => %s but model has_arm=%s" % (v, k, p, x, a, arm))
        elif okw and k in BROKER_KINDS:
            dec = a.split(" dec=")[1].split(" rest=")[0]
            rest = a.split(" rest=")[1]
            if not dec.startswith(k) or rest != "0":
                bad_prop.append("WRITE %s %s %d %d => %s (does not decode back)" % (v, k, p, x, a))
    return bad_prop, bad_corr, n


def boundary_writes():
    """(op, expected fields of the decoded packet) at the varint boundaries"""
    ops = []
    for v in ("v4", "v5"):
        for sid in SID_BOUNDS:
            ops.append(("WRITE %s publish 1 0 sid=%d" % (v, sid), {"sid": str(sid)} if v == "v5" else {}))
        for L in BOUNDS:
            ops.append(("WRITE %s publish 1 0 cd=%d" % (v, L - 3), {"cd": pattern(L - 3).hex()} if v == "v5" else {}))
            ops.append(("WRITE %s publish 1 0 cd=%d sid=128" % (v, L - 6), {"cd": pattern(L - 6).hex(), "sid": "128"} if v == "v5" else {}))
            for pr in (0, 1):
                # remaining length R of the frame itself: 2 + 3 (topic) + 2 (pkid) + payload, v5 adds the property block
                extra = 0 if v == "v4" else (1 if pr == 0 else 1 + 12)
                ps = L - 7 - extra
                ops.append(("WRITE %s publish %d 0 ps=%d" % (v, pr, ps), {"p": pattern(ps).hex() if ps else "-"}))
            ops.append(("WRITE %s publish 0 0 ps=10 tl=%d" % (v, L - 14 - (1 if v == "v5" else 0)), {}) if L < 1000 else ("WRITE %s publish 0 0" % v, {}))
            for k in ("connack", "puback", "pubrec", "pubrel", "pubcomp", "suback", "unsuback", "disconnect"):
                for x in (0, 1):
                    ops.append(("WRITE %s %s 1 %d rs=%d" % (v, k, x, L - 3), {}))
    return ops


def check_boundary_writes(iexe):
    bw = boundary_writes()
    rc, impl, err = lib.run_on_text(iexe, "\n".join(o for o, _ in bw) + "\n")
    if len(impl) != len(bw):
        return ["driver answered %d of %d boundary WRITE ops" % (len(impl), len(bw))], 0
    bad = []
    for (o, exp), a in zip(bw, impl):
        k = o.split()[2]
        good = a.startswith("WRITE Ok") and a.endswith(" rest=0") and a.split(" dec=")[1].startswith(k)
        if good and exp:
            d = parse_recv("RECV " + a.split(" dec=")[1].split(" rest=")[0])[0][1]
            good = all(d.get(f) == val for f, val in exp.items())
        if not good:
            bad.append("%s => %s" % (o, a[:160] + (" ... " + a[-40:] if len(a) > 200 else "")))
    return bad, len(bw)


NOTIFS = ["fwd0", "fwd1", "unsched", "disc", "shadow"] + ["ack:" + k for k in ("connack", "puback", "suback", "pubrec", "pubrel", "pubcomp", "unsuback", "pingresp")]


def run(ctx):
    p_ok = ctx.proof_side(["Extract/StackX.vo"])
    ctx.assumptions += [
        "the per-connection task runs on a current-thread tokio runtime over tokio::io::duplex streams against a real Router thread, in real time; absence of a message is observed through fences (a marker published after the task's JoinHandle resolved / on the same link), relying on flume being FIFO; the big-batch scenarios alone use a deadline (4 s, never waited for when the batch is delivered)",
        "the client side of each stream is rumqttc's public v4/v5 codec; byte-level correctness of the broker's codec is C04's claim, here only that what the writers produce decodes back to the same topic, payload and properties",
        "not modelled: tokio, TCP/TLS, the will-delay timer, the takeover channel race; message-expiry is compared with a 30 s tolerance (the broker subtracts the time spent in its log)",
        "the router never builds Ack::*WithProperties; the dispatch table is nevertheless checked for them against the real Protocol::write",
    ]
    mexe, mout = model_exe()
    iexe, iout = impl_exe()
    if not mexe or not iexe:
        ctx.violation("tie-broken", "the stack correspondence harness no longer builds against /repo:\n" + (mout or iout)[-3000:], False,
                      "harness build failed; correspondence remote()(impl)=Stack.Model not checked")
        return
    rng = lib.Rng(ctx.seed ^ 0xC20)
    # 1. dispatch tables and notification conversion
    d_prop, d_corr, d_n = check_dispatch(iexe, mexe)
    b_bad, b_n = check_boundary_writes(iexe)
    d_prop += b_bad
    d_n += b_n
    nm = model_answers(mexe, ["NOTIF " + x for x in NOTIFS])
    n_corr = []
    for x, a in zip(NOTIFS, nm):
        if x in ("unsched", "shadow"):
            if a != "none":
                n_corr.append("to_packet %s = %s" % (x, a))
        elif "v4=Ok v5=Ok" not in a:
            n_corr.append("to_packet %s -> %s" % (x, a))
    # 2. end-to-end cross-version scenarios (corpus first)
    scns = corpus_scenarios("cross") + corpus_scenarios("alias") + corpus_scenarios("big") + gen_cross(ctx, rng) + gen_alias(ctx, rng) + gen_big(ctx, rng)
    run_scenarios(iexe, scns)
    fails, harness = [], []
    hist, nontriv = {}, set()
    for s in scns:
        if s.out is None:
            harness.append((s, ["driver gave no output"]))
            continue
        m = s.meta
        if s.group == "big":
            bad, h = check_big_one(s)
            key = "big %s" % m["kind"]
            hist[key] = hist.get(key, 0) + 1
            nontriv.add(("big", m["kind"], m["n"], m["sv"], m["pv"]))
            if bad:
                fails.append((s, bad))
            elif h:
                harness.append((s, h))
            continue
        if s.group == "alias":
            bad, h = check_alias_one(s)
            key = "alias %s" % m["seq"]
            hist[key] = hist.get(key, 0) + 1
            nontriv.add(("alias", m["seq"], m["q"], m["vals"], m["stam"]))
            if bad:
                fails.append((s, bad))
            elif h:
                harness.append((s, h))
            continue
        bad, h = check_cross_one(s)
        key = "%s q%s %dprops%s%s" % (m["pv"], m["q"], len(m["props"]), " sid" if "sid" in m["props"] else "", " " + m["boundary"] if m.get("boundary") else "")
        hist[key] = hist.get(key, 0) + 1
        if m["pv"] == "v5" and m["props"]:
            nontriv.add((m["q"], tuple(m["props"]), sid_of(m), m.get("cdlen", 0), m.get("psize", 9), m.get("tlen", 0)))
        if bad:
            fails.append((s, bad))
        elif h:
            harness.append((s, h))
    # corpus scenarios of the other groups are run by their own checks; here only "no task panics"
    ctx.cov["evaluations"] = len(scns) + d_n + len(NOTIFS)
    ctx.cov["traces_validated_against_impl"] = len(scns) + d_n
    ctx.cov["distinct_nontrivial"] = len(nontriv)
    ctx.cov["rule"] = ("each scenario: v4 and v5 subscriber on x/#, one publisher (v4, or v5 with a subset of the 8 PUBLISH properties), QoS 0-2 with the full ack "
                       "exchange on both sides, PINGREQ/UNSUBSCRIBE at the end; %s. non-trivial = v5 publisher with a non-empty property subset; distinct (qos, subset, subscription-id) counted. "
                       "Topic-alias scenarios: one v5 publisher runs a sequence over its aliases (%s; alias values %s; QoS 0/1; v5 subscriber with and without topic_alias_max), every message must reach the v4 and the v5 subscriber under the topic the alias stood for at that moment. "
                       "Big-batch scenarios: N in %s messages become due at once for one QoS 0 subscription (retained replay on SUBSCRIBE; backlog of a persistent session on reconnect; v4 and v5 subscriber) so that the router hands over buffer-full batches ending in Unschedule, then silence: all N (retained replay: the min(N, 200) that fit the delivery window, property C15) must arrive (in order for the backlog) within %d ms without any further traffic, and nothing else after them. "
                       "Boundary scenarios: v5 subscription identifiers %s; property block of the forwarded PUBLISH and its remaining length (by payload and by topic size) exactly %s bytes at the v4 / v5 subscriber. "
                       "Plus the real Protocol::write of V4 and V5 on every (packet kind, properties?, reason variant) against Stack.Model.has_arm, and on the same boundaries (subscription identifier, property block of PUBLISH and of every ack/CONNACK/DISCONNECT via a reason string, remaining length), decoded back with rumqttc." % (
                           "all 256 subsets x 3 QoS x subscription-id on/off" if ctx.thorough() else "all 256 subsets, one seeded QoS each (3 QoS for empty, full, full-minus-sid and each singleton)",
                           ", ".join(ALIAS_SEQS), ALIAS_VALUES, BIG_NS, BIG_T, SID_BOUNDS, BOUNDS))
    ctx.cov["exhaustive"] = True
    ctx.cov["exhaustive_part"] = "the 2^8 subsets of the PUBLISH properties"
    ctx.cov["scenario_histogram"] = hist
    ctx.cov["dispatch_ops"] = d_n
    ctx.cov["samples"] = [" ; ".join(scns[i].lines[8:12]) for i in (0, len(scns) // 2, len(scns) - 1)]
    ctx.log("cross scenarios=%d failures=%d harness-problems=%d dispatch: prop=%d corr=%d notif=%d" % (len(scns), len(fails), len(harness), len(d_prop), len(d_corr), len(n_corr)))
    if fails:
        fails.sort(key=lambda x: (len(x[0].meta.get("props", ())), len(x[0].text()), x[0].meta.get("q", 0)))
        s, bad = fails[0]
        ctx.violation("input", s.replay_text("; ".join(bad)), True, "%s: %s (%d failing scenarios)" % (s.name, "; ".join(bad)[:400], len(fails)))
    elif d_prop:
        ctx.violation("input", "# C20 replay: ops of the stack driver; a broker-side packet the real writer cannot encode (or that does not decode back)\n" +
                      "\n".join(" ".join(x.split(" => ")[0].split()) for x in d_prop) + "\n", True, d_prop[0])
    elif d_corr or n_corr or harness:
        txt = "# C20: implementation and Coq model (Stack.Model) disagree, or a scenario did not run as designed; no violation of the property itself was exhibited\n"
        txt += "".join("# " + x + "\n" for x in (d_corr + n_corr))
        if harness:
            txt += "# " + "; ".join(harness[0][1]) + "\n" + harness[0][0].text()
        ctx.violation("correspondence", txt, False, (d_corr + n_corr + ["scenario " + harness[0][0].name + ": " + harness[0][1][0]] if harness else d_corr + n_corr)[0])
    elif not p_ok:
        ctx.violation("proof", "Proof obligations of Props/C20.v no longer check:\n%s\nNo scenario was found on which the implementation violates the property (%d scenarios, %d writer ops)." % (
            getattr(ctx, "proof_error", ""), len(scns), d_n), False, "theorems of Props/C20.v do not check")


# ------------------------------------------------------------------ corpus / replay

def corpus_scenarios(group):
    """minimised scenarios that once violated a property (corpus/stack/*.txt), always run first"""
    cdir = os.path.join(lib.ROOT, "corpus", "stack")
    out = []
    if os.path.isdir(cdir):
        for f in sorted(os.listdir(cdir)):
            out += [s for s in load_replay(os.path.join(cdir, f)) if s.group == group]
    return out


def load_replay(path):
    """a replay file may hold several scenarios; '#@ group=.. k=v ..' carries the generator's parameters"""
    out, cur, meta = [], None, {}
    for l in open(path).read().splitlines():
        if l.startswith("#@"):
            meta = dict(kv.split("=", 1) for kv in l[2:].split() if "=" in kv)
            continue
        if not l.strip() or l.startswith("#"):
            continue
        if l.startswith("SCENARIO"):
            g = meta.get("group", "raw")
            mm = {k: v for k, v in meta.items() if k != "group"}
            cur = Scn(g, l.split()[1] if len(l.split()) > 1 else "replay", **coerce(mm))
            cur.lines = []
            out.append(cur)
            meta = {}
        if cur is None:
            cur = Scn("raw", "replay")
            cur.lines = []
            out.append(cur)
        if l.strip() == "END":
            cur.labels["END"] = len(cur.lines)
        cur.lines.append(l)
    for s in out:
        relabel(s)
    return out


def coerce(m):
    import ast
    r = {}
    for k, v in m.items():
        try:
            r[k] = ast.literal_eval(v)
        except Exception:
            r[k] = v
    return r


def relabel(s):
    """recompute the labels of a generated scenario from its parameters (same generator code)"""
    try:
        if s.group == "cross":
            m = dict(s.meta)
            m["props"] = tuple(m.get("props", ()))
            t = cross_scenario(0, {k: m[k] for k in ("pv", "q", "props", "subid", "psize", "cdlen", "tlen") if k in m})
        elif s.group == "iso":
            t = iso_scenario(0, {k: s.meta[k] for k in ("off", "mode", "gv", "rep")})
        elif s.group == "big":
            t = big_scenario(0, {k: s.meta[k] for k in ("kind", "n", "sv", "pv")})
        elif s.group == "alias":
            t = alias_scenario(0, {k: s.meta[k] for k in ("seq", "q", "vals", "stam", "subq")})
        elif s.group == "wills":
            t = will_scenario(0, {k: s.meta[k] for k in ("lv", "will", "end", "nsubs", "traffic", "late", "subq", "anon") if k in s.meta})
        elif s.group == "admission":
            m = {k: s.meta[k] for k in ("lv", "first", "level_ok", "config", "creds", "cidk", "ka", "cprops") if k in s.meta}
            m["cid"], m["clean"] = CIDS[m["cidk"]] if m["cidk"] in CIDS else ("", 1)
            s.meta.update(m)
            t = admission_scenario(0, m)
        else:
            return
        if len(t.lines) == len(s.lines):
            s.labels = t.labels
    except Exception:
        pass


def replay(ctx, path):
    iexe, iout = impl_exe()
    mexe, mout = model_exe()
    if not iexe or not mexe:
        print((iout or mout)[-2000:])
        print("VIOLATION property=%s replay=%s no-failing-input-found" % (ctx.prop, path))
        return 1
    raw = [l for l in open(path).read().splitlines() if l.strip() and not l.startswith("#")]
    if raw and raw[0].startswith("WRITE"):
        rc, impl, err = lib.run_on_text(iexe, "\n".join(raw) + "\n")
        bad = 0
        for o, a in zip(raw, impl):
            k = o.split()[2]
            okl = a.startswith("WRITE Ok") and " rest=0" in a and a.split(" dec=")[1].startswith(k)
            print("%s => %s %s" % (o, a, "ok" if okl else "VIOLATION"))
            bad |= 0 if okl else 1
        if bad:
            print("VIOLATION property=%s replay=%s" % (ctx.prop, path))
        return bad
    scns = load_replay(path)
    run_scenarios(iexe, scns, jobs=1)
    rc = 0

    class C:  # throw-away ctx for the group checkers
        seed, tier, cov = ctx.seed, ctx.tier, {}

        def thorough(self):
            return False
    for s in scns:
        for l, o in zip(s.lines, s.out or []):
            print("%s\n    => %s" % (l, o[:400]))
        msgs = []
        if s.group == "cross":
            bad, h = check_cross_one(s)
            msgs = bad + h
        elif s.group == "big":
            bad, h = check_big_one(s)
            msgs = bad + h
        elif s.group == "alias":
            bad, h = check_alias_one(s)
            msgs = bad + h
        elif s.group == "iso":
            msgs = [t for t, _ in check_isolation(C(), [s])]
        elif s.group == "wills":
            msgs = [t for t, _ in check_wills(C(), [s])]
        elif s.group == "admission":
            msgs = [t for t, _ in check_admission(C(), [s])]
        else:
            if "panics=-" not in (s.out or [""])[-1]:
                msgs = ["a connection task panicked: " + (s.out or [""])[-1]]
        for t in msgs:
            print("MONITOR", t)
        if msgs:
            rc = 1
    if rc:
        print("VIOLATION property=%s replay=%s" % (ctx.prop, path))
    return rc
