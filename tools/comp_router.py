"""Router properties (M-ROUTER): C01 C03 C06 C08 C09 C14 C15 C16 C17 C19 — shared machinery.
P: Props/<id>.v ; C: real Router (stepped through the rumqtt_verif hooks) vs extracted model on
histories generated interactively against the real router ; M: router_mon monitors on the
implementation's trace."""
import hashlib, json, os
import lib, router_gen, router_mon, shrink

PROPS = ["C01", "C03", "C06", "C08", "C09", "C14", "C15", "C16", "C17", "C19"]   # C16/C19 also run the stack driver (comp_stack)

# scenario mix per property: (kind, number quick, number thorough, size)
MIX = {
    "default": [("normal", 50, 1500, 220), ("hostile", 25, 600, 160)],
    "C01": [("normal", 40, 1200, 220), ("window", 20, 500, 160), ("retained", 15, 400, 200), ("shared", 10, 300, 200)],
    "C03": [("hostile", 70, 2500, 200), ("normal", 20, 600, 200), ("shared", 15, 400, 200), ("window", 10, 200, 150)],
    "C06": [("normal", 40, 1200, 220), ("session", 25, 600, 200), ("window", 15, 300, 150)],
    "C08": [("session", 50, 1500, 220), ("normal", 20, 500, 220), ("retained", 15, 400, 200), ("window", 10, 200, 150)],
    "C09": [("window", 35, 900, 180), ("group", 20, 500, 200), ("normal", 20, 600, 220), ("session", 10, 300, 200)],
    "C14": [("hostile", 60, 2000, 200), ("normal", 20, 500, 200)],
    "C15": [("retained", 50, 1500, 220), ("normal", 20, 500, 220), ("session", 10, 300, 200)],
    "C16": [("will", 50, 1500, 200), ("normal", 20, 500, 220)],
    "C17": [("shared", 45, 1300, 220), ("group", 30, 900, 200), ("session", 8, 250, 200), ("window", 7, 150, 150)],
    "C19": [("normal", 30, 900, 200), ("hostile", 30, 900, 160), ("will", 15, 300, 200)],
}

NONTRIVIAL_RULE = {
    "default": "histories are generated interactively against the real router by simulated links (1-5 client ids, "
               "connect/takeover/reconnect, subscribe/unsubscribe incl. shared and invalid filters, publish bursts QoS0-2 with "
               "retain/aliases/properties, paced acks, Ready after Unschedule, disconnect by packet/event/will) then run to idle; "
               "the hostile kind adds events with arbitrary ids, unsolicited acks, stale links, malformed topics. "
               "A history is non-trivial when some connection passed through >= 2 distinct pause situations "
               "(inflight window full, outgoing buffer full/Unschedule) or a session was resumed or a takeover happened; "
               "distinct = distinct op-sequence hash.",
}


def setup():
    ok, out = lib.coq_make(["Extract/RouterX.vo"] + ["Props/%s.vo" % p for p in PROPS if os.path.exists(os.path.join(lib.COQ, "Props", p + ".v"))])
    if not ok:
        print(out[-3000:])
        return False
    exe, out = lib.ocaml_driver("router", "RouterX")
    if not exe:
        print(out[-3000:])
        return False
    exe, out = lib.cargo_driver("router")
    if not exe:
        print(out[-3000:])
    return exe is not None


def run_impl_batch(iexe, ops):
    rc, lines, err = lib.run_on_text(iexe, "\n".join(ops) + "\n")
    oracles, answers, cur = [], [], []
    for ln in lines:
        if ln.startswith("ORACLE "):
            cur.append(ln)
        else:
            oracles.append(cur)
            answers.append(ln)
            cur = []
    return oracles, answers


def run_model(mexe, ops, oracles):
    inp = []
    for o, orc in zip(ops, oracles):
        inp.extend(orc)
        inp.append(o)
    rc, lines, err = lib.run_on_text(mexe, "\n".join(inp) + "\n")
    return lines


def first_divergence(impl, model):
    for i, (a, m) in enumerate(zip(impl, model)):
        if a.startswith("SNAP"):
            continue
        if a != m:
            return i
    if len(impl) != len(model):
        return min(len(impl), len(model))
    return None


def nontrivial(w, ops):
    if any(len(v) >= 2 for v in w.pause_reasons.values()):
        return True
    if any(l.resumed for l in w.links) or any(l.end_kind == "takeover" for l in w.links):
        return True
    return False


def run(ctx):
    prop = ctx.prop
    p_ok = ctx.proof_side(["Extract/RouterX.vo"])
    ctx.assumptions += [
        "the router is exercised one event at a time on one thread (Router::verif_event / verif_consume); an op sequence stands for a schedule of the router thread and the link tasks; flume is assumed FIFO per sender",
        "HashMap iteration order (DataLog::matches on a cache miss, read_retained_messages) and thread_rng (Strategy::Random) are recorded from the implementation by cfg(rumqtt_verif) hooks and given to the model as an oracle; the model checks each is admissible and the theorems quantify over all admissible oracles",
        "not modelled: meters/alerts, ConnectionEvents strings, tracing, MQTT5 message expiry, custom_segment overrides, features validate-tenant-prefix / allow-duplicate-clientid, bridge, console, TLS",
        "monitors are evaluated on the implementation's trace only; clauses the monitor's ghost cannot decide (connection ended mid-batch, event for an id whose owner is unknown, backlog possibly beyond retention) are skipped and counted in coverage.skipped_clauses",
    ]
    mexe, mout = lib.ocaml_driver("router", "RouterX")
    iexe, iout = lib.cargo_driver("router")
    if not mexe or not iexe:
        ctx.violation("tie-broken", "the router correspondence harness no longer builds against /repo:\n" + (mout or iout)[-3000:], False,
                      "harness build failed; correspondence Router(impl)=Router.Model not checked")
        return
    rng = lib.Rng(ctx.seed ^ int(hashlib.sha256(prop.encode()).hexdigest()[:8], 16))
    mix = MIX.get(prop, MIX["default"])
    scenarios = []
    # corpus first
    cdir = os.path.join(lib.ROOT, "corpus", "router")
    corpus = []
    if os.path.isdir(cdir):
        for f in sorted(os.listdir(cdir)):
            ops = [l for l in open(os.path.join(cdir, f)).read().splitlines() if l.strip() and not l.startswith("#") and not l.startswith("ORACLE")]
            corpus.append((f, ops))
    # witnesses of the known findings of this property run on every check: the KNOWN-FINDING line
    # is printed as long as the behaviour is there
    kdir = os.path.join(lib.ROOT, "corpus", "known")
    if os.path.isdir(kdir):
        for f in sorted(os.listdir(kdir)):
            if f.lower().startswith("k-%s" % prop.lower()):
                ops = [l for l in open(os.path.join(kdir, f)).read().splitlines() if l.strip() and not l.startswith("#") and not l.startswith("ORACLE")]
                corpus.append(("known/" + f, ops))
    for (kind, nq, nt, size) in mix:
        scenarios += [(kind, s) for s in router_gen.run_scenarios(iexe, rng, nt if ctx.thorough() else nq, kind, size)]
    traces = [("corpus:" + f, ops) + run_impl_batch(iexe, ops) for (f, ops) in corpus]
    traces += [(kind, s.ops, s.oracles, s.answers) for (kind, s) in scenarios]
    # ---- C: model on the same ops
    all_ops, all_orc, all_impl, bounds = [], [], [], []
    for (kind, ops, orc, ans) in traces:
        bounds.append((len(all_ops), len(all_ops) + len(ops)))
        all_ops += ops
        all_orc += orc
        all_impl += ans
    model = run_model(mexe, all_ops, all_orc)
    n_div = 0
    first_div = None
    hashes, nontriv = set(), set()
    op_hist, viol_hist, skip_hist = {}, {}, {}
    mine, others = [], {}
    known_hits = {}
    n_panic = 0
    for ti, ((kind, ops, orc, ans), (a, b)) in enumerate(zip(traces, bounds)):
        d = first_divergence(all_impl[a:b], model[a:b])
        if d is not None:
            n_div += 1
            if first_div is None:
                first_div = (ti, d)
        w = router_mon.evaluate(ops, ans)
        h = hashlib.sha256("\n".join(ops).encode()).hexdigest()
        hashes.add(h)
        if nontrivial(w, ops):
            nontriv.add(h)
        for o in ops:
            k = o.split()[0] + (":" + o.split()[2] if o.startswith("PUSH") else "")
            op_hist[k] = op_hist.get(k, 0) + 1
        for k, v in w.skips.items():
            skip_hist[k] = skip_hist.get(k, 0) + v
        for (i, p, fid, text) in getattr(w, "known", []):
            if p != prop:
                continue
            if any(k.get("id") == fid and k.get("status") == "known" and k.get("property") == prop for k in lib.known_findings()):
                ctx.known_finding("%s %s" % (fid, next(k["line"] for k in lib.known_findings() if k.get("id") == fid and k.get("property") == prop)))
                known_hits[fid] = known_hits.get(fid, 0) + 1
            else:
                mine.append((ti, i, text))
        for (i, p, text) in w.v:
            viol_hist[p] = viol_hist.get(p, 0) + 1
            if p == prop:
                mine.append((ti, i, text))
            else:
                others.setdefault(p, (ti, i, text))
    ctx.cov["evaluations"] = len(traces)
    ctx.cov["ops_executed"] = len(all_ops)
    ctx.cov["traces_validated_against_impl"] = len(traces)
    ctx.cov["distinct_nontrivial"] = len(nontriv)
    ctx.cov["distinct_histories"] = len(hashes)
    ctx.cov["rule"] = NONTRIVIAL_RULE["default"]
    ctx.cov["op_histogram"] = op_hist
    ctx.cov["skipped_clauses"] = skip_hist
    ctx.cov["monitor_alarms_all_properties"] = viol_hist
    ctx.cov["correspondence_divergences"] = n_div
    ctx.cov["known_finding_hits"] = known_hits
    ctx.cov["samples"] = [" ; ".join(traces[i][1][:14]) + " ..." for i in range(min(2, len(traces)))]
    ctx.cov["scenario_mix"] = [(k, (nt if ctx.thorough() else nq), size) for (k, nq, nt, size) in mix]
    ctx.log("histories=%d ops=%d divergences=%d alarms=%s" % (len(traces), len(all_ops), n_div, viol_hist))
    # alarms about OTHER properties do not decide this check, but they must not be lost: keep the history
    if others:
        odir = os.path.join(lib.ROOT, "build", "other-alarms-seeded" if os.environ.get("VERIF_REPO") else "other-alarms")
        os.makedirs(odir, exist_ok=True)
        for p_, (ti, i, text) in others.items():
            with open(os.path.join(odir, "%s-seen-by-%s-%s.txt" % (p_, prop, ctx.tier)), "w") as f:
                f.write("# %s alarm raised while checking %s: op %d: %s\n" % (p_, prop, i, text))
                f.write("\n".join(traces[ti][1]) + "\n")
        ctx.cov["other_property_alarm_files"] = sorted(os.listdir(odir))

    def monitor_fails(ops):
        _o, ans = run_impl_batch(iexe, ops)
        w = router_mon.evaluate(ops, ans)
        return any(p == prop for (_i, p, _t) in w.v)

    # ---- stack level (the real per-connection task remote() over in-memory streams)
    stack_viol = []
    if prop in ("C19", "C16", "C14"):
        try:
            import comp_stack
            stack_viol = {"C19": comp_stack.check_admission, "C16": comp_stack.check_wills, "C14": comp_stack.check_isolation}[prop](ctx)
        except Exception as e:  # noqa
            import traceback
            stack_viol = [("correspondence-only: stack driver failed: %s" % e, traceback.format_exc())]
        for (text, replay_text) in stack_viol:
            found = not text.startswith("correspondence-only:")
            ctx.violation("stack-input" if found else "stack-correspondence", replay_text, found, text)
            break

    if mine:
        ti, i, text = mine[0]
        ops = traces[ti][1]
        small = shrink.ddmin(ops, monitor_fails, keep_first=2, max_tests=600) if monitor_fails(ops) else ops
        _o, ans = run_impl_batch(iexe, small)
        w = router_mon.evaluate(small, ans)
        msgs = [t for (_i, p, t) in w.v if p == prop] or [text]
        content = "# %s replay: router op sequence (./check %s --replay <this file>)\n# monitor: %s\n" % (prop, prop, msgs[0])
        content += "\n".join(small) + "\n"
        ctx.violation("input", content, True, msgs[0])
    elif first_div is not None:
        ti, d = first_div
        ops = traces[ti][1]

        def diverges(o):
            orc, ans = run_impl_batch(iexe, o)
            return first_divergence(ans, run_model(mexe, o, orc)) is not None
        small = shrink.ddmin(ops[: d + 1], diverges, keep_first=2, max_tests=400) if diverges(ops[: d + 1]) else ops[: d + 1]
        orc, ans = run_impl_batch(iexe, small)
        mod = run_model(mexe, small, orc)
        content = "# %s: implementation and Coq model (Router.Model) disagree; no violation of the property itself was exhibited\n" % prop
        content += "# correspondence that no longer checks: real Router vs extracted Router.Model.step_with on this op sequence\n"
        for o, a, m in zip(small, ans, mod):
            content += "%s\n#   impl : %s\n#   model: %s\n" % (o, a, m)
        ctx.violation("correspondence", content, False, "router implementation diverges from the model (%d histories)" % n_div)
    elif not p_ok:
        ctx.violation("proof", "Proof obligations of Props/%s.v no longer check:\n%s\nNo history was found on which the implementation violates the property (%d histories, %d ops)." % (
            prop, getattr(ctx, "proof_error", ""), len(traces), len(all_ops)), False, "theorems of Props/%s.v do not check" % prop)


def replay(ctx, path):
    if "stack driver script" in open(path).read()[:400]:
        import comp_stack
        return comp_stack.replay(ctx, path)
    iexe, _ = lib.cargo_driver("router")
    mexe, _ = lib.ocaml_driver("router", "RouterX")
    ops = [l for l in open(path).read().splitlines() if l.strip() and not l.startswith("#") and not l.startswith("ORACLE")]
    orc, ans = run_impl_batch(iexe, ops)
    mod = run_model(mexe, ops, orc)
    w = router_mon.evaluate(ops, ans)
    for o, a, m in zip(ops, ans, mod):
        print("%s => %s%s" % (o, a[:300], "" if a == m else "   MODEL: " + m[:300]))
    bad = [(i, p, t) for (i, p, t) in w.v if p == ctx.prop]
    for v in bad:
        print("MONITOR", v)
    if bad or first_divergence(ans, mod) is not None:
        print("VIOLATION property=%s replay=%s" % (ctx.prop, path))
        return 1
    return 0
