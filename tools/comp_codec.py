"""C04 (codec round trip / interop) and C05 (decoders total, bounded, chunking independent) — M-CODEC, MQTT 3.1.1.

Both sides (extracted Coq model `ocaml/codec_driver.ml`, real code `harness/src/bin/codec.rs`) read the same op file:
  ENC 4 <C|B> <max> <packet>    DEC 4 <C|B> <max> <hex>    STREAM 4 <C|B> <max> <chunk>+    UTF8 <hex>
  WF 4 <C|B> <packet> / NORM 4 <packet>   (answered by the model only: Coq wf_v4 / norm)
A replay file is a list of such ops; ` #= <expectation>` after an op is what the property monitor demands of the
IMPLEMENTATION's answer (exact answer, or ENC-OK = encoder succeeds with ret = size = number of bytes).
Env VERIF_CODEC_IMPL=<binary> substitutes another build of the Rust driver (mutation runs)."""
import os, resource, subprocess, time
import lib

PROPS = ["C04", "C05"]
BIG = 268435460            # "no limit" for max sizes in ops
MAXREM = 268435455
CLIENT_SENDS = {"CONNECT", "PUBLISH", "PUBACK", "PUBREC", "PUBREL", "PUBCOMP", "SUBSCRIBE", "UNSUBSCRIBE", "PINGREQ", "DISCONNECT"}
BROKER_SENDS = {"CONNACK", "PUBLISH", "PUBACK", "PUBREC", "PUBREL", "PUBCOMP", "SUBACK", "UNSUBACK", "PINGRESP"}


# ------------------------------------------------------------------ plumbing

def setup():
    ok, out = lib.coq_make(["Props/C04.vo", "Props/C05.vo", "Extract/CodecX.vo"])
    if not ok:
        print(out[-3000:])
        return False
    exe, out = lib.ocaml_driver("codec", "CodecX")
    if not exe:
        print(out[-3000:])
        return False
    exe, out = lib.cargo_driver("codec")
    if not exe:
        print(out[-3000:])
    return exe is not None


def _limits():
    resource.setrlimit(resource.RLIMIT_STACK, (resource.RLIM_INFINITY, resource.RLIM_INFINITY))


def run_ops(exe, lines, tag):
    """Run one driver on a list of op lines (through a file: some lines are several MB)."""
    path = os.path.join(lib.BUILD, "codec", "ops-%s-%d.txt" % (tag, os.getpid()))
    os.makedirs(os.path.dirname(path), exist_ok=True)
    with open(path, "w") as f:
        for l in lines:
            f.write(l)
            f.write("\n")
    with open(path, "rb") as f:
        p = subprocess.run([exe], stdin=f, stdout=subprocess.PIPE, stderr=subprocess.PIPE, timeout=3000, preexec_fn=_limits)
    os.remove(path)
    return p.returncode, p.stdout.decode("utf-8", "replace").splitlines(), p.stderr.decode("utf-8", "replace")


def drivers(ctx):
    mexe, mout = lib.ocaml_driver("codec", "CodecX")
    alt = os.environ.get("VERIF_CODEC_IMPL")
    if alt:
        iexe, iout = (alt, "") if os.path.exists(alt) else (None, "VERIF_CODEC_IMPL does not exist: " + alt)
    else:
        iexe, iout = lib.cargo_driver("codec")
    if not mexe or not iexe:
        ctx.violation("tie-broken", "the codec correspondence harness no longer builds against /repo:\n" + (mout or iout)[-3000:], False,
                      "harness build failed; correspondence codec(impl) = Codec.V4 (model) not checked")
        return None, None
    return mexe, iexe


def both(ctx, mexe, iexe, lines, tag):
    t = time.time()
    rc1, impl, e1 = run_ops(iexe, lines, tag + "-impl")
    t1 = time.time() - t
    rc2, model, e2 = run_ops(mexe, lines, tag + "-model")
    ctx.log("%s: %d ops, impl %.1fs, model %.1fs" % (tag, len(lines), t1, time.time() - t - t1))
    if rc1 != 0 or rc2 != 0 or len(impl) != len(lines) or len(model) != len(lines):
        ctx.violation("driver-failed", "driver exit codes impl=%d model=%d lines %d/%d/%d\n%s\n%s" % (
            rc1, rc2, len(impl), len(model), len(lines), e1[-1500:], e2[-1500:]), False, "a driver did not answer every op (%s)" % tag)
        return None, None
    return impl, model


def short(s, n=160):
    return s if len(s) <= n else s[:n // 2] + "...(%d chars)..." % len(s) + s[-n // 2:]


# ------------------------------------------------------------------ canonical packets (text)

def hx(b):
    return b.hex() if b else "-"


def p_connect(proto=4, ka=10, cid=b"c", clean=1, will=None, login=None):
    w = "none" if will is None else "%s:%s:%d:%d" % (hx(will[0]), hx(will[1]), will[2], will[3])
    l = "none" if login is None else "%s:%s" % (hx(login[0]), hx(login[1]))
    return "CONNECT proto=%d ka=%d id=%s clean=%d will=%s login=%s" % (proto, ka, hx(cid), clean, w, l)


def p_connack(sp, code):
    return "CONNACK sp=%d code=%d" % (sp, code)


def p_publish(dup, qos, retain, topic, pkid, payload):
    return "PUBLISH dup=%d qos=%d retain=%d topic=%s pkid=%d payload=%s" % (dup, qos, retain, hx(topic), pkid, hx(payload))


def p_ack(kind, pkid, reason=0):
    return "%s pkid=%d reason=%d" % (kind, pkid, reason)


def p_subscribe(pkid, filters):
    return "SUBSCRIBE pkid=%d filters=%s" % (pkid, ",".join("%s:%d:%d" % (hx(p), q, o) for (p, q, o) in filters) or "none")


def p_suback(pkid, codes):
    return "SUBACK pkid=%d codes=%s" % (pkid, ",".join(codes) or "none")


def p_unsubscribe(pkid, topics):
    return "UNSUBSCRIBE pkid=%d topics=%s" % (pkid, ",".join(hx(t) for t in topics) or "none")


def p_unsuback(pkid, reasons):
    return "UNSUBACK pkid=%d reasons=%s" % (pkid, ",".join(str(r) for r in reasons) or "none")


def p_disconnect(reason=0):
    return "DISCONNECT reason=%d" % reason


STRS = [b"", b"a", b"a/b", b"+/#", "é".encode(), "a/\U0001F600/é".encode(), b"$SYS/x", b"\x00", b"sensors/+/temp/#"]
BAD_UTF8 = [b"\xff", b"\xc3", b"a\xe0\x80\x80", b"\xed\xa0\x80", b"\xf4\x90\x80\x80", b"\xc0\xaf"]
PKIDS = [1, 2, 255, 256, 65535]
RCS = ["S0", "S1", "S2", "F", "Q0", "Q1", "Q2", "U", "O131", "O135", "O143", "O145", "O151", "O158", "O161", "O162", "O3", "O255"]


def wf_packets(ctx, rng):
    """(packet text, tags) — structured generator; mostly well-formed, plus the edges just outside wf."""
    out = []

    def add(p, *tags):
        out.append((p, set(tags)))

    # --- fixed packets
    add("PINGREQ"); add("PINGRESP"); add(p_disconnect(0))
    for r in (1, 4, 28, 29):
        add(p_disconnect(r), "broker-only-field")
    for sp in (0, 1):
        for code in range(0, 26):
            add(p_connack(sp, code), *(["broker-only-code"] if code > 5 else []))
    for kind in ("PUBACK", "PUBREC", "PUBREL", "PUBCOMP"):
        for pkid in [0] + PKIDS:
            add(p_ack(kind, pkid, 0), "ids")
        for r in (1, 2, 8, 9):
            add(p_ack(kind, 7, r), "broker-only-field")
    for pkid in [0] + PKIDS:
        add(p_unsuback(pkid, []), "ids")
    add(p_unsuback(9, [0, 1, 6]), "broker-only-field"); add(p_unsuback(9, [7]), "broker-only-field")

    # --- publish: all flag combinations x ids x strings
    for dup in (0, 1):
        for qos in (0, 1, 2):
            for retain in (0, 1):
                for pkid in ([0, 1] if qos == 0 else [0] + PKIDS):
                    t = rng.choice(STRS[1:])
                    add(p_publish(dup, qos, retain, t, pkid, rng.choice([b"", b"x", b"\x00\xff", b"payload"])), "flags", "ids")
    for t in STRS:
        add(p_publish(0, 1, 0, t, 3, b"p"), "strings")
    for t in BAD_UTF8:
        add(p_publish(0, 0, 0, t, 0, b"p"), "non-utf8-topic")
    # remaining-length boundaries: remaining = 2 + len(topic) + [2] + len(payload)
    bounds = [126, 127, 128, 129, 16382, 16383, 16384, 16385]
    for rem in bounds:
        for qos in (0, 1):
            pl = rem - 2 - 3 - (2 if qos else 0)
            add(p_publish(0, qos, 0, b"a/b", 5 if qos else 0, bytes((i * 7 + rem) & 0xff for i in range(pl))), "len-boundary")
    big = [2097151, 2097152] if not ctx.thorough() else [2097150, 2097151, 2097152, 2097153]
    for rem in big:
        pl = rem - 2 - 1 - 2
        add(p_publish(0, 1, 1, b"t", 65535, bytes([rem & 0xff]) * pl), "len-boundary", "huge")
    # string-length boundaries (16-bit prefix)
    for n in (127, 128, 65535, 65536):
        add(p_publish(0, 0, 0, b"a" * n, 0, b"z"), "str-boundary")
    add(p_publish(1, 2, 1, ("é" * 32767 + "a").encode(), 77, b""), "str-boundary")

    # --- connect
    wills = [None, (b"w", b"", 0, 0), (b"will/t", b"bye", 1, 1), ("é".encode(), b"\xff\x00", 2, 0), (b"", b"m", 2, 1)]
    logins = [None, (b"u", b""), (b"", b"p"), (b"user", b"pass"), ("ü".encode(), "π".encode()), (b"", b"")]
    for proto in (4, 5, 3):
        for clean in (0, 1):
            for w in wills:
                for l in logins:
                    add(p_connect(proto, rng.choice([0, 1, 10, 65535]), rng.choice([b"", b"c", b"client-23", "cé".encode()]), clean, w, l),
                        "optional", *(["proto5"] if proto != 4 else []))
    for n in (127, 128, 65535, 65536):
        add(p_connect(4, 60, b"i" * n, 1, None, None), "str-boundary")
        add(p_connect(4, 60, b"i", 1, (b"t" * n, b"m", 1, 0), None), "str-boundary", "optional")
        add(p_connect(4, 60, b"i", 1, (b"t", b"m" * n, 1, 0), (b"u" * n, b"p" * n)), "str-boundary", "optional")
    for bad in BAD_UTF8[:3]:
        add(p_connect(4, 60, bad, 1, None, None), "non-utf8")
        add(p_connect(4, 60, b"i", 1, (bad, b"m", 0, 0), None), "non-utf8-topic", "optional")
        add(p_connect(4, 60, b"i", 1, None, (bad, b"p")), "non-utf8")
        add(p_connect(4, 60, b"i", 1, None, (b"u", bad)), "non-utf8")
    for rem in (127, 128, 16383, 16384):        # remaining = 10 + 2 + len(id)
        add(p_connect(4, 1, b"x" * (rem - 12), 0, None, None), "len-boundary")

    # --- subscribe / suback / unsubscribe
    for pkid in [0] + PKIDS:
        add(p_subscribe(pkid, [(b"a/b", 1, 0)]), "ids")
        add(p_suback(pkid, ["S1"]), "ids")
        add(p_unsubscribe(pkid, [b"a/b"]), "ids")
    add(p_subscribe(1, []), "empty-list"); add(p_suback(1, []), "empty-list"); add(p_unsubscribe(1, []), "empty-list")
    for n in (1, 2, 3):
        for _ in range(6):
            fs = [(rng.choice(STRS), rng.below(3), 0) for _ in range(n)]
            add(p_subscribe(rng.choice(PKIDS), fs), "multi")
            add(p_unsubscribe(rng.choice(PKIDS), [f[0] for f in fs]), "multi")
            add(p_suback(rng.choice(PKIDS), [rng.choice(RCS[:4]) for _ in range(n)]), "multi")
    for o in (1, 2, 4, 8, 11, 12):
        add(p_subscribe(3, [(b"a", 1, o)]), "broker-only-field")
    for c in RCS:
        add(p_suback(3, [c]), "codes"); add(p_suback(3, ["S0", c, "F"]), "codes", "multi")
    for bad in BAD_UTF8[:3]:
        add(p_subscribe(3, [(bad, 0, 0)]), "non-utf8"); add(p_unsubscribe(3, [b"ok", bad]), "non-utf8")
    for n in (65535, 65536):
        add(p_subscribe(3, [(b"f" * n, 2, 0)]), "str-boundary"); add(p_unsubscribe(3, [b"f" * n]), "str-boundary")
    for rem in (127, 128, 16383, 16384):
        add(p_suback(4, ["S%d" % (i % 3) for i in range(rem - 2)]), "len-boundary")          # remaining = 2 + n
        add(p_subscribe(4, [(b"ab", 1, 0)] * ((rem - 2) // 5) + [(b"a" * ((rem - 2) % 5 + 2), 0, 0)]), "len-boundary", "multi")
        add(p_unsubscribe(4, [b"ab"] * ((rem - 2) // 4) + [b"a" * ((rem - 2) % 4 + 2)]), "len-boundary", "multi")

    # --- random packets
    nrand = 20000 if ctx.thorough() else 1500

    def rs(maxlen=12):
        if rng.chance(1, 12):
            return bytes(rng.below(256) for _ in range(rng.below(maxlen)))
        return "".join(rng.choice(["a", "b", "/", "+", "#", "é", "\U0001F600", "$", "0"]) for _ in range(rng.below(maxlen))).encode()

    for _ in range(nrand):
        k = rng.below(10)
        if k == 0:
            w = None if rng.chance(1, 2) else (rs(), rs(40), rng.below(3), rng.below(2))
            l = None if rng.chance(1, 2) else (rs(), rs())
            add(p_connect(rng.choice([4, 4, 4, 5]), rng.below(65536), rs(24), rng.below(2), w, l), "random")
        elif k in (1, 2, 3):
            q = rng.below(3)
            add(p_publish(rng.below(2), q, rng.below(2), rs(20), (1 + rng.below(65535)) if q else 0,
                          bytes(rng.below(256) for _ in range(rng.choice([0, 1, 5, 100, 130, 300])))), "random")
        elif k == 4:
            add(p_ack(rng.choice(["PUBACK", "PUBREC", "PUBREL", "PUBCOMP"]), rng.below(65536), 0), "random")
        elif k == 5:
            add(p_subscribe(rng.below(65536), [(rs(), rng.below(3), 0) for _ in range(1 + rng.below(4))]), "random")
        elif k == 6:
            add(p_suback(rng.below(65536), [rng.choice(RCS[:9]) for _ in range(1 + rng.below(5))]), "random")
        elif k == 7:
            add(p_unsubscribe(rng.below(65536), [rs() for _ in range(rng.below(4))]), "random")
        elif k == 8:
            add(p_connack(rng.below(2), rng.below(6)), "random")
        else:
            add(p_unsuback(rng.below(65536), []), "random")
    for l in corpus_lines("ENC"):
        add(" ".join(l.split()[4:]), "corpus")
    return out


def corpus_lines(kind, ver=4):
    """ops of one kind (ENC / DEC / STREAM) and protocol version found in corpus/codec/*"""
    cdir = os.path.join(lib.ROOT, "corpus", "codec")
    out = []
    if os.path.isdir(cdir):
        for fn in sorted(os.listdir(cdir)):
            for l in open(os.path.join(cdir, fn)).read().splitlines():
                l = l.split(" #=")[0].strip()
                if l.startswith("%s %d " % (kind, ver)):
                    out.append(l)
    return out


# ------------------------------------------------------------------ canonical MQTT 5 packets (text)

KIND = {1: "b", 23: "b", 25: "b", 36: "b", 37: "b", 40: "b", 41: "b", 42: "b", 19: "h", 33: "h", 34: "h", 35: "h",
        2: "w", 17: "w", 24: "w", 39: "w", 11: "v", 3: "s", 8: "s", 18: "s", 21: "s", 26: "s", 28: "s", 31: "s", 9: "d", 22: "d", 38: "p"}
T_CONNECT = [17, 33, 39, 34, 25, 23, 38, 21, 22]
T_WILL = [24, 1, 2, 3, 8, 9, 38]
T_CONNACK = [17, 33, 36, 37, 39, 18, 34, 31, 38, 40, 41, 42, 19, 26, 28, 21, 22]
T_PUBLISH = [1, 2, 35, 8, 9, 38, 11, 3]
T_ACK = [31, 38]
T_SUBSCRIBE = [11, 38]
T_UNSUBSCRIBE = [38]
T_DISCONNECT = [17, 31, 38, 28]
PUBACK_R = [0, 16, 128, 131, 135, 144, 145, 151, 153]
PUBREL_R = [0, 146]
CONNACK_C = [0, 128, 129, 130, 131, 132, 133, 134, 135, 136, 137, 138, 140, 144, 149, 151, 153, 154, 155, 156, 157, 159]
UNSUBACK_R = [0, 17, 128, 131, 135, 143, 145]
DISC_R = [0, 4, 128, 129, 130, 131, 135, 137, 139, 141, 142, 143, 144, 147, 148, 149, 150, 151, 152, 153, 154, 155, 156, 157, 158, 159, 160, 161, 162]
VALS = {"b": [0, 1, 255], "h": [0, 1, 65535], "w": [0, 1, 4294967295], "v": [1, 127, 128, 16383, 16384, 2097151, 2097152, 268435455, 0],
        "s": [b"", b"a", "réason".encode(), b"x" * 200], "d": [b"", b"\x00\xff", b"data"],
        "p": [(b"k", b"v"), (b"", b""), ("clé".encode(), b"v" * 130)]}


def pv(id_, v):
    k = KIND[id_]
    if k in "bhwv":
        return "%d=%d" % (id_, v)
    if k in "sd":
        return "%d=%s" % (id_, hx(v))
    return "%d=%s~%s" % (id_, hx(v[0]), hx(v[1]))


def props_text(items):
    """None -> none, [] -> empty, [(id, value)] -> text"""
    if items is None:
        return "none"
    return ";".join(pv(i, v) for (i, v) in items) or "empty"


def some_value(rng, id_, i=None):
    vs = VALS[KIND[id_]]
    return vs[i % len(vs)] if i is not None else rng.choice(vs)


def prop_sets(rng, tab, thorough):
    """property sections for a packet type with table `tab`: none, empty, every property alone with every pool value,
    all properties, every subset (<= 9 ids) or sampled subsets, repeated multi-valued ids, and (not wf) out-of-order /
    duplicated single-valued ids"""
    out = [(None, set()), ([], {"props"})]
    for id_ in tab:
        for v in VALS[KIND[id_]]:
            out.append(([(id_, v)], {"props"}))
    out.append(([(i, some_value(rng, i, 1)) for i in tab], {"props", "all-props"}))
    n = len(tab)
    if n <= 9:
        masks = range(1, 1 << n)
    else:
        masks = sorted({rng.below(1 << n) | 1 << rng.below(n) for _ in range(600 if thorough else 150)})
    for m_ in masks:
        for _ in range(5 if thorough else 1):       # thorough: several value draws per subset
            out.append(([(tab[i], some_value(rng, tab[i])) for i in range(n) if m_ >> i & 1], {"props", "subset"}))
    if 38 in tab:
        for k in (2, 3):
            l = []
            for i in tab:
                if i == 38:
                    l += [(38, some_value(rng, 38, j)) for j in range(k)]
                elif i == 11 and tab is T_PUBLISH:
                    l += [(11, some_value(rng, 11, j)) for j in range(k + 1)]
                elif rng.chance(1, 2):
                    l.append((i, some_value(rng, i)))
            out.append((l, {"props", "multi"}))
    if n >= 2:
        out.append(([(tab[1], some_value(rng, tab[1])), (tab[0], some_value(rng, tab[0]))], {"props", "non-canonical"}))
        out.append(([(tab[0], some_value(rng, tab[0], 0)), (tab[0], some_value(rng, tab[0], 1))], {"props", "non-canonical"}))
    return out


def q_connect5(ka=10, cid=b"c", clean=1, props=None, will=None, login=None):
    w = "none" if will is None else "%s:%s:%d:%d:%s" % (hx(will[0]), hx(will[1]), will[2], will[3], props_text(will[4]))
    l = "none" if login is None else "%s:%s" % (hx(login[0]), hx(login[1]))
    return "CONNECT ka=%d id=%s clean=%d props=%s will=%s login=%s" % (ka, hx(cid), clean, props_text(props), w, l)


def q_publish5(dup, qos, retain, topic, pkid, payload, props=None):
    return "PUBLISH dup=%d qos=%d retain=%d topic=%s pkid=%d payload=%s props=%s" % (dup, qos, retain, hx(topic), pkid, hx(payload), props_text(props))


def q_ack5(kind, pkid, reason=0, props=None):
    return "%s pkid=%d reason=%d props=%s" % (kind, pkid, reason, props_text(props))


def q_subscribe5(pkid, filters, props=None):
    return "SUBSCRIBE pkid=%d filters=%s props=%s" % (pkid, ",".join("%s:%d:%d:%d:%d" % (hx(p_), q, nl, pr, r) for (p_, q, nl, pr, r) in filters) or "none", props_text(props))


def wf_packets5(ctx, rng):
    out = []
    th = ctx.thorough()

    def add(p, *tags):
        out.append((p, set(tags)))
    add("PINGREQ"); add("PINGRESP")
    # ---- DISCONNECT / acks: every reason code x {none, empty, props}
    for r in DISC_R + [1, 163]:
        add("DISCONNECT reason=%d props=none" % r, "codes")
    for (ps, tg) in prop_sets(rng, T_DISCONNECT, th):
        add("DISCONNECT reason=%d props=%s" % (rng.choice([0, 0, 142, 152]), props_text(ps)), "optional", *tg)
    for kind, rs in (("PUBACK", PUBACK_R), ("PUBREC", PUBACK_R), ("PUBREL", PUBREL_R), ("PUBCOMP", PUBREL_R)):
        for r in rs + [1]:
            for pkid in (1, 65535):
                add(q_ack5(kind, pkid, r, None), "codes"); add(q_ack5(kind, pkid, r, []), "codes", "props")
        for pkid in [0] + PKIDS:
            add(q_ack5(kind, pkid, 0, None), "ids")
        for (ps, tg) in prop_sets(rng, T_ACK, th):
            add(q_ack5(kind, 7, rng.choice(rs), ps), "optional", *tg)
    # ---- CONNACK
    for sp in (0, 1):
        for c in CONNACK_C + [1, 2, 3, 4, 127, 139]:
            add("CONNACK sp=%d code=%d props=none" % (sp, c), "codes")
    for (ps, tg) in prop_sets(rng, T_CONNACK, th):
        add("CONNACK sp=%d code=%d props=%s" % (rng.below(2), rng.choice(CONNACK_C), props_text(ps)), "optional", *tg)
    # ---- PUBLISH
    for dup in (0, 1):
        for qos in (0, 1, 2):
            for retain in (0, 1):
                for pkid in ([0, 1] if qos == 0 else [0] + PKIDS):
                    add(q_publish5(dup, qos, retain, rng.choice(STRS[1:]), pkid, rng.choice([b"", b"x", b"\x00\xff", b"payload"]), None), "flags", "ids")
    for t_ in STRS + BAD_UTF8[:3]:
        add(q_publish5(0, 1, 0, t_, 3, b"p", [(1, 1)]), "strings")
    for (ps, tg) in prop_sets(rng, T_PUBLISH, th):
        q = rng.below(3)
        add(q_publish5(rng.below(2), q, rng.below(2), b"a/b", 9 if q else 0, rng.choice([b"", b"pay"]), ps), "optional", *tg)
    for k in (1, 2, 3, 4, 6):        # several subscription identifiers followed by a (short) content type
        for ct in (b"", b"a", b"text/plain"):
            add(q_publish5(0, 0, 0, b"t", 0, b"x", [(11, 1 + j) for j in range(k)] + [(3, ct)]), "optional", "props", "multi", "subids")
            add(q_publish5(0, 1, 0, b"t", 5, b"x", [(38, (b"k", b"v"))] + [(11, 200 + j) for j in range(k)] + [(3, ct)]), "optional", "props", "multi", "subids")
    add(q_publish5(0, 0, 0, b"t", 0, b"x", [(11, 268435456)]), "varint-too-big")
    for rem in [126, 127, 128, 129, 16382, 16383, 16384, 16385]:
        for ps in (None, [(1, 1), (38, (b"k", b"v"))]):
            plen = 1 if ps is None else 1 + 2 + 7
            pl = rem - 2 - 3 - 2 - plen
            add(q_publish5(0, 1, 0, b"a/b", 5, bytes((i * 7 + rem) & 0xff for i in range(pl)), ps), "len-boundary")
    for pl_ in (127 - 1, 128 - 1, 16383 - 1, 16384 - 1, 16384):     # property length across its own varint boundaries
        add(q_publish5(0, 0, 0, b"t", 0, b"x", [(8, b"r" * (pl_ - 3))]), "len-boundary", "props")
    for rem in ([2097152] if not th else [2097150, 2097151, 2097152, 2097153]):
        add(q_publish5(0, 1, 1, b"t", 65535, bytes([rem & 0xff]) * (rem - 2 - 1 - 2 - 1), None), "len-boundary", "huge")
    for n in (65535, 65536):
        add(q_publish5(0, 0, 0, b"a" * n, 0, b"z", None), "str-boundary")
        add(q_publish5(0, 0, 0, b"a", 0, b"z", [(3, b"c" * n)]), "str-boundary", "props")
    # ---- CONNECT
    wills = [None, (b"w", b"", 0, 0, None), (b"will/t", b"bye", 1, 1, []), (b"\xff", b"\xff\x00", 2, 0, [(24, 5), (38, (b"k", b"v"))])]
    logins = [None, (b"u", b""), (b"", b"p"), (b"user", b"pass"), (b"", b"")]
    for clean in (0, 1):
        for w in wills:
            for l in logins:
                add(q_connect5(rng.choice([0, 1, 10, 65535]), rng.choice([b"", b"c", b"client-23", "cé".encode()]), clean,
                               rng.choice([None, [], [(17, 30)], [(33, 10), (38, (b"a", b"b"))]]), w, l), "optional")
    for (ps, tg) in prop_sets(rng, T_CONNECT, th):
        add(q_connect5(60, b"cid", 1, ps, None, None), "optional", *tg)
    for (ps, tg) in prop_sets(rng, T_WILL, th):
        add(q_connect5(60, b"cid", 0, [(17, 1)], (b"w/t", b"m", 1, 0, ps), (b"u", b"p")), "optional", *tg)
    for bad in BAD_UTF8[:3]:
        add(q_connect5(60, bad, 1, None, None, None), "non-utf8")
        add(q_connect5(60, b"i", 1, [(21, bad)], None, None), "non-utf8")
        add(q_connect5(60, b"i", 1, [(38, (b"k", bad))], None, None), "non-utf8")
        add(q_connect5(60, b"i", 1, None, None, (bad, b"p")), "non-utf8")
    for n in (65535, 65536):
        add(q_connect5(60, b"i" * n, 1, None, None, None), "str-boundary")
        add(q_connect5(60, b"i", 1, None, (b"t" * n, b"m", 1, 0, None), None), "str-boundary", "optional")
    # ---- SUBSCRIBE / SUBACK / UNSUBSCRIBE / UNSUBACK
    for pkid in [0] + PKIDS:
        add(q_subscribe5(pkid, [(b"a/b", 1, 0, 0, 0)], None), "ids")
        add("SUBACK pkid=%d codes=S1 props=none" % pkid, "ids")
        add("UNSUBSCRIBE pkid=%d topics=612f62 props=none" % pkid, "ids")
        add("UNSUBACK pkid=%d reasons=0 props=none" % pkid, "ids")
    for q in (0, 1, 2):
        for nl in (0, 1):
            for pr in (0, 1):
                for r in (0, 1, 2, 3):
                    add(q_subscribe5(2, [(b"f/+", q, nl, pr, r)], None), "flags")
    add(q_subscribe5(1, [], None), "empty-list"); add("SUBACK pkid=1 codes=none props=none", "empty-list")
    add("UNSUBSCRIBE pkid=1 topics=none props=none", "empty-list"); add("UNSUBACK pkid=1 reasons=none props=none", "empty-list")
    for (ps, tg) in prop_sets(rng, T_SUBSCRIBE, th):
        add(q_subscribe5(3, [(rng.choice(STRS), rng.below(3), rng.below(2), rng.below(2), rng.below(3)) for _ in range(1 + rng.below(3))], ps), "optional", "multi", *tg)
    for (ps, tg) in prop_sets(rng, T_UNSUBSCRIBE, th):
        add("UNSUBSCRIBE pkid=4 topics=%s props=%s" % (",".join(hx(rng.choice(STRS)) for _ in range(1 + rng.below(3))), props_text(ps)), "optional", "multi", *tg)
    for (ps, tg) in prop_sets(rng, T_ACK, th):
        add("SUBACK pkid=5 codes=%s props=%s" % (",".join(rng.choice(RCS[:16]) for _ in range(1 + rng.below(3))), props_text(ps)), "optional", "multi", *tg)
        add("UNSUBACK pkid=6 reasons=%s props=%s" % (",".join(str(rng.choice(UNSUBACK_R)) for _ in range(1 + rng.below(3))), props_text(ps)), "optional", "multi", *tg)
    for c in RCS:
        add("SUBACK pkid=3 codes=%s props=none" % c, "codes")
    for r in UNSUBACK_R + [1, 16, 146]:
        add("UNSUBACK pkid=3 reasons=%d props=none" % r, "codes")
    for bad in BAD_UTF8[:2]:
        add(q_subscribe5(3, [(bad, 0, 0, 0, 0)], None), "non-utf8"); add("UNSUBSCRIBE pkid=3 topics=6f6b,%s props=none" % hx(bad), "non-utf8")
    for rem in (127, 128, 16383, 16384):
        add("SUBACK pkid=4 codes=%s props=none" % ",".join("S%d" % (i % 3) for i in range(rem - 3)), "len-boundary")
        add("UNSUBACK pkid=4 reasons=%s props=none" % ",".join("0" for i in range(rem - 3)), "len-boundary")
    for l in corpus_lines("ENC", 5):
        add(" ".join(l.split()[4:]), "corpus")
    return out



# ------------------------------------------------------------------ fixed header, independently of the model

def header(bs):
    """('short', need) | ('badlen',) | ('ok', len_len, remaining)  — MQTT variable byte integer, by the spec."""
    if len(bs) < 2:
        return ("short", 2 - len(bs))
    rem, mult = 0, 1
    for i in range(1, 5):
        if i >= len(bs):
            return ("short", 1)
        rem += (bs[i] & 0x7F) * mult
        mult *= 128
        if bs[i] & 0x80 == 0:
            return ("ok", i, rem)
    return ("badlen",)


def kind_of(pkt):
    return pkt.split()[0]


# ------------------------------------------------------------------ C04

def maxtok(ver, fl, n=None):
    """max-size token of an op: a number; MQTT 5 client: "none" = no limit (Option<u32>)"""
    if n is not None:
        return str(n)
    return "none" if (ver == 5 and fl == "C") else str(BIG)


def norm_op(ver, fl, p):
    return "NORM 4 %s" % p if ver == 4 else "NORM 5 %s %s" % (fl, p)


def c04_core(ctx, mexe, iexe, ver, pkts, st):
    """encode every packet with both real encoders + model, decode every encoding with both real decoders + model,
    evaluate the C04 monitor on the real code.  st accumulates fails / diffs / statistics."""
    fails, diffs = st["fails"], st["diffs"]
    # ---- pass 1: WF, NORM (as seen by this crate's decoder and by the peer's), ENC
    lines, index = [], []
    for (p, tags) in pkts:
        for fl in "CB":
            other = "B" if fl == "C" else "C"
            index.append((p, fl, other, tags, len(lines)))
            lines += ["WF %d %s %s" % (ver, fl, p), norm_op(ver, fl, p), norm_op(ver, other, p), "ENC %d %s %s %s" % (ver, fl, maxtok(ver, fl), p)]
    impl1, model1 = both(ctx, mexe, iexe, lines, "c04-v%d-pass1" % ver)
    if impl1 is None:
        return False
    # ---- pass 2: decode what the real encoders produced
    lines2, index2 = [], []
    trailers = ["-", "c0", "00", "ffff30"]
    enc_ok = {}
    for n, (p, fl, other, tags, at) in enumerate(index):
        wf = model1[at] == "T"
        norm_same, norm_peer = model1[at + 1], model1[at + 2]
        ie, me = impl1[at + 3], model1[at + 3]
        if ie != me:
            diffs.append(([lines[at + 3]], "encoder differs from model: impl[%s] model[%s]" % (short(ie), short(me))))
        t = ie.split()
        if wf:
            okk = t[0] == "OK" and int(t[2]) == (0 if t[1] == "-" else len(t[1]) // 2) and (t[3] == "-" or t[3] == t[2])
            if not okk:
                fails.append(([lines[at + 3] + " #= ENC-OK"], "wf packet: %s encoder answered %s (expected OK with ret = size = length)" % (fl, short(ie))))
        if t[0] != "OK":
            continue
        bs = t[1]
        enc_ok[(p, fl)] = bs
        raw = bytes.fromhex(bs) if bs != "-" else b""
        tr = trailers[n % len(trailers)]
        full = (bs if bs != "-" else "") + (tr if tr != "-" else "")
        h = header(raw)
        rem = h[2] if h[0] == "ok" else 0
        at2 = len(lines2)
        # (for the multi-megabyte packets the 4th op repeats the 3rd: the model is slow on them)
        wfpeer = "WF %d %s %s" % (ver, other, norm_peer)
        small = "huge" not in tags or ctx.thorough()
        lines2 += ["DEC %d %s %s %s" % (ver, fl, maxtok(ver, fl), full or "-"),
                   ("DEC %d %s %s %s" % (ver, other, maxtok(ver, other), full or "-")) if (small or fl == "C") else wfpeer, wfpeer,
                   ("DEC %d %s %d %s" % (ver, fl, rem, bs)) if small else wfpeer]
        index2.append((p, fl, other, wf, norm_same, norm_peer, len(raw), at2, tags))
    impl2, model2 = both(ctx, mexe, iexe, lines2, "c04-v%d-pass2" % ver)
    if impl2 is None:
        return False
    hist = st["hist"]
    for (p, fl, other, wf, norm_same, norm_peer, n, at, tags) in index2:
        for k in (0, 1, 3):
            if lines2[at + k].startswith("DEC") and impl2[at + k] != model2[at + k]:
                diffs.append(([lines2[at + k]], "decoder differs from model: impl[%s] model[%s]" % (short(impl2[at + k]), short(model2[at + k]))))
        k = kind_of(p)
        hk = "v%d:%s:%s%s" % (ver, k, fl, ":wf" if wf else ":not-wf")
        hist[hk] = hist.get(hk, 0) + 1
        if not wf:
            continue
        st["wf"] += 1
        want = "PKT %s %d" % (norm_same, n)
        enc_line = "ENC %d %s %s %s" % (ver, fl, maxtok(ver, fl), p)
        if impl2[at] != want:
            fails.append(([enc_line, lines2[at] + " #= " + want], "round trip (v%d %s): decode(encode p) = %s, expected %s" % (ver, fl, short(impl2[at]), short(want))))
        if lines2[at + 3].startswith("DEC") and impl2[at + 3] != want:
            fails.append(([enc_line, lines2[at + 3] + " #= " + want], "round trip with max = remaining length (v%d %s): %s, expected %s" % (ver, fl, short(impl2[at + 3]), short(want))))
        peer_wf = model2[at + 2] == "T"
        sends = CLIENT_SENDS if fl == "C" else BROKER_SENDS
        if peer_wf and lines2[at + 1].startswith("DEC"):
            st["interop"] += 1
            wantp = "PKT %s %d" % (norm_peer, n)
            if impl2[at + 1] != wantp:
                fails.append(([enc_line, lines2[at + 1] + " #= " + wantp], "interop v%d %s->%s%s: peer decoded %s, expected %s" % (
                    ver, fl, other, "" if k in sends else " (type not sent in this direction)", short(impl2[at + 1]), short(wantp))))
        if tags & {"optional", "len-boundary", "str-boundary", "multi", "strings", "flags", "codes", "broker-only-field", "props"} or (
                "random" in tags and k in ("CONNECT", "PUBLISH", "SUBSCRIBE", "SUBACK", "UNSUBSCRIBE") and ("login=none" not in p or "will=none" not in p or k != "CONNECT")):
            st["nontrivial"].add((ver, p, fl))
    st["evaluations"] += len(lines) + len(lines2)
    st["validated"] += len(lines) // 4 + 3 * len(index2)
    st["packets"] += len(pkts)
    for i in (0, 40, 200, 420, len(index2) - 1):
        if 0 <= i < len(index2) and len(st["samples"]) < 10:
            (p, fl, other, wf, norm_same, norm_peer, n, at, tags) = index2[i]
            st["samples"].append("v%d %s %s wf=%s -> enc %s ; same-crate %s ; peer %s" % (
                ver, fl, short(p, 100), wf, short(enc_ok.get((p, fl), "?"), 60), short(impl2[at], 100), short(impl2[at + 1], 100)))
    return True


def run_c04(ctx, mexe, iexe, p_ok):
    rng = lib.Rng(ctx.seed)
    ctx.cov["rule"] = (
        "structured generators of canonical packets. MQTT 3.1.1: all 14 types; PUBLISH dup x qos x retain x ids {0,1,2,255,256,65535}; strings "
        "(empty, ASCII, multi-byte, invalid UTF-8, lengths 127/128/65535/65536); remaining lengths 126..129, 16382..16385, 2097151/2097152 "
        "(PUBLISH, CONNECT, SUBSCRIBE, SUBACK, UNSUBSCRIBE); CONNECT proto x clean x 5 wills x 6 logins; every return/reason code; "
        "1-3 and ~3000 filters/codes; random packets. MQTT 5: all 14 types both crates implement; for every property table (CONNECT, will, CONNACK, "
        "PUBLISH, acks, SUBSCRIBE, UNSUBSCRIBE, DISCONNECT): properties none / empty / each property alone with every pool value / all / every subset "
        "(tables <= 9 ids, sampled for CONNACK) / repeated user properties and subscription identifiers / out-of-order and duplicated single-valued ids; "
        "every reason code x {no properties, empty, some}; short and long forms of acks / DISCONNECT; flags, ids, filter options, length boundaries of the "
        "remaining length and of the property length; corpus/codec. Each packet is encoded by BOTH real encoders (Packet::write/size, V4/V5::write) and by "
        "the extracted Coq model (byte equality), every encoding (+ trailing bytes) is decoded by BOTH real decoders and the model. "
        "Monitor on the real code, for packets that satisfy the Coq predicate wf_v4 / wf5: encoder succeeds, ret = size() = bytes written, same-crate decode "
        "returns norm(p) consuming exactly the frame, also with max = remaining length, and the peer crate decodes the same bytes to its norm(p) when "
        "wf peer (norm p). distinct_nontrivial = distinct wf (packet, flavour) pairs having an optional part / property present, a multi-byte string, several "
        "filters/codes, or a remaining length within 1 of a len_len boundary.")
    st = {"fails": [], "diffs": [], "hist": {}, "wf": 0, "interop": 0, "nontrivial": set(), "evaluations": 0, "validated": 0, "packets": 0, "samples": []}
    if not c04_core(ctx, mexe, iexe, 4, wf_packets(ctx, rng), st):
        return
    if not c04_core(ctx, mexe, iexe, 5, wf_packets5(ctx, lib.Rng(ctx.seed ^ 0x55)), st):
        return
    ctx.cov["evaluations"] = st["evaluations"]
    ctx.cov["traces_validated_against_impl"] = st["validated"]
    ctx.cov["distinct_nontrivial"] = len(st["nontrivial"])
    ctx.cov["distinct_nontrivial_v5"] = len([1 for x in st["nontrivial"] if x[0] == 5])
    ctx.cov["packets"] = st["packets"]
    ctx.cov["wf_packet_flavour_pairs"] = st["wf"]
    ctx.cov["interop_pairs_checked"] = st["interop"]
    ctx.cov["kind_histogram"] = st["hist"]
    ctx.cov["samples"] = st["samples"]
    report(ctx, "C04", st["fails"], st["diffs"], p_ok, st["evaluations"])


def report(ctx, prop, fails, diffs, p_ok, nops):
    hdr = "# %s replay: one op per line; '#= X' is what the property demands of the implementation's answer. run: ./check %s --replay <this file>\n" % (prop, prop)
    if fails:
        fails.sort(key=lambda f: sum(len(l) for l in f[0]))
        ops, msg = fails[0]
        ctx.violation("input", hdr + "# %s (%d failing cases in this run)\n" % (msg, len(fails)) + "\n".join(ops) + "\n", True,
                      "%s (%d failing cases)" % (msg, len(fails)))
    elif diffs:
        diffs.sort(key=lambda f: sum(len(l) for l in f[0]))
        ops, msg = diffs[0]
        ctx.violation("correspondence", hdr + "# model/implementation correspondence broken, no property failure found: %s (%d differing ops)\n" % (msg, len(diffs))
                      + "\n".join(ops) + "\n", False, "correspondence codec(impl) = Codec.V4 broken: %s (%d differing ops)" % (msg, len(diffs)))
    elif not p_ok:
        ctx.violation("proof", "Proof obligations of Props/%s.v no longer check:\n%s\nNo input was found on which the implementation violates the property (%d ops)." % (
            prop, getattr(ctx, "proof_error", ""), nops), False, "theorems of Props/%s.v do not check" % prop)
    ctx.log("ops=%d monitor-failures=%d model-differences=%d" % (nops, len(fails), len(diffs)))


# ------------------------------------------------------------------ C05

MAXES = [0, 1, 127, 128, 10240]


def dec_monitor(op, ans):
    """Property C05 on one DEC answer of the implementation; returns None or a message."""
    t = op.split()
    mx = (1 << 62) if t[3] == "none" else int(t[3])
    bs = bytes.fromhex(t[4]) if t[4] != "-" else b""
    h = header(bs)
    a = ans.split()
    if a[0] == "PANIC":
        return "decoder panicked"
    if h[0] == "short":
        if a[0] != "MORE":
            return "header incomplete but decoder answered %s" % short(ans)
        if int(a[1]) < 1:
            return "asked for %s more bytes" % a[1]
        return None
    if h[0] == "badlen":
        return None if (a[0] == "MAL" and a[-1] == "0") else "5-byte remaining length not rejected in place: %s" % short(ans)
    frame = 1 + h[1] + h[2]
    if h[2] > mx:
        return None if a[:2] == ["MAL", "PayloadSizeLimitExceeded"] and a[-1] == "0" else \
            "declared remaining length %d > max %d but decoder answered %s" % (h[2], mx, short(ans))
    if len(bs) < frame:
        if a[0] != "MORE":
            return "frame incomplete (%d of %d bytes) but decoder answered %s" % (len(bs), frame, short(ans))
        k = int(a[1])
        return None if 1 <= k <= frame - len(bs) else "asked for %d more bytes, %d missing" % (k, frame - len(bs))
    if a[0] == "MORE":
        return "complete frame (%d bytes, buffer %d) but decoder asks for more" % (frame, len(bs))
    c = int(a[-1])
    if a[0] == "PKT" and c != frame:
        return "packet consumed %d bytes, declared frame is %d" % (c, frame)
    if a[0] == "MAL" and c not in (0, frame):
        return "error consumed %d bytes, declared frame is %d" % (c, frame)
    return None


def small_valid_frames(ctx, mexe, rng, ver=4):
    """encodings (by the model) of the small wf packets: seeds for truncation / mutation / streams"""
    gen = wf_packets if ver == 4 else wf_packets5
    seeds = [p for (p, tags) in gen(ctx, lib.Rng(ctx.seed ^ 0x5A5A)) if not (tags & {"huge", "str-boundary", "len-boundary"})]
    lines = ["ENC %d B %d %s" % (ver, BIG, p) for p in seeds] + ["ENC %d C %d %s" % (ver, BIG, p) for p in seeds]
    rc, out, err = run_ops(mexe, lines, "c05-seeds")
    frames = set()
    for o in out:
        t = o.split()
        if t and t[0] == "OK" and t[1] != "-" and len(t[1]) <= (400 if ver == 4 else 160):
            frames.add(t[1])
    frames = sorted(frames)
    if ver == 5 and not ctx.thorough() and len(frames) > 900:      # keep the quick tier quick: a deterministic sample
        frames = [f for i, f in enumerate(frames) if i % (len(frames) // 900 + 1) == 0]
    return frames


def gen_dec_ops(ctx, frames, rng, ver=4):
    ops = []
    LB = ["00", "01", "7f", "80", "ff"]
    BODY = ["", "00", "01", "02", "04", "7f", "80", "ff"]

    def prefixes(n):
        if n == 0:
            return [""]
        return [a + b for a in prefixes(n - 1) for b in LB]
    p12 = prefixes(1) + prefixes(2)
    p35 = prefixes(3) + prefixes(4) + prefixes(5)
    i = 0
    # every first byte x length prefixes of 1-2 bytes x bodies of <= 2 bytes (MQTT 5, quick tier: <= 1 byte + the 2-byte bodies for 16 first bytes)
    bodies2 = [a + b for a in BODY[1:] for b in BODY[1:]]
    bodies = BODY + (bodies2 if (ver == 4 or ctx.thorough()) else [])
    for b1 in range(256):
        for lp in p12:
            for body in bodies + (bodies2 if (len(bodies) < 20 and b1 & 0x0f == 0) else []):
                i += 1
                ops.append(("%02x" % b1) + lp + body)
    # every packet type (natural flags + all-ones flags) x length prefixes of 3-5 bytes
    firsts = [(t << 4) | f for t in range(16) for f in ((0, 2, 3, 6, 9, 0xf) if not ctx.thorough() else range(16))]
    for b1 in firsts:
        for lp in p35:
            ops.append(("%02x" % b1) + lp)
            if ctx.thorough():
                ops.append(("%02x" % b1) + lp + "00")
    grammar_n = len(ops)
    # truncations and single-byte mutations of valid frames
    for f in frames:
        n = len(f) // 2
        for k in range(n):
            ops.append(f[:2 * k] or "-")
        raw = bytearray.fromhex(f)
        for k in range(n):
            for m in (raw[k] ^ 0x01, raw[k] ^ 0x80, 0x00, 0xff, (raw[k] + 1) & 0xff):
                if m != raw[k]:
                    r2 = bytearray(raw); r2[k] = m
                    ops.append(r2.hex())
        ops.append(f + "c000")
    for l in corpus_lines("DEC", ver):
        ops.append(l.split()[4])
    mut_n = len(ops) - grammar_n
    # random strings
    nr = 200000 if ctx.thorough() else 15000
    for _ in range(nr):
        n = rng.below(24)
        b = bytearray(rng.below(256) for _ in range(n))
        if n >= 2 and rng.chance(2, 3):
            b[1] = rng.choice([n - 2, n - 2, n - 1, n - 3 if n > 2 else 0, rng.below(128)]) & 0x7f
        ops.append(b.hex() or "-")
    lines = []
    for j, o in enumerate(ops):
        mx = MAXES[j % len(MAXES)] if j < grammar_n else rng.choice([BIG, BIG, 10240, 128, 127, 1, 0])
        lines.append("DEC %d C %s %s" % (ver, "none" if (ver == 5 and mx == BIG and j % 2) else mx, o))
        lines.append("DEC %d B %d %s" % (ver, mx, o))
    return lines, grammar_n, mut_n


def splits(rawhex, rng, thorough):
    """chunkings of a byte string (given and returned as hex)"""
    raw = bytes.fromhex(rawhex)
    n = len(raw)
    out = [[raw]]
    if n <= (64 if thorough else 40):
        out += [[raw[:i], raw[i:]] for i in range(1, n)]
    else:
        out += [[raw[:i], raw[i:]] for i in sorted({1 + rng.below(n - 1) for _ in range(12)})]
    for _ in range(3):
        cuts = sorted({1 + rng.below(max(1, n - 1)) for _ in range(1 + rng.below(5))}) if n > 1 else []
        ch, last = [], 0
        for c in cuts:
            ch.append(raw[last:c]); last = c
        ch.append(raw[last:])
        out.append([c for c in ch if c])
    out.append([raw[i:i + 1] for i in range(n)])         # byte by byte
    return [[c.hex() for c in s] for s in out if s]


def gen_stream_ops(ctx, frames, rng, ver=4):
    """concatenations of 1-6 frames (valid, sometimes one malformed / truncated at the end) x chunkings"""
    groups = []
    small = [f for f in frames if len(f) <= 60]
    bad = ["f000", "3003000061", "100400044d51", "82020001", "ffffffffff00", "b00100", "9003000103", "e00100", "00", "30ffffffff7f"]
    if ver == 5:      # truncated variable byte integers inside a complete frame, reason-only DISCONNECT, bad property ids
        bad += ["3003000080", "e00180", "e0028000", "400400018080", "3005000001ff00", "20030000ff", "820500010b8080", "30060000030b8061"]
    ng = 8000 if ctx.thorough() else 1000
    for g in range(ng):
        k = 1 + rng.below(6)
        parts = [rng.choice(small) for _ in range(k)]
        r = rng.below(4)
        if r == 0:
            parts.insert(rng.below(len(parts) + 1), rng.choice(bad))
        elif r == 1:
            last = rng.choice(small)
            parts.append(last[: 2 * rng.below(len(last) // 2)])
        raw = "".join(parts)
        if not raw:
            continue
        fl = "CB"[g % 2]
        mx = rng.choice([BIG, BIG, 10240, 128, 40])
        groups.append((fl, mx, raw))
    for l in corpus_lines("STREAM", ver):
        t = l.split()
        groups.append((t[2], BIG if t[3] == "none" else int(t[3]), "".join(c for c in t[4:] if c != "-")))
    lines, gidx = [], []
    for (fl, mx, raw) in groups:
        start = len(lines)
        for sp in splits(raw, rng, ctx.thorough()):
            lines.append("STREAM %d %s %s %s" % (ver, fl, "none" if (ver == 5 and fl == "C" and mx == BIG) else mx, " ".join(sp)))
        gidx.append((start, len(lines)))
    return lines, gidx


def varint(n):
    out = bytearray()
    while True:
        b = n % 128
        n //= 128
        out.append(b | (128 if n else 0))
        if not n:
            return bytes(out)


def gen_limit_stream_ops(ctx, rng):
    """frames whose remaining length is within a few bytes of the configured maximum (m-4 .. m+1, length fields of 1, 2 and 3
    bytes), each followed by a PINGREQ, through the real framing glue of both crates and both protocol versions: fed whole, under
    2-chunk splits (all of them for frames <= 140 bytes; around the header, the middle and the end for the long ones) and byte by
    byte for the small ones.  c05_read_frame_over_max says which are rejected, c05_chunking_independent that the split is irrelevant."""
    lines, gidx = [], []
    for m in (16, 127, 128, 130, 1000, 10240, 16385):
        for rem in range(m - 4 if (m < 16000 or ctx.thorough()) else m - 1, m + 2):
            for ver in (4, 5):
                extra = 1 if ver == 5 else 0                       # v5: property length byte
                pl = rem - 3 - extra
                if pl < 0:
                    continue
                raw = b"\x30" + varint(rem) + b"\x00\x01t" + (b"\x00" if ver == 5 else b"") + bytes((i * 5 + rem) & 0xff for i in range(pl)) + b"\xc0\x00"
                n = len(raw)
                if n <= 140:
                    cuts = list(range(1, n))
                else:
                    cuts = sorted({1, 2, 3, 4, 5, n // 2, n - 1} | {1 + rng.below(n - 1) for _ in range(1 if not ctx.thorough() else 6)})
                sp = [[raw]] + [[raw[:c], raw[c:]] for c in cuts]
                if n <= 140:
                    sp.append([raw[i:i + 1] for i in range(n)])
                else:
                    sp.append([raw[:2], raw[2:3], raw[3:n - 1], raw[n - 1:]])
                for fl in "CB":
                    start = len(lines)
                    for chunks in sp:
                        lines.append("STREAM %d %s %d %s" % (ver, fl, m, " ".join(c.hex() for c in chunks if c)))
                    gidx.append((start, len(lines)))
    return lines, gidx


def run_c05(ctx, mexe, iexe, p_ok):
    rng = lib.Rng(ctx.seed)
    ctx.cov["rule"] = (
        "(a) DEC through the v4 entry points of both crates (rumqttc Packet::read, rumqttd V4::read_mut; every input through both): every first byte x "
        "remaining-length prefixes of 1-2 bytes over {00,01,7f,80,ff} x bodies of <= 2 bytes over {00,01,02,04,7f,80,ff}; 16 types x 6 flag nibbles "
        "(thorough: 16) x prefixes of 3-5 bytes; all truncations and 5 single-byte mutations per position of the model's encodings of the small C04 "
        "packets; random strings (length byte often made consistent); thorough tier: additionally ALL byte strings of length <= 3; max cycling over "
        "{0,1,127,128,10240}. Monitor per answer, with the frame length recomputed from the header by the check itself: "
        "no PANIC; PKT consumes exactly the declared frame, MAL consumes 0 or the frame; remaining > max => MAL PayloadSizeLimitExceeded consuming 0 even "
        "without body; MORE k only if header incomplete or buffer < frame, 1 <= k <= missing. (b) STREAM: concatenations of 1-6 frames (+ one malformed or "
        "truncated frame in half of them) fed through the real Framed<duplex,Codec> (rumqttc::verif::Network::read) and rumqttd Network::read/readv over "
        "tokio duplex, unsplit, every 2-chunk split (<= 40 bytes, else 12 random), 3 random k-chunk splits, byte by byte; monitor: all chunkings of one stream "
        "give the same packet sequence and terminal, no PANIC; additionally frames with remaining length m-4..m+1 for max sizes m in {16,127,128,130,1000,10240,16385} "
        "(1-, 2- and 3-byte length fields), each followed by a PINGREQ, both crates and both versions, whole / every 2-chunk split (<= 140 bytes; header, middle, end cuts "
        "for the long ones) / byte by byte. (c) UTF8: the model's validator vs String::from_utf8 on lead/continuation boundary bytes. "
        "Every answer is also compared with the extracted Coq model. distinct_nontrivial = distinct DEC "
        "inputs that are not plain valid frames (malformed / truncated / over-max / trailing bytes) + distinct chunkings whose first cut falls inside a frame.")
    frames = small_valid_frames(ctx, mexe, rng)
    dlines, grammar_n, mut_n = gen_dec_ops(ctx, frames, rng)
    frames5 = small_valid_frames(ctx, mexe, rng, 5)
    dlines5, grammar_n5, mut_n5 = gen_dec_ops(ctx, frames5, rng, 5)
    # UTF-8 validator vs String::from_utf8 (used by the model for every String field)
    ulines = []
    for a in list(range(0x00, 0x100, 1)):
        ulines.append("UTF8 %02x" % a)
        for b in (0x7f, 0x80, 0x8f, 0x90, 0x9f, 0xa0, 0xbf, 0xc0):
            ulines.append("UTF8 %02x%02x" % (a, b))
            if a >= 0xe0:
                for c in (0x7f, 0x80, 0xbf, 0xc0):
                    ulines.append("UTF8 %02x%02x%02x" % (a, b, c))
                    if a >= 0xf0:
                        ulines.append("UTF8 %02x%02x%02x80" % (a, b, c)); ulines.append("UTF8 %02x%02x%02xc0" % (a, b, c))
    slines, gidx = gen_stream_ops(ctx, frames, rng)
    slines5, gidx5 = gen_stream_ops(ctx, frames5, rng, 5)
    gidx += [(a_ + len(slines), b_ + len(slines)) for (a_, b_) in gidx5]
    slines += slines5
    llines, lgidx = gen_limit_stream_ops(ctx, rng)
    gidx += [(a_ + len(slines), b_ + len(slines)) for (a_, b_) in lgidx]
    slines += llines
    fails, diffs = [], []
    hist, nontriv = {}, set()
    counters = {"ops": 0, "nontriv_extra": 0}
    samples = []

    def process(lines, tag, exhaustive_distinct=False):
        """run one batch of DEC/UTF8 ops on both sides, evaluate monitor + correspondence"""
        impl, model = both(ctx, mexe, iexe, lines, tag)
        if impl is None:
            return False
        for op, a, m in zip(lines, impl, model):
            if a != m:
                diffs.append(([op], "impl[%s] model[%s]" % (short(a), short(m))))
            if op.startswith("DEC"):
                msg = dec_monitor(op, a)
                if msg:
                    fails.append(([op], msg))
                k = " ".join(a.split()[:2]) if not a.startswith("PKT") else "PKT " + a.split()[1]
                hist[k] = hist.get(k, 0) + 1
                if not a.startswith("PKT") or int(a.split()[-1]) * 2 != len(op.split()[4]):
                    if exhaustive_distinct:
                        counters["nontriv_extra"] += 1
                    else:
                        nontriv.add(op.split(None, 2)[2])
        counters["ops"] += len(lines)
        for i in (0, 4001, len(lines) - 1):
            if i < len(lines) and len(samples) < 6:
                samples.append("%s -> impl %s / model %s" % (short(lines[i]), short(impl[i]), short(model[i])))
        return True

    if not process(dlines + ulines, "c05-dec-v4"):
        return
    if not process(dlines5, "c05-dec-v5"):
        return
    all3 = 0
    if ctx.thorough():
        # ALL byte strings of length <= 3 through both decoders, one first byte per batch
        for a in range(256):
            batch = []
            pre = "%02x" % a
            j = a
            for mid in [""] + ["%02x" % b for b in range(256)]:
                tails = [""] if mid == "" else [""] + ["%02x" % c for c in range(256)]
                for tl in tails:
                    j += 1
                    mx = MAXES[j % len(MAXES)]
                    batch.append("DEC 4 C %d %s" % (mx, pre + mid + tl))
                    batch.append("DEC 4 B %d %s" % (mx, pre + mid + tl))
                    batch.append("DEC 5 C %d %s" % (mx, pre + mid + tl))
                    batch.append("DEC 5 B %d %s" % (mx, pre + mid + tl))
            all3 += len(batch)
            if not process(batch, "c05-all3-%02x" % a, exhaustive_distinct=True):
                return
            if len(fails) > 1000 or len(diffs) > 1000:
                break
    simpl, smodel = both(ctx, mexe, iexe, slines, "c05-stream")
    if simpl is None:
        return
    inside = 0
    for (s, e) in gidx:
        ref = simpl[s]
        for j in range(s, e):
            if simpl[j] != smodel[j]:
                diffs.append(([slines[j]], "impl[%s] model[%s]" % (short(simpl[j]), short(smodel[j]))))
            if "PANIC" in simpl[j]:
                fails.append(([slines[j]], "streaming decoder panicked"))
            elif simpl[j] != ref:
                fails.append(([slines[s] + " #= " + ref, slines[j] + " #= " + ref], "chunking changes the result: unsplit gives [%s], this chunking gives [%s]" % (short(ref), short(simpl[j]))))
            t = slines[j].split()
            if len(t) > 5:
                first = bytes.fromhex(t[4])
                h = header(first)
                if h[0] != "ok" or len(first) != 1 + h[1] + h[2]:
                    inside += 1
                    nontriv.add(slines[j])
        k = "STREAM:" + ref.split(" | ")[-1]
        hist[k] = hist.get(k, 0) + 1
    total = counters["ops"] + len(slines)
    ctx.cov["evaluations"] = total
    ctx.cov["traces_validated_against_impl"] = total
    ctx.cov["distinct_nontrivial"] = len(nontriv) + counters["nontriv_extra"]
    ctx.cov["exhaustive"] = True
    ctx.cov["exhaustive_part"] = 2 * grammar_n + 2 * grammar_n5 + all3
    ctx.cov["all_strings_upto_3_bytes_ops"] = all3
    ctx.cov["mutation_ops"] = 2 * mut_n + 2 * mut_n5
    ctx.cov["v5_dec_ops"] = len(dlines5)
    ctx.cov["v5_stream_chunkings"] = len(slines5)
    ctx.cov["near_limit_stream_chunkings"] = len(llines)
    ctx.cov["utf8_ops"] = len(ulines)
    ctx.cov["streams"] = len(gidx)
    ctx.cov["stream_chunkings"] = len(slines)
    ctx.cov["chunkings_cutting_inside_a_frame"] = inside
    ctx.cov["answer_histogram"] = dict(sorted(hist.items(), key=lambda kv: -kv[1])[:60])
    ctx.cov["samples"] = samples + ["%s -> impl %s / model %s" % (short(slines[i]), short(simpl[i]), short(smodel[i])) for i in (1, len(slines) // 2, len(slines) - 1)]
    report(ctx, "C05", fails, diffs, p_ok, total)


# ------------------------------------------------------------------ entry points

def run(ctx):
    p_ok = ctx.proof_side(["Extract/CodecX.vo"])
    ctx.assumptions += [
        "the theorems are about the Gallina model Codec/Wire.v + Codec/V4.v; that rumqttc::mqttbytes::v4 and rumqttd::protocol::v4 behave like it is established by this correspondence run only",
        "the harness mapping between each crate's packet structs and the canonical packet (harness/src/bin/codec.rs: to_client/from_client/to_broker/from_broker, error kind = Debug constructor name) is trusted; rumqttd protocol::Publish dup/qos/pkid are crate-private and are set/read through the public Publish::deserialize/serialize",
        "encoders are modelled for an EMPTY output buffer (Connect::write patches the flags byte at an index counted from the buffer start); both crates only ever call them that way in the harness",
        "tokio_util::codec::Framed and rumqttd Network::read/readv are modelled by the loop `feed` (append chunk, decode until NeedMore/error); that the real loops behave like it is what the STREAM ops check",
        "the canonical v4 packet carries no MQTT 5 properties, so the harness always passes properties = None to rumqttd V4::write (its Some(properties) arms — finding F2, fixed in /repo b976ada — belong to C20)",
        "MQTT 5 reason codes are identified with their wire codes through tables in the harness (harness/src/bin/codec/v5.rs: PUBACK/.../DISCONNECT/CONNACK tables) and the property id -> value kind table is repeated in the harness, the OCaml driver and the generator",
    ]
    ctx.cov["scope"] = ("MQTT 3.1.1 and MQTT 5 codecs of both crates (rumqttc mqttbytes::v4 / v5::mqttbytes::v5, rumqttd protocol::v4 / v5): every "
                        "pinned theorem is proved for all 14 packet types that both crates implement and for both flavours, in both protocol versions, "
                        "with every MQTT 5 property present or absent (generic TLV lemma c04_read_props_write_v5); nothing is correspondence-only. The MQTT 5 theorems "
                        "are about the decoders as repaired by the /repo commits 4a43eae, 3dc6acc, 6436c3f; the behaviour before them is pinned as "
                        "c04_rt_v5_subscription_ids_refuted, c04_rt_v5_disconnect_refuted, c05_read_frame_v5_refuted (model variant `unfixed`).")
    ctx.cov["correspondence_only"] = []
    ctx.cov["not_covered"] = [
        "MQTT 5 AUTH: rumqttd has no AUTH packet; rumqttc::v5 Packet::read has no arm for type 15 (InvalidPacketType — covered as that) and an Auth value cannot be "
        "built through the public API (AuthReasonCode is not nameable outside the crate), so Auth::write/len/size are unreachable dead code and are not modelled "
        "(by reading: AuthProperties::len omits the 2-byte string prefixes, i.e. size() != bytes written, and Auth::read's cursor arithmetic is wrong)",
        "rumqttd Packet::Connect(.., will = None, will_properties = Some(..), ..): not expressible in the canonical packet (will properties live inside the will)",
        "encoders writing into a non-empty buffer",
        "max sizes above 2^28 and payloads above 2 MiB are sampled, not enumerated",
    ]
    mexe, iexe = drivers(ctx)
    if not mexe:
        return
    if ctx.prop == "C04":
        run_c04(ctx, mexe, iexe, p_ok)
    else:
        run_c05(ctx, mexe, iexe, p_ok)


def replay(ctx, path):
    mexe, iexe = drivers(ctx)
    if not mexe:
        return ctx.finish()
    raw = [l for l in open(path).read().splitlines() if l.strip() and not l.startswith("#")]
    ops, expect = [], []
    for l in raw:
        if " #= " in l:
            o, x = l.split(" #= ", 1)
        else:
            o, x = l, None
        ops.append(o.strip()); expect.append(x.strip() if x else None)
    _, impl, _ = run_ops(iexe, ops, "replay-impl")
    _, model, _ = run_ops(mexe, ops, "replay-model")
    rc = 0
    streams = {}
    for o, x, a, m in zip(ops, expect, impl, model):
        verdict = []
        t = a.split()
        if x == "ENC-OK":
            if not (t[0] == "OK" and int(t[2]) == (0 if t[1] == "-" else len(t[1]) // 2) and (t[3] == "-" or t[3] == t[2])):
                verdict.append("VIOLATION (encoder must succeed with ret = size = bytes written)")
        elif x is not None and a != x:
            verdict.append("VIOLATION (property demands: %s)" % short(x, 300))
        if o.startswith("DEC"):
            msg = dec_monitor(o, a)
            if msg:
                verdict.append("VIOLATION (%s)" % msg)
        if o.startswith("STREAM"):
            tt = o.split()
            key = (tt[2], tt[3], "".join(c for c in tt[4:] if c != "-"))
            if "PANIC" in a:
                verdict.append("VIOLATION (panic)")
            if key in streams and streams[key] != a:
                verdict.append("VIOLATION (chunking changes the result: other chunking gave [%s])" % short(streams[key], 300))
            streams.setdefault(key, a)
        if a != m and not o.startswith(("WF", "NORM")):
            verdict.append("differs-from-model")
        if any(v.startswith("VIOLATION") for v in verdict):
            rc = 1
        print("%s\n    impl [%s]\n    model[%s] %s" % (short(o, 300), short(a, 300), short(m, 300), " ".join(verdict) or "ok"))
    if rc:
        print("VIOLATION property=%s replay=%s" % (ctx.prop, path))
    return rc
