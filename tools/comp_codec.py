"""C04 (codec round trip / interop) and C05 (decoders total, bounded, chunking independent) — M-CODEC, MQTT 3.1.1.

Both sides (extracted Coq model `ocaml/codec_driver.ml`, real code `harness/src/bin/codec.rs`) read the same op file:
  ENC 4 <C|B> <max> <packet>    DEC 4 <C|B> <max> <hex>    STREAM 4 <C|B> <max> <chunk>+    UTF8 <hex>
  WF 4 <C|B> <packet> / NORM 4 <packet>   (answered by the model only: Coq wf_v4 / norm)
A replay file is a list of such ops; ` #= <expectation>` after an op is what the property monitor demands of the
IMPLEMENTATION's answer (exact answer, or ENC-OK = encoder succeeds with ret = size = number of bytes).
Env VERIF_CODEC_IMPL=<binary> substitutes another build of the Rust driver (mutation runs)."""
import os, resource, subprocess, time
import lib

PROPS = ["C04", "C05"]
BIG = 268435460            # "no limit" for max sizes in ops
MAXREM = 268435455
CLIENT_SENDS = {"CONNECT", "PUBLISH", "PUBACK", "PUBREC", "PUBREL", "PUBCOMP", "SUBSCRIBE", "UNSUBSCRIBE", "PINGREQ", "DISCONNECT"}
BROKER_SENDS = {"CONNACK", "PUBLISH", "PUBACK", "PUBREC", "PUBREL", "PUBCOMP", "SUBACK", "UNSUBACK", "PINGRESP"}


# ------------------------------------------------------------------ plumbing

def setup():
    ok, out = lib.coq_make(["Props/C04.vo", "Props/C05.vo", "Extract/CodecX.vo"])
    if not ok:
        print(out[-3000:])
        return False
    exe, out = lib.ocaml_driver("codec", "CodecX")
    if not exe:
        print(out[-3000:])
        return False
    exe, out = lib.cargo_driver("codec")
    if not exe:
        print(out[-3000:])
    return exe is not None


def _limits():
    resource.setrlimit(resource.RLIMIT_STACK, (resource.RLIM_INFINITY, resource.RLIM_INFINITY))


def run_ops(exe, lines, tag):
    """Run one driver on a list of op lines (through a file: some lines are several MB)."""
    path = os.path.join(lib.BUILD, "codec", "ops-%s-%d.txt" % (tag, os.getpid()))
    os.makedirs(os.path.dirname(path), exist_ok=True)
    with open(path, "w") as f:
        for l in lines:
            f.write(l)
            f.write("\n")
    with open(path, "rb") as f:
        p = subprocess.run([exe], stdin=f, stdout=subprocess.PIPE, stderr=subprocess.PIPE, timeout=3000, preexec_fn=_limits)
    os.remove(path)
    return p.returncode, p.stdout.decode("utf-8", "replace").splitlines(), p.stderr.decode("utf-8", "replace")


def drivers(ctx):
    mexe, mout = lib.ocaml_driver("codec", "CodecX")
    alt = os.environ.get("VERIF_CODEC_IMPL")
    if alt:
        iexe, iout = (alt, "") if os.path.exists(alt) else (None, "VERIF_CODEC_IMPL does not exist: " + alt)
    else:
        iexe, iout = lib.cargo_driver("codec")
    if not mexe or not iexe:
        ctx.violation("tie-broken", "the codec correspondence harness no longer builds against /repo:\n" + (mout or iout)[-3000:], False,
                      "harness build failed; correspondence codec(impl) = Codec.V4 (model) not checked")
        return None, None
    return mexe, iexe


def both(ctx, mexe, iexe, lines, tag):
    t = time.time()
    rc1, impl, e1 = run_ops(iexe, lines, tag + "-impl")
    t1 = time.time() - t
    rc2, model, e2 = run_ops(mexe, lines, tag + "-model")
    ctx.log("%s: %d ops, impl %.1fs, model %.1fs" % (tag, len(lines), t1, time.time() - t - t1))
    if rc1 != 0 or rc2 != 0 or len(impl) != len(lines) or len(model) != len(lines):
        ctx.violation("driver-failed", "driver exit codes impl=%d model=%d lines %d/%d/%d\n%s\n%s" % (
            rc1, rc2, len(impl), len(model), len(lines), e1[-1500:], e2[-1500:]), False, "a driver did not answer every op (%s)" % tag)
        return None, None
    return impl, model


def short(s, n=160):
    return s if len(s) <= n else s[:n // 2] + "...(%d chars)..." % len(s) + s[-n // 2:]


# ------------------------------------------------------------------ canonical packets (text)

def hx(b):
    return b.hex() if b else "-"


def p_connect(proto=4, ka=10, cid=b"c", clean=1, will=None, login=None):
    w = "none" if will is None else "%s:%s:%d:%d" % (hx(will[0]), hx(will[1]), will[2], will[3])
    l = "none" if login is None else "%s:%s" % (hx(login[0]), hx(login[1]))
    return "CONNECT proto=%d ka=%d id=%s clean=%d will=%s login=%s" % (proto, ka, hx(cid), clean, w, l)


def p_connack(sp, code):
    return "CONNACK sp=%d code=%d" % (sp, code)


def p_publish(dup, qos, retain, topic, pkid, payload):
    return "PUBLISH dup=%d qos=%d retain=%d topic=%s pkid=%d payload=%s" % (dup, qos, retain, hx(topic), pkid, hx(payload))


def p_ack(kind, pkid, reason=0):
    return "%s pkid=%d reason=%d" % (kind, pkid, reason)


def p_subscribe(pkid, filters):
    return "SUBSCRIBE pkid=%d filters=%s" % (pkid, ",".join("%s:%d:%d" % (hx(p), q, o) for (p, q, o) in filters) or "none")


def p_suback(pkid, codes):
    return "SUBACK pkid=%d codes=%s" % (pkid, ",".join(codes) or "none")


def p_unsubscribe(pkid, topics):
    return "UNSUBSCRIBE pkid=%d topics=%s" % (pkid, ",".join(hx(t) for t in topics) or "none")


def p_unsuback(pkid, reasons):
    return "UNSUBACK pkid=%d reasons=%s" % (pkid, ",".join(str(r) for r in reasons) or "none")


def p_disconnect(reason=0):
    return "DISCONNECT reason=%d" % reason


STRS = [b"", b"a", b"a/b", b"+/#", "é".encode(), "a/\U0001F600/é".encode(), b"$SYS/x", b"\x00", b"sensors/+/temp/#"]
BAD_UTF8 = [b"\xff", b"\xc3", b"a\xe0\x80\x80", b"\xed\xa0\x80", b"\xf4\x90\x80\x80", b"\xc0\xaf"]
PKIDS = [1, 2, 255, 256, 65535]
RCS = ["S0", "S1", "S2", "F", "Q0", "Q1", "Q2", "U", "O131", "O135", "O143", "O145", "O151", "O158", "O161", "O162", "O3", "O255"]


def wf_packets(ctx, rng):
    """(packet text, tags) — structured generator; mostly well-formed, plus the edges just outside wf."""
    out = []

    def add(p, *tags):
        out.append((p, set(tags)))

    # --- fixed packets
    add("PINGREQ"); add("PINGRESP"); add(p_disconnect(0))
    for r in (1, 4, 28, 29):
        add(p_disconnect(r), "broker-only-field")
    for sp in (0, 1):
        for code in range(0, 26):
            add(p_connack(sp, code), *(["broker-only-code"] if code > 5 else []))
    for kind in ("PUBACK", "PUBREC", "PUBREL", "PUBCOMP"):
        for pkid in [0] + PKIDS:
            add(p_ack(kind, pkid, 0), "ids")
        for r in (1, 2, 8, 9):
            add(p_ack(kind, 7, r), "broker-only-field")
    for pkid in [0] + PKIDS:
        add(p_unsuback(pkid, []), "ids")
    add(p_unsuback(9, [0, 1, 6]), "broker-only-field"); add(p_unsuback(9, [7]), "broker-only-field")

    # --- publish: all flag combinations x ids x strings
    for dup in (0, 1):
        for qos in (0, 1, 2):
            for retain in (0, 1):
                for pkid in ([0, 1] if qos == 0 else [0] + PKIDS):
                    t = rng.choice(STRS[1:])
                    add(p_publish(dup, qos, retain, t, pkid, rng.choice([b"", b"x", b"\x00\xff", b"payload"])), "flags", "ids")
    for t in STRS:
        add(p_publish(0, 1, 0, t, 3, b"p"), "strings")
    for t in BAD_UTF8:
        add(p_publish(0, 0, 0, t, 0, b"p"), "non-utf8-topic")
    # remaining-length boundaries: remaining = 2 + len(topic) + [2] + len(payload)
    bounds = [126, 127, 128, 129, 16382, 16383, 16384, 16385]
    for rem in bounds:
        for qos in (0, 1):
            pl = rem - 2 - 3 - (2 if qos else 0)
            add(p_publish(0, qos, 0, b"a/b", 5 if qos else 0, bytes((i * 7 + rem) & 0xff for i in range(pl))), "len-boundary")
    big = [2097151, 2097152] if not ctx.thorough() else [2097150, 2097151, 2097152, 2097153]
    for rem in big:
        pl = rem - 2 - 1 - 2
        add(p_publish(0, 1, 1, b"t", 65535, bytes([rem & 0xff]) * pl), "len-boundary", "huge")
    # string-length boundaries (16-bit prefix)
    for n in (127, 128, 65535, 65536):
        add(p_publish(0, 0, 0, b"a" * n, 0, b"z"), "str-boundary")
    add(p_publish(1, 2, 1, ("é" * 32767 + "a").encode(), 77, b""), "str-boundary")

    # --- connect
    wills = [None, (b"w", b"", 0, 0), (b"will/t", b"bye", 1, 1), ("é".encode(), b"\xff\x00", 2, 0), (b"", b"m", 2, 1)]
    logins = [None, (b"u", b""), (b"", b"p"), (b"user", b"pass"), ("ü".encode(), "π".encode()), (b"", b"")]
    for proto in (4, 5, 3):
        for clean in (0, 1):
            for w in wills:
                for l in logins:
                    add(p_connect(proto, rng.choice([0, 1, 10, 65535]), rng.choice([b"", b"c", b"client-23", "cé".encode()]), clean, w, l),
                        "optional", *(["proto5"] if proto != 4 else []))
    for n in (127, 128, 65535, 65536):
        add(p_connect(4, 60, b"i" * n, 1, None, None), "str-boundary")
        add(p_connect(4, 60, b"i", 1, (b"t" * n, b"m", 1, 0), None), "str-boundary", "optional")
        add(p_connect(4, 60, b"i", 1, (b"t", b"m" * n, 1, 0), (b"u" * n, b"p" * n)), "str-boundary", "optional")
    for bad in BAD_UTF8[:3]:
        add(p_connect(4, 60, bad, 1, None, None), "non-utf8")
        add(p_connect(4, 60, b"i", 1, (bad, b"m", 0, 0), None), "non-utf8-topic", "optional")
        add(p_connect(4, 60, b"i", 1, None, (bad, b"p")), "non-utf8")
        add(p_connect(4, 60, b"i", 1, None, (b"u", bad)), "non-utf8")
    for rem in (127, 128, 16383, 16384):        # remaining = 10 + 2 + len(id)
        add(p_connect(4, 1, b"x" * (rem - 12), 0, None, None), "len-boundary")

    # --- subscribe / suback / unsubscribe
    for pkid in [0] + PKIDS:
        add(p_subscribe(pkid, [(b"a/b", 1, 0)]), "ids")
        add(p_suback(pkid, ["S1"]), "ids")
        add(p_unsubscribe(pkid, [b"a/b"]), "ids")
    add(p_subscribe(1, []), "empty-list"); add(p_suback(1, []), "empty-list"); add(p_unsubscribe(1, []), "empty-list")
    for n in (1, 2, 3):
        for _ in range(6):
            fs = [(rng.choice(STRS), rng.below(3), 0) for _ in range(n)]
            add(p_subscribe(rng.choice(PKIDS), fs), "multi")
            add(p_unsubscribe(rng.choice(PKIDS), [f[0] for f in fs]), "multi")
            add(p_suback(rng.choice(PKIDS), [rng.choice(RCS[:4]) for _ in range(n)]), "multi")
    for o in (1, 2, 4, 8, 11, 12):
        add(p_subscribe(3, [(b"a", 1, o)]), "broker-only-field")
    for c in RCS:
        add(p_suback(3, [c]), "codes"); add(p_suback(3, ["S0", c, "F"]), "codes", "multi")
    for bad in BAD_UTF8[:3]:
        add(p_subscribe(3, [(bad, 0, 0)]), "non-utf8"); add(p_unsubscribe(3, [b"ok", bad]), "non-utf8")
    for n in (65535, 65536):
        add(p_subscribe(3, [(b"f" * n, 2, 0)]), "str-boundary"); add(p_unsubscribe(3, [b"f" * n]), "str-boundary")
    for rem in (127, 128, 16383, 16384):
        add(p_suback(4, ["S%d" % (i % 3) for i in range(rem - 2)]), "len-boundary")          # remaining = 2 + n
        add(p_subscribe(4, [(b"ab", 1, 0)] * ((rem - 2) // 5) + [(b"a" * ((rem - 2) % 5 + 2), 0, 0)]), "len-boundary", "multi")
        add(p_unsubscribe(4, [b"ab"] * ((rem - 2) // 4) + [b"a" * ((rem - 2) % 4 + 2)]), "len-boundary", "multi")

    # --- random packets
    nrand = 20000 if ctx.thorough() else 1500

    def rs(maxlen=12):
        if rng.chance(1, 12):
            return bytes(rng.below(256) for _ in range(rng.below(maxlen)))
        return "".join(rng.choice(["a", "b", "/", "+", "#", "é", "\U0001F600", "$", "0"]) for _ in range(rng.below(maxlen))).encode()

    for _ in range(nrand):
        k = rng.below(10)
        if k == 0:
            w = None if rng.chance(1, 2) else (rs(), rs(40), rng.below(3), rng.below(2))
            l = None if rng.chance(1, 2) else (rs(), rs())
            add(p_connect(rng.choice([4, 4, 4, 5]), rng.below(65536), rs(24), rng.below(2), w, l), "random")
        elif k in (1, 2, 3):
            q = rng.below(3)
            add(p_publish(rng.below(2), q, rng.below(2), rs(20), (1 + rng.below(65535)) if q else 0,
                          bytes(rng.below(256) for _ in range(rng.choice([0, 1, 5, 100, 130, 300])))), "random")
        elif k == 4:
            add(p_ack(rng.choice(["PUBACK", "PUBREC", "PUBREL", "PUBCOMP"]), rng.below(65536), 0), "random")
        elif k == 5:
            add(p_subscribe(rng.below(65536), [(rs(), rng.below(3), 0) for _ in range(1 + rng.below(4))]), "random")
        elif k == 6:
            add(p_suback(rng.below(65536), [rng.choice(RCS[:9]) for _ in range(1 + rng.below(5))]), "random")
        elif k == 7:
            add(p_unsubscribe(rng.below(65536), [rs() for _ in range(rng.below(4))]), "random")
        elif k == 8:
            add(p_connack(rng.below(2), rng.below(6)), "random")
        else:
            add(p_unsuback(rng.below(65536), []), "random")
    for l in corpus_lines("ENC"):
        add(" ".join(l.split()[4:]), "corpus")
    return out


def corpus_lines(kind):
    """ops of one kind (ENC / DEC / STREAM, version 4) found in corpus/codec/*"""
    cdir = os.path.join(lib.ROOT, "corpus", "codec")
    out = []
    if os.path.isdir(cdir):
        for fn in sorted(os.listdir(cdir)):
            for l in open(os.path.join(cdir, fn)).read().splitlines():
                l = l.split(" #=")[0].strip()
                if l.startswith(kind + " 4 "):
                    out.append(l)
    return out


# ------------------------------------------------------------------ fixed header, independently of the model

def header(bs):
    """('short', need) | ('badlen',) | ('ok', len_len, remaining)  — MQTT variable byte integer, by the spec."""
    if len(bs) < 2:
        return ("short", 2 - len(bs))
    rem, mult = 0, 1
    for i in range(1, 5):
        if i >= len(bs):
            return ("short", 1)
        rem += (bs[i] & 0x7F) * mult
        mult *= 128
        if bs[i] & 0x80 == 0:
            return ("ok", i, rem)
    return ("badlen",)


def kind_of(pkt):
    return pkt.split()[0]


# ------------------------------------------------------------------ C04

def run_c04(ctx, mexe, iexe, p_ok):
    rng = lib.Rng(ctx.seed)
    pkts = wf_packets(ctx, rng)
    ctx.cov["rule"] = (
        "structured generator of canonical MQTT 3.1.1 packets: all 14 types; PUBLISH dup x qos x retain x ids {0,1,2,255,256,65535}; strings "
        "(empty, ASCII, multi-byte, invalid UTF-8, lengths 127/128/65535/65536); remaining lengths 126..129, 16382..16385, 2097151/2097152 "
        "(PUBLISH, CONNECT, SUBSCRIBE, SUBACK, UNSUBSCRIBE); CONNECT proto x clean x 5 wills x 6 logins; every return/reason code; "
        "1-3 and ~3000 filters/codes; random packets; corpus/codec. Each packet is encoded by BOTH real encoders (rumqttc Packet::write/size, rumqttd "
        "V4::write) and by the extracted Coq model (byte equality), every encoding (+ trailing bytes) is decoded by BOTH real decoders and the model. "
        "Monitor on the real code, for packets that satisfy the Coq predicate wf_v4: encoder succeeds, ret = size() = bytes written, same-crate decode "
        "returns norm(p) consuming exactly the frame, also with max = remaining length, and the peer crate decodes the same bytes to norm(p) when "
        "wf_v4 peer (norm p). distinct_nontrivial = distinct wf packets (per flavour) having an optional part present, a multi-byte string, several "
        "filters/codes, or a remaining length within 1 of a len_len boundary.")
    # ---- pass 1: WF, NORM, ENC
    lines, index = [], []
    for (p, tags) in pkts:
        for fl in "CB":
            index.append((p, fl, tags, len(lines)))
            lines += ["WF 4 %s %s" % (fl, p), "NORM 4 %s" % p, "ENC 4 %s %d %s" % (fl, BIG, p)]
    impl1, model1 = both(ctx, mexe, iexe, lines, "c04-pass1")
    if impl1 is None:
        return
    diffs, fails = [], []          # (ops-with-expectations, message)
    # ---- pass 2: decode what the real encoders produced
    lines2, index2 = [], []
    trailers = ["-", "c0", "00", "ffff30"]
    enc_ok = {}
    for n, (p, fl, tags, at) in enumerate(index):
        wf = model1[at] == "T"
        normp = model1[at + 1]
        ie, me = impl1[at + 2], model1[at + 2]
        if ie != me:
            diffs.append(([lines[at + 2]], "encoder differs from model: impl[%s] model[%s]" % (short(ie), short(me))))
        t = ie.split()
        if wf:
            okk = t[0] == "OK" and int(t[2]) == (0 if t[1] == "-" else len(t[1]) // 2) and (t[3] == "-" or t[3] == t[2])
            if not okk:
                fails.append(([lines[at + 2] + " #= ENC-OK"], "wf packet: %s encoder answered %s (expected OK with ret = size = length)" % (fl, short(ie))))
        if t[0] != "OK":
            continue
        bs = t[1]
        enc_ok[(p, fl)] = bs
        raw = bytes.fromhex(bs) if bs != "-" else b""
        tr = trailers[n % len(trailers)]
        full = (bs if bs != "-" else "") + (tr if tr != "-" else "")
        other = "B" if fl == "C" else "C"
        h = header(raw)
        rem = h[2] if h[0] == "ok" else 0
        at2 = len(lines2)
        # (for the multi-megabyte packets the 4th op repeats the 2nd: the model is slow on them)
        lines2 += ["DEC 4 %s %d %s" % (fl, BIG, full or "-"), "DEC 4 %s %d %s" % (other, BIG, full or "-"), "WF 4 %s %s" % (other, normp),
                   ("DEC 4 %s %d %s" % (fl, rem, bs)) if "huge" not in tags or ctx.thorough() else "WF 4 %s %s" % (other, normp)]
        index2.append((p, fl, other, wf, normp, len(raw), at2, tags))
    impl2, model2 = both(ctx, mexe, iexe, lines2, "c04-pass2")
    if impl2 is None:
        return
    nontrivial, wfcount, interop_checked = set(), 0, 0
    hist = {}
    for (p, fl, other, wf, normp, n, at, tags) in index2:
        for k in (0, 1, 3):
            if lines2[at + k].startswith("DEC") and impl2[at + k] != model2[at + k]:
                diffs.append(([lines2[at + k]], "decoder differs from model: impl[%s] model[%s]" % (short(impl2[at + k]), short(model2[at + k]))))
        k = kind_of(p)
        hist[k + ":" + fl + (":wf" if wf else ":not-wf")] = hist.get(k + ":" + fl + (":wf" if wf else ":not-wf"), 0) + 1
        if not wf:
            continue
        wfcount += 1
        want = "PKT %s %d" % (normp, n)
        enc_line = "ENC 4 %s %d %s" % (fl, BIG, p)
        if impl2[at] != want:
            fails.append(([enc_line, lines2[at] + " #= " + want], "round trip (%s): decode(encode p) = %s, expected %s" % (fl, short(impl2[at]), short(want))))
        if lines2[at + 3].startswith("DEC") and impl2[at + 3] != want:
            fails.append(([enc_line, lines2[at + 3] + " #= " + want], "round trip with max = remaining length (%s): %s, expected %s" % (fl, short(impl2[at + 3]), short(want))))
        peer_wf = model2[at + 2] == "T"
        sends = CLIENT_SENDS if fl == "C" else BROKER_SENDS
        if peer_wf:
            interop_checked += 1
            if impl2[at + 1] != want:
                fails.append(([enc_line, lines2[at + 1] + " #= " + want], "interop %s->%s%s: peer decoded %s, expected %s" % (
                    fl, other, "" if k in sends else " (type not sent in this direction)", short(impl2[at + 1]), short(want))))
        if tags & {"optional", "len-boundary", "str-boundary", "multi", "strings", "flags", "codes", "broker-only-field"} or (
                "random" in tags and k in ("CONNECT", "PUBLISH", "SUBSCRIBE", "SUBACK", "UNSUBSCRIBE") and ("login=none" not in p or "will=none" not in p or k != "CONNECT")):
            nontrivial.add((p, fl))
    ctx.cov["evaluations"] = len(lines) + len(lines2)
    ctx.cov["traces_validated_against_impl"] = len(lines) // 3 + 3 * len(index2)
    ctx.cov["distinct_nontrivial"] = len(nontrivial)
    ctx.cov["packets"] = len(pkts)
    ctx.cov["wf_packet_flavour_pairs"] = wfcount
    ctx.cov["interop_pairs_checked"] = interop_checked
    ctx.cov["kind_histogram"] = hist
    ctx.cov["correspondence_only"] = []
    samp = []
    for i in (0, 40, 200, 420, len(index2) - 1):
        if i < len(index2):
            (p, fl, other, wf, normp, n, at, tags) = index2[i]
            samp.append("%s %s wf=%s -> enc %s ; same-crate %s ; peer %s" % (fl, short(p, 100), wf, short(enc_ok.get((p, fl), "?"), 60), short(impl2[at], 100), short(impl2[at + 1], 100)))
    ctx.cov["samples"] = samp
    report(ctx, "C04", fails, diffs, p_ok, len(lines) + len(lines2))


def report(ctx, prop, fails, diffs, p_ok, nops):
    hdr = "# %s replay: one op per line; '#= X' is what the property demands of the implementation's answer. run: ./check %s --replay <this file>\n" % (prop, prop)
    if fails:
        fails.sort(key=lambda f: sum(len(l) for l in f[0]))
        ops, msg = fails[0]
        ctx.violation("input", hdr + "# %s (%d failing cases in this run)\n" % (msg, len(fails)) + "\n".join(ops) + "\n", True,
                      "%s (%d failing cases)" % (msg, len(fails)))
    elif diffs:
        diffs.sort(key=lambda f: sum(len(l) for l in f[0]))
        ops, msg = diffs[0]
        ctx.violation("correspondence", hdr + "# model/implementation correspondence broken, no property failure found: %s (%d differing ops)\n" % (msg, len(diffs))
                      + "\n".join(ops) + "\n", False, "correspondence codec(impl) = Codec.V4 broken: %s (%d differing ops)" % (msg, len(diffs)))
    elif not p_ok:
        ctx.violation("proof", "Proof obligations of Props/%s.v no longer check:\n%s\nNo input was found on which the implementation violates the property (%d ops)." % (
            prop, getattr(ctx, "proof_error", ""), nops), False, "theorems of Props/%s.v do not check" % prop)
    ctx.log("ops=%d monitor-failures=%d model-differences=%d" % (nops, len(fails), len(diffs)))


# ------------------------------------------------------------------ C05

MAXES = [0, 1, 127, 128, 10240]


def dec_monitor(op, ans):
    """Property C05 on one DEC answer of the implementation; returns None or a message."""
    t = op.split()
    mx = int(t[3])
    bs = bytes.fromhex(t[4]) if t[4] != "-" else b""
    h = header(bs)
    a = ans.split()
    if a[0] == "PANIC":
        return "decoder panicked"
    if h[0] == "short":
        if a[0] != "MORE":
            return "header incomplete but decoder answered %s" % short(ans)
        if int(a[1]) < 1:
            return "asked for %s more bytes" % a[1]
        return None
    if h[0] == "badlen":
        return None if (a[0] == "MAL" and a[-1] == "0") else "5-byte remaining length not rejected in place: %s" % short(ans)
    frame = 1 + h[1] + h[2]
    if h[2] > mx:
        return None if a[:2] == ["MAL", "PayloadSizeLimitExceeded"] and a[-1] == "0" else \
            "declared remaining length %d > max %d but decoder answered %s" % (h[2], mx, short(ans))
    if len(bs) < frame:
        if a[0] != "MORE":
            return "frame incomplete (%d of %d bytes) but decoder answered %s" % (len(bs), frame, short(ans))
        k = int(a[1])
        return None if 1 <= k <= frame - len(bs) else "asked for %d more bytes, %d missing" % (k, frame - len(bs))
    if a[0] == "MORE":
        return "complete frame (%d bytes, buffer %d) but decoder asks for more" % (frame, len(bs))
    c = int(a[-1])
    if a[0] == "PKT" and c != frame:
        return "packet consumed %d bytes, declared frame is %d" % (c, frame)
    if a[0] == "MAL" and c not in (0, frame):
        return "error consumed %d bytes, declared frame is %d" % (c, frame)
    return None


def small_valid_frames(ctx, mexe, rng):
    """encodings (by the model) of the small wf packets: seeds for truncation / mutation / streams"""
    seeds = [p for (p, tags) in wf_packets(ctx, lib.Rng(ctx.seed ^ 0x5A5A)) if not (tags & {"huge", "str-boundary", "len-boundary"})]
    lines = ["ENC 4 B %d %s" % (BIG, p) for p in seeds] + ["ENC 4 C %d %s" % (BIG, p) for p in seeds]
    rc, out, err = run_ops(mexe, lines, "c05-seeds")
    frames = set()
    for o in out:
        t = o.split()
        if t and t[0] == "OK" and t[1] != "-" and len(t[1]) <= 400:
            frames.add(t[1])
    return sorted(frames)


def gen_dec_ops(ctx, frames, rng):
    ops = []
    LB = ["00", "01", "7f", "80", "ff"]
    BODY = ["", "00", "01", "02", "04", "7f", "80", "ff"]

    def prefixes(n):
        if n == 0:
            return [""]
        return [a + b for a in prefixes(n - 1) for b in LB]
    p12 = prefixes(1) + prefixes(2)
    p35 = prefixes(3) + prefixes(4) + prefixes(5)
    i = 0
    # every first byte x length prefixes of 1-2 bytes x bodies of <= 2 bytes
    bodies = BODY + [a + b for a in BODY[1:] for b in BODY[1:]]
    for b1 in range(256):
        for lp in p12:
            for body in bodies:
                i += 1
                ops.append(("%02x" % b1) + lp + body)
    # every packet type (natural flags + all-ones flags) x length prefixes of 3-5 bytes
    firsts = [(t << 4) | f for t in range(16) for f in ((0, 2, 3, 6, 9, 0xf) if not ctx.thorough() else range(16))]
    for b1 in firsts:
        for lp in p35:
            ops.append(("%02x" % b1) + lp)
            if ctx.thorough():
                ops.append(("%02x" % b1) + lp + "00")
    grammar_n = len(ops)
    # truncations and single-byte mutations of valid frames
    for f in frames:
        n = len(f) // 2
        for k in range(n):
            ops.append(f[:2 * k] or "-")
        raw = bytearray.fromhex(f)
        for k in range(n):
            for m in (raw[k] ^ 0x01, raw[k] ^ 0x80, 0x00, 0xff, (raw[k] + 1) & 0xff):
                if m != raw[k]:
                    r2 = bytearray(raw); r2[k] = m
                    ops.append(r2.hex())
        ops.append(f + "c000")
    for l in corpus_lines("DEC"):
        ops.append(l.split()[4])
    mut_n = len(ops) - grammar_n
    # random strings
    nr = 200000 if ctx.thorough() else 15000
    for _ in range(nr):
        n = rng.below(24)
        b = bytearray(rng.below(256) for _ in range(n))
        if n >= 2 and rng.chance(2, 3):
            b[1] = rng.choice([n - 2, n - 2, n - 1, n - 3 if n > 2 else 0, rng.below(128)]) & 0x7f
        ops.append(b.hex() or "-")
    lines = []
    for j, o in enumerate(ops):
        mx = MAXES[j % len(MAXES)] if j < grammar_n else rng.choice([BIG, BIG, 10240, 128, 127, 1, 0])
        lines.append("DEC 4 C %d %s" % (mx, o))
        lines.append("DEC 4 B %d %s" % (mx, o))
    return lines, grammar_n, mut_n


def splits(rawhex, rng, thorough):
    """chunkings of a byte string (given and returned as hex)"""
    raw = bytes.fromhex(rawhex)
    n = len(raw)
    out = [[raw]]
    if n <= (64 if thorough else 40):
        out += [[raw[:i], raw[i:]] for i in range(1, n)]
    else:
        out += [[raw[:i], raw[i:]] for i in sorted({1 + rng.below(n - 1) for _ in range(12)})]
    for _ in range(3):
        cuts = sorted({1 + rng.below(max(1, n - 1)) for _ in range(1 + rng.below(5))}) if n > 1 else []
        ch, last = [], 0
        for c in cuts:
            ch.append(raw[last:c]); last = c
        ch.append(raw[last:])
        out.append([c for c in ch if c])
    out.append([raw[i:i + 1] for i in range(n)])         # byte by byte
    return [[c.hex() for c in s] for s in out if s]


def gen_stream_ops(ctx, frames, rng):
    """concatenations of 1-6 frames (valid, sometimes one malformed / truncated at the end) x chunkings"""
    groups = []
    small = [f for f in frames if len(f) <= 60]
    bad = ["f000", "3003000061", "100400044d51", "82020001", "ffffffffff00", "b00100", "9003000103", "e00100", "00", "30ffffffff7f"]
    ng = 8000 if ctx.thorough() else 1000
    for g in range(ng):
        k = 1 + rng.below(6)
        parts = [rng.choice(small) for _ in range(k)]
        r = rng.below(4)
        if r == 0:
            parts.insert(rng.below(len(parts) + 1), rng.choice(bad))
        elif r == 1:
            last = rng.choice(small)
            parts.append(last[: 2 * rng.below(len(last) // 2)])
        raw = "".join(parts)
        if not raw:
            continue
        fl = "CB"[g % 2]
        mx = rng.choice([BIG, BIG, 10240, 128, 40])
        groups.append((fl, mx, raw))
    for l in corpus_lines("STREAM"):
        t = l.split()
        groups.append((t[2], int(t[3]), "".join(c for c in t[4:] if c != "-")))
    lines, gidx = [], []
    for (fl, mx, raw) in groups:
        start = len(lines)
        for sp in splits(raw, rng, ctx.thorough()):
            lines.append("STREAM 4 %s %d %s" % (fl, mx, " ".join(sp)))
        gidx.append((start, len(lines)))
    return lines, gidx


def run_c05(ctx, mexe, iexe, p_ok):
    rng = lib.Rng(ctx.seed)
    ctx.cov["rule"] = (
        "(a) DEC through the v4 entry points of both crates (rumqttc Packet::read, rumqttd V4::read_mut; every input through both): every first byte x "
        "remaining-length prefixes of 1-2 bytes over {00,01,7f,80,ff} x bodies of <= 2 bytes over {00,01,02,04,7f,80,ff}; 16 types x 6 flag nibbles "
        "(thorough: 16) x prefixes of 3-5 bytes; all truncations and 5 single-byte mutations per position of the model's encodings of the small C04 "
        "packets; random strings (length byte often made consistent); thorough tier: additionally ALL byte strings of length <= 3; max cycling over "
        "{0,1,127,128,10240}. Monitor per answer, with the frame length recomputed from the header by the check itself: "
        "no PANIC; PKT consumes exactly the declared frame, MAL consumes 0 or the frame; remaining > max => MAL PayloadSizeLimitExceeded consuming 0 even "
        "without body; MORE k only if header incomplete or buffer < frame, 1 <= k <= missing. (b) STREAM: concatenations of 1-6 frames (+ one malformed or "
        "truncated frame in half of them) fed through the real Framed<duplex,Codec> (rumqttc::verif::Network::read) and rumqttd Network::read/readv over "
        "tokio duplex, unsplit, every 2-chunk split (<= 40 bytes, else 12 random), 3 random k-chunk splits, byte by byte; monitor: all chunkings of one stream "
        "give the same packet sequence and terminal, no PANIC. (c) UTF8: the model's validator vs String::from_utf8 on lead/continuation boundary bytes. "
        "Every answer is also compared with the extracted Coq model. distinct_nontrivial = distinct DEC "
        "inputs that are not plain valid frames (malformed / truncated / over-max / trailing bytes) + distinct chunkings whose first cut falls inside a frame.")
    frames = small_valid_frames(ctx, mexe, rng)
    dlines, grammar_n, mut_n = gen_dec_ops(ctx, frames, rng)
    # UTF-8 validator vs String::from_utf8 (used by the model for every String field)
    ulines = []
    for a in list(range(0x00, 0x100, 1)):
        ulines.append("UTF8 %02x" % a)
        for b in (0x7f, 0x80, 0x8f, 0x90, 0x9f, 0xa0, 0xbf, 0xc0):
            ulines.append("UTF8 %02x%02x" % (a, b))
            if a >= 0xe0:
                for c in (0x7f, 0x80, 0xbf, 0xc0):
                    ulines.append("UTF8 %02x%02x%02x" % (a, b, c))
                    if a >= 0xf0:
                        ulines.append("UTF8 %02x%02x%02x80" % (a, b, c)); ulines.append("UTF8 %02x%02x%02xc0" % (a, b, c))
    slines, gidx = gen_stream_ops(ctx, frames, rng)
    fails, diffs = [], []
    hist, nontriv = {}, set()
    counters = {"ops": 0, "nontriv_extra": 0}
    samples = []

    def process(lines, tag, exhaustive_distinct=False):
        """run one batch of DEC/UTF8 ops on both sides, evaluate monitor + correspondence"""
        impl, model = both(ctx, mexe, iexe, lines, tag)
        if impl is None:
            return False
        for op, a, m in zip(lines, impl, model):
            if a != m:
                diffs.append(([op], "impl[%s] model[%s]" % (short(a), short(m))))
            if op.startswith("DEC"):
                msg = dec_monitor(op, a)
                if msg:
                    fails.append(([op], msg))
                k = " ".join(a.split()[:2]) if not a.startswith("PKT") else "PKT " + a.split()[1]
                hist[k] = hist.get(k, 0) + 1
                if not a.startswith("PKT") or int(a.split()[-1]) * 2 != len(op.split()[4]):
                    if exhaustive_distinct:
                        counters["nontriv_extra"] += 1
                    else:
                        nontriv.add(op.split(None, 2)[2])
        counters["ops"] += len(lines)
        for i in (0, 4001, len(lines) - 1):
            if i < len(lines) and len(samples) < 6:
                samples.append("%s -> impl %s / model %s" % (short(lines[i]), short(impl[i]), short(model[i])))
        return True

    if not process(dlines + ulines, "c05-dec"):
        return
    all3 = 0
    if ctx.thorough():
        # ALL byte strings of length <= 3 through both decoders, one first byte per batch
        for a in range(256):
            batch = []
            pre = "%02x" % a
            j = a
            for mid in [""] + ["%02x" % b for b in range(256)]:
                tails = [""] if mid == "" else [""] + ["%02x" % c for c in range(256)]
                for tl in tails:
                    j += 1
                    mx = MAXES[j % len(MAXES)]
                    batch.append("DEC 4 C %d %s" % (mx, pre + mid + tl))
                    batch.append("DEC 4 B %d %s" % (mx, pre + mid + tl))
            all3 += len(batch)
            if not process(batch, "c05-all3-%02x" % a, exhaustive_distinct=True):
                return
            if len(fails) > 1000 or len(diffs) > 1000:
                break
    simpl, smodel = both(ctx, mexe, iexe, slines, "c05-stream")
    if simpl is None:
        return
    inside = 0
    for (s, e) in gidx:
        ref = simpl[s]
        for j in range(s, e):
            if simpl[j] != smodel[j]:
                diffs.append(([slines[j]], "impl[%s] model[%s]" % (short(simpl[j]), short(smodel[j]))))
            if "PANIC" in simpl[j]:
                fails.append(([slines[j]], "streaming decoder panicked"))
            elif simpl[j] != ref:
                fails.append(([slines[s] + " #= " + ref, slines[j] + " #= " + ref], "chunking changes the result: unsplit gives [%s], this chunking gives [%s]" % (short(ref), short(simpl[j]))))
            t = slines[j].split()
            if len(t) > 5:
                first = bytes.fromhex(t[4])
                h = header(first)
                if h[0] != "ok" or len(first) != 1 + h[1] + h[2]:
                    inside += 1
                    nontriv.add(slines[j])
        k = "STREAM:" + ref.split(" | ")[-1]
        hist[k] = hist.get(k, 0) + 1
    total = counters["ops"] + len(slines)
    ctx.cov["evaluations"] = total
    ctx.cov["traces_validated_against_impl"] = total
    ctx.cov["distinct_nontrivial"] = len(nontriv) + counters["nontriv_extra"]
    ctx.cov["exhaustive"] = True
    ctx.cov["exhaustive_part"] = 2 * grammar_n + all3
    ctx.cov["all_strings_upto_3_bytes_ops"] = all3
    ctx.cov["mutation_ops"] = 2 * mut_n
    ctx.cov["utf8_ops"] = len(ulines)
    ctx.cov["streams"] = len(gidx)
    ctx.cov["stream_chunkings"] = len(slines)
    ctx.cov["chunkings_cutting_inside_a_frame"] = inside
    ctx.cov["answer_histogram"] = dict(sorted(hist.items(), key=lambda kv: -kv[1])[:60])
    ctx.cov["correspondence_only"] = []
    ctx.cov["samples"] = samples + ["%s -> impl %s / model %s" % (short(slines[i]), short(simpl[i]), short(smodel[i])) for i in (1, len(slines) // 2, len(slines) - 1)]
    report(ctx, "C05", fails, diffs, p_ok, total)


# ------------------------------------------------------------------ entry points

def run(ctx):
    p_ok = ctx.proof_side(["Extract/CodecX.vo"])
    ctx.assumptions += [
        "the theorems are about the Gallina model Codec/Wire.v + Codec/V4.v; that rumqttc::mqttbytes::v4 and rumqttd::protocol::v4 behave like it is established by this correspondence run only",
        "the harness mapping between each crate's packet structs and the canonical packet (harness/src/bin/codec.rs: to_client/from_client/to_broker/from_broker, error kind = Debug constructor name) is trusted; rumqttd protocol::Publish dup/qos/pkid are crate-private and are set/read through the public Publish::deserialize/serialize",
        "encoders are modelled for an EMPTY output buffer (Connect::write patches the flags byte at an index counted from the buffer start); both crates only ever call them that way in the harness",
        "tokio_util::codec::Framed and rumqttd Network::read/readv are modelled by the loop `feed` (append chunk, decode until NeedMore/error); that the real loops behave like it is what the STREAM ops check",
        "MQTT 5 codecs are outside this component (v4 only); the canonical v4 packet carries no MQTT 5 properties, so the harness always passes properties = None to rumqttd V4::write (its Some(properties) arms — finding F2, fixed in /repo b976ada — belong to C20)",
    ]
    ctx.cov["scope"] = ("MQTT 3.1.1 (v4) codecs of both crates: every pinned theorem is proved for all 14 packet types and both flavours "
                        "(nothing is correspondence-only). The MQTT 5 half of the property (rumqttc::v5::mqttbytes, rumqttd::protocol::v5) is NOT covered by this "
                        "component yet: no model, no theorem, no correspondence run.")
    ctx.cov["not_covered"] = ["MQTT 5 encoders/decoders (all four v5 entry points)", "encoders writing into a non-empty buffer",
                              "max sizes above 2^28 and payloads above 2 MiB are sampled, not enumerated"]
    mexe, iexe = drivers(ctx)
    if not mexe:
        return
    if ctx.prop == "C04":
        run_c04(ctx, mexe, iexe, p_ok)
    else:
        run_c05(ctx, mexe, iexe, p_ok)


def replay(ctx, path):
    mexe, iexe = drivers(ctx)
    if not mexe:
        return ctx.finish()
    raw = [l for l in open(path).read().splitlines() if l.strip() and not l.startswith("#")]
    ops, expect = [], []
    for l in raw:
        if " #= " in l:
            o, x = l.split(" #= ", 1)
        else:
            o, x = l, None
        ops.append(o.strip()); expect.append(x.strip() if x else None)
    _, impl, _ = run_ops(iexe, ops, "replay-impl")
    _, model, _ = run_ops(mexe, ops, "replay-model")
    rc = 0
    streams = {}
    for o, x, a, m in zip(ops, expect, impl, model):
        verdict = []
        t = a.split()
        if x == "ENC-OK":
            if not (t[0] == "OK" and int(t[2]) == (0 if t[1] == "-" else len(t[1]) // 2) and (t[3] == "-" or t[3] == t[2])):
                verdict.append("VIOLATION (encoder must succeed with ret = size = bytes written)")
        elif x is not None and a != x:
            verdict.append("VIOLATION (property demands: %s)" % short(x, 300))
        if o.startswith("DEC"):
            msg = dec_monitor(o, a)
            if msg:
                verdict.append("VIOLATION (%s)" % msg)
        if o.startswith("STREAM"):
            tt = o.split()
            key = (tt[2], tt[3], "".join(c for c in tt[4:] if c != "-"))
            if "PANIC" in a:
                verdict.append("VIOLATION (panic)")
            if key in streams and streams[key] != a:
                verdict.append("VIOLATION (chunking changes the result: other chunking gave [%s])" % short(streams[key], 300))
            streams.setdefault(key, a)
        if a != m and not o.startswith(("WF", "NORM")):
            verdict.append("differs-from-model")
        if any(v.startswith("VIOLATION") for v in verdict):
            rc = 1
        print("%s\n    impl [%s]\n    model[%s] %s" % (short(o, 300), short(a, 300), short(m, 300), " ".join(verdict) or "ok"))
    if rc:
        print("VIOLATION property=%s replay=%s" % (ctx.prop, path))
    return rc
