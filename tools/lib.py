"""Shared machinery of ./check: builds (Coq / OCaml / Rust), audit of the proof side,
diffing, known findings, evidence and the VIOLATION / KNOWN-FINDING output contract."""
import fcntl, glob, hashlib, json, os, re, subprocess, sys, time

ROOT = os.path.dirname(os.path.dirname(os.path.abspath(__file__)))
REPO = os.environ.get("VERIF_REPO", "/repo")   # VERIF_REPO: run the checks against a scratch worktree (seeded-change testing)
BUILD = os.path.join(ROOT, "build")
COQ = os.path.join(ROOT, "coq")
GUARD = "rumqtt_verif"
RUSTFLAGS = "--cfg %s --check-cfg cfg(%s) -Awarnings" % (GUARD, GUARD)

ALLOWED_AXIOMS = {
    # standard-library axioms that may appear (none expected; named here if ever used)
    "functional_extensionality_dep": "Coq.Logic.FunctionalExtensionality",
}

FORBIDDEN = re.compile(
    r"\b(Admitted|admit|Axiom|Axioms|Parameter|Parameters|Conjecture|Conjectures|Abort All|"
    r"Unset Guard Checking|Unset Positivity Checking|Unset Universe Checking|bypass_check|"
    r"Admit Obligations|give_up|native_compute)\b|-type-in-type|-impredicative-set"
)

TRUSTED_BASE_COMMON = [
    "Coq 8.16.1 kernel (coqc; coqchk in the thorough tier); vm_compute used inside proofs, native_compute not used",
    "no axioms declared by the development; Print Assumptions of every pinned theorem is checked against an allow-list on every run",
    "extraction: ExtrOcamlBasic only (Extract Inductive bool/option/list/prod/unit/sumbool as that library defines; no Extract Constant; N/positive/nat stay inductive); OCaml 4.13.1",
    "correspondence harness: Rust drivers under /verif/harness (path deps on /repo, built from the current tree with --cfg rumqtt_verif), OCaml drivers under /verif/ocaml, generators and canonicalisation in /verif/tools",
    "tools/gen_params.py regexes that regenerate coq/Gen/Params.v from /repo sources",
    "tools/gen_tables.py translator that regenerates coq/Gen/Tables.v (MQTT 5 property-id and reason-code tables of both crates) from /repo sources",
]


def sh(cmd, timeout=3600, cwd=None, env=None, stdin=None):
    e = dict(os.environ)
    e["CARGO_NET_OFFLINE"] = "true"
    if env:
        e.update(env)
    try:
        p = subprocess.run(cmd, shell=isinstance(cmd, str), cwd=cwd, env=e, timeout=timeout,
                           stdout=subprocess.PIPE, stderr=subprocess.STDOUT, stdin=stdin)
        return p.returncode, p.stdout.decode("utf-8", "replace")
    except subprocess.TimeoutExpired as x:
        return 124, (x.stdout or b"").decode("utf-8", "replace") + "\nTIMEOUT"


class BuildLock:
    def __enter__(self):
        os.makedirs(BUILD, exist_ok=True)
        self.f = open(os.path.join(BUILD, ".lock"), "w")
        fcntl.flock(self.f, fcntl.LOCK_EX)
        return self

    def __exit__(self, *a):
        fcntl.flock(self.f, fcntl.LOCK_UN)
        self.f.close()


class Rng:
    """splitmix64, the single PRNG of the Python-side generators (same as harness Rng)."""
    M = (1 << 64) - 1

    def __init__(self, seed):
        self.s = seed & self.M

    def next(self):
        self.s = (self.s + 0x9E3779B97F4A7C15) & self.M
        z = self.s
        z = ((z ^ (z >> 30)) * 0xBF58476D1CE4E5B9) & self.M
        z = ((z ^ (z >> 27)) * 0x94D049BB133111EB) & self.M
        return z ^ (z >> 31)

    def below(self, n):
        return self.next() % n

    def choice(self, xs):
        return xs[self.below(len(xs))]

    def chance(self, num, den):
        return self.below(den) < num


# ------------------------------------------------------------------ Coq side (P)

def coq_sources():
    fs = []
    for d, _, names in os.walk(COQ):
        for n in names:
            if n.endswith(".v") and not n.startswith("."):
                fs.append(os.path.relpath(os.path.join(d, n), COQ))
    return sorted(fs)


def coq_makefile():
    srcs = coq_sources()
    stamp = os.path.join(COQ, ".srcs")
    cur = "\n".join(srcs)
    if not os.path.exists(os.path.join(COQ, "Makefile")) or not os.path.exists(stamp) or open(stamp).read() != cur:
        rc, out = sh(["coq_makefile", "-f", "_CoqProject"] + srcs + ["-o", "Makefile"], cwd=COQ)
        if rc != 0:
            return False, out
        open(stamp, "w").write(cur)
    return True, ""


def coq_make(targets, timeout=3000):
    """Full .vo build (no -vos) of the given targets and everything they depend on."""
    import gen_params, gen_tables
    with BuildLock():
        ok, msg = gen_params.generate()
        if not ok:
            return False, "gen_params: " + msg
        ok, msg = gen_tables.generate()
        if not ok:
            return False, "gen_tables: " + msg
        ok, out = coq_makefile()
        if not ok:
            return False, out
        rc, out = sh(["make", "-j16"] + targets, cwd=COQ, timeout=timeout)
        return rc == 0, out


def prop_theorems(prop):
    """Names and statements pinned in coq/Props/<prop>.v; also checks the file's shape."""
    path = os.path.join(COQ, "Props", prop + ".v")
    src = open(path).read()
    body = re.sub(r"\(\*.*?\*\)", "", src, flags=re.S)
    thms = re.findall(r"Theorem\s+(\w+)\s*:(.*?)\.\s*Proof\.\s*exact\s+([\w.@ ()]+?)\.\s*Qed\.", body, flags=re.S)
    rest = re.sub(r"Theorem\s+\w+\s*:.*?\.\s*Proof\.\s*exact\s+[\w.@ ()]+?\.\s*Qed\.", "", body, flags=re.S)
    rest = re.sub(r"From\s+[\w.]+\s+Require\s+(Import\s+|Export\s+)?[\w. ]+\.(?=\s)", "", rest)
    rest = re.sub(r"Require\s+(Import|Export)\s+[\w. ]+\.", "", rest)
    rest = re.sub(r"(Local\s+)?Open\s+Scope\s+\w+\.", "", rest)
    rest = re.sub(r"Import\s+[\w. ]+\.", "", rest)
    shape_ok = rest.strip() == ""
    return [(n, " ".join(s.split()), l) for (n, s, l) in thms], shape_ok, rest.strip()


def audit(prop, thorough=False):
    """Forbidden-token grep over the whole development, shape of Props/<prop>.v,
    Print Assumptions of every pinned theorem against the allow-list."""
    res = {"ok": True, "problems": [], "axioms": {}, "theorems": []}
    for f in coq_sources():
        txt = open(os.path.join(COQ, f)).read()
        code = re.sub(r"\(\*.*?\*\)", "", txt, flags=re.S)
        m = FORBIDDEN.search(code)
        if m:
            res["ok"] = False
            res["problems"].append("forbidden token %r in %s" % (m.group(0), f))
    rc, out = sh("grep -n -- '-type-in-type\\|-impredicative-set\\|-vos\\|-vok' _CoqProject", cwd=COQ)
    if rc == 0:
        res["ok"] = False
        res["problems"].append("forbidden flag in _CoqProject: " + out.strip())
    thms, shape_ok, rest = prop_theorems(prop)
    if not shape_ok:
        res["ok"] = False
        res["problems"].append("Props/%s.v contains something other than pinned theorems: %r" % (prop, rest[:200]))
    if not thms:
        res["ok"] = False
        res["problems"].append("Props/%s.v pins no theorem" % prop)
    res["theorems"] = [n for (n, _, _) in thms]
    res["statements"] = {n: s for (n, s, _) in thms}
    adir = os.path.join(BUILD, "audit")
    os.makedirs(adir, exist_ok=True)
    af = os.path.join(adir, "Audit_%s.v" % prop)
    with open(af, "w") as f:
        f.write("From Rumqtt Require Import Props.%s.\n" % prop)
        for (n, _, _) in thms:
            f.write('Goal True. idtac "@@BEGIN %s". Abort.\nPrint Assumptions %s.\n' % (n, n))
        f.write('Goal True. idtac "@@END". Abort.\n')
    rc, out = sh(["coqc", "-Q", COQ, "Rumqtt", af], cwd=adir, timeout=600)
    if rc != 0:
        res["ok"] = False
        res["problems"].append("audit coqc failed: " + out[-2000:])
        return res
    chunks = re.split(r"@@BEGIN (\w+)", out)
    for i in range(1, len(chunks), 2):
        name, txt = chunks[i], chunks[i + 1].split("@@END")[0]
        if "Closed under the global context" in txt:
            res["axioms"][name] = []
        else:
            ax = re.findall(r"^(\w[\w.']*)\s*:", txt, flags=re.M)
            res["axioms"][name] = ax
            bad = [a for a in ax if a.split(".")[-1] not in ALLOWED_AXIOMS]
            if bad or not ax:
                res["ok"] = False
                res["problems"].append("theorem %s depends on non-allow-listed assumptions: %s" % (name, bad or txt.strip()[:300]))
    for (n, _, _) in thms:
        if n not in res["axioms"]:
            res["ok"] = False
            res["problems"].append("no Print Assumptions output for " + n)
    if thorough:
        with BuildLock():
            rc, out = sh(["coqchk", "-silent", "-o", "-Q", COQ, "Rumqtt", "Rumqtt.Props.%s" % prop], cwd=COQ, timeout=3000)
        res["coqchk"] = out[-1500:]
        if rc != 0:
            res["ok"] = False
            res["problems"].append("coqchk failed: " + out[-1500:])
        else:
            m = re.search(r"Axioms:(.*?)(?:\n\s*\n|\Z)", out, flags=re.S)
            axtxt = (m.group(1) if m else "").strip()
            res["coqchk_axioms"] = axtxt
            if axtxt and "<none>" not in axtxt:
                names = re.findall(r"[\w.]+", axtxt)
                bad = [a for a in names if a.split(".")[-1] not in ALLOWED_AXIOMS]
                if bad:
                    res["ok"] = False
                    res["problems"].append("coqchk reports axioms: " + axtxt)
    return res


# ------------------------------------------------------------------ model / impl drivers

def ocaml_driver(comp, extract_mod):
    """Build build/ocaml/<comp>/driver from the freshly extracted model."""
    ok, out = coq_make(["Extract/%s.vo" % extract_mod])
    if not ok:
        return None, out
    with BuildLock():
        d = os.path.join(BUILD, "ocaml", comp)
        os.makedirs(d, exist_ok=True)
        srcs = {
            "model.ml": os.path.join(COQ, comp + "_model.ml"),
            "model.mli": os.path.join(COQ, comp + "_model.mli"),
            "common.ml": os.path.join(ROOT, "ocaml", "common.ml"),
            "driver.ml": os.path.join(ROOT, "ocaml", comp + "_driver.ml"),
        }
        h = hashlib.sha256()
        for k in sorted(srcs):
            h.update(open(srcs[k], "rb").read())
        stamp = os.path.join(d, ".stamp")
        exe = os.path.join(d, "driver")
        if os.path.exists(exe) and os.path.exists(stamp) and open(stamp).read() == h.hexdigest():
            return exe, ""
        for k, v in srcs.items():
            open(os.path.join(d, k), "wb").write(open(v, "rb").read())
        rc, out = sh("ocamlfind ocamlopt -w -a -package unix -linkpkg model.mli model.ml common.ml driver.ml -o driver", cwd=d, timeout=900)
        if rc != 0:
            return None, out
        open(stamp, "w").write(h.hexdigest())
        return exe, ""


def cargo_driver(binname, release=False):
    """(Re)build one harness binary against /repo's current working tree, hooks on."""
    with BuildLock():
        lock_src = os.path.join(REPO, "Cargo.lock")
        lock_dst = os.path.join(ROOT, "harness", "Cargo.lock")
        if not os.path.exists(lock_dst):
            open(lock_dst, "wb").write(open(lock_src, "rb").read())
        cmd = ["cargo", "build", "--offline", "--bin", binname] + (["--release"] if release else [])
        env = {"RUSTFLAGS": RUSTFLAGS}
        tdir = os.path.join(BUILD, "target")
        if REPO != "/repo":
            # same harness, but the two crates are taken from the scratch worktree
            cmd += ["--config", 'paths=["%s/rumqttd","%s/rumqttc"]' % (REPO, REPO)]
            tdir = os.path.join(BUILD, "target-alt")
            env["CARGO_TARGET_DIR"] = tdir
        rc, out = sh(cmd, cwd=os.path.join(ROOT, "harness"), env=env, timeout=3000)
        if rc != 0:
            return None, out
        return os.path.join(tdir, "release" if release else "debug", binname), ""


def run_on_file(exe, path, args=(), timeout=3000):
    with open(path, "rb") as f:
        p = subprocess.run([exe] + list(args), stdin=f, stdout=subprocess.PIPE, stderr=subprocess.PIPE, timeout=timeout)
    return p.returncode, p.stdout.decode("utf-8", "replace").splitlines(), p.stderr.decode("utf-8", "replace")


def run_on_text(exe, text, args=(), timeout=3000):
    p = subprocess.run([exe] + list(args), input=text.encode(), stdout=subprocess.PIPE, stderr=subprocess.PIPE, timeout=timeout)
    return p.returncode, p.stdout.decode("utf-8", "replace").splitlines(), p.stderr.decode("utf-8", "replace")


# ------------------------------------------------------------------ known findings

def known_findings():
    p = os.path.join(ROOT, "known_findings.json")
    if not os.path.exists(p):
        return []
    return json.load(open(p)).get("findings", [])


# ------------------------------------------------------------------ context / verdict

class Ctx:
    def __init__(self, prop, tier, seed):
        self.prop, self.tier, self.seed = prop, tier, seed
        self.t0 = time.time()
        self.violations = []     # (kind, replay_path, found_input: bool, text)
        self.known = []          # text lines
        self.cov = {"evaluations": 0, "distinct_nontrivial": 0, "rule": "", "samples": [],
                    "traces_validated_against_impl": 0, "obligations": 0, "discharged": 0,
                    "checker_cmd": "", "trusted_base": list(TRUSTED_BASE_COMMON)}
        self.assumptions = []
        self.notes = []
        self.replay_dir = os.path.join(BUILD, "replays")
        os.makedirs(self.replay_dir, exist_ok=True)

    def thorough(self):
        return self.tier == "thorough"

    def log(self, *a):
        print("[%s %6.1fs]" % (self.prop, time.time() - self.t0), *a, flush=True)

    def replay_path(self, tag):
        return os.path.join(self.replay_dir, "%s-%s-%d.txt" % (self.prop, tag, self.seed))

    def violation(self, tag, content, found_input, text):
        """Record a violation; content is written to the replay file."""
        path = self.replay_path(tag)
        with open(path, "w") as f:
            f.write(content if content.endswith("\n") else content + "\n")
        self.violations.append((tag, path, found_input, text))

    def known_finding(self, text):
        if text not in self.known:
            self.known.append(text)

    # ---- P
    def proof_side(self, extra_targets=()):
        """make Props/<prop>.vo + audit.  Returns True iff every pinned theorem checks."""
        targets = ["Props/%s.vo" % self.prop] + list(extra_targets)
        ok, out = coq_make(targets)
        self.cov["checker_cmd"] = "cd coq && make -j16 %s (coqc 8.16.1, full .vo) ; coqc build/audit/Audit_%s.v (Print Assumptions)%s" % (
            " ".join(targets), self.prop, " ; coqchk -silent -o Rumqtt.Props.%s" % self.prop if self.thorough() else "")
        try:
            thms, _, _ = prop_theorems(self.prop)
        except Exception as e:  # noqa
            thms = []
        self.cov["obligations"] = max(1, len(thms))
        if not ok:
            self.cov["discharged"] = 0
            self.proof_error = out[-3000:]
            self.log("PROOF SIDE FAILED:\n" + out[-3000:])
            return False
        a = audit(self.prop, thorough=self.thorough())
        self.cov["theorems"] = a["theorems"]
        self.cov["axioms_per_theorem"] = a["axioms"]
        if "coqchk_axioms" in a:
            self.cov["coqchk_axioms"] = a["coqchk_axioms"]
        if not a["ok"]:
            self.cov["discharged"] = 0
            self.proof_error = "; ".join(a["problems"])
            self.log("AUDIT FAILED: " + self.proof_error)
            return False
        self.cov["discharged"] = len(thms)
        self.log("proof side ok: %d pinned theorems, axioms: %s" % (len(thms), sorted({x for v in a["axioms"].values() for x in v}) or "none"))
        return True

    def finish(self):
        ev = {
            "property_id": self.prop, "tier": self.tier, "seed": self.seed, "level": "proof",
            "coverage": self.cov, "assumptions": self.assumptions,
            "wall_s": round(time.time() - self.t0, 2), "violations": len(self.violations),
            "known_findings_reported": self.known, "notes": self.notes,
        }
        os.makedirs(os.path.join(ROOT, "evidence"), exist_ok=True)
        tmp = os.path.join(ROOT, "evidence", self.prop + ".json.tmp")
        json.dump(ev, open(tmp, "w"), indent=1, sort_keys=True)
        os.replace(tmp, os.path.join(ROOT, "evidence", self.prop + ".json"))
        for k in self.known:
            print("KNOWN-FINDING: property=%s %s" % (self.prop, k))
        for (tag, path, found, text) in self.violations:
            self.log("violation (%s): %s" % (tag, text))
            print("VIOLATION property=%s replay=%s%s" % (self.prop, path, "" if found else " no-failing-input-found"))
        sys.stdout.flush()
        return 1 if self.violations else 0
