"""C13 — broker commit log: reads return exactly the retained suffix; retention is bounded (M-LOG).

Three things are established per run:
  P  Props/C13.v builds, is audited (lib.Ctx.proof_side);
  C  the real CommitLog<Item> (harness/src/bin/log.rs) and the extracted Coq model
     (ocaml/log_driver.ml) give the same answer line on every op of every generated history;
  M  the property itself, evaluated on the IMPLEMENTATION's answers by the independent abstract
     reference below (class Ref: all entries ever appended + retained segment starts).
A monitor failure is a concrete property violation (found_input=True, replay = delta-debugged
op list); a model/implementation difference with the monitor green is reported with
found_input=False.

Env: VERIF_LOG_IMPL=<path of a `log` binary> overrides the implementation driver (used only for
mutation sanity checks against a scratch copy of /repo)."""
import glob, hashlib, itertools, os
import lib

PROPS = ["C13"]
U64 = 1 << 64


# ------------------------------------------------------------------ abstract reference (monitor)

class Ref:
    """Abstract spec of the commit log: `all` = ids of every entry ever appended (the absolute
    offset of an entry is its index), and the retained segments as (index, first offset, bytes).
    Retention rule (doc comment of CommitLog): when an append finds the active segment at or
    over max_segment_size a new segment is started; if max_mem_segments are already held the
    oldest one is dropped whole."""

    def __init__(self, ms, mm):
        self.ms, self.mm = ms, mm
        self.all = []
        self.segs = [[0, 0, 0]]

    def append(self, ident, size):
        act = self.segs[-1]
        if act[2] >= self.ms:
            if len(self.segs) >= self.mm:
                self.segs.pop(0)
            self.segs.append([act[0] + 1, len(self.all), 0])
        self.segs[-1][2] += size
        self.all.append(ident)
        return (self.segs[-1][0], len(self.all))

    def tail_cursor(self):
        return (self.segs[-1][0], len(self.all))

    def seg_of(self, o):
        """index of the retained segment holding the entry at absolute offset o"""
        r = self.segs[0][0]
        for (i, start, _) in self.segs:
            if start <= o:
                r = i
            else:
                break
        return r

    def read(self, c, n):
        """what the property requires of readv(c, n) for an issued cursor c:
        (done, start, end, [(id, seg, off)...])"""
        head, base = self.segs[0][0], self.segs[0][1]
        stale = c[0] < head
        p = base if stale else c[1]
        total = len(self.all)
        e = min(p + n, total)
        ents = [(self.all[o], self.seg_of(o), o) for o in range(p, e)]
        done = e == total
        end = (self.seg_of(e), e) if e < total else (self.segs[-1][0], e)
        return done, ((head, base) if stale else c), end, ents


def parse_read(ans):
    t = ans.split()
    if len(t) < 5 or t[0] not in ("N", "D"):
        return None
    ents = []
    for x in t[5:]:
        ident, so = x.split("@")
        sg, off = so.split(".")
        ents.append((int(ident), int(sg), int(off)))
    return t[0] == "D", (int(t[1]), int(t[2])), (int(t[3]), int(t[4])), ents


def fmt_read(r):
    done, s, e, ents = r
    return "%s %d %d %d %d%s" % ("D" if done else "N", s[0], s[1], e[0], e[1],
                                 "".join(" %d@%d.%d" % x for x in ents))


def pool_index(k, n):
    return k % n          # Python modulo: negative k counts from the newest (-1 = newest)


def monitor(ops, answers, stats=None):
    """Evaluate C13 on one history (ops[0] is NEW) given the answers of one side.
    Returns None if the property holds on every answer, else (op index, message).
    stats (optional dict) receives: cross (a pool read whose entries span >1 segment),
    stale (a pool read from a cursor whose segment was evicted)."""
    ref = None
    pool = []
    for i, (op, ans) in enumerate(zip(ops, answers)):
        t = op.split()
        if t[0] == "NEW":
            ms, mm = int(t[1]), int(t[2])
            legal = ms >= 1024 and mm >= 1
            if (ans == "OK") != legal:
                return i, "NEW %d %d answered %s (configuration %s)" % (ms, mm, ans, "legal" if legal else "illegal: must be rejected")
            ref = Ref(ms, mm) if legal else None
            pool = []
            continue
        if ref is None:
            if ans != "NOLOG":
                return i, "no log exists, answer %s" % ans
            continue
        if ans == "PANIC":
            if t[0] == "R" and int(t[2]) + int(t[3]) >= U64:
                continue        # outside the stated hypothesis off + len < 2^64
            return i, "%s panicked (the log must not panic for any cursor / any append)" % op
        if t[0] == "A":
            want = ref.append(int(t[1]), int(t[2]))
            got = tuple(int(x) for x in ans.split())
            if got != want:
                return i, "append returned %s, expected %s (segment of the new entry, offset after it)" % (got, want)
            if len(ref.segs) > ref.mm:
                return i, "more than max_mem segments retained"
            pool.append(got)
        elif t[0] == "NO":
            want = ref.tail_cursor()
            got = tuple(int(x) for x in ans.split())
            if got != want:
                return i, "next_offset returned %s, expected %s" % (got, want)
            pool.append(got)
        elif t[0] == "RP":
            if not pool:
                if ans != "NOPOOL":
                    return i, "empty pool, answer %s" % ans
                continue
            c = pool[pool_index(int(t[1]), len(pool))]
            got = parse_read(ans)
            if got is None:
                return i, "unparsable read answer %r" % ans
            want = ref.read(c, int(t[2]))
            if stats is not None:
                if c[0] < ref.segs[0][0]:
                    stats["stale"] = stats.get("stale", 0) + 1
                if len({e[1] for e in want[3]}) > 1:
                    stats["cross"] = stats.get("cross", 0) + 1
            if got != want:
                return i, "readv from issued cursor %s len %s returned [%s], the property requires [%s]" % (c, t[2], fmt_read(got), fmt_read(want))
            pool.append(got[1]); pool.append(got[2]); pool.extend((e[1], e[2]) for e in got[3])
        elif t[0] == "R":
            if parse_read(ans) is None:
                return i, "unparsable read answer %r" % ans
        else:
            return i, "unknown op"
    return None


# ------------------------------------------------------------------ generators

EXH_ALPHA = ["A 1", "A 600", "A 2000", "RP 0 100", "RP -1 2", "RP 3 1", "RP 5 0", "R 1 0 3", "NO"]


def number_ids(seq):
    """give appends their id = 1-based position in the history"""
    out = []
    for j, o in enumerate(seq):
        out.append("A %d %s" % (j + 1, o[2:]) if o.startswith("A ") else o)
    return out


def gen_random(rng, count, max_ops):
    hs = []
    lens = [0, 1, 2, 3, 7, 100]
    for _ in range(count):
        ms = rng.choice([1024, 1024, 2048, 4000])
        mm = rng.choice([1, 2, 3, 10])
        sizes = [1, ms // 3, ms // 3, ms // 3 + 1, ms, ms - 1, ms + 500, 3 * ms, 0]
        h = ["NEW %d %d" % (ms, mm)]
        nops = 10 + rng.below(max_ops - 9)
        na = 0
        seg_guess = 0
        for j in range(nops):
            r = rng.below(100)
            if r < 45 or j == 0:
                na += 1
                sz = rng.choice(sizes)
                h.append("A %d %d" % (na, sz))
            elif r < 75:
                k = rng.below(400) if rng.chance(1, 2) else -1 - rng.below(12)
                if rng.chance(1, 6):
                    k = rng.below(4)            # the oldest cursors: stale after evictions
                h.append("RP %d %d" % (k, rng.choice(lens)))
            elif r < 83:
                h.append("NO")
            else:
                ln = rng.choice(lens + [U64 - 1, 1 << 63])
                sg = rng.choice([0, 1, 2, 3, rng.below(6), rng.below(12), rng.below(30), na // 2, U64 - 1, 1 << 63])
                off = rng.choice([0, 1, rng.below(na + 2), rng.below(na + 2), na, na + 1, U64 - 1 - ln, (U64 - 1 - ln) // 2, 1 << 32])
                if off + ln >= U64:
                    off = U64 - 1 - ln
                h.append("R %d %d %d" % (sg, off, ln))
        hs.append(h)
    return hs


def gen_corpus():
    hs = []
    for p in sorted(glob.glob(os.path.join(lib.ROOT, "corpus", "log", "*"))):
        lines = [l.strip() for l in open(p).read().splitlines() if l.strip() and not l.startswith("#")]
        cur = None
        for l in lines:
            if l.startswith("NEW"):
                cur = [l]; hs.append(cur)
            elif cur is not None:
                cur.append(l)
    return hs


# ------------------------------------------------------------------ running

def impl_driver():
    over = os.environ.get("VERIF_LOG_IMPL")
    if over:
        return (over, "") if os.path.exists(over) else (None, "VERIF_LOG_IMPL=%s does not exist" % over)
    return lib.cargo_driver("log")


def run_side(exe, histories, tag):
    path = os.path.join(lib.BUILD, "log", "ops-%s-%d.txt" % (tag, os.getpid()))
    os.makedirs(os.path.dirname(path), exist_ok=True)
    with open(path, "w") as f:
        for h in histories:
            f.write("\n".join(h)); f.write("\n")
    rc, lines, err = lib.run_on_file(exe, path)
    os.remove(path)
    return rc, lines, err


def split_answers(histories, lines):
    out, k = [], 0
    for h in histories:
        out.append(lines[k:k + len(h)]); k += len(h)
    return out


def answers_of(exe, h):
    rc, lines, err = lib.run_on_text(exe, "\n".join(h) + "\n")
    return lines if rc == 0 and len(lines) == len(h) else None


def ddmin(h, failing):
    """delta debugging on the ops after NEW; failing(history) -> bool"""
    head, ops = h[0], list(h[1:])
    n = 2
    while len(ops) >= 2:
        chunk = max(1, len(ops) // n)
        reduced = False
        for i in range(0, len(ops), chunk):
            cand = ops[:i] + ops[i + chunk:]
            if cand and failing([head] + cand):
                ops = cand; n = max(n - 1, 2); reduced = True
                break
        if not reduced:
            if chunk == 1:
                break
            n = min(n * 2, len(ops))
    return [head] + ops


def replay_text(h, iexe, mexe, why):
    ia = answers_of(iexe, h) or []
    ma = answers_of(mexe, h) if mexe else []
    txt = "# C13 replay: op lines of tools/comp_log.py (NEW/A/R/RP/NO); run: ./check C13 --replay <this file>\n"
    txt += "# %s\n" % why
    for j, o in enumerate(h):
        txt += "#   %-28s impl: %-40s model: %s\n" % (o, ia[j] if j < len(ia) else "?", (ma[j] if ma and j < len(ma) else "?"))
    return txt + "\n".join(h) + "\n"


def setup():
    ok, out = lib.coq_make(["Props/C13.vo", "Extract/LogX.vo"])
    if not ok:
        print(out[-3000:]); return False
    exe, out = lib.ocaml_driver("log", "LogX")
    if not exe:
        print(out[-3000:]); return False
    exe, out = lib.cargo_driver("log")
    if not exe:
        print(out[-3000:])
    return exe is not None


def run(ctx):
    p_ok = ctx.proof_side(["Extract/LogX.vo"])
    ctx.assumptions += [
        "dev profile (overflow checks on), 64-bit usize; the model panics exactly where a checked u64 operation would",
        "configuration precondition: max_segment_size >= 1024 and max_mem_segments >= 1 (CommitLog::new panics otherwise; modelled and exercised)",
        "no-overflow hypotheses of the theorems: fewer than 2^63 entries ever appended; size(x) + max_segment_size <= 2^64 per append; cursor.off + len < 2^64 per read (idx + len is a checked add in Segment::readv)",
        "allocation failure is not modelled (VecDeque::with_capacity(max_mem_segments), Vec growth)",
        "a cursor is 'issued' if it came from append / next_offset / a read from an issued cursor (start, end, entry offsets); continuations of reads from fabricated cursors are not (only no-panic is claimed for those)",
        "equality of the Rust code with the Coq model is established by the correspondence run only (exhaustive small scope + random), not by proof",
    ]
    exh_len = 7 if ctx.thorough() else 6
    nrand = 40000 if ctx.thorough() else 4000
    max_ops = 200 if ctx.thorough() else 110
    ctx.cov["rule"] = (
        "history = NEW cfg followed by ops A(id,size) | RP(k,len) read from the k-th cursor of the pool of issued cursors | R(seg,off,len) read from a literal (fabricated) cursor | NO. "
        "exhaustive: NEW, NO (so the pool starts with the cursor (0,0)) followed by every op sequence of length %d (hence every shorter prefix) over the alphabet %s, max_segment_size 1024, max_mem in {1,2}; "
        "random: %d histories of 10..%d ops, max_segment_size in {1024,2048,4000}, max_mem in {1,2,3,10}, sizes in {0,1,~seg/3,seg-1,seg,seg+500,3*seg}, len in {0,1,2,3,7,100}, fabricated cursors incl. values near 2^64 (off+len < 2^64); plus corpus/log/*. "
        "Every history runs on the real CommitLog and on the extracted Coq model (answers compared line by line) and the C13 monitor (independent abstract reference) is evaluated on the implementation's answers. "
        "non-trivial = history containing a pool read whose returned entries span more than one segment, or a pool read from a cursor whose segment had been evicted; distinct histories counted by hash of their op text."
        % (exh_len, EXH_ALPHA, nrand, max_ops))
    mexe, mout = lib.ocaml_driver("log", "LogX")
    iexe, iout = impl_driver()
    if not iexe:
        ctx.violation("tie-broken", "the correspondence harness (harness/src/bin/log.rs) no longer builds against /repo:\n" + (iout or "")[-3000:], False,
                      "harness build failed; correspondence CommitLog(impl)=Log.Model not checked")
        return
    if not mexe:
        ctx.violation("tie-broken", "the extracted model driver does not build:\n" + (mout or "")[-3000:], False,
                      "model driver build failed")
        # the monitor can still judge the implementation
    rng = lib.Rng(ctx.seed)
    corpus = gen_corpus()
    rnd = gen_random(rng, nrand, max_ops)

    def batches():
        yield "corpus+random", corpus + rnd
        cur = []
        for mm in (1, 2):
            for seq in itertools.product(EXH_ALPHA, repeat=exh_len):
                cur.append(["NEW 1024 %d" % mm, "NO"] + number_ids(seq))
                if len(cur) >= 120000:
                    yield "exhaustive", cur
                    cur = []
        if cur:
            yield "exhaustive", cur

    # ---- per batch: run both sides, M on the implementation's answers, C against the model
    mon_fail, corr_fail = [], []          # (history, op index, message)
    nontrivial = set()
    ophist, anshist, lenhist = {}, {}, {}
    tot = {"stale": 0, "cross": 0}
    n_hist = n_ops = n_exh = n_valid = 0
    samp = []
    model_ok = mexe is not None
    for kind, histories in batches():
        nlines = sum(len(h) for h in histories)
        rc1, il, e1 = run_side(iexe, histories, "impl")
        if rc1 != 0 or len(il) != nlines:
            ctx.violation("driver-failed", "implementation driver exit=%d lines=%d/%d\n%s" % (rc1, len(il), nlines, e1[-2000:]), False,
                          "the implementation driver did not answer every op")
            return
        ia = split_answers(histories, il)
        ma = None
        if model_ok:
            rc2, ml, e2 = run_side(mexe, histories, "model")
            if rc2 != 0 or len(ml) != nlines:
                ctx.violation("driver-failed", "model driver exit=%d lines=%d/%d\n%s" % (rc2, len(ml), nlines, e2[-2000:]), False,
                              "the model driver did not answer every op")
                model_ok = False
            else:
                ma = split_answers(histories, ml)
        for hi, h in enumerate(histories):
            stats = {}
            v = monitor(h, ia[hi], stats)
            if v is not None and len(mon_fail) < 200:
                mon_fail.append((h, v[0], v[1]))
            if stats:
                nontrivial.add(hashlib.sha1("\n".join(h).encode()).digest())
                for k in stats:
                    tot[k] += stats[k]
            if ma is not None and ia[hi] != ma[hi] and len(corr_fail) < 200:
                j = next(j for j in range(len(h)) if ia[hi][j] != ma[hi][j])
                corr_fail.append((h, j, "impl %r model %r" % (ia[hi][j], ma[hi][j])))
            for o, a in zip(h, ia[hi]):
                k = o.split(" ", 1)[0]
                ophist[k] = ophist.get(k, 0) + 1
                ak = k + ":" + ("cursor" if a[:1].isdigit() else a.split(" ", 1)[0] if a else "?")
                anshist[ak] = anshist.get(ak, 0) + 1
            b = "%d-%d" % ((len(h) - 1) // 20 * 20, (len(h) - 1) // 20 * 20 + 19)
            lenhist[b] = lenhist.get(b, 0) + 1
        n_hist += len(histories); n_ops += nlines
        if kind == "exhaustive":
            n_exh += len(histories)
        if ma is not None:
            n_valid += len(histories)
        for hi in (0, len(histories) // 2 + 4321, len(histories) - 1):
            if hi < len(histories) and len(samp) < 6:
                samp.append(" | ".join("%s -> %s" % (o, a) for o, a in zip(histories[hi][:14], ia[hi][:14])))
        ctx.log("batch %s: histories=%d ops=%d (monitor failures so far %d, correspondence differences %d)" % (
            kind, len(histories), nlines, len(mon_fail), len(corr_fail)))
        if mon_fail or corr_fail:
            break
    ctx.cov["evaluations"] = n_hist
    ctx.cov["ops"] = n_ops
    ctx.cov["traces_validated_against_impl"] = n_valid
    ctx.cov["distinct_nontrivial"] = len(nontrivial)
    ctx.cov["exhaustive"] = not (mon_fail or corr_fail)
    ctx.cov["exhaustive_part"] = n_exh
    ctx.cov["exhaustive_bound"] = "all op sequences of length <= %d over %d letters, max_mem in {1,2}" % (exh_len, len(EXH_ALPHA))
    ctx.cov["op_histogram"] = ophist
    ctx.cov["answer_histogram"] = anshist
    ctx.cov["pool_reads_from_stale_cursor"] = tot["stale"]
    ctx.cov["pool_reads_crossing_segments"] = tot["cross"]
    ctx.cov["history_length_histogram"] = lenhist
    ctx.cov["samples"] = samp
    ctx.log("histories=%d ops=%d monitor-failures=%d correspondence-differences=%d nontrivial=%d" % (
        n_hist, n_ops, len(mon_fail), len(corr_fail), len(nontrivial)))

    if mon_fail:
        # shortest failing history first, then shrink by delta debugging on the real code
        mon_fail.sort(key=lambda x: (x[1], len(x[0])))
        h0, j, msg = mon_fail[0]
        h = h0[:j + 1]

        def failing(c):
            a = answers_of(iexe, c)
            return a is not None and monitor(c, a) is not None
        h = ddmin(h, failing) if failing(h) else h
        a = answers_of(iexe, h)
        v = monitor(h, a) if a else None
        why = "property violated on the implementation at op %d: %s (%d%s of %d histories run fail the monitor)" % (
            (v[0] if v else j), (v[1] if v else msg), len(mon_fail), "+" if len(mon_fail) >= 200 else "", n_hist)
        ctx.violation("input", replay_text(h, iexe, mexe, why), True, why)
    elif corr_fail:
        corr_fail.sort(key=lambda x: (x[1], len(x[0])))
        h0, j, _ = corr_fail[0]
        h = h0[:j + 1]

        def differs(c):
            a, m = answers_of(iexe, c), answers_of(mexe, c)
            return a is not None and m is not None and a != m
        h = ddmin(h, differs) if differs(h) else h
        why = ("implementation and Coq model (Log/Model.v) answer differently although the C13 monitor holds on the implementation's answers "
               "(%d%s of %d histories run differ); the theorems of Props/C13.v no longer speak about this code" % (len(corr_fail), "+" if len(corr_fail) >= 200 else "", n_hist))
        ctx.violation("correspondence", replay_text(h, iexe, mexe, why), False, why)
    elif not p_ok:
        ctx.violation("proof", "Proof obligations of Props/C13.v no longer check:\n%s\nNo history was found on which the implementation violates C13 (%d histories, %d ops)." % (
            getattr(ctx, "proof_error", ""), n_hist, n_ops), False, "theorems of Props/C13.v do not check")


def replay(ctx, path):
    iexe, _ = impl_driver()
    mexe, _ = lib.ocaml_driver("log", "LogX")
    lines = [l.strip() for l in open(path).read().splitlines() if l.strip() and not l.startswith("#")]
    hs, cur = [], None
    for l in lines:
        if l.startswith("NEW") or cur is None:
            cur = []; hs.append(cur)
        cur.append(l)
    rc = 0
    for h in hs:
        ia = answers_of(iexe, h) or ["?"] * len(h)
        ma = (answers_of(mexe, h) if mexe else None) or ["?"] * len(h)
        v = monitor(h, ia)
        for j, o in enumerate(h):
            flag = "ok"
            if v is not None and v[0] == j:
                flag = "VIOLATION: " + v[1]
            elif ia[j] != ma[j]:
                flag = "DIFFERS from model"
            print("%-30s impl[%s] model[%s] %s" % (o, ia[j], ma[j], flag))
        if v is not None or ia != ma:
            rc = 1
    if rc:
        print("VIOLATION property=C13 replay=%s" % path)
    return rc
