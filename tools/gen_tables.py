"""Regenerates coq/Gen/Tables.v from the MQTT 5 code tables in /repo's current sources (fail closed).

What is translated (both crates: broker rumqttd/src/protocol/v5, client rumqttc/src/v5/mqttbytes/v5):
  * `fn property(num: u8)`           -> <crate>_property_ids        (ids the property decoder knows)
  * `enum PropertyType { X = n }`    -> checked equal to the above, used to resolve names
  * `match property(prop)? { PropertyType::X => .. }` in every packet file
                                      -> <crate>_<packet>_props<k>   (ids accepted in that property block)
  * `fn reason(..)` / `fn connect_return(..)` / `impl TryFrom<u8> for ..ReasonCode`
                                      -> <crate>_<packet>_dec        (codes the decoder accepts)
  * `fn code(..)` / `fn connect_code(..)` / `impl From<..> for u8` arms
                                      -> <crate>_<packet>_enc        (codes the encoder can emit)
  * <crate>_<packet>_inverse : bool   -> decoder and encoder tables are inverse as variant<->code maps
Codec/GenTie.v proves that the hand-written model's tables equal these generated ones; a change of a
code or of an accepted property in the Rust source breaks that proof before any differential run.
"""
import os, re

REPO = os.environ.get("VERIF_REPO", "/repo")
OUT = os.path.join(os.path.dirname(os.path.dirname(os.path.abspath(__file__))), "coq", "Gen", "Tables.v")

CRATES = [("broker", "rumqttd/src/protocol/v5"), ("client", "rumqttc/src/v5/mqttbytes/v5")]
PROP_FILES = ["connect", "connack", "publish", "puback", "pubrec", "pubrel", "pubcomp",
              "subscribe", "suback", "unsubscribe", "unsuback", "disconnect"]
REASON_FILES = ["connack", "puback", "pubrec", "pubrel", "pubcomp", "unsuback", "disconnect"]

NUM = r"(0[xX][0-9a-fA-F_]+|\d[\d_]*)"


def strip_comments(src):
    src = re.sub(r"/\*.*?\*/", "", src, flags=re.S)
    return re.sub(r"//[^\n]*", "", src)


def block_after(src, pos):
    """Text of the brace block that opens at or after pos (balanced)."""
    i = src.index("{", pos)
    depth, j = 0, i
    while j < len(src):
        if src[j] == "{":
            depth += 1
        elif src[j] == "}":
            depth -= 1
            if depth == 0:
                return src[i + 1:j]
        j += 1
    raise ValueError("unbalanced braces")


def num(s):
    return int(s.replace("_", ""), 0)


def dec_arms(body):
    """[(code, Variant)] of arms `N => Type::Variant` (top-level numeric patterns of a match on u8)."""
    return [(num(a), v) for (a, v) in re.findall(NUM + r"\s*=>\s*(?:Ok\()?\s*\w+::(\w+)", body)]


def enc_arms(body):
    return [(v, num(a)) for (v, a) in re.findall(r"\w+::(\w+)\s*=>\s*" + NUM + r"\s*[,}]", body)]


def find_fn(src, rx):
    m = re.findall(rx, src)
    if len(m) != 1:
        return None
    return block_after(src, re.search(rx, src).end() - 1)


def tables_for(crate, d):
    out, errs = {}, []

    def rd(f):
        return strip_comments(open(os.path.join(REPO, d, f)).read())

    mod = rd("mod.rs")
    m = re.search(r"enum\s+PropertyType\s*", mod)
    if not m:
        return None, ["%s: enum PropertyType not found" % crate]
    enum = dict((n, num(v)) for (n, v) in re.findall(r"(\w+)\s*=\s*" + NUM + r"\s*,", block_after(mod, m.end())))
    body = find_fn(mod, r"fn\s+property\s*\(\s*\w+\s*:\s*u8\s*\)[^{]*\{")
    if body is None:
        return None, ["%s: fn property(u8) not found exactly once" % crate]
    parms = dec_arms(body)
    if sorted(enum.items()) != sorted((v, c) for (c, v) in parms):
        errs.append("%s: fn property() and enum PropertyType disagree" % crate)
    out["property_ids"] = sorted(c for (c, _) in parms)
    for f in PROP_FILES:
        src = rd(f + ".rs")
        k = 0
        for mm in re.finditer(r"match\s+property\s*\(\s*prop\s*\)\s*\?\s*\{", src):
            blk = block_after(src, mm.end() - 1)
            # top-level arms only: drop nested blocks
            flat, depth = [], 0
            for ch in blk:
                if ch == "{":
                    depth += 1
                elif ch == "}":
                    depth -= 1
                elif depth == 0:
                    flat.append(ch)
            names = re.findall(r"PropertyType::(\w+)\s*=>", "".join(flat))
            unknown = [n for n in names if n not in enum]
            if unknown or not names:
                errs.append("%s/%s.rs: property block %d: unknown or no arms %r" % (crate, f, k, unknown))
            key = "%s_props%d" % (f, k)
            if f == "connect":  # two blocks (CONNECT's own and the will's); told apart by content, not by order
                key = "connect_will_props" if "WillDelayInterval" in names else "connect_props"
                if key in out:
                    errs.append("%s/connect.rs: two property blocks of the same kind" % crate)
            out[key] = sorted(enum.get(n, 0) for n in names)
            k += 1
        if k == 0:
            errs.append("%s/%s.rs: no `match property(prop)?` block" % (crate, f))
    for f in REASON_FILES:
        src = rd(f + ".rs")
        dec = enc = None
        for rx in (r"fn\s+reason\s*\(\s*\w+\s*:\s*u8\s*\)[^{]*\{", r"fn\s+connect_return\s*\(\s*\w+\s*:\s*u8\s*\)[^{]*\{",
                   r"impl\s+TryFrom\s*<\s*u8\s*>\s*for\s+\w+\s*\{"):
            b = find_fn(src, rx)
            if b is not None:
                dec = dec_arms(b)
                break
        for rx in (r"fn\s+code\s*\(\s*\w+\s*:\s*\w+\s*\)\s*->\s*u8\s*\{", r"fn\s+connect_code\s*\(\s*\w+\s*:\s*\w+\s*\)\s*->\s*u8\s*\{",
                   r"impl\s+From\s*<\s*\w+\s*>\s*for\s+u8\s*\{"):
            b = find_fn(src, rx)
            if b is not None:
                enc = enc_arms(b)
                break
        if not dec:
            errs.append("%s/%s.rs: reason decoder table not found" % (crate, f))
            continue
        out[f + "_dec"] = sorted(c for (c, _) in dec)
        if enc:
            out[f + "_enc"] = sorted(c for (_, c) in enc)
            out[f + "_inverse"] = sorted(dec) == sorted((c, v) for (v, c) in enc)
        else:
            # encoders written as `reason as u8`: the enum discriminants are the table
            em = re.search(r"enum\s+\w*Reason\w*\s*", src)
            disc = dict((n, num(v)) for (n, v) in re.findall(r"(\w+)\s*=\s*" + NUM + r"\s*,", block_after(src, em.end()))) if em else {}
            if not disc:
                errs.append("%s/%s.rs: reason encoder table not found" % (crate, f))
                continue
            out[f + "_enc"] = sorted(disc.values())
            out[f + "_inverse"] = sorted(dec) == sorted((c, v) for (v, c) in disc.items())
    b = find_fn(rd("suback.rs"), r"fn\s+reason\s*\(\s*\w+\s*:\s*u8\s*\)[^{]*\{")
    if b is None or not dec_arms(b):
        errs.append("%s/suback.rs: reason decoder table not found" % crate)
    else:
        out["suback_dec"] = sorted(c for (c, _) in dec_arms(b))
    return out, errs


def generate():
    lines = ["(* GENERATED by tools/gen_tables.py from /repo sources on every run. Do not edit. *)",
             "From Coq Require Import NArith List.", "Import ListNotations.", "Open Scope N_scope.", ""]
    for (crate, d) in CRATES:
        try:
            tabs, errs = tables_for(crate, d)
        except (OSError, ValueError) as e:
            return False, "%s: %s" % (crate, e)
        if errs:
            return False, "; ".join(errs)
        for k in sorted(tabs):
            v = tabs[k]
            if isinstance(v, bool):
                lines.append("Definition %s_%s : bool := %s." % (crate, k, "true" if v else "false"))
            else:
                lines.append("Definition %s_%s : list N := [%s]." % (crate, k, "; ".join(str(x) for x in v)))
        lines.append("")
    txt = "\n".join(lines)
    os.makedirs(os.path.dirname(OUT), exist_ok=True)
    if not os.path.exists(OUT) or open(OUT).read() != txt:
        open(OUT, "w").write(txt)
    return True, ""


if __name__ == "__main__":
    ok, msg = generate()
    print("ok" if ok else "FAILED: " + msg)
