"""C12 — topic matching / validation (M-TOPIC)."""
import os, itertools
import lib

PROPS = ["C12"]

ALPHA = ["a", "B", "/", "+", "#", "$", "é", "\U0001F600"]


def hx(s):
    b = s.encode("utf-8")
    return b.hex() if b else "-"


def strings_upto(n):
    out = [""]
    for k in range(1, n + 1):
        out += ["".join(t) for t in itertools.product(ALPHA, repeat=k)]
    return out


def setup():
    ok, out = lib.coq_make(["Props/C12.vo", "Extract/TopicX.vo"])
    if not ok:
        print(out[-3000:])
        return False
    exe, out = lib.ocaml_driver("topic", "TopicX")
    if not exe:
        print(out[-3000:])
        return False
    exe, out = lib.cargo_driver("topic")
    if not exe:
        print(out[-3000:])
    return exe is not None


def nontrivial(op):
    """an op is non-trivial when it exercises a rule beyond literal comparison:
    a wildcard level, a '$' topic, an empty level or a multi-byte character."""
    s = " ".join(op[1:])
    return any(c in s for c in "+#$") or "//" in s or any(ord(c) > 127 for c in s) or s.startswith("/") or s.endswith("/")


def gen_ops(ctx):
    ops = []
    n_pair = 4 if ctx.thorough() else 3
    small = strings_upto(n_pair)
    for t in small:
        for f in small:
            ops.append(("M", t, f))
    for s in strings_upto(6 if ctx.thorough() else 5):
        ops.append(("VF", s)); ops.append(("VT", s)); ops.append(("HW", s))
    exhaustive_n = len(ops)
    rng = lib.Rng(ctx.seed)
    levels = ["a", "B", "ab", "aB", "", "+", "#", "$", "$SYS", "é", "\U0001F600x", "a+", "#b", "++", "éé"]
    nrand = 1000000 if ctx.thorough() else 20000
    for _ in range(nrand):
        def mk():
            if rng.chance(1, 2):
                return "/".join(rng.choice(levels) for _ in range(1 + rng.below(6)))
            return "".join(rng.choice(ALPHA) for _ in range(rng.below(25)))
        t = mk()
        if rng.chance(2, 3):
            # filter derived from the topic: mostly-matching pairs
            ls = t.split("/")
            fl = []
            for l in ls:
                r = rng.below(10)
                fl.append("+" if r < 2 else (rng.choice(levels) if r == 2 else l))
            r = rng.below(6)
            if r == 0:
                fl = fl[: rng.below(len(fl) + 1)] + ["#"]
            elif r == 1:
                fl = fl[: rng.below(len(fl) + 1)]
            elif r == 2:
                fl.append(rng.choice(levels))
            f = "/".join(fl)
        else:
            f = mk()
        ops.append(("M", t, f))
        if rng.chance(1, 8):
            ops.append(("VF", f)); ops.append(("VT", t)); ops.append(("HW", f))
    return ops, exhaustive_n


def write_ops(path, ops):
    with open(path, "w") as fo:
        for op in ops:
            fo.write(" ".join([op[0]] + [hx(x) for x in op[1:]]) + "\n")


def describe(op):
    return "%s %s" % (op[0], " ".join(repr(x) for x in op[1:]))


def compare(ctx, ops, impl, model):
    """Every copy must equal the model on every op (the model IS the MQTT rule: c12_*_spec).
    Returns list of (index, copy-name, got, want)."""
    names = ["rumqttc(v4)", "rumqttc::v5", "rumqttd::protocol"]
    bad = []
    for i, (a, m) in enumerate(zip(impl, model)):
        rs = a.split()
        for k, r in enumerate(rs):
            if r != m:
                bad.append((i, names[k], r, m))
    return bad


# ---------------------------------------------------------------------------------------------
# the broker's topic -> filters cache (DataLog::matches / next_native_offset, router/logs.rs):
# whatever the order in which filters are created and topics are first published, a publish must
# be appended to the log of exactly the filters that match its topic by the rule.  Observed on the
# real Router through the stepping driver (SNAP shows every log's end), compared with the rule
# as computed by the extracted Coq model of `matches`.
CACHE_FILTERS = ["a/b", "a/b/#", "a/+", "+/+", "a/#", "+", "a", "+/b/#", "a/b/c", "#"]
CACHE_TOPICS = ["a/b", "a", "a/b/c", "a/c", "b"]


def cache_histories(thorough):
    import itertools
    fs = CACHE_FILTERS if thorough else CACHE_FILTERS[:7]
    ts = CACHE_TOPICS if thorough else CACHE_TOPICS[:4]
    out = []
    for (f1, f2) in itertools.product(fs, fs):
        for (t1, t2) in itertools.product(ts, ts):
            if t2 < t1:
                continue
            for order in ("SSPP", "SPSP", "SPPS", "PSSP", "PSPS", "PPSS"):
                q = {"S": [f1, f2], "P": [t1, t2]}
                seq = [(c, q[c].pop(0)) for c in order]
                out.append(seq)
    return out


def cache_part(ctx, mexe_topic, explicit=None):
    """returns (n_histories, n_publishes, violations[(text, replay)])"""
    import re
    rexe, rout = lib.cargo_driver("router")
    if not rexe:
        return 0, 0, [("correspondence-only: router driver does not build: %s" % (rout or "")[-400:], rout or "")]
    final_ops = [("P", t) for t in CACHE_TOPICS] if explicit is None else []
    hs = cache_histories(ctx.thorough()) if explicit is None else explicit
    # the rule, from the Coq model: matches(topic, filter) for every pair that can occur
    pairs = sorted({(t, f) for t in CACHE_TOPICS for f in CACHE_FILTERS + ["z"]} |
                   {(t, f) for h in hs for (c, t) in h if c == "P" for (c2, f) in h + [("S", "#")] if c2 == "S"})
    txt = "\n".join("M %s %s" % (hx(t), hx(f)) for (t, f) in pairs) + "\n"
    _, ans, _ = lib.run_on_text(mexe_topic, txt)
    rule = {pr: a.strip() == "T" for pr, a in zip(pairs, ans)}
    lines, marks = [], []
    for hi, seq in enumerate(hs):
        # the publisher is closed by a publish that matches no filter: keep one catch-all log 'z'-less
        # filter set alive by creating "#" first?  no: that would mask nothing but changes indices; use
        # an initial filter that matches every test topic only through its own rule: "#"
        lines += ["SEED %d" % hi, "NEW 10 200 4096 2 rr 1 23", "CONNECT 73 1 0 0 -", "CONNECT 70 1 0 0 -", "CONSUME", "CONSUME"]
        pk = 0
        for (c, x) in seq + final_ops:
            if c == "S":
                pk += 1
                lines += ["PUSH 0 SUB %d - %s:0" % (pk, hx(x)), "DATA 0"]
            else:
                lines += ["PUSH 1 PUB %s 6d 0 0 0 0 -" % hx(x), "DATA 1", "SNAP"]
                marks.append((hi, len(lines) - 1, x))
    rc, out, err = lib.run_on_text(rexe, "\n".join(lines) + "\n")
    out = [l for l in out if not l.startswith("ORACLE")]
    if len(out) != len(lines):
        return len(hs), 0, [("correspondence-only: router driver answered %d of %d lines" % (len(out), len(lines)), err[-600:])]
    viol = []
    state = {}
    npub = 0
    for (hi, li, topic) in marks:
        seq = hs[hi]
        ends = [int(m.group(2)) for m in re.finditer(r"L(\d+):\d+\.(\d+)\[", out[li])]
        # filters in creation order: '#' (initial), then each new filter of the history
        prev = state.get(hi)
        if prev is None:
            prev = {"filters": ["#"], "ends": [0], "ops": []}
            state[hi] = prev
        # which SUBs were processed before this publish?  rebuild from the op list
        done = prev["ops"]
        # advance through the sequence until this publish
        allops = hs[hi] + final_ops
        while True:
            c, x = allops[len(done)]
            done.append((c, x))
            if c == "S":
                if x not in prev["filters"]:
                    prev["filters"].append(x)
                    prev["ends"].append(0)
            else:
                break
        npub += 1
        if len(ends) != len(prev["filters"]):
            viol.append(("broker has %d logs, %d filters were created (%s)" % (len(ends), len(prev["filters"]), prev["filters"]), hi))
            continue
        for k, f in enumerate(prev["filters"]):
            grew = ends[k] - prev["ends"][k]
            want = 1 if rule[(topic, f)] else 0
            if grew != want:
                viol.append(("publish on %r %s the log of filter %r (rule: matches = %s) after %s" % (
                    topic, "was not appended to" if want else "was appended to", f, rule[(topic, f)],
                    " ".join("%s:%s" % (c, x) for (c, x) in done[:-1]) or "nothing"), hi))
        prev["ends"] = ends
    res = []
    seen = set()
    for (text, hi) in viol:
        if hi in seen:
            continue
        seen.add(hi)
        seq = hs[hi]
        rep = ["# C12 replay (broker topic->filters cache): router driver script; ./check C12 --replay <this file>", "# " + text,
               "SEED %d" % hi, "NEW 10 200 4096 2 rr 1 23", "CONNECT 73 1 0 0 -", "CONNECT 70 1 0 0 -", "CONSUME", "CONSUME"]
        pk = 0
        for (c, x) in seq + final_ops:
            if c == "S":
                pk += 1
                rep += ["PUSH 0 SUB %d - %s:0" % (pk, hx(x)), "DATA 0"]
            else:
                rep += ["PUSH 1 PUB %s 6d 0 0 0 0 -" % hx(x), "DATA 1", "SNAP"]
        res.append((text, "\n".join(rep) + "\n"))
    res.sort(key=lambda r: len(r[1]))
    return len(hs), npub, res


def run(ctx):
    p_ok = ctx.proof_side(["Extract/TopicX.vo"])
    ctx.assumptions += [
        "strings given to the Rust functions are valid UTF-8 (guaranteed by &str); the model works on their bytes",
        "equality of the three Rust copies with the model is established by the correspondence run only (exhaustive to the stated length bound, random beyond)",
    ]
    ctx.cov["rule"] = ("exhaustive: every (topic,filter) pair with both strings of <= %d symbols over the alphabet %s through matches, every string of <= %d symbols "
                       "through valid_filter/valid_topic/has_wildcards; plus random structured pairs (filter mostly derived from the topic). "
                       "Each op runs all three Rust copies and the extracted Coq model. non-trivial = op involving a wildcard, '$', an empty level or a multi-byte character; distinct ops counted."
                       % (4 if ctx.thorough() else 3, ALPHA, 6 if ctx.thorough() else 5))
    mexe, mout = lib.ocaml_driver("topic", "TopicX")
    iexe, iout = lib.cargo_driver("topic")
    if not mexe or not iexe:
        ctx.violation("tie-broken", "the correspondence harness no longer builds against /repo:\n" + (mout or iout)[-3000:], False,
                      "harness build failed; correspondence topic(impl)=Topic.Model not checked")
        return
    ops, exhaustive_n = gen_ops(ctx)
    opsf = os.path.join(lib.BUILD, "topic-ops-%s.txt" % ctx.tier)
    write_ops(opsf, ops)
    rc1, impl, e1 = lib.run_on_file(iexe, opsf)
    rc2, model, e2 = lib.run_on_file(mexe, opsf)
    if rc1 != 0 or rc2 != 0 or len(impl) != len(ops) or len(model) != len(ops):
        ctx.violation("driver-failed", "driver exit codes impl=%d model=%d lines %d/%d/%d\n%s\n%s" % (rc1, rc2, len(impl), len(model), len(ops), e1[-1500:], e2[-1500:]),
                      False, "a driver did not answer every op")
        return
    bad = compare(ctx, ops, impl, model)
    ctx.cov["evaluations"] = len(ops)
    ctx.cov["traces_validated_against_impl"] = len(ops)
    ctx.cov["exhaustive"] = True
    ctx.cov["exhaustive_part"] = exhaustive_n
    ctx.cov["distinct_nontrivial"] = len({op for op in ops if nontrivial(op)})
    hist = {}
    for op, m in zip(ops, model):
        hist[op[0] + ":" + m] = hist.get(op[0] + ":" + m, 0) + 1
    ctx.cov["result_histogram"] = hist
    ctx.cov["samples"] = [describe(ops[i]) + " -> impl " + impl[i] + " / model " + model[i] for i in (0, 700, exhaustive_n - 1, exhaustive_n + 1, len(ops) - 1)]
    os.remove(opsf)
    nh, npub, cviol = cache_part(ctx, mexe)
    ctx.cov["cache_histories"] = nh
    ctx.cov["cache_publishes_checked"] = npub
    ctx.cov["cache_rule"] = ("broker topic->filters cache (DataLog::matches / next_native_offset): every ordered choice of two filters and two topics from a pool, in all six "
                             "interleavings of creating the filters and first publishing the topics, followed by one publish per pool topic; after every publish each log must have "
                             "grown by exactly one entry iff its filter matches the topic by the rule (extracted Coq matches); observed on the real Router through the stepping driver")
    ctx.log("cache: histories=%d publishes=%d violations=%d" % (nh, npub, len(cviol)))
    if cviol:
        text, rep = cviol[0]
        found = not text.startswith("correspondence-only:")
        ctx.violation("cache-input" if found else "cache-correspondence", rep, found, "broker cache: " + text + " (%d histories)" % len(cviol))
    if bad:
        # group by op; shortest input first = minimal replay
        bad.sort(key=lambda b: (sum(len(x) for x in ops[b[0]][1:]), b[0]))
        kf = [k for k in lib.known_findings() if k.get("property") == "C12" and k.get("status") == "known"]
        i, name, got, want = bad[0]
        content = "# C12 replay: one op per line (hex of UTF-8 bytes); run: ./check C12 --replay <this file>\n"
        content += "# %s: %s returned %s, the MQTT rule (Coq model, theorem c12_matches_spec/c12_valid_filter_spec) gives %s; %d diverging (op,copy) pairs in this run\n" % (
            describe(ops[i]), name, got, want, len(bad))
        content += " ".join([ops[i][0]] + [hx(x) for x in ops[i][1:]]) + "\n"
        ctx.violation("input", content, True, "%s on %s: got %s, rule says %s (%d divergences)" % (name, describe(ops[i]), got, want, len(bad)))
    elif not p_ok:
        ctx.violation("proof", "Proof obligations of Props/C12.v no longer check:\n%s\nNo input was found on which the implementation deviates from the MQTT rules (%d ops)." % (
            getattr(ctx, "proof_error", ""), len(ops)), False, "theorems of Props/C12.v do not check")
    ctx.log("ops=%d divergences=%d" % (len(ops), len(bad)))


def replay(ctx, path):
    if "broker topic->filters cache" in open(path).read()[:300]:
        mexe, _ = lib.ocaml_driver("topic", "TopicX")
        seq = []
        for l in open(path).read().splitlines():
            t = l.split()
            if l.startswith("PUSH 0 SUB"):
                seq.append(("S", bytes.fromhex(t[5].split(":")[0]).decode()))
            elif l.startswith("PUSH 1 PUB"):
                seq.append(("P", bytes.fromhex(t[3]).decode()))
        nh, npub, viol = cache_part(ctx, mexe, explicit=[seq])
        for (text, _r) in viol:
            print("CACHE", text)
        if viol:
            print("VIOLATION property=C12 replay=%s" % path)
            return 1
        print("cache replay: %d publishes, every log grew exactly as the rule says" % npub)
        return 0
    iexe, iout = lib.cargo_driver("topic")
    mexe, mout = lib.ocaml_driver("topic", "TopicX")
    lines = [l for l in open(path).read().splitlines() if l.strip() and not l.startswith("#")]
    txt = "\n".join(lines) + "\n"
    _, impl, _ = lib.run_on_text(iexe, txt)
    _, model, _ = lib.run_on_text(mexe, txt)
    rc = 0
    for l, a, m in zip(lines, impl, model):
        okl = all(r == m for r in a.split())
        print("%s  impl[%s] model[%s] %s" % (l, a, m, "ok" if okl else "VIOLATION"))
        if not okl:
            rc = 1
    if rc:
        print("VIOLATION property=C12 replay=%s" % path)
    return rc
