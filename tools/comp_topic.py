"""C12 — topic matching / validation (M-TOPIC)."""
import os, itertools
import lib

PROPS = ["C12"]

ALPHA = ["a", "B", "/", "+", "#", "$", "é", "\U0001F600"]


def hx(s):
    b = s.encode("utf-8")
    return b.hex() if b else "-"


def strings_upto(n):
    out = [""]
    for k in range(1, n + 1):
        out += ["".join(t) for t in itertools.product(ALPHA, repeat=k)]
    return out


def setup():
    ok, out = lib.coq_make(["Props/C12.vo", "Extract/TopicX.vo"])
    if not ok:
        print(out[-3000:])
        return False
    exe, out = lib.ocaml_driver("topic", "TopicX")
    if not exe:
        print(out[-3000:])
        return False
    exe, out = lib.cargo_driver("topic")
    if not exe:
        print(out[-3000:])
    return exe is not None


def nontrivial(op):
    """an op is non-trivial when it exercises a rule beyond literal comparison:
    a wildcard level, a '$' topic, an empty level or a multi-byte character."""
    s = " ".join(op[1:])
    return any(c in s for c in "+#$") or "//" in s or any(ord(c) > 127 for c in s) or s.startswith("/") or s.endswith("/")


def gen_ops(ctx):
    ops = []
    n_pair = 4 if ctx.thorough() else 3
    small = strings_upto(n_pair)
    for t in small:
        for f in small:
            ops.append(("M", t, f))
    for s in strings_upto(6 if ctx.thorough() else 5):
        ops.append(("VF", s)); ops.append(("VT", s)); ops.append(("HW", s))
    exhaustive_n = len(ops)
    rng = lib.Rng(ctx.seed)
    levels = ["a", "B", "ab", "aB", "", "+", "#", "$", "$SYS", "é", "\U0001F600x", "a+", "#b", "++", "éé"]
    nrand = 1000000 if ctx.thorough() else 20000
    for _ in range(nrand):
        def mk():
            if rng.chance(1, 2):
                return "/".join(rng.choice(levels) for _ in range(1 + rng.below(6)))
            return "".join(rng.choice(ALPHA) for _ in range(rng.below(25)))
        t = mk()
        if rng.chance(2, 3):
            # filter derived from the topic: mostly-matching pairs
            ls = t.split("/")
            fl = []
            for l in ls:
                r = rng.below(10)
                fl.append("+" if r < 2 else (rng.choice(levels) if r == 2 else l))
            r = rng.below(6)
            if r == 0:
                fl = fl[: rng.below(len(fl) + 1)] + ["#"]
            elif r == 1:
                fl = fl[: rng.below(len(fl) + 1)]
            elif r == 2:
                fl.append(rng.choice(levels))
            f = "/".join(fl)
        else:
            f = mk()
        ops.append(("M", t, f))
        if rng.chance(1, 8):
            ops.append(("VF", f)); ops.append(("VT", t)); ops.append(("HW", f))
    return ops, exhaustive_n


def write_ops(path, ops):
    with open(path, "w") as fo:
        for op in ops:
            fo.write(" ".join([op[0]] + [hx(x) for x in op[1:]]) + "\n")


def describe(op):
    return "%s %s" % (op[0], " ".join(repr(x) for x in op[1:]))


def compare(ctx, ops, impl, model):
    """Every copy must equal the model on every op (the model IS the MQTT rule: c12_*_spec).
    Returns list of (index, copy-name, got, want)."""
    names = ["rumqttc(v4)", "rumqttc::v5", "rumqttd::protocol"]
    bad = []
    for i, (a, m) in enumerate(zip(impl, model)):
        rs = a.split()
        for k, r in enumerate(rs):
            if r != m:
                bad.append((i, names[k], r, m))
    return bad


def run(ctx):
    p_ok = ctx.proof_side(["Extract/TopicX.vo"])
    ctx.assumptions += [
        "strings given to the Rust functions are valid UTF-8 (guaranteed by &str); the model works on their bytes",
        "equality of the three Rust copies with the model is established by the correspondence run only (exhaustive to the stated length bound, random beyond)",
    ]
    ctx.cov["rule"] = ("exhaustive: every (topic,filter) pair with both strings of <= %d symbols over the alphabet %s through matches, every string of <= %d symbols "
                       "through valid_filter/valid_topic/has_wildcards; plus random structured pairs (filter mostly derived from the topic). "
                       "Each op runs all three Rust copies and the extracted Coq model. non-trivial = op involving a wildcard, '$', an empty level or a multi-byte character; distinct ops counted."
                       % (4 if ctx.thorough() else 3, ALPHA, 6 if ctx.thorough() else 5))
    mexe, mout = lib.ocaml_driver("topic", "TopicX")
    iexe, iout = lib.cargo_driver("topic")
    if not mexe or not iexe:
        ctx.violation("tie-broken", "the correspondence harness no longer builds against /repo:\n" + (mout or iout)[-3000:], False,
                      "harness build failed; correspondence topic(impl)=Topic.Model not checked")
        return
    ops, exhaustive_n = gen_ops(ctx)
    opsf = os.path.join(lib.BUILD, "topic-ops-%s.txt" % ctx.tier)
    write_ops(opsf, ops)
    rc1, impl, e1 = lib.run_on_file(iexe, opsf)
    rc2, model, e2 = lib.run_on_file(mexe, opsf)
    if rc1 != 0 or rc2 != 0 or len(impl) != len(ops) or len(model) != len(ops):
        ctx.violation("driver-failed", "driver exit codes impl=%d model=%d lines %d/%d/%d\n%s\n%s" % (rc1, rc2, len(impl), len(model), len(ops), e1[-1500:], e2[-1500:]),
                      False, "a driver did not answer every op")
        return
    bad = compare(ctx, ops, impl, model)
    ctx.cov["evaluations"] = len(ops)
    ctx.cov["traces_validated_against_impl"] = len(ops)
    ctx.cov["exhaustive"] = True
    ctx.cov["exhaustive_part"] = exhaustive_n
    ctx.cov["distinct_nontrivial"] = len({op for op in ops if nontrivial(op)})
    hist = {}
    for op, m in zip(ops, model):
        hist[op[0] + ":" + m] = hist.get(op[0] + ":" + m, 0) + 1
    ctx.cov["result_histogram"] = hist
    ctx.cov["samples"] = [describe(ops[i]) + " -> impl " + impl[i] + " / model " + model[i] for i in (0, 700, exhaustive_n - 1, exhaustive_n + 1, len(ops) - 1)]
    os.remove(opsf)
    if bad:
        # group by op; shortest input first = minimal replay
        bad.sort(key=lambda b: (sum(len(x) for x in ops[b[0]][1:]), b[0]))
        kf = [k for k in lib.known_findings() if k.get("property") == "C12" and k.get("status") == "known"]
        i, name, got, want = bad[0]
        content = "# C12 replay: one op per line (hex of UTF-8 bytes); run: ./check C12 --replay <this file>\n"
        content += "# %s: %s returned %s, the MQTT rule (Coq model, theorem c12_matches_spec/c12_valid_filter_spec) gives %s; %d diverging (op,copy) pairs in this run\n" % (
            describe(ops[i]), name, got, want, len(bad))
        content += " ".join([ops[i][0]] + [hx(x) for x in ops[i][1:]]) + "\n"
        ctx.violation("input", content, True, "%s on %s: got %s, rule says %s (%d divergences)" % (name, describe(ops[i]), got, want, len(bad)))
    elif not p_ok:
        ctx.violation("proof", "Proof obligations of Props/C12.v no longer check:\n%s\nNo input was found on which the implementation deviates from the MQTT rules (%d ops)." % (
            getattr(ctx, "proof_error", ""), len(ops)), False, "theorems of Props/C12.v do not check")
    ctx.log("ops=%d divergences=%d" % (len(ops), len(bad)))


def replay(ctx, path):
    iexe, iout = lib.cargo_driver("topic")
    mexe, mout = lib.ocaml_driver("topic", "TopicX")
    lines = [l for l in open(path).read().splitlines() if l.strip() and not l.startswith("#")]
    txt = "\n".join(lines) + "\n"
    _, impl, _ = lib.run_on_text(iexe, txt)
    _, model, _ = lib.run_on_text(mexe, txt)
    rc = 0
    for l, a, m in zip(lines, impl, model):
        okl = all(r == m for r in a.split())
        print("%s  impl[%s] model[%s] %s" % (l, a, m, "ok" if okl else "VIOLATION"))
        if not okl:
            rc = 1
    if rc:
        print("VIOLATION property=C12 replay=%s" % path)
    return rc
