"""Clean-tree soak of the router monitors/correspondence: prints only alarms and divergences.
usage: python3 tools/soak_router.py <seed0> <nseeds> <n per kind> <size>"""
import sys, os
sys.path.insert(0, os.path.dirname(os.path.abspath(__file__)))
import lib, router_gen, router_mon, comp_router
seed0, nseeds, n, size = map(int, sys.argv[1:5])
iexe = os.path.join(lib.BUILD, "target", "debug", "router")
mexe = os.path.join(lib.BUILD, "ocaml", "router", "driver")
tot = 0
for sd in range(seed0, seed0 + nseeds):
    for kind in ["normal", "hostile", "session", "window", "shared", "retained", "will"]:
        rng = lib.Rng(sd * 1000 + ["normal", "hostile", "session", "window", "shared", "retained", "will"].index(kind))
        scs = router_gen.run_scenarios(iexe, rng, n, kind, size)
        ops, orc, impl, bounds = [], [], [], []
        for s in scs:
            bounds.append((len(ops), len(ops) + len(s.ops)))
            ops += s.ops; orc += s.oracles; impl += s.answers
        model = comp_router.run_model(mexe, ops, orc)
        for s, (a, b) in zip(scs, bounds):
            tot += 1
            d = comp_router.first_divergence(impl[a:b], model[a:b])
            w = router_mon.evaluate(s.ops, s.answers)
            if d is not None or w.v:
                print("ALARM seed", sd, kind, "div", d, [(p, t[:140]) for (_i, p, t) in w.v[:3]], flush=True)
print("soak done: histories", tot)
