#!/usr/bin/env python3
"""Regression over the kept seeded changes (/verif/seeded/<id>/patch.diff): for each one a scratch
worktree of /repo's HEAD is created outside /repo and /verif, the patch applied, the check(s) of the
property run against it (VERIF_REPO, separate cargo target dir), and the worktree removed again.
Expected: every seeded change yields `VIOLATION property=<id>` with a concrete replay.
usage: seeded_all.py [id ...]      results -> /verif/seeded/RESULTS.json
Nothing in /repo is touched."""
import json, os, subprocess, sys, time

ROOT = "/verif"
# checks that are expected to catch the change (first = the property the change was written for)
CHECKS = {"C14": ["C14", "C01"], "C20": ["C20"], "C13": ["C13"], "C03": ["C03"]}


def sh(cmd, **kw):
    p = subprocess.run(cmd, shell=True, stdout=subprocess.PIPE, stderr=subprocess.STDOUT, text=True, **kw)
    return p.returncode, p.stdout


def main():
    ids = sys.argv[1:] or sorted(d for d in os.listdir(os.path.join(ROOT, "seeded")) if os.path.isdir(os.path.join(ROOT, "seeded", d)))
    rp = os.path.join(ROOT, "seeded", "RESULTS.json")
    results = json.load(open(rp)) if os.path.exists(rp) else {}
    head = sh("git -C /repo rev-parse --short HEAD")[1].strip()
    for sid in ids:
        wt = "/tmp/wt-seeded-%s" % sid
        sh("git -C /repo worktree remove --force %s; git -C /repo worktree prune" % wt)
        rc, out = sh("git -C /repo worktree add --detach %s HEAD" % wt)
        t0 = time.time()
        res = {"repo_head": head, "applies": False, "checks": {}}
        try:
            rc, out = sh("git -C %s apply %s/seeded/%s/patch.diff" % (wt, ROOT, sid))
            if rc != 0:
                rc, out2 = sh("git -C %s apply --3way %s/seeded/%s/patch.diff" % (wt, ROOT, sid))
                if rc != 0:
                    res["apply_error"] = (out + out2)[-600:]
                    results[sid] = res
                    continue
            res["applies"] = True
            for prop in CHECKS.get(sid, [sid.split("-")[0]]):
                rc, out = sh("VERIF_REPO=%s python3 %s/tools/seeded_run.py %s" % (wt, ROOT, prop), cwd=ROOT, timeout=3600)
                lines = [l for l in out.splitlines() if l.startswith("VIOLATION property=%s " % prop)]
                verdict = "missed"
                if lines:
                    verdict = "caught-without-input" if "no-failing-input-found" in lines[0] else "caught"
                res["checks"][prop] = {"verdict": verdict, "line": (lines[0][:400] if lines else [l for l in out.splitlines() if l.startswith("PASS")][:1])}
                print("%s: check %s -> %s" % (sid, prop, verdict), flush=True)
        finally:
            sh("git -C /repo worktree remove --force %s; git -C /repo worktree prune; rm -rf %s" % (wt, wt))
        res["seconds"] = round(time.time() - t0)
        results[sid] = res
        json.dump(results, open(rp, "w"), indent=1, sort_keys=True)
    bad = [s for s in ids if not results.get(s, {}).get("applies") or results[s]["checks"].get(CHECKS.get(s, [s.split("-")[0]])[0], {}).get("verdict") != "caught"]
    print("seeded changes not caught with a concrete input by their own property's check:", bad)
    return 1 if bad else 0


if __name__ == "__main__":
    sys.exit(main())
