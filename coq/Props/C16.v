(** C16 (last will, router half) — pinned statements.  Only [Theorem .. exact ..]. *)
From Rumqtt Require Import Router.Will.

Theorem c16_router : forall st o st' out,
  step st o = Ok (st', out) ->
  match o with
  | OpConnect c =>
      r_wills st' = r_wills st \/
      (exists w, cr_will c = Some w /\ r_wills st' = al_set str_eqb (cr_client c) w (r_wills st)) \/
      (cr_will c = None /\ r_wills st' = al_remove str_eqb (cr_client c) (r_wills st))
  | OpData id =>
      r_wills st' = match data_removes_will st id with
                    | Some c => al_remove str_eqb c (r_wills st)
                    | None => r_wills st
                    end
  | OpWill c => r_wills st' = al_remove str_eqb c (r_wills st)
  | _ => r_wills st' = r_wills st
  end.
Proof. exact step_wills. Qed.

Theorem c16_connect : forall st conn link st',
  handle_new_connection st conn link = Ok st' ->
  let client := c_client conn in
  (validate_clientid client = false /\ st' = st) \/
  (validate_clientid client = true /\
   exists st1, takeover st client = Ok st1 /\ r_wills st1 = r_wills st /\
     (((cf_max_connections (r_cfg st1) <=? slab_len (r_conns st1)) = true /\ st' = st1) \/
      ((cf_max_connections (r_cfg st1) <=? slab_len (r_conns st1)) = false /\
       r_wills st' = match c_will conn with
                     | Some w => al_set str_eqb client w (r_wills st)
                     | None => al_remove str_eqb client (r_wills st)
                     end))).
Proof. exact hnc_wills. Qed.

Theorem c16_connect_registers : forall st conn link st' st1,
  handle_new_connection st conn link = Ok st' ->
  NoDup (map fst (r_wills st)) ->
  validate_clientid (c_client conn) = true -> takeover st (c_client conn) = Ok st1 ->
  (cf_max_connections (r_cfg st1) <=? slab_len (r_conns st1)) = false ->
  al_get str_eqb (c_client conn) (r_wills st') = c_will conn /\
  (forall c, c <> c_client conn -> al_get str_eqb c (r_wills st') = al_get str_eqb c (r_wills st)).
Proof. exact connect_registers. Qed.

Theorem c16_packet : forall st id client pk fl st1 fl1 brk,
  handle_packet st id client pk fl = Ok (st1, fl1, brk) ->
  r_wills st1 = match pk with
                | PDisconnect => al_remove str_eqb client (r_wills st)
                | _ => r_wills st
                end.
Proof. exact handle_packet_wills. Qed.

Theorem c16_packets : forall pks,
  forall st id client fl st' fl',
  handle_packets st id client pks fl = Ok (st', fl') ->
  r_wills st' = if disconnect_processed st id client pks fl
                then al_remove str_eqb client (r_wills st) else r_wills st.
Proof. exact handle_packets_wills. Qed.

Theorem c16_disconnect_packet_needed : forall st id client pks fl,
  disconnect_processed st id client pks fl = true -> In PDisconnect pks.
Proof. exact disconnect_processed_in. Qed.

Theorem c16_data : forall st id st',
  handle_device_payload st id = Ok st' ->
  r_wills st' = match data_removes_will st id with
                | Some c => al_remove str_eqb c (r_wills st)
                | None => r_wills st
                end.
Proof. exact handle_device_payload_wills. Qed.

Theorem c16_disconnection_keeps : forall st id reason st',
  handle_disconnection st id reason = Ok st' ->
  r_wills st' = r_wills st /\ dl_retained (r_datalog st') = dl_retained (r_datalog st) /\
  dl_logs (r_datalog st') = dl_logs (r_datalog st).
Proof. exact handle_disconnection_keeps. Qed.

Theorem c16_will : forall st client st',
  handle_last_will st client = Ok st' ->
  match al_get str_eqb client (r_wills st) with
  | None => st' = st
  | Some w =>
      let st1 := set_r_wills st (al_remove str_eqb client (r_wills st)) in
      r_wills st' = al_remove str_eqb client (r_wills st) /\
      if will_deliverable w then
        exists st3 idxs,
          dl_matches (retain_update st1 (w_topic w) (will_publish w) (will_props w)) (w_topic w) = Ok (st3, idxs) /\
          forall i, match nthN (dl_logs (r_datalog st)) i with
                    | Some (Some l) =>
                        exists l', nthN (dl_logs (r_datalog st')) i = Some (Some l') /\
                                   appended_n (set_p_retain (will_publish w) false, will_props w) (countN i idxs) l l'
                    | x => nthN (dl_logs (r_datalog st')) i = x
                    end
      else st' = st1
  end.
Proof. exact handle_last_will_spec. Qed.

Theorem c16_will_none : forall st client,
  al_get str_eqb client (r_wills st) = None -> handle_last_will st client = Ok st.
Proof. exact handle_last_will_none. Qed.

Theorem c16_append_all : forall idxs item,
  forall st st',
  append_all st idxs item = Ok st' ->
  forall i, match nthN (dl_logs (r_datalog st)) i with
            | Some (Some l) => exists l', nthN (dl_logs (r_datalog st')) i = Some (Some l') /\
                                          appended_n item (countN i idxs) l l'
            | x => nthN (dl_logs (r_datalog st')) i = x
            end.
Proof. exact append_all_logs. Qed.

Theorem c16_append_once : forall i l,
  NoDup l -> In i l -> countN i l = 1%nat.
Proof. exact countN_nodup. Qed.

Theorem c16_append_none : forall i l,
  ~ In i l -> countN i l = O.
Proof. exact countN_notin. Qed.

Theorem c16_wills_nodup : forall cfg st,
  reachable cfg st -> NoDup (map fst (r_wills st)).
Proof. exact reachable_wills_nodup. Qed.

Theorem c16_provenance : forall cfg ops st outs c w,
  run_from cfg ops = Ok (st, outs) -> In (c, w) (r_wills st) ->
  exists orc cr, In (orc, OpConnect cr) ops /\ cr_client cr = c /\ cr_will cr = Some w.
Proof. exact wills_provenance. Qed.

Theorem c16_no_will_no_append : forall cfg ops st outs c,
  run_from cfg ops = Ok (st, outs) ->
  (forall orc cr, In (orc, OpConnect cr) ops -> cr_client cr = c -> cr_will cr = None) ->
  step st (OpWill c) = Ok (st, OutUnit).
Proof. exact no_will_no_append. Qed.

Theorem c16_will_absent_stable : forall ops,
  forall st st' outs c,
  run st ops = Ok (st', outs) -> al_get str_eqb c (r_wills st) = None ->
  (forall orc cr, In (orc, OpConnect cr) ops -> cr_client cr = c -> cr_will cr = None) ->
  al_get str_eqb c (r_wills st') = None.
Proof. exact will_absent_stable. Qed.

Theorem c16_current_connection_without_will : forall st conn link st' st1 ops st'' outs,
  handle_new_connection st conn link = Ok st' ->
  NoDup (map fst (r_wills st)) ->
  validate_clientid (c_client conn) = true -> takeover st (c_client conn) = Ok st1 ->
  (cf_max_connections (r_cfg st1) <=? slab_len (r_conns st1)) = false ->
  c_will conn = None ->
  run st' ops = Ok (st'', outs) ->
  (forall orc cr, In (orc, OpConnect cr) ops -> cr_client cr = c_client conn -> cr_will cr = None) ->
  step st'' (OpWill (c_client conn)) = Ok (st'', OutUnit).
Proof. exact current_connection_without_will. Qed.

(** Epilogue of the per-connection task (M-STACK: the tail of remote() as the pure function
    [epilogue], compared with the real task by the stack driver). *)
From Rumqtt Require Stack.Model Stack.Spec Stack.Proofs.

Theorem c16_decision : forall e,
  Stack.Model.epilogue e Stack.Model.WaitTimeout =
  (match e with Stack.Model.RouterDrop => false | _ => true end, true).
Proof. exact Stack.Proofs.c16_decision. Qed.

Theorem c16_no_will_only_by_takeover : forall e w,
  snd (Stack.Model.epilogue e w) = false ->
  w = Stack.Model.WaitMsg Stack.Model.Cancel \/ w = Stack.Model.WaitClosed.
Proof. exact Stack.Proofs.c16_no_will_only_by_takeover. Qed.

(** which client id the PublishWill event carries: the id the will was REGISTERED under — the id the
    broker generated for a client that connected with an empty client id, the client's own otherwise *)
Theorem c16_will_event_id : forall connect_id generated,
  Stack.Model.will_event_id (Stack.Model.remote_ids connect_id generated) =
  Stack.Model.registered_id connect_id (Stack.Model.remote_ids connect_id generated).
Proof. exact Stack.Proofs.c16_will_event_id. Qed.

Theorem c16_will_event_id_assigned : forall generated,
  Stack.Model.id_assigned (Stack.Model.remote_ids [] generated) = Some generated /\
  Stack.Model.will_event_id (Stack.Model.remote_ids [] generated) = generated.
Proof. exact Stack.Proofs.c16_will_event_id_assigned. Qed.

Theorem c16_will_event_id_named : forall connect_id generated, connect_id <> [] ->
  Stack.Model.id_assigned (Stack.Model.remote_ids connect_id generated) = None /\
  Stack.Model.will_event_id (Stack.Model.remote_ids connect_id generated) = connect_id.
Proof. exact Stack.Proofs.c16_will_event_id_named. Qed.
