(** C10 — pinned statements (inbound flows, notifications).  Only [Theorem .. exact ..]. *)
From Rumqtt Require Import Client.Run4 Client.Inv4 Client.Wire4 Client.Events4 Client.State5 Client.Inv5.

Theorem c10_incoming : forall s pk, Inv s -> incoming_reply_spec s pk (handle_incoming_packet s pk).
Proof. exact incoming_flow. Qed.

Theorem c10_incoming_total : forall s pk, Inv s ->
  match handle_incoming_packet s pk with Ok (s', _) => Inv s' | Err (s', _) => Inv s' | Panic _ => False end.
Proof. exact handle_incoming_packet_inv. Qed.

Theorem c10_events_match_writes : forall s o s' rep, Inv s -> op_ok s o = true -> outcome s o = Some (s', rep) ->
  exists evs, events s' = events s ++ evs /\ writes_match o rep evs.
Proof. exact step_events. Qed.

(* v5: no incoming packet panics or breaks the bookkeeping (the reply/notification statements
   c10_incoming / c10_events_match_writes are not ported to v5: correspondence + monitors only) *)
Theorem c10_incoming_total_v5_partial : forall s pk, Client.Inv5.Inv5 s -> Client.Inv5.op_ok5 s (Client.State5.Inc5 pk) = true ->
  match Client.State5.handle_incoming_packet5 s pk with Ok (s', _) => Client.Inv5.Inv5 s' | Err (s', _) => Client.Inv5.Inv5 s' | Panic _ => False end.
Proof. exact Client.Inv5.handle_incoming_packet5_inv. Qed.
