(** C10 — pinned statements (inbound flows, notifications).  Only [Theorem .. exact ..]. *)
From Rumqtt Require Import Client.Run4 Client.Inv4 Client.Wire4 Client.Events4 Client.State5 Client.Inv5 Client.Loop Client.LoopProofs.
From Rumqtt Require Import Client.Eff5 Client.Flow5 Client.Wire5 Client.Events5.

Theorem c10_incoming : forall s pk, Inv s -> incoming_reply_spec s pk (handle_incoming_packet s pk).
Proof. exact incoming_flow. Qed.

Theorem c10_incoming_total : forall s pk, Inv s ->
  match handle_incoming_packet s pk with Ok (s', _) => Inv s' | Err (s', _) => Inv s' | Panic _ => False end.
Proof. exact handle_incoming_packet_inv. Qed.

Theorem c10_events_match_writes : forall s o s' rep, Inv s -> op_ok s o = true -> outcome s o = Some (s', rep) ->
  exists evs, events s' = events s ++ evs /\ writes_match o rep evs.
Proof. exact step_events. Qed.

(* v5: no incoming packet, CONNACK with any receive-maximum included, panics or breaks the bookkeeping *)
Theorem c10_incoming_total_v5 : forall s pk, Client.Inv5.Inv5 s ->
  match Client.State5.handle_incoming_packet5 s pk with Ok (s', _) => Client.Inv5.Inv5 s' | Err (s', _) => Client.Inv5.Inv5 s' | Panic _ => False end.
Proof. exact Client.Inv5.handle_incoming_packet5_inv. Qed.

Theorem c10_incoming_never_panics_v5 : forall s pk, Client.Inv5.Inv5 s ->
  match handle_incoming_packet5 s pk with Panic _ => False | _ => True end.
Proof. exact incoming_never_panics5. Qed.

(* v5 reply table: QoS 1 -> PUBACK id, QoS 2 -> PUBREC id + recorded, none under manual acks; an
   unknown topic alias on an empty topic -> DISCONNECT 0x82 and nothing else; PUBREL of a known id ->
   PUBCOMP (whatever the reason code), id cleared; PUBREC of a held publish -> PUBREL, or (failure
   reason) the flow ends; unsolicited PUBACK / PUBREC / PUBREL / PUBCOMP (any id up to 65535) -> Err
   with the state unchanged but for the Incoming notification; CONNACK: only the negotiated limit,
   the allocator and the alias maximum change, receive-maximum 0 is refused (Err, only the alias maximum taken); server DISCONNECT / client-only packets -> Err. *)
Theorem c10_incoming_v5 : forall s pk, Client.Inv5.Inv5 s -> incoming_reply_spec5 s pk (handle_incoming_packet5 s pk).
Proof. exact incoming_flow5. Qed.

(* v5: per op, the notifications queued are: for a broker packet exactly one Incoming, first, then one
   Outgoing per packet written (matching kind and id) and none otherwise; for a request one Outgoing
   per packet written; AwaitAck is the only announcement without a write. *)
Theorem c10_events_match_writes_v5 : forall s o s' rep, Client.Inv5.Inv5 s -> Client.Inv5.op_ok5 s o = true -> outcome5 s o = Some (s', rep) ->
  exists evs, s5_events s' = s5_events s ++ evs /\ writes_match5 o rep evs.
Proof. exact step5_events. Qed.

Theorem c10_events_match_writes_run_v5 : forall max manual h o s s' rep,
  1 <= max -> max <= 65535 -> Client.Inv5.contract5 (init5 max manual) (h ++ [o]) = true ->
  Client.Inv5.run5 (init5 max manual) h = Some s -> outcome5 s o = Some (s', rep) ->
  exists evs, s5_events s' = s5_events s ++ evs /\ writes_match5 o rep evs.
Proof. exact run5_events. Qed.

Theorem c10_nontrivial_v5 :
  let h := [Inc5 (P5Publish (mkPub5 Q1 7 5 1 (Some 3))); Inc5 (P5Publish (mkPub5 Q2 8 0 1 (Some 3)));
            Inc5 (P5PubRel 8 146); Out5 (R5Publish (mkPub5 Q2 0 1 1 None)); Inc5 (P5PubRec 1 135);
            Inc5 (P5PubComp 60000 0); Inc5 (P5Publish (mkPub5 Q1 9 0 1 (Some 4))); Inc5 (P5Disconnect 139)] in
  Client.Inv5.contract5 (init5 2 false) h = true /\
  trace5 (init5 2 false) h =
    [Some (P5PubAck 7 0); Some (P5PubRec 8 0); Some (P5PubComp 8 0); Some (P5Publish (mkPub5 Q2 1 1 1 None)); None;
     None; Some (P5Disconnect 130); None] /\
  option_map (fun s => (s5_events s, s5_inflight s)) (Client.Inv5.run5 (init5 2 false) h) =
    Some ([Ev5In (P5Publish (mkPub5 Q1 7 5 1 (Some 3))); Ev5Out (OPubAck 7);
           Ev5In (P5Publish (mkPub5 Q2 8 0 1 (Some 3))); Ev5Out (OPubRec 8);
           Ev5In (P5PubRel 8 146); Ev5Out (OPubComp 8);
           Ev5Out (OPublish 1); Ev5In (P5PubRec 1 135); Ev5In (P5PubComp 60000 0);
           Ev5In (P5Publish (mkPub5 Q1 9 0 1 (Some 4))); Ev5Out ODisconnect; Ev5In (P5Disconnect 139)], 0).
Proof. exact events5_nontrivial. Qed.

Theorem c10_readb_batch_keeps_all : forall inbox,
  fst (Client.Loop.readb_take inbox) ++ snd (Client.Loop.readb_take inbox) = inbox /\ (length (fst (Client.Loop.readb_take inbox)) <= 9)%nat.
Proof. exact Client.LoopProofs.readb_take_keeps_all. Qed.

(** ---- the v5 event loop (Client/Loop5.v) *)
From Rumqtt Require Client.Loop5 Client.Loop5Proofs.

Theorem c10_readb_batch_keeps_all_v5 : forall inbox,
  fst (Client.Loop5.readb_take5 inbox) ++ snd (Client.Loop5.readb_take5 inbox) = inbox /\
  (length (fst (Client.Loop5.readb_take5 inbox)) <= 9)%nat.
Proof. exact Client.Loop5Proofs.readb_take5_keeps_all. Qed.
