(** C10 — pinned statements (inbound flows, notifications).  Only [Theorem .. exact ..]. *)
From Rumqtt Require Import Client.Run4 Client.Inv4 Client.Wire4 Client.Events4.

Theorem c10_incoming : forall s pk, Inv s -> incoming_reply_spec s pk (handle_incoming_packet s pk).
Proof. exact incoming_flow. Qed.

Theorem c10_incoming_total : forall s pk, Inv s ->
  match handle_incoming_packet s pk with Ok (s', _) => Inv s' | Err (s', _) => Inv s' | Panic _ => False end.
Proof. exact handle_incoming_packet_inv. Qed.

Theorem c10_events_match_writes : forall s o s' rep, Inv s -> op_ok s o = true -> outcome s o = Some (s', rep) ->
  exists evs, events s' = events s ++ evs /\ writes_match o rep evs.
Proof. exact step_events. Qed.
