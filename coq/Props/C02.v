(** C02 — pinned statements (no accepted QoS1/2 publish is lost), state-machine level.
    Only [Theorem .. exact ..]. *)
From Rumqtt Require Import Client.Run4 Client.Inv4 Client.Flow4 Client.Findings4 Client.Loop Client.LoopProofs Client.State5 Client.Inv5.
From Rumqtt Require Import Client.Eff5 Client.Flow5.

Theorem c02_accept_held : forall s p s' rep, Inv s -> op_ok s (Out (RPublish p)) = true -> p_qos p <> Q0 ->
  handle_outgoing_packet s (RPublish p) = Ok (s', rep) ->
  exists id, 1 <= id <= max_inflight s /\ (p_pkid p <> 0 -> id = p_pkid p) /\
    holds s' (RPublish (with_pkid p id)) /\
    ((rep = Some (PPublish (with_pkid p id)) /\ busy s id = false /\
      vget (outgoing_pub s') id = Some (Some (with_pkid p id)))
     \/ (rep = None /\ collision s' = Some (with_pkid p id) /\ busy s id = true)).
Proof. exact accept_held. Qed.

Theorem c02_held : forall s o s', Inv s -> op_ok s o = true -> o <> Clean -> next step s o = Some s' ->
  forall r, holds s r -> holds s' r \/ final_ack o r \/ moved_to_release o r s'.
Proof. exact keep_held. Qed.

Theorem c02_clean_returns_held : forall s, Inv s ->
  exists s' l, clean s = Ok (s', l) /\ Permutation.Permutation l (held s) /\ held s' = [] /\ Inv s'.
Proof. exact clean_returns_held. Qed.

Theorem c02_held_iff : forall s r, Inv s -> (List.In r (held s) <-> holds s r).
Proof. exact in_held. Qed.

Theorem c02_f4_refuted_before_fix :
  clean_after step_orig 2 f4_history = Some [] /\ option_map inflight (run_orig (init 2 false) f4_history) = Some 0
  /\ clean_after step 2 f4_history = Some [RPublish (mkPub Q1 1 3 3)].
Proof. exact f4_summary. Qed.

Theorem c02_f8_refuted_before_fix :
  clean_after step_orig 1 [pq Q1 1; pq Q1 2] = Some [RPublish (mkPub Q1 1 1 1)]
  /\ clean_after step 1 [pq Q1 1; pq Q1 2] = Some [RPublish (mkPub Q1 1 1 1); RPublish (mkPub Q1 1 2 2)].
Proof. exact f8_summary. Qed.

Theorem c02_resume : forall l, Inv (Client.Loop.st l) -> Client.Loop.connected l = true ->
  exists l1 l2, Client.Loop.lstep l Client.Loop.Fail = Client.Loop.Stepped l1 /\
    Client.Loop.lstep l1 (Client.Loop.Reconnect true) = Client.Loop.Stepped l2 /\
    forall r, holds (Client.Loop.st l) r -> List.In r (Client.Loop.pending l2).
Proof. exact Client.LoopProofs.resume_holds_all. Qed.

Theorem c02_resume_needs_no_user_action : forall l r rest, Client.Loop.pending l = r :: rest ->
  Client.Loop.next_request l = Some (r, Client.Loop.mkLoop (Client.Loop.st l) rest (Client.Loop.chan l) (Client.Loop.connected l) (Client.Loop.wire l) (Client.Loop.yielded l)) /\
  (Client.Loop.connected l = true -> events (Client.Loop.st l) = [] -> inflight (Client.Loop.st l) < max_inflight (Client.Loop.st l) ->
   collision (Client.Loop.st l) = None -> Client.Loop.take_enabled l = true).
Proof. exact Client.LoopProofs.pending_first. Qed.

(* v5: clean() hands back everything held (publishes with their id and content, releases, the
   parked publish); the version with the invariant, and c02_accept_held / c02_held / c02_held_iff for
   v5, follow below (only the loop-level statements are not ported to v5). *)
Theorem c02_clean_returns_held_v5_partial : forall s,
  snd (Client.State5.clean5 s) = Client.Inv5.held5 s /\ Client.Inv5.held5 (fst (Client.State5.clean5 s)) = [].
Proof. exact Client.Inv5.clean5_returns_held. Qed.

Theorem c02_clean_returns_held_v5 : forall s, Client.Inv5.Inv5 s ->
  exists s' l, step5 s Clean5 = Ok (s', Cleaned5 l) /\ l = Client.Inv5.held5 s /\ Client.Inv5.held5 s' = [] /\ Client.Inv5.Inv5 s'
               /\ (forall r, holds5 s r -> List.In r l).
Proof. exact clean5_returns_held_inv. Qed.

(* v5: an accepted QoS>0 publish is held: written and recorded under its id (free before), or parked
   on a busy id.  A fresh id lies within the negotiated limit, a preset one within the configured one. *)
Theorem c02_accept_held_v5 : forall s p s' rep,
  Client.Inv5.Inv5 s -> Client.Inv5.op_ok5 s (Out5 (R5Publish p)) = true -> q_qos p <> Q0 ->
  handle_outgoing_packet5 s (R5Publish p) = Ok (s', rep) ->
  exists id, 1 <= id <= s5_max_limit s /\ (q_pkid p = 0 -> id <= s5_max s) /\ (q_pkid p <> 0 -> id = q_pkid p) /\
    holds5 s' (R5Publish (with_pkid5 p id)) /\
    ((rep = Some (P5Publish (with_pkid5 p id)) /\ Client.Inv5.busy5 s id = false /\
      vget (s5_pub s') id = Some (Some (with_pkid5 p id)))
     \/ (rep = None /\ s5_collision s' = Some (with_pkid5 p id) /\ Client.Inv5.busy5 s id = true)).
Proof. exact accept_held5. Qed.

(* v5: whatever is held stays held across every op but Clean, except through the listed exits:
   final_ack5 (PUBACK for a publish, PUBCOMP for a release; any reason code),
   refused_by_pubrec5 (v5 only: PUBREC with a failure reason ends the QoS 2 flow, no release),
   moved_to_release5 (accepting PUBREC: the release of the same id is held from then on). *)
Theorem c02_held_v5 : forall s o s', Client.Inv5.Inv5 s -> Client.Inv5.op_ok5 s o = true -> o <> Clean5 -> Client.Inv5.next5 s o = Some s' ->
  forall r, holds5 s r -> holds5 s' r \/ final_ack5 o r \/ refused_by_pubrec5 o r \/ moved_to_release5 o r s'.
Proof. exact keep_held5. Qed.

Theorem c02_held_iff_v5 : forall s r, Client.Inv5.Inv5 s -> (List.In r (Client.Inv5.held5 s) <-> holds5 s r).
Proof. exact in_held5. Qed.

(* v5, run level: along every contract-honouring history a held request is still held at the end
   unless an op of the history is one of its exits (or a Clean, which hands it back) *)
Theorem c02_held_run_v5 : forall s h s', Client.Inv5.Inv5 s -> Client.Inv5.contract5 s h = true -> Client.Inv5.run5 s h = Some s' ->
  forall r, holds5 s r -> holds5 s' r \/ exists o, List.In o h /\ exit5 o r.
Proof. exact run5_keeps_held. Qed.

Theorem c02_held_nontrivial_v5 :
  let pq q tag := Out5 (R5Publish (mkPub5 q 0 tag tag None)) in
  let h := [pq Q2 1; pq Q1 2; Inc5 (P5PubAck 2 0); pq Q1 3] in
  Client.Inv5.contract5 (init5 2 false) (h ++ [Inc5 (P5PubRec 1 135); Inc5 (P5PubAck 1 128)]) = true /\
  option_map Client.Inv5.held5 (Client.Inv5.run5 (init5 2 false) h) = Some [R5Publish (mkPub5 Q2 1 1 1 None); R5Publish (mkPub5 Q1 1 3 3 None)] /\
  option_map Client.Inv5.held5 (Client.Inv5.run5 (init5 2 false) (h ++ [Inc5 (P5PubRec 1 135)])) = Some [R5Publish (mkPub5 Q1 1 3 3 None)] /\
  option_map Client.Inv5.held5 (Client.Inv5.run5 (init5 2 false) (h ++ [Inc5 (P5PubRec 1 135); Inc5 (P5PubAck 1 128)])) = Some [] /\
  option_map Client.Inv5.held5 (Client.Inv5.run5 (init5 2 false) (h ++ [Inc5 (P5PubRec 1 16)])) = Some [R5PubRel 1; R5Publish (mkPub5 Q1 1 3 3 None)].
Proof. exact held5_nontrivial. Qed.

Theorem c02_throttle_cancel_safe : forall l, Client.Loop.lstep l Client.Loop.TakeCancelled = Client.Loop.Stepped l /\
  forall l', Client.Loop.lstep l Client.Loop.TakeCancelled = Client.Loop.Stepped l' ->
    Client.Loop.pending l' = Client.Loop.pending l /\ Client.Loop.chan l' = Client.Loop.chan l /\ Client.Loop.st l' = Client.Loop.st l.
Proof. exact Client.LoopProofs.throttle_cancel_safe. Qed.

(** ---- the v5 event loop (Client/Loop5.v): resume after a failure, ported.  The resumed session's
    CONNACK must be one the state machine accepts (receive-maximum absent or >= 1). *)
From Rumqtt Require Client.Loop5 Client.Loop5Proofs.

Theorem c02_resume_v5 : forall l rm tam, Inv5 (Client.Loop5.st5 l) -> Client.Loop5.connected5 l = true -> rm <> Some 0 ->
  exists l1 l2, Client.Loop5.lstep5 l Client.Loop5.Fail5 = Client.Loop5.Stepped5 l1 /\
    Client.Loop5.lstep5 l1 (Client.Loop5.Reconnect5 true rm tam) = Client.Loop5.Stepped5 l2 /\
    forall r, holds5 (Client.Loop5.st5 l) r -> List.In r (Client.Loop5.pending5 l2).
Proof. exact Client.Loop5Proofs.resume_holds_all5. Qed.

Theorem c02_resume_needs_no_user_action_v5 : forall l r rest, Client.Loop5.pending5 l = r :: rest ->
  Client.Loop5.next_request5 l = Some (r, Client.Loop5.mkLoop5 (Client.Loop5.st5 l) rest (Client.Loop5.chan5 l) (Client.Loop5.connected5 l) (Client.Loop5.wire5 l) (Client.Loop5.yielded5 l)) /\
  (Client.Loop5.connected5 l = true -> s5_events (Client.Loop5.st5 l) = [] -> s5_inflight (Client.Loop5.st5 l) < s5_max (Client.Loop5.st5 l) ->
   s5_collision (Client.Loop5.st5 l) = None -> Client.Loop5.take_enabled5 l = true).
Proof. exact Client.Loop5Proofs.pending_first5. Qed.

Theorem c02_throttle_cancel_safe_v5 : forall l, Client.Loop5.lstep5 l Client.Loop5.TakeCancelled5 = Client.Loop5.Stepped5 l /\
  forall l', Client.Loop5.lstep5 l Client.Loop5.TakeCancelled5 = Client.Loop5.Stepped5 l' ->
    Client.Loop5.pending5 l' = Client.Loop5.pending5 l /\ Client.Loop5.chan5 l' = Client.Loop5.chan5 l /\ Client.Loop5.st5 l' = Client.Loop5.st5 l.
Proof. exact Client.Loop5Proofs.throttle_cancel_safe5. Qed.

Theorem c02_resume_refused_connack_v5 : forall l tam, Inv5 (Client.Loop5.st5 l) -> Client.Loop5.connected5 l = true ->
  exists l1 l2, Client.Loop5.lstep5 l Client.Loop5.Fail5 = Client.Loop5.Stepped5 l1 /\
    Client.Loop5.lstep5 l1 (Client.Loop5.Reconnect5 true (Some 0) tam) = Client.Loop5.Failed5 l2 (Client.Loop5.LE5State (E5ConnFail 130)) /\
    Client.Loop5.connected5 l2 = false /\
    forall r, holds5 (Client.Loop5.st5 l) r -> List.In r (Client.Loop5.pending5 l2).
Proof. exact Client.Loop5Proofs.resume_refused_holds_all5. Qed.

Theorem c02_clean_above_negotiated_limit_v5 :
  option_map (fun l => (s5_max (Client.Loop5.st5 l), held5 (Client.Loop5.st5 l)))
    (Client.Loop5.lrun5 (Client.Loop5.linit5 3 false) Client.Loop5Proofs.above_limit5_history)
  = Some (2, [R5Publish (mkPub5 Q1 3 3 3 None)]) /\
  option_map (fun l => (Client.Loop5.pending5 l, held5 (Client.Loop5.st5 l), Client.Loop5.connected5 l))
    (Client.Loop5.lrun5 (Client.Loop5.linit5 3 false) (Client.Loop5Proofs.above_limit5_history ++ [Client.Loop5.Fail5]))
  = Some ([R5Publish (mkPub5 Q1 3 3 3 None)], [], false).
Proof. exact Client.Loop5Proofs.clean_above_negotiated_limit5. Qed.

(* v5 event loop: what the client owes (owed5 = the requests the state machine holds ++ the ones carried
   over in pending) is never dropped, along EVERY history of well-formed loop ops, except through:
   (1) the broker's word on it in a packet of a read batch (final ack, refusing PUBREC, accepting PUBREC
   -> the release of that id is owed instead); (2) a reconnect without session (pending.clear()); (3) it
   is at the head of pending, is taken, and the state machine REFUSES it: consumed, error returned, gone.
   Exit (3) is reachable for an accepted publish: finding, witness c02_alias_replay_loss_witness_v5. *)
From Rumqtt Require Client.LoopInv5.

Theorem c02_held_loop_step_v5 : forall l o l', Client.LoopInv5.LInv5 l -> Client.LoopInv5.wf_user5 o = true ->
  Client.Loop5.lnext5 l o = Some l' ->
  forall r, Client.LoopInv5.carried5 (s5_max_limit (Client.Loop5.st5 l)) r = true -> List.In r (Client.LoopInv5.owed5 l) ->
  List.In r (Client.LoopInv5.owed5 l') \/
  ((exists pk, List.In pk (Client.LoopInv5.op_pkts5 o) /\
      (final_ack5 (Inc5 pk) r \/ refused_by_pubrec5 (Inc5 pk) r \/ released5 (Inc5 pk) r))
   \/ (exists rm tam, o = Client.Loop5.Reconnect5 false rm tam)
   \/ (o = Client.Loop5.TakeRequest5 /\ exists rest s' e, Client.Loop5.pending5 l = r :: rest /\
         handle_outgoing_packet5 (Client.Loop5.st5 l) r = Err (s', e))).
Proof. exact Client.LoopInv5.lstep5_keeps_owed. Qed.

Theorem c02_held_loop_run_v5 : forall h l l', Client.LoopInv5.LInv5 l -> forallb Client.LoopInv5.wf_user5 h = true ->
  Client.Loop5.lrun5 l h = Some l' ->
  forall r, Client.LoopInv5.carried5 (s5_max_limit (Client.Loop5.st5 l)) r = true -> List.In r (Client.LoopInv5.owed5 l) ->
  List.In r (Client.LoopInv5.owed5 l') \/ Client.LoopInv5.lexit5_in l h r.
Proof. exact Client.LoopInv5.lrun5_keeps_owed. Qed.

(* the loop invariant of the two statements above holds in every reachable loop state *)
Theorem c02_loop_linv_reachable_v5 : forall h l, Client.LoopInv5.LInv5 l -> forallb Client.LoopInv5.wf_user5 h = true ->
  Client.Loop5Proofs.k7_5 l h = false /\ exists l', Client.Loop5.lrun5 l h = Some l' /\ Client.LoopInv5.LInv5 l'.
Proof. exact Client.LoopInv5.k7_5_never. Qed.

Theorem c02_loop_linv_init_v5 : forall max manual, 1 <= max -> max <= 65535 -> Client.LoopInv5.LInv5 (Client.Loop5.linit5 max manual).
Proof. exact Client.LoopInv5.linv5_init. Qed.

(* FINDING (not repaired): an accepted, written, unacknowledged QoS 1 publish carrying topic alias 5 is lost
   when the resumed session's CONNACK lowers topic-alias-maximum from 10 to 3: its retransmission is
   refused (InvalidAlias 5 3), the request is consumed, and nothing holds it any more *)
Theorem c02_alias_replay_loss_witness_v5 :
  let p := mkPub5 Q1 0 1 1 (Some 5) in
  let h := [Client.Loop5.Reconnect5 true None (Some 10); Client.Loop5.Yield5; Client.Loop5.UserSend5 (R5Publish p);
            Client.Loop5.TakeRequest5; Client.Loop5.Yield5; Client.Loop5.Fail5;
            Client.Loop5.Reconnect5 true None (Some 3); Client.Loop5.Yield5] in
  forallb Client.LoopInv5.wf_user5 (h ++ [Client.Loop5.TakeRequest5]) = true /\
  option_map (fun l => (Client.LoopInv5.owed5 l, Client.Loop5.chan5 l, Client.Loop5.wire5 l))
    (Client.Loop5.lrun5 (Client.Loop5.linit5 2 false) (firstn 5 h))
    = Some ([R5Publish (with_pkid5 p 1)], [], [P5Publish (with_pkid5 p 1)]) /\
  option_map (fun l => (Client.LoopInv5.owed5 l, Client.Loop5.chan5 l)) (Client.Loop5.lrun5 (Client.Loop5.linit5 2 false) h)
    = Some ([R5Publish (with_pkid5 p 1)], []) /\
  (exists l l', Client.Loop5.lrun5 (Client.Loop5.linit5 2 false) h = Some l /\
     Client.Loop5.lstep5 l Client.Loop5.TakeRequest5 = Client.Loop5.Failed5 l' (Client.Loop5.LE5State (E5InvalidAlias 5 3)) /\
     Client.LoopInv5.owed5 l' = [] /\ Client.Loop5.chan5 l' = [] /\ Client.Loop5.connected5 l' = false).
Proof. exact Client.LoopInv5.alias_lowered_replay_loses_publish5. Qed.

(* K-C02-v5-alias (known finding): the class predicate over a loop history, that it drops the
   request, and its witness (with two neighbours outside the class) *)
Theorem c02_k_alias_drops_request_v5 : forall l, Client.Loop5Proofs.alias_refused5 l = true ->
  exists p l1 a, Client.Loop5.next_request5 l = Some (R5Publish p, l1) /\ q_alias p = Some a /\
    Client.Loop5.lstep5 l Client.Loop5.TakeRequest5
    = Client.Loop5.Failed5 (Client.Loop5.loop_clean5 l1) (Client.Loop5.LE5State (E5InvalidAlias a (s5_alias_max (Client.Loop5.st5 l1)))).
Proof. exact Client.Loop5Proofs.alias_refused5_drops. Qed.

Theorem c02_k_alias_witness_v5 :
  Client.Loop5Proofs.k_alias5 (Client.Loop5.linit5 2 false) Client.Loop5Proofs.k_alias5_witness_history = true /\
  Client.Loop5Proofs.k_alias5 (Client.Loop5.linit5 2 false)
    [Client.Loop5.Reconnect5 true None (Some 10); Client.Loop5.Yield5; Client.Loop5.UserSend5 (R5Publish (mkPub5 Q1 0 1 1 (Some 3)));
     Client.Loop5.TakeRequest5; Client.Loop5.Yield5; Client.Loop5.Fail5; Client.Loop5.Reconnect5 true None (Some 3); Client.Loop5.Yield5;
     Client.Loop5.TakeRequest5] = false /\
  Client.Loop5Proofs.k_alias5 (Client.Loop5.linit5 2 false)
    [Client.Loop5.Reconnect5 true None (Some 3); Client.Loop5.Yield5; Client.Loop5.UserSend5 (R5Publish (mkPub5 Q1 0 1 1 (Some 5)));
     Client.Loop5.TakeRequest5] = false /\
  option_map (fun l => (Client.Loop5.pending5 l, held5 (Client.Loop5.st5 l), Client.Loop5.chan5 l, Client.Loop5.connected5 l))
    (Client.Loop5.lrun5 (Client.Loop5.linit5 2 false) Client.Loop5Proofs.k_alias5_witness_history)
  = Some ([], [], [], false).
Proof. exact Client.Loop5Proofs.k_alias5_witness. Qed.
