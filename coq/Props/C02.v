(** C02 — pinned statements (no accepted QoS1/2 publish is lost), state-machine level.
    Only [Theorem .. exact ..]. *)
From Rumqtt Require Import Client.Run4 Client.Inv4 Client.Flow4 Client.Findings4 Client.Loop Client.LoopProofs Client.State5 Client.Inv5.

Theorem c02_accept_held : forall s p s' rep, Inv s -> op_ok s (Out (RPublish p)) = true -> p_qos p <> Q0 ->
  handle_outgoing_packet s (RPublish p) = Ok (s', rep) ->
  exists id, 1 <= id <= max_inflight s /\ (p_pkid p <> 0 -> id = p_pkid p) /\
    holds s' (RPublish (with_pkid p id)) /\
    ((rep = Some (PPublish (with_pkid p id)) /\ busy s id = false /\
      vget (outgoing_pub s') id = Some (Some (with_pkid p id)))
     \/ (rep = None /\ collision s' = Some (with_pkid p id) /\ busy s id = true)).
Proof. exact accept_held. Qed.

Theorem c02_held : forall s o s', Inv s -> op_ok s o = true -> o <> Clean -> next step s o = Some s' ->
  forall r, holds s r -> holds s' r \/ final_ack o r \/ moved_to_release o r s'.
Proof. exact keep_held. Qed.

Theorem c02_clean_returns_held : forall s, Inv s ->
  exists s' l, clean s = Ok (s', l) /\ Permutation.Permutation l (held s) /\ held s' = [] /\ Inv s'.
Proof. exact clean_returns_held. Qed.

Theorem c02_held_iff : forall s r, Inv s -> (List.In r (held s) <-> holds s r).
Proof. exact in_held. Qed.

Theorem c02_f4_refuted_before_fix :
  clean_after step_orig 2 f4_history = Some [] /\ option_map inflight (run_orig (init 2 false) f4_history) = Some 0
  /\ clean_after step 2 f4_history = Some [RPublish (mkPub Q1 1 3 3)].
Proof. exact f4_summary. Qed.

Theorem c02_f8_refuted_before_fix :
  clean_after step_orig 1 [pq Q1 1; pq Q1 2] = Some [RPublish (mkPub Q1 1 1 1)]
  /\ clean_after step 1 [pq Q1 1; pq Q1 2] = Some [RPublish (mkPub Q1 1 1 1); RPublish (mkPub Q1 1 2 2)].
Proof. exact f8_summary. Qed.

Theorem c02_resume : forall l, Inv (Client.Loop.st l) -> Client.Loop.connected l = true ->
  exists l1 l2, Client.Loop.lstep l Client.Loop.Fail = Client.Loop.Stepped l1 /\
    Client.Loop.lstep l1 (Client.Loop.Reconnect true) = Client.Loop.Stepped l2 /\
    forall r, holds (Client.Loop.st l) r -> List.In r (Client.Loop.pending l2).
Proof. exact Client.LoopProofs.resume_holds_all. Qed.

Theorem c02_resume_needs_no_user_action : forall l r rest, Client.Loop.pending l = r :: rest ->
  Client.Loop.next_request l = Some (r, Client.Loop.mkLoop (Client.Loop.st l) rest (Client.Loop.chan l) (Client.Loop.connected l) (Client.Loop.wire l) (Client.Loop.yielded l)) /\
  (Client.Loop.connected l = true -> events (Client.Loop.st l) = [] -> inflight (Client.Loop.st l) < max_inflight (Client.Loop.st l) ->
   collision (Client.Loop.st l) = None -> Client.Loop.take_enabled l = true).
Proof. exact Client.LoopProofs.pending_first. Qed.

(* v5: clean() hands back everything held (publishes with their id and content, releases, the
   parked publish).  c02_accept_held / c02_held are not ported to v5 (correspondence + monitors only). *)
Theorem c02_clean_returns_held_v5_partial : forall s,
  snd (Client.State5.clean5 s) = Client.Inv5.held5 s /\ Client.Inv5.held5 (fst (Client.State5.clean5 s)) = [].
Proof. exact Client.Inv5.clean5_returns_held. Qed.
