(** C09 — pinned statements.  Only [Theorem .. exact ..]. *)
From Rumqtt Require Import Router.Model Router.RunDefs Router.WindowFrame Router.Window Router.WindowStep Router.WindowThm Router.WindowDisc Router.WindowResume Router.WindowExamples.

Theorem c09_window : forall (cfg : config) (st : rstate),
  reachable cfg st ->
  forall (id : N) (o : outgoing), slab_get (r_obufs st) id = Some o ->
  lenN (o_inflight o) <= 100 /\ (length (o_inflight o) <= 100)%nat /\
  (forall p, In p (pkids o) -> 1 <= p <= 100) /\
  NoDup (pkids o) /\
  o_last o < 100 /\
  (forall i e, nthN (o_inflight o) i = Some e ->
               pkid_of e = (o_last o + 100 - lenN (o_inflight o) + i) mod 100 + 1) /\
  (forall i p q, nthN (pkids o) i = Some p -> nthN (pkids o) (i + 1) = Some q ->
                 q = if p =? 100 then 1 else p + 1) /\
  (forall p, nthN (pkids o) (lenN (o_inflight o) - 1) = Some p ->
             o_last o = if p =? 100 then 0 else p).
Proof. exact c09_window_thm. Qed.

Theorem c09_forward_ids : forall (cfg : config) (st : rstate) (orc : list oracle) (op : rop) (st' : rstate) (out : rout),
  reachable cfg st -> step_with st orc op = Ok (st', out) ->
  forall (k : N) (added : list notification), out_of st' k = out_of st k ++ added ->
  fwd_ids added = [] \/
  exists id o o',
    slab_get (r_obufs st) id = Some o /\ slab_get (r_obufs st') id = Some o' /\
    o_link o = k /\ o_link o' = k /\
    pkids o' = pkids o ++ fwd_ids added /\ window_ok o' /\
    NoDup (fwd_ids added) /\
    (forall p, In p (fwd_ids added) -> 1 <= p <= 100 /\ ~ In p (pkids o)).
Proof. exact c09_forward_ids_thm. Qed.

Theorem c09_unsolicited_packet : forall (st : rstate) (id : N) (client : str) (pk : packet) (fl : flags)
    (st1 : rstate) (fl1 : flags) (brk : bool) (o : outgoing),
  handle_packet st id client pk fl = Ok (st1, fl1, brk) ->
  slab_get (r_obufs st) id = Some o ->
  match pk with
  | PPubAck pkid | PPubRec pkid => match o_inflight o with [] => True | h :: _ => pkid <> pkid_of h end
  | PPubComp pkid => match o_pubrels o with [] => True | h :: _ => pkid <> h end
  | _ => False
  end ->
  brk = true /\ f_disconnect fl1 = true /\ f_reason fl1 = f_reason fl /\
  f_force_ack fl1 = f_force_ack fl /\ f_new_data fl1 = f_new_data fl /\
  keep st1 = keep (put_obuf st id (match pk with
                                   | PPubComp pkid => fst (register_pubcomp o pkid)
                                   | PPubAck pkid | PPubRec pkid => fst (register_ack o pkid)
                                   | _ => o end)).
Proof. exact handle_packet_unsolicited. Qed.

Theorem c09_disconnection_frame : forall (st : rstate) (id : N) (reason : option N) (st' : rstate),
  handle_disconnection st id reason = Ok st' ->
  slab_get (r_obufs st') id = None /\
  forall id', id' <> id ->
    slab_get (r_conns st') id' = slab_get (r_conns st) id' /\
    slab_get (r_obufs st') id' = slab_get (r_obufs st) id' /\
    slab_get (r_trackers st') id' = slab_get (r_trackers st) id' /\
    slab_get (r_acks st') id' = slab_get (r_acks st) id' /\
    slab_get (r_ibufs st') id' = slab_get (r_ibufs st) id'.
Proof. exact handle_disconnection_others. Qed.

Theorem c09_unsolicited : forall (st : rstate) (id : N) (inc : incoming) (b : linkbuf) (s : rstate) (fls : flags)
    (p : packet) (o : outgoing) (st' : rstate),
  slab_get (r_ibufs st) id = Some inc -> nthN (r_links st) (i_link inc) = Some b ->
  processed id (i_client inc) (link_put st (i_link inc) (set_lk_in b [])) flags0 (lk_in b) s fls p ->
  slab_get (r_obufs s) id = Some o -> unsolicited o p ->
  handle_device_payload st id = Ok st' ->
  exists s1 fl1 st3,
    handle_packet s id (i_client inc) p fls = Ok (s1, fl1, true) /\ f_disconnect fl1 = true /\
    handle_packets (link_put st (i_link inc) (set_lk_in b [])) id (i_client inc) (lk_in b) flags0 = Ok (s1, fl1) /\
    keep st3 = keep s1 /\
    handle_disconnection st3 id (f_reason fl1) = Ok st' /\
    slab_get (r_obufs st') id = None /\
    forall id', id' <> id ->
      slab_get (r_conns st') id' = slab_get (r_conns st3) id' /\
      slab_get (r_obufs st') id' = slab_get (r_obufs st3) id' /\
      slab_get (r_trackers st') id' = slab_get (r_trackers st3) id' /\
      slab_get (r_acks st') id' = slab_get (r_acks st3) id' /\
      slab_get (r_ibufs st') id' = slab_get (r_ibufs st3) id'.
Proof. exact c09_unsolicited_thm. Qed.

Theorem c09_resume_puback_partial : forall (st : rstate) (id : N) (client : str) (pkid : N) (fl : flags)
    (o : outgoing) (h : N * N * option cursor) (r : list (N * N * option cursor)) (t : tracker),
  slab_get (r_obufs st) id = Some o -> o_inflight o = h :: r -> pkid = pkid_of h ->
  slab_get (r_trackers st) id = Some t ->
  handle_packet st id client (PPubAck pkid) fl =
    Ok (let st1 := put_tracker (put_obuf st id (set_o_inflight o r)) id (fst (woken t)) in
        if snd (woken t) then set_r_ready st1 (r_ready st ++ [id]) else st1, fl, false).
Proof. exact handle_packet_puback_inorder. Qed.

Theorem c09_resume_pubrec_partial : forall (st : rstate) (id : N) (client : str) (pkid : N) (fl : flags)
    (o : outgoing) (h : N * N * option cursor) (r : list (N * N * option cursor)) (t : tracker) (l : acklog),
  slab_get (r_obufs st) id = Some o -> o_inflight o = h :: r -> pkid = pkid_of h ->
  slab_get (r_trackers st) id = Some t -> slab_get (r_acks st) id = Some l ->
  handle_packet st id client (PPubRec pkid) fl =
    Ok (let st0 := put_acks (put_obuf st id (set_o_pubrels (set_o_inflight o r) (o_pubrels o ++ [pkid]))) id
                     (set_a_committed l (a_committed l ++ [APubRel pkid])) in
        let st1 := put_tracker st0 id (fst (woken t)) in
        if snd (woken t) then set_r_ready st1 (r_ready st ++ [id]) else st1, fl, false).
Proof. exact handle_packet_pubrec_inorder. Qed.

Theorem c09_resume_woken_partial : forall t : tracker,
  match tr_status t with
  | Paused InflightFull | Paused Caughtup =>
      tr_status (fst (woken t)) = Ready /\ snd (woken t) = true /\ tr_reqs (fst (woken t)) = tr_reqs t
  | Ready | Paused Busy => woken t = (t, false)
  end.
Proof. exact woken_cases. Qed.

Theorem c09_resume_ready_partial : forall (st : rstate) (id : N) (t : tracker),
  slab_get (r_trackers st) id = Some t -> tr_status t = Paused Busy ->
  step st (OpReady id) =
    Ok (set_r_ready (put_tracker st id (set_tr_status t Ready)) (r_ready st ++ [id]), OutUnit).
Proof. exact step_ready_busy. Qed.

Theorem c09_resume_consume_partial : forall (st : rstate) (id : N) (rest : list N) (t : tracker) (o : outgoing),
  r_ready st = id :: rest -> slab_get (r_trackers st) id = Some t -> slab_get (r_obufs st) id = Some o ->
  consume st =
    (let st2 := set_r_ready (put_tracker (set_r_ready st rest) id (set_tr_reqs t [])) (rest ++ [id]) in
     do st3 <- ack_device_data st2 id o;
     do _ <- (match slab_get (r_conns st3) id with Some _ => Ok tt | None => Panic P_OBUF_INDEX end);
     do st4 <- consume_loop (N.to_nat MAX_SCHEDULE_ITERATIONS) st3 id (tr_reqs t) [];
     Ok (st4, true)).
Proof. exact consume_takes_all. Qed.

Theorem c09_unsolicited_isolation : forall (st : rstate) (id : N) (st' : rstate),
  handle_device_payload st id = Ok st' ->
  forall id', id' <> id ->
    slab_get (r_obufs st') id' = slab_get (r_obufs st) id' /\
    slab_get (r_acks st') id' = slab_get (r_acks st) id' /\
    slab_get (r_conns st') id' = slab_get (r_conns st) id' /\
    slab_get (r_ibufs st') id' = slab_get (r_ibufs st) id' /\
    (forall t, slab_get (r_trackers st) id' = Some t ->
       exists t', slab_get (r_trackers st') id' = Some t' /\ (tr_status t = Ready -> tr_status t' = Ready)) /\
    (slab_get (r_trackers st) id' = None -> slab_get (r_trackers st') id' = None).
Proof. exact device_data_isolation. Qed.

Theorem c09_resume : forall (st : rstate) (id : N) (inc : incoming) (b : linkbuf) (s : rstate) (fls : flags)
    (p : packet) (pkid : N) (o : outgoing) (h : N * N * option cursor) (r : list (N * N * option cursor))
    (t : tracker) (st' : rstate),
  slab_get (r_ibufs st) id = Some inc -> nthN (r_links st) (i_link inc) = Some b ->
  processed id (i_client inc) (link_put st (i_link inc) (set_lk_in b [])) flags0 (lk_in b) s fls p ->
  p = PPubAck pkid \/ p = PPubRec pkid ->
  slab_get (r_obufs s) id = Some o -> o_inflight o = h :: r -> pkid = pkid_of h ->
  slab_get (r_trackers s) id = Some t ->
  tr_status t = Paused InflightFull \/ tr_status t = Paused Caughtup \/ (tr_status t = Ready /\ In id (r_ready s)) ->
  handle_device_payload st id = Ok st' -> slab_get (r_obufs st') id <> None ->
  exists t', slab_get (r_trackers st') id = Some t' /\ tr_status t' = Ready /\ In id (r_ready st').
Proof. exact resume_after_ack. Qed.

Theorem c09_window_fresh : forall (c : str) (l : N) (pr : list N),
  WinInv {| o_client := c; o_link := l; o_inflight := []; o_pubrels := pr; o_last := 0 |}.
Proof. exact WinInv_fresh. Qed.

Theorem c09_window_push : forall (fw : list (option cursor * publish * option pprops)) (o : outgoing) (fidx : N),
  WinInv o -> lenN (o_inflight o) + lenN fw <= MAX_INFLIGHT -> WinInv (fst (number_forwards o fidx fw)).
Proof. exact number_forwards_WinInv. Qed.

Theorem c09_window_ack : forall (o : outgoing) (pkid : N) (o' : outgoing) (ok : bool),
  register_ack o pkid = (o', ok) -> WinInv o -> WinInv o'.
Proof. exact register_ack_WinInv. Qed.

Theorem c09_ack_pops_head_only : forall (o : outgoing) (pkid : N) (o' : outgoing) (ok : bool),
  register_ack o pkid = (o', ok) ->
  match o_inflight o with
  | [] => o' = o /\ ok = false
  | h :: r => if pkid =? pkid_of h then o' = set_o_inflight o r /\ ok = true else o' = o /\ ok = false
  end.
Proof. exact register_ack_head. Qed.

(** an acknowledgement for anything but the head leaves the window / the pending releases as they
    are (the repaired iobufs.rs; before, the head was popped first) *)
Theorem c09_ack_mismatch : forall (o : outgoing) (pkid : N),
  match o_inflight o with [] => True | h :: _ => pkid <> pkid_of h end ->
  register_ack o pkid = (o, false).
Proof. exact register_ack_mismatch. Qed.

Theorem c09_pubcomp_mismatch : forall (o : outgoing) (pkid : N),
  match o_pubrels o with [] => True | h :: _ => pkid <> h end ->
  register_pubcomp o pkid = (o, false).
Proof. exact register_pubcomp_mismatch. Qed.

Theorem c09_unsolicited_keeps_window : forall (st : rstate) (id : N) (client : str) (pk : packet) (fl : flags)
    (st1 : rstate) (fl1 : flags) (brk : bool) (o : outgoing),
  handle_packet st id client pk fl = Ok (st1, fl1, brk) ->
  slab_get (r_obufs st) id = Some o -> unsolicited o pk ->
  keep st1 = keep (put_obuf st id o) /\ slab_get (r_obufs st1) id = Some o /\
  (forall id', id' <> id -> slab_get (r_obufs st1) id' = slab_get (r_obufs st) id').
Proof. exact handle_packet_unsolicited_keeps. Qed.

Theorem c09_forward_within_slots : forall (st : rstate) (id : N) (rq : drequest) (st' : rstate) (rq' : drequest)
    (cs : consume_status),
  forward_device_data st id rq = Ok (st', rq', cs) ->
  exists o, slab_get (r_obufs st) id = Some o /\
    exists o' notifs tail,
      (r_acks st' = r_acks st /\ lenN (r_links st') = lenN (r_links st) /\
       (forall k, in_of st' k = in_of st k) /\
       r_obufs st' = slab_put (r_obufs st) id o' /\
       (forall k, out_of st' k = out_of st k ++ (if k =? o_link o then notifs ++ tail else [])) /\
       (tail = [] \/ tail = [NUnschedule])) /\
      ((o' = o /\ Forall is_fwd0 notifs) \/
       (exists fidx fw, lenN (o_inflight o) + lenN fw <= MAX_INFLIGHT /\
                        Forall (fun x : option cursor * publish * option pprops => p_qos (snd (fst x)) <> 0) fw /\
                        number_forwards o fidx fw = (o', notifs))).
Proof. exact forward_device_data_spec. Qed.

Theorem c09_window_constants : MAX_INFLIGHT = 100 /\ MAX_PKID = 100.
Proof. exact (conj MAX_INFLIGHT_100 MAX_PKID_100). Qed.

(** ---- resumption needs no further stimulus (Router/WakeCor.v) ---------------------------------
    [ahead id q] (Router/IsolationReady.v) = the entries of the ready queue in front of the
    first occurrence of [id].  A connection that is Ready and queued is at the head of the queue
    after exactly |ahead| further [consume] calls (fewer than the queue is long; nobody overtakes:
    [c14_ready_progress]) — whatever else is queued, with no packet, ack or Ready from anybody in
    between — its tracker untouched, and that [consume] takes ALL its data requests into the
    sweep loop.  [c09_resume_no_stimulus]: this is the situation after the DeviceData event that
    processes an in-order PUBACK / PUBREC for a connection that was Paused InflightFull. *)
From Rumqtt Require Import Router.Inv Router.IsolationReady Router.WakeCor.
From Rumqtt Require Import Router.Model Router.RunDefs.

Theorem c09_served_after_ahead : forall (ops : list (list oracle * rop)) (st : rstate) (id : N) (t : tracker) (st2 : rstate),
  RInv st -> slab_get (r_trackers st) id = Some t -> In id (r_ready st) ->
  Forall (fun x : list oracle * rop => snd x = OpConsume) ops ->
  length ops = length (ahead id (r_ready st)) ->
  run st ops = Ok st2 ->
  exists (rest : list N) (o : outgoing),
    r_ready st2 = id :: rest /\ slab_get (r_trackers st2) id = Some t /\ slab_get (r_obufs st2) id = Some o /\
    consume st2 =
      (let s2 := set_r_ready (put_tracker (set_r_ready st2 rest) id (set_tr_reqs t [])) (rest ++ [id]) in
       do s3 <- ack_device_data s2 id o;
       do _ <- (match slab_get (r_conns s3) id with Some _ => Ok tt | None => Panic P_OBUF_INDEX end);
       do s4 <- consume_loop (N.to_nat MAX_SCHEDULE_ITERATIONS) s3 id (tr_reqs t) [];
       Ok (s4, true)).
Proof. exact served_after_ahead. Qed.

Theorem c09_resume_no_stimulus : forall (st : rstate) (id : N) (inc : incoming) (b : linkbuf) (s : rstate) (fls : flags)
    (p : packet) (pkid : N) (o : outgoing) (h : N * N * option cursor) (r : list (N * N * option cursor))
    (t : tracker) (st' : rstate),
  slab_get (r_ibufs st) id = Some inc -> nthN (r_links st) (i_link inc) = Some b ->
  processed id (i_client inc) (link_put st (i_link inc) (set_lk_in b [])) flags0 (lk_in b) s fls p ->
  p = PPubAck pkid \/ p = PPubRec pkid ->
  slab_get (r_obufs s) id = Some o -> o_inflight o = h :: r -> pkid = pkid_of h ->
  slab_get (r_trackers s) id = Some t ->
  tr_status t = Paused InflightFull \/ tr_status t = Paused Caughtup \/ (tr_status t = Ready /\ In id (r_ready s)) ->
  handle_device_payload st id = Ok st' -> slab_get (r_obufs st') id <> None ->
  RInv st' ->
  exists t' : tracker, slab_get (r_trackers st') id = Some t' /\ tr_status t' = Ready /\ In id (r_ready st') /\
    (length (ahead id (r_ready st')) < length (r_ready st'))%nat /\
    forall (ops : list (list oracle * rop)) (st2 : rstate),
      Forall (fun x : list oracle * rop => snd x = OpConsume) ops ->
      length ops = length (ahead id (r_ready st')) ->
      run st' ops = Ok st2 ->
      exists (rest : list N) (o2 : outgoing),
        r_ready st2 = id :: rest /\ slab_get (r_trackers st2) id = Some t' /\ slab_get (r_obufs st2) id = Some o2 /\
        consume st2 =
          (let s2 := set_r_ready (put_tracker (set_r_ready st2 rest) id (set_tr_reqs t' [])) (rest ++ [id]) in
           do s3 <- ack_device_data s2 id o2;
           do _ <- (match slab_get (r_conns s3) id with Some _ => Ok tt | None => Panic P_OBUF_INDEX end);
           do s4 <- consume_loop (N.to_nat MAX_SCHEDULE_ITERATIONS) s3 id (tr_reqs t') [];
           Ok (s4, true)).
Proof. exact resume_no_stimulus. Qed.
