(** C12 — pinned statements.  Only [Theorem .. exact ..], [Check] pins and [Print Assumptions]. *)
From Rumqtt Require Import Topic.Spec Topic.Proofs.

Theorem c12_matches_total : forall t f, is_panic (matches t f) = false.
Proof. exact matches_total. Qed.

Theorem c12_matches_spec : forall t f, topic_ok t -> filter_ok f ->
  (matches t f = Ok true <-> (starts_with_dollar t = false /\ lmatch (split t) (split f))).
Proof. exact matches_spec. Qed.

Theorem c12_dollar_never_matched : forall t f,
  starts_with_dollar t = true -> matches t f = Ok false.
Proof. exact dollar_never_matched. Qed.

Theorem c12_valid_filter_spec : forall f, valid_filter f = true <-> filter_ok f.
Proof. exact valid_filter_spec. Qed.

Theorem c12_valid_topic_spec : forall t, valid_topic t = true <-> topic_ok t.
Proof. exact valid_topic_spec. Qed.

Theorem c12_has_wildcards_spec : forall s, has_wildcards s = true <-> (In PLUS s \/ In HASH s).
Proof. exact has_wildcards_spec. Qed.

Theorem c12_split_join : forall ls, ls <> [] -> Forall (fun l => ~ In SLASH l) ls -> split (join ls) = ls.
Proof. exact split_join. Qed.

(** The broker's topic -> filters cache (DataLog::matches / next_native_offset in router/logs.rs) in
    every state the router can reach by ANY op sequence (any order of creating filters and first
    publishing topics, any HashMap order): a cached topic lists every existing filter that matches
    it by [matches] — exactly once — and only logs whose filter matches it. *)
From Rumqtt Require Router.CacheSpec Router.Types Router.Model Router.RunDefs.

Theorem c12_cache_complete : forall (cfg : Router.Types.config) (st0 : Router.Types.rstate)
    (ops : list (list Router.Types.oracle * Router.Model.rop)) (st : Router.Types.rstate),
  Router.Model.init cfg = Ok st0 -> Router.RunDefs.run st0 ops = Ok st ->
  forall (t : list N) (v : list N), In (t, v) (Router.Types.dl_pfilters (Router.Types.r_datalog st)) ->
    NoDup v /\ forall (f : list N) (i : N), In (f, i) (Router.Types.dl_findex (Router.Types.r_datalog st)) ->
      matches t f = Ok true -> In i v.
Proof. exact Router.CacheSpec.cache_complete. Qed.

Theorem c12_cache_sound : forall (cfg : Router.Types.config) (st0 : Router.Types.rstate)
    (ops : list (list Router.Types.oracle * Router.Model.rop)) (st : Router.Types.rstate),
  Router.Model.init cfg = Ok st0 -> Router.RunDefs.run st0 ops = Ok st ->
  forall (t : list N) (v : list N) (i : N), In (t, v) (Router.Types.dl_pfilters (Router.Types.r_datalog st)) -> In i v ->
    exists d, Router.Types.slab_get (Router.Types.dl_native (Router.Types.r_datalog st)) i = Some d /\
              matches t (Router.Types.d_filter d) = Ok true.
Proof. exact Router.CacheSpec.cache_sound. Qed.
