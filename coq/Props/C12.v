(** C12 — pinned statements.  Only [Theorem .. exact ..], [Check] pins and [Print Assumptions]. *)
From Rumqtt Require Import Topic.Spec Topic.Proofs.

Theorem c12_matches_total : forall t f, is_panic (matches t f) = false.
Proof. exact matches_total. Qed.

Theorem c12_matches_spec : forall t f, topic_ok t -> filter_ok f ->
  (matches t f = Ok true <-> (starts_with_dollar t = false /\ lmatch (split t) (split f))).
Proof. exact matches_spec. Qed.

Theorem c12_dollar_never_matched : forall t f,
  starts_with_dollar t = true -> matches t f = Ok false.
Proof. exact dollar_never_matched. Qed.

Theorem c12_valid_filter_spec : forall f, valid_filter f = true <-> filter_ok f.
Proof. exact valid_filter_spec. Qed.

Theorem c12_valid_topic_spec : forall t, valid_topic t = true <-> topic_ok t.
Proof. exact valid_topic_spec. Qed.

Theorem c12_has_wildcards_spec : forall s, has_wildcards s = true <-> (In PLUS s \/ In HASH s).
Proof. exact has_wildcards_spec. Qed.

Theorem c12_split_join : forall ls, ls <> [] -> Forall (fun l => ~ In SLASH l) ls -> split (join ls) = ls.
Proof. exact split_join. Qed.
