(** C11 — pinned statements (retransmit first, original id and content, order).  Only [Theorem .. exact ..]. *)
From Rumqtt Require Import Client.Run4 Client.Inv4 Client.Flow4 Client.Findings4 Client.Loop Client.LoopProofs Client.Order4.

Theorem c11_first : forall l, Inv (st l) -> connected l = true ->
  exists l1 l2 reqs,
    lstep l Fail = Stepped l1 /\ lstep l1 (Reconnect true) = Stepped l2 /\
    Permutation.Permutation reqs (held (st l)) /\
    pending l2 = reqs ++ pending l ++ filter not_puback (chan l) /\ chan l2 = [] /\
    held (st l2) = [] /\ wire l2 = [] /\ connected l2 = true /\ Inv (st l2).
Proof. exact fail_then_resume. Qed.

Theorem c11_pending_before_channel : forall l r rest, pending l = r :: rest ->
  next_request l = Some (r, mkLoop (st l) rest (chan l) (connected l) (wire l) (yielded l)) /\
  (connected l = true -> events (st l) = [] -> inflight (st l) < max_inflight (st l) -> collision (st l) = None ->
   take_enabled l = true).
Proof. exact pending_first. Qed.

Theorem c11_f31_refuted_before_fix :
  option_map wire (lrun_orig (linit 1 false) f31_loop_history) = Some [PPublish (mkPub Q1 1 2 2)]
  /\ option_map (fun l => (wire l, pending l)) (lrun (linit 1 false) f31_loop_history) = Some ([PPubRel 1], [pq1 2]).
Proof. exact f31_loop_witness. Qed.

Theorem c11_no_session : forall l, connected l = false ->
  exists l', lstep l (Reconnect false) = Stepped l' /\ pending l' = [] /\ wire l' = [] /\ connected l' = true.
Proof. exact reconnect_no_session. Qed.

Theorem c11_f30_witness :
  k30 f30_history = true /\ k29 2 false f30_history = false /\ contract (init 2 false) f30_history = true
  /\ clean_after step 2 f30_history = Some [RPublish (mkPub Q1 1 2 2); RPublish (mkPub Q1 2 1 1)].
Proof. exact f30_witness. Qed.

Theorem c11_f29_witness :
  k29 2 false f29_history = true /\ k30 f29_history = false /\ contract (init 2 false) f29_history = true
  /\ clean_after step 2 f29_history = Some [RPublish (mkPub Q1 1 3 3); RPublish (mkPub Q1 2 2 2)].
Proof. exact f29_witness. Qed.

Theorem c11_order_v4 : forall max manual h s L, 1 <= max -> max <= 65535 ->
  Client.Order4.orun (init max manual) [] h = Some (s, L) ->
  exists s', clean s = Ok (s', map RPublish L ++ parked s).
Proof. exact Client.Order4.clean_in_send_order. Qed.

(* repeated failures: each Resume = clean() + exact replay of what it returned (ids kept) through
   handle_outgoing_packet; a replayed publish keeps its place.  Not covered by a theorem: a failure
   in the MIDDLE of a replay (the event loop keeps the unreplayed rest in pending) — that is checked
   on the real loop by the end-to-end order monitor only. *)
Theorem c11_order_repeated : forall max manual segs s L, 1 <= max -> max <= 65535 ->
  Client.Order4.srun (init max manual) [] segs = Some (s, L) ->
  exists s', clean s = Ok (s', map RPublish L ++ parked s).
Proof. exact Client.Order4.clean_in_send_order_repeated. Qed.

(** ---- the v5 event loop (Client/Loop5.v): retransmit first, ported.  v5 [clean] returns exactly
    [held5] (index order), so the carried-over prefix is a list equation.  The in-order clause
    (c11_order_v4 / c11_order_repeated) is NOT ported: the v5 state machine has no last_puback. *)
From Rumqtt Require Client.State5 Client.Inv5 Client.Loop5 Client.Loop5Proofs.

Theorem c11_first_v5 : forall l rm tam, Client.Inv5.Inv5 (Client.Loop5.st5 l) -> Client.Loop5.connected5 l = true -> rm <> Some 0 ->
  exists l1 l2,
    Client.Loop5.lstep5 l Client.Loop5.Fail5 = Client.Loop5.Stepped5 l1 /\
    Client.Loop5.lstep5 l1 (Client.Loop5.Reconnect5 true rm tam) = Client.Loop5.Stepped5 l2 /\
    Client.Loop5.pending5 l2 = Client.Inv5.held5 (Client.Loop5.st5 l) ++ Client.Loop5.pending5 l ++ filter Client.Loop5.not_puback5 (Client.Loop5.chan5 l) /\
    Client.Loop5.chan5 l2 = [] /\ Client.Inv5.held5 (Client.Loop5.st5 l2) = [] /\ Client.Loop5.wire5 l2 = [] /\
    Client.Loop5.connected5 l2 = true /\ Client.Inv5.Inv5 (Client.Loop5.st5 l2).
Proof. exact Client.Loop5Proofs.fail_then_resume5. Qed.

Theorem c11_pending_before_channel_v5 : forall l r rest, Client.Loop5.pending5 l = r :: rest ->
  Client.Loop5.next_request5 l = Some (r, Client.Loop5.mkLoop5 (Client.Loop5.st5 l) rest (Client.Loop5.chan5 l) (Client.Loop5.connected5 l) (Client.Loop5.wire5 l) (Client.Loop5.yielded5 l)) /\
  (Client.Loop5.connected5 l = true -> Client.State5.s5_events (Client.Loop5.st5 l) = [] ->
   Client.State5.s5_inflight (Client.Loop5.st5 l) < Client.State5.s5_max (Client.Loop5.st5 l) ->
   Client.State5.s5_collision (Client.Loop5.st5 l) = None -> Client.Loop5.take_enabled5 l = true).
Proof. exact Client.Loop5Proofs.pending_first5. Qed.

Theorem c11_no_session_v5 : forall l rm tam, Client.Loop5.connected5 l = false -> rm <> Some 0 ->
  exists l', Client.Loop5.lstep5 l (Client.Loop5.Reconnect5 false rm tam) = Client.Loop5.Stepped5 l' /\
    Client.Loop5.pending5 l' = [] /\ Client.Loop5.wire5 l' = [] /\ Client.Loop5.connected5 l' = true.
Proof. exact Client.Loop5Proofs.reconnect5_no_session. Qed.

Theorem c11_f31_refuted_before_fix_v5 :
  option_map Client.Loop5.wire5 (Client.Loop5.lrun5_orig (Client.Loop5.linit5 1 false) Client.Loop5Proofs.f31_loop5_history)
  = Some [Client.State5.P5Publish (Client.State5.mkPub5 Q1 1 2 2 None)]
  /\ option_map (fun l => (Client.Loop5.wire5 l, Client.Loop5.pending5 l)) (Client.Loop5.lrun5 (Client.Loop5.linit5 1 false) Client.Loop5Proofs.f31_loop5_history)
  = Some ([Client.State5.P5PubRel 1 0], [Client.Loop5Proofs.pq1_5 2]).
Proof. exact Client.Loop5Proofs.f31_loop5_witness. Qed.

(** ---- retransmit first over a second failure during an unfinished replay, with requests in the channel *)
Theorem c11_clean_keeps_pending_before_channel : forall l, Inv (st l) ->
  exists l' reqs, loop_clean l = Ok l' /\ pending l' = reqs ++ pending l ++ filter not_puback (chan l) /\ chan l' = [].
Proof. exact clean_keeps_pending_before_channel. Qed.

Theorem c11_second_failure_during_replay :
  option_map (fun l => (pending l, chan l)) (lrun (linit 10 false) replay_cut_history)
  = Some ([RPublish (mkPub Q1 1 1 1); RPublish (mkPub Q1 2 2 2); RPublish (mkPub Q1 3 3 3); pq1 4; pq1 5], []) /\
  option_map wire (lrun (linit 10 false)
    (replay_cut_history ++ [Reconnect true; TakeRequest; Yield; TakeRequest; Yield; TakeRequest; Yield; TakeRequest; Yield; TakeRequest; Yield]))
  = Some [PPublish (mkPub Q1 1 1 1); PPublish (mkPub Q1 2 2 2); PPublish (mkPub Q1 3 3 3); PPublish (mkPub Q1 4 4 4); PPublish (mkPub Q1 5 5 5)].
Proof. exact second_failure_during_replay. Qed.

Theorem c11_clean_keeps_pending_before_channel_v5 : forall l,
  Client.Loop5.pending5 (Client.Loop5.loop_clean5 l)
  = Client.Inv5.held5 (Client.Loop5.st5 l) ++ Client.Loop5.pending5 l ++ filter Client.Loop5.not_puback5 (Client.Loop5.chan5 l) /\
  Client.Loop5.chan5 (Client.Loop5.loop_clean5 l) = [].
Proof. exact Client.Loop5Proofs.clean5_keeps_pending_before_channel. Qed.

Theorem c11_second_failure_during_replay_v5 :
  option_map (fun l => (Client.Loop5.pending5 l, Client.Loop5.chan5 l)) (Client.Loop5.lrun5 (Client.Loop5.linit5 10 false) Client.Loop5Proofs.replay_cut5_history)
  = Some ([Client.State5.R5Publish (Client.State5.mkPub5 Q1 1 1 1 None); Client.State5.R5Publish (Client.State5.mkPub5 Q1 2 2 2 None);
           Client.State5.R5Publish (Client.State5.mkPub5 Q1 3 3 3 None); Client.Loop5Proofs.pq1_5 4; Client.Loop5Proofs.pq1_5 5], []).
Proof. exact Client.Loop5Proofs.second_failure_during_replay5_pending. Qed.
