(** C11 — pinned statements (retransmit first, original id and content, order).  Only [Theorem .. exact ..]. *)
From Rumqtt Require Import Client.Run4 Client.Inv4 Client.Flow4 Client.Findings4 Client.Loop Client.LoopProofs Client.Order4.

Theorem c11_first : forall l, Inv (st l) -> connected l = true ->
  exists l1 l2 reqs,
    lstep l Fail = Stepped l1 /\ lstep l1 (Reconnect true) = Stepped l2 /\
    Permutation.Permutation reqs (held (st l)) /\
    pending l2 = reqs ++ pending l ++ filter not_puback (chan l) /\ chan l2 = [] /\
    held (st l2) = [] /\ wire l2 = [] /\ connected l2 = true /\ Inv (st l2).
Proof. exact fail_then_resume. Qed.

Theorem c11_pending_before_channel : forall l r rest, pending l = r :: rest ->
  next_request l = Some (r, mkLoop (st l) rest (chan l) (connected l) (wire l) (yielded l)) /\
  (connected l = true -> events (st l) = [] -> inflight (st l) < max_inflight (st l) -> collision (st l) = None ->
   take_enabled l = true).
Proof. exact pending_first. Qed.

Theorem c11_f31_refuted_before_fix :
  option_map wire (lrun_orig (linit 1 false) f31_loop_history) = Some [PPublish (mkPub Q1 1 2 2)]
  /\ option_map (fun l => (wire l, pending l)) (lrun (linit 1 false) f31_loop_history) = Some ([PPubRel 1], [pq1 2]).
Proof. exact f31_loop_witness. Qed.

Theorem c11_no_session : forall l, connected l = false ->
  exists l', lstep l (Reconnect false) = Stepped l' /\ pending l' = [] /\ wire l' = [] /\ connected l' = true.
Proof. exact reconnect_no_session. Qed.

Theorem c11_f30_witness :
  k30 f30_history = true /\ k29 2 false f30_history = false /\ contract (init 2 false) f30_history = true
  /\ clean_after step 2 f30_history = Some [RPublish (mkPub Q1 1 2 2); RPublish (mkPub Q1 2 1 1)].
Proof. exact f30_witness. Qed.

Theorem c11_f29_witness :
  k29 2 false f29_history = true /\ k30 f29_history = false /\ contract (init 2 false) f29_history = true
  /\ clean_after step 2 f29_history = Some [RPublish (mkPub Q1 1 3 3); RPublish (mkPub Q1 2 2 2)].
Proof. exact f29_witness. Qed.

Theorem c11_order_v4 : forall max manual h s L, 1 <= max -> max <= 65535 ->
  Client.Order4.orun (init max manual) [] h = Some (s, L) ->
  exists s', clean s = Ok (s', map RPublish L ++ parked s).
Proof. exact Client.Order4.clean_in_send_order. Qed.

(* repeated failures: each Resume = clean() + exact replay of what it returned (ids kept) through
   handle_outgoing_packet; a replayed publish keeps its place.  Not covered by a theorem: a failure
   in the MIDDLE of a replay (the event loop keeps the unreplayed rest in pending) — that is checked
   on the real loop by the end-to-end order monitor only. *)
Theorem c11_order_repeated : forall max manual segs s L, 1 <= max -> max <= 65535 ->
  Client.Order4.srun (init max manual) [] segs = Some (s, L) ->
  exists s', clean s = Ok (s', map RPublish L ++ parked s).
Proof. exact Client.Order4.clean_in_send_order_repeated. Qed.
