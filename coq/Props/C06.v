(** C06 (functional part) — pinned statements.  Only [Theorem .. exact ..]. *)
From Rumqtt Require Import Router.Model Router.RunDefs Router.WindowFrame Router.Window Router.WindowStep Router.WindowDisc Router.Acks Router.AcksRun Router.WindowExamples.

Theorem c06_registered : forall (st : rstate) (id : N) (client : str) (pk : packet) (fl : flags)
    (st' : rstate) (fl' : flags) (brk : bool),
  handle_packet st id client pk fl = Ok (st', fl', brk) ->
  exists added : list ack,
    ((forall id', id' <> id -> slab_get (r_acks st') id' = slab_get (r_acks st) id') /\
     match slab_get (r_acks st) id with
     | Some l => exists l', slab_get (r_acks st') id = Some l' /\ a_committed l' = a_committed l ++ added
     | None => slab_get (r_acks st') id = None /\ added = []
     end) /\
    match pk with
    | PPublish p _ =>
        added = if p_qos p =? 1 then [APubAck (p_pkid p)]
                else if p_qos p =? 2 then [APubRec (p_pkid p)] else []
    | PSubscribe pkid fs subid => added = [ASubAck pkid (sub_codes fs subid)]
    | PUnsubscribe pkid fs =>
        exists reasons, added = [AUnsubAck pkid reasons] /\ length reasons = length fs /\
                        Forall (fun r => r = UR_SUCCESS \/ r = UR_NO_SUB) reasons
    | PPubRec pkid =>
        added = match slab_get (r_obufs st) id with
                | Some o => match o_inflight o with
                            | h :: _ => if pkid =? pkid_of h then [APubRel pkid] else []
                            | [] => []
                            end
                | None => []
                end
    | PPubRel pkid _ => added = [APubComp pkid]
    | PPingReq => added = [APingResp]
    | PPubAck _ | PPubComp _ | PDisconnect | POther => added = []
    end /\
    (forall l l', slab_get (r_acks st) id = Some l -> slab_get (r_acks st') id = Some l' ->
                  a_recorded l' = match pk with
                                  | PPublish p props => if p_qos p =? 2 then a_recorded l ++ [(p, props)] else a_recorded l
                                  | PPubRel _ _ => tl (a_recorded l)
                                  | _ => a_recorded l
                                  end).
Proof. exact handle_packet_registered. Qed.

Theorem c06_sub_codes_prefix : forall (fs : list (str * N)) (subid : option N),
  exists n, sub_codes fs subid = map snd (firstn n fs).
Proof. exact sub_codes_prefix. Qed.

Theorem c06_sub_codes_all : forall (fs : list (str * N)) (subid : option N),
  subid <> Some 0 -> Forall (fun f => validate_subscription (fst f) = true) fs ->
  sub_codes fs subid = map snd fs.
Proof. exact sub_codes_all. Qed.

Theorem c06_qos2_recorded_not_logged : forall (st : rstate) (id : N) (client : str) (p : publish)
    (props : option pprops) (fl : flags) (l : acklog),
  p_qos p = 2 -> slab_get (r_acks st) id = Some l ->
  handle_packet st id client (PPublish p props) fl =
    Ok (put_acks st id {| a_committed := a_committed l ++ [APubRec (p_pkid p)];
                          a_recorded := a_recorded l ++ [(p, props)] |}, fl_ack fl, false).
Proof. exact handle_packet_qos2. Qed.

Theorem c06_pubrel_releases_oldest_once : forall (st : rstate) (id : N) (client : str) (pkid : N) (hp : bool)
    (fl : flags) (l : acklog),
  slab_get (r_acks st) id = Some l ->
  handle_packet st id client (PPubRel pkid hp) fl =
    match a_recorded l with
    | [] => Ok (put_acks st id (set_a_committed l (a_committed l ++ [APubComp pkid])), fl_disc fl None, true)
    | (p, props) :: rec =>
        do (st2, res) <- append_to_commitlog
                           (put_acks st id {| a_committed := a_committed l ++ [APubComp pkid]; a_recorded := rec |})
                           id p props;
        match res with
        | AppOk => do st3 <- reschedule st2 id SIncomingAck; Ok (st3, fl_data fl, false)
        | AppErr _ => Ok (st2, fl_disc fl None, true)
        end
    end.
Proof. exact handle_packet_pubrel. Qed.

Theorem c06_batch_in_order : forall (pks : list packet) (st : rstate) (id : N) (client : str) (fl : flags)
    (st' : rstate) (fl' : flags),
  handle_packets st id client pks fl = Ok (st', fl') ->
  exists added, acks_at id st st' added /\ batch_acks id client st fl pks added.
Proof. exact handle_packets_registered. Qed.

Theorem c06_device_data_batch : forall (st : rstate) (id : N) (st' : rstate) (inc : incoming) (b : linkbuf),
  handle_device_payload st id = Ok st' ->
  slab_get (r_ibufs st) id = Some inc -> nthN (r_links st) (i_link inc) = Some b ->
  exists added,
    batch_acks id (i_client inc) (link_put st (i_link inc) (set_lk_in b [])) flags0 (lk_in b) added /\
    (slab_get (r_obufs st') id <> None -> acks_at id st st' added).
Proof. exact handle_device_payload_batch. Qed.

Theorem c06_flush : forall (st : rstate) (id : N) (o : outgoing) (st' : rstate) (l : acklog),
  ack_device_data st id o = Ok st' -> slab_get (r_acks st) id = Some l ->
  slab_get (r_acks st') id = Some (set_a_committed l []) /\
  (forall id', id' <> id -> slab_get (r_acks st') id' = slab_get (r_acks st) id') /\
  out_of st' (o_link o) = out_of st (o_link o) ++ map NAck (a_committed l) /\
  (forall k, k <> o_link o -> out_of st' k = out_of st k) /\
  r_obufs st' = r_obufs st.
Proof. exact ack_device_data_flush. Qed.

Theorem c06_step_ackseq : forall (st : rstate) (orc : list oracle) (op : rop) (st' : rstate) (out : rout) (id k : N),
  LinkInv st -> step_with st orc op = Ok (st', out) -> alive st id k -> alive st' id k ->
  exists new,
    acks_of (drained_of k op out) ++ ackseq st' id k = ackseq st id k ++ new /\
    (new = [] \/ op = OpData id).
Proof. exact step_with_ackseq. Qed.

Theorem c06_flush_in_order : forall (cfg : config) (st : rstate) (ops : list (list oracle * rop))
    (st' : rstate) (d : list notification) (id k : N),
  reachable cfg st -> run_drained k st ops = Ok (st', d) -> alive st id k -> alive st' id k ->
  exists new, acks_of d ++ ackseq st' id k = ackseq st id k ++ new.
Proof. exact c06_flush_in_order_thm. Qed.

Theorem c06_link_inv : forall (cfg : config) (st : rstate), reachable cfg st ->
  (forall id o, slab_get (r_obufs st) id = Some o -> o_link o < lenN (r_links st)) /\
  (forall id id' o o', slab_get (r_obufs st) id = Some o -> slab_get (r_obufs st) id' = Some o' ->
                       o_link o = o_link o' -> id = id').
Proof. exact reachable_LinkInv. Qed.

(** ---- nothing owed at quiescence (via the wake-up discipline, Router/Wake*.v) -----------------
    [pending st id] = the committed, not yet flushed acks of connection [id] (Router/AcksRun.v);
    a non-empty [committed] keeps the connection runnable or owed a wake-up
    ([c06_acks_keep_runnable]), so in a quiescent state ([quiescent], Router/WakeCor.v: no live
    Ready connection queued, notifications empty, every inflight buffer empty, no Unschedule
    pending or owed a Ready — [owed_run] is the ghost computed from the op history) every
    registered ack has been flushed: with [c06_flush_in_order], the acks drained from the link
    ARE the registered ones, in order, each once.  Any op sequence, any oracles. *)
From Rumqtt Require Import Router.Inv Router.NoPanic Router.Wake Router.WakeThm Router.WakeCor.
From Rumqtt Require Import Router.Model Router.RunDefs.

Theorem c06_acks_keep_runnable : forall (cfg : config) (st0 : rstate) (ops : list (list oracle * rop)) (st : rstate),
  cfg_ok cfg -> init cfg = Ok st0 -> ops_wf ops -> run st0 ops = Ok st ->
  forall (id : N) (t : tracker) (a : acklog) (o : outgoing),
    slab_get (r_trackers st) id = Some t -> slab_get (r_acks st) id = Some a -> slab_get (r_obufs st) id = Some o ->
    (tr_reqs t <> [] \/ a_committed a <> [] ->
       (tr_status t = Ready /\ In id (r_ready st)) \/
       (tr_status t = Paused InflightFull /\ o_inflight o <> []) \/
       (tr_status t = Paused Busy /\
        (In NUnschedule (out_of st (o_link o)) \/ owes_ready st0 ops (o_link o) = true))) /\
    (tr_status t = Paused Caughtup -> tr_reqs t = [] /\ a_committed a = []) /\
    (tr_status t = Ready -> In id (r_ready st)) /\
    (tr_status t = Paused InflightFull -> o_inflight o <> []) /\
    (tr_status t = Paused Busy ->
       In NUnschedule (out_of st (o_link o)) \/ owes_ready st0 ops (o_link o) = true).
Proof. exact no_lost_wakeup. Qed.

Theorem c06_nothing_owed_quiescent : forall (cfg : config) (st0 : rstate) (ops : list (list oracle * rop)) (st : rstate),
  cfg_ok cfg -> init cfg = Ok st0 -> ops_wf ops -> run st0 ops = Ok st ->
  quiescent st (owed_run st0 [] ops) ->
  forall id : N, pending st id = [].
Proof. exact nothing_owed_quiescent. Qed.
