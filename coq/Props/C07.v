(** C07 — pinned statements (client packet ids, inflight window, collisions).  Only [Theorem .. exact ..]. *)
From Rumqtt Require Import Client.Run4 Client.Inv4 Client.Wire4 Client.Findings4 Client.Loop Client.LoopProofs Client.Flow4 Client.State5 Client.Inv5 Client.LoopInv.

Theorem c07_inv : forall max manual h, 1 <= max -> max <= 65535 -> contract (init max manual) h = true ->
  exists s, run (init max manual) h = Some s /\ Inv s.
Proof. exact run_inv_init. Qed.

Theorem c07_step_inv : forall s o, Inv s -> op_ok s o = true ->
  match step s o with Ok (s', _) => Inv s' | Err (s', _) => Inv s' | Panic _ => False end.
Proof. exact step_inv. Qed.

Theorem c07_window : forall s, Inv s -> inflight s <= max_inflight s.
Proof. exact inv_bound. Qed.

Theorem c07_wire : forall s o s' rep, Inv s -> op_ok s o = true -> outcome s o = Some (s', rep) ->
  (forall pk, rep = Some pk -> wire_id_ok (max_inflight s) pk) /\
  (forall p, rep = Some (PPublish p) -> p_qos p <> Q0 ->
     vget (outgoing_pub s') (p_pkid p) = Some (Some p) /\
     (busy s (p_pkid p) = false \/ o = Inc (PPubAck (p_pkid p)) \/ o = Inc (PPubComp (p_pkid p)))) /\
  (forall i, busy s i = true -> busy s' i = false -> o = Inc (PPubAck i) \/ o = Inc (PPubComp i)).
Proof. exact step_wire. Qed.

Theorem c07_collision_resolved : forall s q o s' rep, Inv s -> collision s = Some q ->
  (o = Inc (PPubAck (p_pkid q)) /\ pub_at s (p_pkid q) <> None
   \/ o = Inc (PPubComp (p_pkid q)) /\ bit (outgoing_rel s) (p_pkid q) = true) ->
  outcome s o = Some (s', rep) ->
  rep = Some (PPublish q) /\ collision s' = None /\ vget (outgoing_pub s') (p_pkid q) = Some (Some q).
Proof. exact collision_resolved. Qed.

Theorem c07_f9_refuted_before_fix :
  (exists s s', run_orig (init 2 false) f9_history = Some s
     /\ bit (outgoing_rel s) 1 = true
     /\ step_orig s (pq Q1 3) = Ok (s', Wrote (Some (PPublish (mkPub Q1 1 3 3)))))
  /\ option_map (fun s => (inflight s, somes (outgoing_pub s), ones (outgoing_rel s)))
       (run_orig (init 2 false) (f9_history ++ [pq Q1 3; Inc (PPubRec 1); Inc (PPubComp 1)]))
     = Some (1, [], []).
Proof. exact f9_refuted. Qed.

Theorem c07_loop_inv : forall max manual h, 1 <= max -> max <= 65535 -> Client.LoopProofs.k7 (Client.Loop.linit max manual) h = false ->
  exists l, Client.Loop.lrun (Client.Loop.linit max manual) h = Some l /\ Inv (Client.Loop.st l).
Proof. exact Client.LoopProofs.lrun_inv_init. Qed.

Theorem c07_take_guard : forall l,
  Client.Loop.connected l = true -> events (Client.Loop.st l) = [] -> (Client.Loop.pending l <> [] \/ Client.Loop.chan l <> []) ->
  (Client.Loop.take_enabled l = true <-> inflight (Client.Loop.st l) < max_inflight (Client.Loop.st l) /\ collision (Client.Loop.st l) = None).
Proof. exact Client.LoopProofs.take_guard. Qed.

Theorem c07_f7_loop_refuted_before_fix :
  Client.LoopProofs.k7_orig (Client.Loop.linit 1 false) Client.LoopProofs.f7_loop_history = true /\
  option_map (fun l => (Client.Flow4.held (Client.Loop.st l), Client.Loop.pending l, Client.Loop.chan l, Client.Loop.wire l))
    (Client.Loop.lrun_orig (Client.Loop.linit 1 false) Client.LoopProofs.f7_loop_history)
  = Some ([RPublish (mkPub Q1 1 1 1); RPublish (mkPub Q1 1 3 3)], [], [], [PPublish (mkPub Q1 1 1 1)])
  /\ Client.LoopProofs.k7 (Client.Loop.linit 1 false) Client.LoopProofs.f7_loop_history = false /\
  option_map (fun l => (Client.Flow4.held (Client.Loop.st l), Client.Loop.pending l, Client.Loop.chan l, Client.Loop.wire l))
    (Client.Loop.lrun (Client.Loop.linit 1 false) Client.LoopProofs.f7_loop_history)
  = Some ([RPublish (mkPub Q1 1 1 1)], [Client.LoopProofs.pq1 2; Client.LoopProofs.pq1 3], [], [PPublish (mkPub Q1 1 1 1)]).
Proof. exact Client.LoopProofs.f7_loop_witness. Qed.

(* v5: the state invariant (conjuncts a, b, c, f, g; no panic) for rumqttc::v5::MqttState.
   Not ported to v5 (v5 statements are _partial, covered by correspondence + monitors only):
   c07_wire (d, e), c07_collision_resolved and the loop-level statements. *)
Theorem c07_inv_v5_partial : forall max manual h, 1 <= max -> max <= 65535 ->
  Client.Inv5.contract5 (Client.State5.init5 max manual) h = true ->
  exists s, Client.Inv5.run5 (Client.State5.init5 max manual) h = Some s /\ Client.Inv5.Inv5 s.
Proof. exact Client.Inv5.run5_inv_init. Qed.

Theorem c07_step_inv_v5 : forall s o, Client.Inv5.Inv5 s -> Client.Inv5.op_ok5 s o = true ->
  match Client.State5.step5 s o with Ok (s', _) => Client.Inv5.Inv5 s' | Err (s', _) => Client.Inv5.Inv5 s' | Panic _ => False end.
Proof. exact Client.Inv5.step5_inv. Qed.

Theorem c07_window_v5 : forall s, Client.Inv5.Inv5 s -> Client.State5.s5_inflight s <= Client.State5.s5_max_limit s.
Proof. exact Client.Inv5.inv5_bound. Qed.

Theorem c07_loop_inv_all : forall max manual h, 1 <= max -> max <= 65535 -> forallb Client.LoopInv.wf_user h = true ->
  Client.LoopProofs.k7 (Client.Loop.linit max manual) h = false /\
  exists l, Client.Loop.lrun (Client.Loop.linit max manual) h = Some l /\ Inv (Client.Loop.st l).
Proof. exact Client.LoopInv.lrun_inv_all. Qed.
