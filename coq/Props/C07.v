(** C07 — pinned statements (client packet ids, inflight window, collisions).  Only [Theorem .. exact ..]. *)
From Rumqtt Require Import Client.Run4 Client.Inv4 Client.Wire4 Client.Findings4 Client.Loop Client.LoopProofs Client.Flow4 Client.State5 Client.Inv5 Client.LoopInv.
From Rumqtt Require Import Client.Eff5 Client.Flow5 Client.Wire5.
From Rumqtt Require Client.State5Orig Client.Findings5.

Theorem c07_inv : forall max manual h, 1 <= max -> max <= 65535 -> contract (init max manual) h = true ->
  exists s, run (init max manual) h = Some s /\ Inv s.
Proof. exact run_inv_init. Qed.

Theorem c07_step_inv : forall s o, Inv s -> op_ok s o = true ->
  match step s o with Ok (s', _) => Inv s' | Err (s', _) => Inv s' | Panic _ => False end.
Proof. exact step_inv. Qed.

Theorem c07_window : forall s, Inv s -> inflight s <= max_inflight s.
Proof. exact inv_bound. Qed.

Theorem c07_wire : forall s o s' rep, Inv s -> op_ok s o = true -> outcome s o = Some (s', rep) ->
  (forall pk, rep = Some pk -> wire_id_ok (max_inflight s) pk) /\
  (forall p, rep = Some (PPublish p) -> p_qos p <> Q0 ->
     vget (outgoing_pub s') (p_pkid p) = Some (Some p) /\
     (busy s (p_pkid p) = false \/ o = Inc (PPubAck (p_pkid p)) \/ o = Inc (PPubComp (p_pkid p)))) /\
  (forall i, busy s i = true -> busy s' i = false -> o = Inc (PPubAck i) \/ o = Inc (PPubComp i)).
Proof. exact step_wire. Qed.

Theorem c07_collision_resolved : forall s q o s' rep, Inv s -> collision s = Some q ->
  (o = Inc (PPubAck (p_pkid q)) /\ pub_at s (p_pkid q) <> None
   \/ o = Inc (PPubComp (p_pkid q)) /\ bit (outgoing_rel s) (p_pkid q) = true) ->
  outcome s o = Some (s', rep) ->
  rep = Some (PPublish q) /\ collision s' = None /\ vget (outgoing_pub s') (p_pkid q) = Some (Some q).
Proof. exact collision_resolved. Qed.

Theorem c07_f9_refuted_before_fix :
  (exists s s', run_orig (init 2 false) f9_history = Some s
     /\ bit (outgoing_rel s) 1 = true
     /\ step_orig s (pq Q1 3) = Ok (s', Wrote (Some (PPublish (mkPub Q1 1 3 3)))))
  /\ option_map (fun s => (inflight s, somes (outgoing_pub s), ones (outgoing_rel s)))
       (run_orig (init 2 false) (f9_history ++ [pq Q1 3; Inc (PPubRec 1); Inc (PPubComp 1)]))
     = Some (1, [], []).
Proof. exact f9_refuted. Qed.

Theorem c07_loop_inv : forall max manual h, 1 <= max -> max <= 65535 -> Client.LoopProofs.k7 (Client.Loop.linit max manual) h = false ->
  exists l, Client.Loop.lrun (Client.Loop.linit max manual) h = Some l /\ Inv (Client.Loop.st l).
Proof. exact Client.LoopProofs.lrun_inv_init. Qed.

Theorem c07_take_guard : forall l,
  Client.Loop.connected l = true -> events (Client.Loop.st l) = [] -> (Client.Loop.pending l <> [] \/ Client.Loop.chan l <> []) ->
  (Client.Loop.take_enabled l = true <-> inflight (Client.Loop.st l) < max_inflight (Client.Loop.st l) /\ collision (Client.Loop.st l) = None).
Proof. exact Client.LoopProofs.take_guard. Qed.

Theorem c07_f7_loop_refuted_before_fix :
  Client.LoopProofs.k7_orig (Client.Loop.linit 1 false) Client.LoopProofs.f7_loop_history = true /\
  option_map (fun l => (Client.Flow4.held (Client.Loop.st l), Client.Loop.pending l, Client.Loop.chan l, Client.Loop.wire l))
    (Client.Loop.lrun_orig (Client.Loop.linit 1 false) Client.LoopProofs.f7_loop_history)
  = Some ([RPublish (mkPub Q1 1 1 1); RPublish (mkPub Q1 1 3 3)], [], [], [PPublish (mkPub Q1 1 1 1)])
  /\ Client.LoopProofs.k7 (Client.Loop.linit 1 false) Client.LoopProofs.f7_loop_history = false /\
  option_map (fun l => (Client.Flow4.held (Client.Loop.st l), Client.Loop.pending l, Client.Loop.chan l, Client.Loop.wire l))
    (Client.Loop.lrun (Client.Loop.linit 1 false) Client.LoopProofs.f7_loop_history)
  = Some ([RPublish (mkPub Q1 1 1 1)], [Client.LoopProofs.pq1 2; Client.LoopProofs.pq1 3], [], [PPublish (mkPub Q1 1 1 1)]).
Proof. exact Client.LoopProofs.f7_loop_witness. Qed.

(* v5: the state invariant (conjuncts a, b, c, f, g; no panic) for rumqttc::v5::MqttState, every
   configured limit 1..65535, every op sequence honouring the contract (a CONNACK may change the
   negotiated limit at any point).  The wire statements (d, e), (g) follow at the end of the file;
   only the loop-level statements are not ported to v5. *)
Theorem c07_inv_v5 : forall max manual h, 1 <= max -> max <= 65535 ->
  Client.Inv5.contract5 (Client.State5.init5 max manual) h = true ->
  exists s, Client.Inv5.run5 (Client.State5.init5 max manual) h = Some s /\ Client.Inv5.Inv5 s.
Proof. exact Client.Inv5.run5_inv_init. Qed.

Theorem c07_step_inv_v5 : forall s o, Client.Inv5.Inv5 s -> Client.Inv5.op_ok5 s o = true ->
  match Client.State5.step5 s o with Ok (s', _) => Client.Inv5.Inv5 s' | Err (s', _) => Client.Inv5.Inv5 s' | Panic _ => False end.
Proof. exact Client.Inv5.step5_inv. Qed.

Theorem c07_window_v5 : forall s, Client.Inv5.Inv5 s -> Client.State5.s5_inflight s <= Client.State5.s5_max_limit s.
Proof. exact Client.Inv5.inv5_bound. Qed.

Theorem c07_loop_inv_all : forall max manual h, 1 <= max -> max <= 65535 -> forallb Client.LoopInv.wf_user h = true ->
  Client.LoopProofs.k7 (Client.Loop.linit max manual) h = false /\
  exists l, Client.Loop.lrun (Client.Loop.linit max manual) h = Some l /\ Inv (Client.Loop.st l).
Proof. exact Client.LoopInv.lrun_inv_all. Qed.

(* v5 (d), (e): ids on the wire.  Two limits: s5_max_limit (configured, the table size) and s5_max
   (negotiated receive-maximum, changed by any later CONNACK).  For every op from every state with
   the invariant: every id written lies in 1..configured; SUBSCRIBE / UNSUBSCRIBE ids and every id
   the state machine allocates for a publish lie in 1..negotiated; a QoS>0 publish is written,
   recorded under its id, either as the request just made on a free id, or as the parked
   collision on the broker's final word about that id; a PUBREL is a replayed release or the answer
   to an accepting PUBREC of a held publish; an id is freed only by its own PUBACK / PUBCOMP (any
   reason code) or a PUBREC with a failure reason (frees5), and taken only when written. *)
Theorem c07_wire_v5 : forall s o s' rep, Client.Inv5.Inv5 s -> Client.Inv5.op_ok5 s o = true -> outcome5 s o = Some (s', rep) ->
  (forall pk, rep = Some pk -> wire_id_ok5 (s5_max_limit s) pk) /\
  (forall id n, rep = Some (P5Subscribe id n) \/ rep = Some (P5Unsubscribe id n) -> 1 <= id <= s5_max s) /\
  (forall p, rep = Some (P5Publish p) -> q_qos p <> Q0 ->
     vget (s5_pub s') (q_pkid p) = Some (Some p) /\
     ((Client.Inv5.busy5 s (q_pkid p) = false /\
       exists r, o = Out5 (R5Publish r) /\ p = with_pkid5 r (q_pkid p) /\ (q_pkid r <> 0 -> q_pkid p = q_pkid r)
                 /\ (q_pkid r = 0 -> q_pkid p <= s5_max s))
      \/ (frees5 o (q_pkid p) /\ s5_collision s = Some p))) /\
  (forall id x, rep = Some (P5PubRel id x) ->
     o = Out5 (R5PubRel id)
     \/ exists reason, o = Inc5 (P5PubRec id reason) /\ ack_ok reason = true /\ pub_at5 s id <> None) /\
  (forall i, Client.Inv5.busy5 s i = true -> Client.Inv5.busy5 s' i = false -> frees5 o i) /\
  (forall i, Client.Inv5.busy5 s i = false -> Client.Inv5.busy5 s' i = true ->
     (exists p, rep = Some (P5Publish p) /\ q_pkid p = i /\ q_qos p <> Q0) \/ o = Out5 (R5PubRel i)) /\
  (is_connack5 o = false -> s5_max s' = s5_max s).
Proof. exact step5_wire. Qed.

(* the same along every history from MqttState::new(max, _), max in 1..65535 *)
Theorem c07_wire_run_v5 : forall max manual h o s s' rep,
  1 <= max -> max <= 65535 -> Client.Inv5.contract5 (init5 max manual) (h ++ [o]) = true ->
  Client.Inv5.run5 (init5 max manual) h = Some s -> outcome5 s o = Some (s', rep) ->
  wire_facts5 s o s' rep /\ s5_max_limit s = max /\ 1 <= s5_max s <= max.
Proof. exact run5_wire. Qed.

(* every id within the CURRENT negotiated limit, as long as nothing held lies above it (low5); kept
   by every op except the two named in op_low5 (a replayed request carrying an id above the limit;
   a CONNACK lowering receive-maximum below an id still held) *)
Theorem c07_wire_negotiated_v5 : forall s o s' rep,
  Client.Inv5.Inv5 s -> low5 s -> Client.Inv5.op_ok5 s o = true -> op_low5 s o = true -> outcome5 s o = Some (s', rep) ->
  low5 s' /\ (forall pk, rep = Some pk -> wire_id_ok5 (s5_max s) pk).
Proof. exact step5_low. Qed.

Theorem c07_wire_negotiated_run_v5 : forall max manual h o s s' rep,
  1 <= max -> max <= 65535 -> Client.Inv5.contract5 (init5 max manual) (h ++ [o]) = true -> lowc5 (init5 max manual) (h ++ [o]) = true ->
  Client.Inv5.run5 (init5 max manual) h = Some s -> outcome5 s o = Some (s', rep) ->
  forall pk, rep = Some pk -> wire_id_ok5 (s5_max s) pk.
Proof. exact run5_wire_low. Qed.

(* both clauses of op_low5 are needed (ids 3 resp. 2 on the wire under a negotiated limit of 1) *)
Theorem c07_negotiated_needs_replay_clause_v5 :
  let h := [pq5 Q1 1; pq5 Q1 2; pq5 Q1 3; Clean5; Inc5 (P5ConnAck true 0 (Some 1) None);
            Out5 (R5Publish (mkPub5 Q1 3 3 3 None))] in
  Client.Inv5.contract5 (init5 3 false) h = true /\ lowc5 (init5 3 false) h = false /\
  option_map s5_max (Client.Inv5.run5 (init5 3 false) (firstn 5 h)) = Some 1 /\
  nth 5 (trace5 (init5 3 false) h) None = Some (P5Publish (mkPub5 Q1 3 3 3 None)).
Proof. exact low5_needs_replay_clause. Qed.

Theorem c07_negotiated_needs_connack_clause_v5 :
  let h := [pq5 Q2 1; pq5 Q2 2; Inc5 (P5ConnAck true 0 (Some 1) None); Inc5 (P5PubRec 2 0)] in
  Client.Inv5.contract5 (init5 3 false) h = true /\ lowc5 (init5 3 false) h = false /\
  option_map s5_max (Client.Inv5.run5 (init5 3 false) (firstn 3 h)) = Some 1 /\
  nth 3 (trace5 (init5 3 false) h) None = Some (P5PubRel 2 0).
Proof. exact low5_needs_connack_clause. Qed.

(* F37 (fixed, commit b2fc5b9): before the fix a CONNACK announcing receive-maximum 0 was taken as a
   limit of zero: the allocator never wrapped (SUBSCRIBE id 3 under a configured limit of 2, every
   QoS>0 publish refused).  Orig = the code before the v5 fix: commits (Client/State5Orig.v). *)
Theorem c07_receive_max_zero_refuted_before_fix_v5 :
  (exists s s1 s2, Client.Findings5.run5_orig (init5 2 false) Client.Findings5.f37 = Some s /\ s5_max s = 0 /\
     Client.State5Orig.Orig.step5 s (Out5 (R5Subscribe 1)) = Ok (s1, Wrote5 (Some (P5Subscribe 3 1))) /\
     Client.State5Orig.Orig.step5 s1 (Client.Findings5.p5 Q1 1) = Err (s2, E5Unsolicited 4))
  /\ (exists s s1 s2, Client.Findings5.run5 (init5 2 false) Client.Findings5.f37 = Some s /\ s5_max s = 2 /\
     step5 s (Out5 (R5Subscribe 1)) = Ok (s1, Wrote5 (Some (P5Subscribe 1 1))) /\
     step5 s1 (Client.Findings5.p5 Q1 1) = Ok (s2, Wrote5 (Some (P5Publish (mkPub5 Q1 2 1 1 None)))))
  /\ (exists s', step5 (init5 2 false) (Inc5 (P5ConnAck true 0 (Some 0) None)) = Err (s', E5ConnFail 130) /\
     s5_max s' = 2 /\ s5_last_pkid s' = 0).
Proof. exact Client.Findings5.f37_refuted. Qed.

(* now: refused from ANY state; the state is unchanged but for the Incoming notification and the
   topic-alias maximum (read before the test); hence op_ok5 asks nothing of the broker *)
Theorem c07_receive_max_zero_rejected_v5 : forall s sp tam,
  step5 s (Inc5 (P5ConnAck sp 0 (Some 0) tam))
  = Err (alias_taken5 (push5 s (Ev5In (P5ConnAck sp 0 (Some 0) tam))) tam, E5ConnFail 130).
Proof. exact receive_max_zero_rejected5. Qed.

(* v5 (g): the parked collision is resolved, in the same step, by the broker's final word on its id *)
Theorem c07_collision_resolved_v5 : forall s q o s' rep, Client.Inv5.Inv5 s -> s5_collision s = Some q ->
  ((exists reason, o = Inc5 (P5PubAck (q_pkid q) reason)) /\ pub_at5 s (q_pkid q) <> None
   \/ (exists reason, o = Inc5 (P5PubComp (q_pkid q) reason)) /\ bit (s5_rel s) (q_pkid q) = true
   \/ (exists reason, o = Inc5 (P5PubRec (q_pkid q) reason) /\ ack_ok reason = false) /\ pub_at5 s (q_pkid q) <> None) ->
  outcome5 s o = Some (s', rep) ->
  rep = Some (P5Publish q) /\ s5_collision s' = None /\ vget (s5_pub s') (q_pkid q) = Some (Some q).
Proof. exact collision_resolved5. Qed.

(* an accepting PUBREC on the parked id does not resolve it: the id stays busy (release pending) *)
Theorem c07_collision_survives_pubrec_v5 : forall s q reason s' rep,
  Client.Inv5.Inv5 s -> s5_collision s = Some q -> ack_ok reason = true ->
  outcome5 s (Inc5 (P5PubRec (q_pkid q) reason)) = Some (s', rep) ->
  s5_collision s' = Some q /\ (Client.Inv5.busy5 s' (q_pkid q) = true).
Proof. exact collision_survives_pubrec5. Qed.

Theorem c07_wire_nontrivial_v5 :
  let h := [pq5 Q2 1; pq5 Q1 2; Inc5 (P5PubAck 2 0); pq5 Q1 3; Inc5 (P5ConnAck true 0 (Some 1) (Some 4));
            Inc5 (P5PubRec 1 135); pq5 Q1 4; Inc5 (P5PubAck 1 128); Out5 (R5Subscribe 1)] in
  Client.Inv5.contract5 (init5 2 false) h = true /\ lowc5 (init5 2 false) h = true /\
  trace5 (init5 2 false) h =
    [Some (P5Publish (mkPub5 Q2 1 1 1 None)); Some (P5Publish (mkPub5 Q1 2 2 2 None)); None; None; None;
     Some (P5Publish (mkPub5 Q1 1 3 3 None)); None; Some (P5Publish (mkPub5 Q1 1 4 4 None)); Some (P5Subscribe 1 1)] /\
  option_map (fun s => (s5_max s, s5_max_limit s, s5_inflight s, s5_collision s)) (Client.Inv5.run5 (init5 2 false) h) = Some (1, 2, 1, None).
Proof. exact wire5_nontrivial. Qed.

(** ---- the v5 event loop (Client/Loop5.v): the loop-level statements of C07, ported *)
From Rumqtt Require Client.Loop5 Client.Loop5Proofs.

Theorem c07_loop_inv_v5 : forall max manual h, 1 <= max -> max <= 65535 ->
  Client.Loop5Proofs.k7_5 (Client.Loop5.linit5 max manual) h = false ->
  exists l, Client.Loop5.lrun5 (Client.Loop5.linit5 max manual) h = Some l /\ Inv5 (Client.Loop5.st5 l).
Proof. exact Client.Loop5Proofs.lrun5_inv_init. Qed.

Theorem c07_take_guard_v5 : forall l,
  Client.Loop5.connected5 l = true -> s5_events (Client.Loop5.st5 l) = [] ->
  (Client.Loop5.pending5 l <> [] \/ Client.Loop5.chan5 l <> []) ->
  (Client.Loop5.take_enabled5 l = true <->
   s5_inflight (Client.Loop5.st5 l) < s5_max (Client.Loop5.st5 l) /\ s5_collision (Client.Loop5.st5 l) = None).
Proof. exact Client.Loop5Proofs.take_guard5. Qed.

Theorem c07_receive_max_renegotiated_v5 : forall l sp rm tam, Client.Loop5.connected5 l = false -> rm <> Some 0 ->
  exists l', Client.Loop5.lstep5 l (Client.Loop5.Reconnect5 sp rm tam) = Client.Loop5.Stepped5 l' /\
    Client.Loop5.pending5 l' = (if sp then Client.Loop5.pending5 l else []) /\ Client.Loop5.chan5 l' = Client.Loop5.chan5 l /\
    Client.Loop5.wire5 l' = [] /\ Client.Loop5.connected5 l' = true /\ Client.Loop5.yielded5 l' = Client.Loop5.yielded5 l /\
    s5_pub (Client.Loop5.st5 l') = s5_pub (Client.Loop5.st5 l) /\ s5_rel (Client.Loop5.st5 l') = s5_rel (Client.Loop5.st5 l) /\
    s5_collision (Client.Loop5.st5 l') = s5_collision (Client.Loop5.st5 l) /\
    s5_inflight (Client.Loop5.st5 l') = s5_inflight (Client.Loop5.st5 l) /\
    s5_events (Client.Loop5.st5 l') = s5_events (Client.Loop5.st5 l) ++ [Ev5In (P5ConnAck sp 0 rm tam)] /\
    s5_max (Client.Loop5.st5 l') = match rm with Some m => N.min m (s5_max_limit (Client.Loop5.st5 l)) | None => s5_max (Client.Loop5.st5 l) end.
Proof. exact Client.Loop5Proofs.reconnect5_spec. Qed.

Theorem c07_connack_refused_closes_connection_v5 : forall l sp tam, Client.Loop5.connected5 l = false ->
  exists l', Client.Loop5.lstep5 l (Client.Loop5.Reconnect5 sp (Some 0) tam) = Client.Loop5.Failed5 l' (Client.Loop5.LE5State (E5ConnFail 130)) /\
    Client.Loop5.connected5 l' = false /\ Client.Loop5.chan5 l' = [] /\ held5 (Client.Loop5.st5 l') = [] /\
    Client.Loop5.pending5 l' = held5 (Client.Loop5.st5 l) ++ (if sp then Client.Loop5.pending5 l else []) ++ filter Client.Loop5.not_puback5 (Client.Loop5.chan5 l).
Proof. exact Client.Loop5Proofs.reconnect5_refused_closes. Qed.

Theorem c07_connack_refused_keeps_connection_refuted_before_fix_v5 : forall l sp tam, Client.Loop5.connected5 l = false ->
  exists l', Client.Loop5.lstep5_keep l (Client.Loop5.Reconnect5 sp (Some 0) tam) = Client.Loop5.Failed5 l' (Client.Loop5.LE5State (E5ConnFail 130)) /\
    Client.Loop5.connected5 l' = true /\ Client.Loop5.pending5 l' = (if sp then Client.Loop5.pending5 l else []) /\
    s5_max (Client.Loop5.st5 l') = s5_max (Client.Loop5.st5 l) /\
    s5_pub (Client.Loop5.st5 l') = s5_pub (Client.Loop5.st5 l) /\ s5_rel (Client.Loop5.st5 l') = s5_rel (Client.Loop5.st5 l) /\
    s5_collision (Client.Loop5.st5 l') = s5_collision (Client.Loop5.st5 l).
Proof. exact Client.Loop5Proofs.reconnect5_refused_kept_before_fix. Qed.

Theorem c07_f7_loop_refuted_before_fix_v5 :
  Client.Loop5Proofs.k7_5_orig (Client.Loop5.linit5 1 false) Client.Loop5Proofs.f7_loop5_history = true /\
  option_map (fun l => (held5 (Client.Loop5.st5 l), Client.Loop5.pending5 l, Client.Loop5.chan5 l, Client.Loop5.wire5 l))
    (Client.Loop5.lrun5_orig (Client.Loop5.linit5 1 false) Client.Loop5Proofs.f7_loop5_history)
  = Some ([R5Publish (mkPub5 Q1 1 1 1 None); R5Publish (mkPub5 Q1 1 3 3 None)], [], [], [P5Publish (mkPub5 Q1 1 1 1 None)])
  /\ Client.Loop5Proofs.k7_5 (Client.Loop5.linit5 1 false) Client.Loop5Proofs.f7_loop5_history = false /\
  option_map (fun l => (held5 (Client.Loop5.st5 l), Client.Loop5.pending5 l, Client.Loop5.chan5 l, Client.Loop5.wire5 l))
    (Client.Loop5.lrun5 (Client.Loop5.linit5 1 false) Client.Loop5Proofs.f7_loop5_history)
  = Some ([R5Publish (mkPub5 Q1 1 1 1 None)], [Client.Loop5Proofs.pq1_5 2; Client.Loop5Proofs.pq1_5 3], [], [P5Publish (mkPub5 Q1 1 1 1 None)]).
Proof. exact Client.Loop5Proofs.f7_loop5_witness. Qed.

(* v5 event loop, the strongest statement: NO hypothesis on the history beyond "the user's requests are
   ones the client API can produce": for every configured limit 1..65535 and every sequence of loop
   ops (reconnects with any receive-maximum, 0 included; renegotiation down and up; read bursts; aborted
   reads; cancelled request arms; failures anywhere) K7 is false (the loop never hands the state machine
   a request outside its contract), the run never panics, and the state invariant holds at the end.
   The negotiated limit plays no role: op_ok5 bounds a replayed release by the configured limit only,
   so neither low5 nor op_low5 (c07_wire_negotiated_v5) is needed here. *)
From Rumqtt Require Client.LoopInv5.

Theorem c07_loop_inv_all_v5 : forall max manual h, 1 <= max -> max <= 65535 ->
  forallb Client.LoopInv5.wf_user5 h = true ->
  Client.Loop5Proofs.k7_5 (Client.Loop5.linit5 max manual) h = false /\
  exists l, Client.Loop5.lrun5 (Client.Loop5.linit5 max manual) h = Some l /\ Inv5 (Client.Loop5.st5 l).
Proof. exact Client.LoopInv5.lrun5_inv_all. Qed.

Theorem c07_loop_inv_all_nontrivial_v5 :
  let pq q tag := Client.Loop5.UserSend5 (R5Publish (mkPub5 q 0 tag tag None)) in
  let h := [Client.Loop5.Reconnect5 true None None; Client.Loop5.Yield5; pq Q1 1; pq Q2 2; pq Q1 3; pq Q1 4;
            Client.Loop5.TakeRequest5; Client.Loop5.Yield5; Client.Loop5.TakeRequest5; Client.Loop5.Yield5;
            Client.Loop5.TakeRequest5; Client.Loop5.Yield5; Client.Loop5.TakeRequest5;
            Client.Loop5.Net5 [P5PubAck 1 0; P5PubRec 2 0]; Client.Loop5.Yield5; Client.Loop5.Yield5; Client.Loop5.Yield5; Client.Loop5.Fail5;
            Client.Loop5.Reconnect5 true (Some 0) None; Client.Loop5.Yield5; Client.Loop5.Reconnect5 true (Some 1) (Some 4); Client.Loop5.Yield5;
            Client.Loop5.TakeRequest5; Client.Loop5.Yield5; Client.Loop5.TakeCancelled5; Client.Loop5.TakeRequest5;
            Client.Loop5.NetAbort5 [P5PubComp 2 0]; Client.Loop5.Yield5; Client.Loop5.Yield5;
            Client.Loop5.Reconnect5 true (Some 65535) None; Client.Loop5.Yield5; Client.Loop5.TakeRequest5; Client.Loop5.Yield5;
            Client.Loop5.TakeRequest5; Client.Loop5.Yield5; Client.Loop5.TakeRequest5; Client.Loop5.Yield5] in
  forallb Client.LoopInv5.wf_user5 h = true /\
  option_map (fun l => (s5_max (Client.Loop5.st5 l), held5 (Client.Loop5.st5 l), Client.Loop5.pending5 l, Client.Loop5.chan5 l, Client.Loop5.wire5 l))
    (Client.Loop5.lrun5 (Client.Loop5.linit5 3 false) h)
  = Some (3, [R5Publish (mkPub5 Q1 1 4 4 None); R5Publish (mkPub5 Q1 3 3 3 None); R5PubRel 2], [], [],
          [P5Publish (mkPub5 Q1 3 3 3 None); P5PubRel 2 0; P5Publish (mkPub5 Q1 1 4 4 None)]).
Proof. exact Client.LoopInv5.lrun5_inv_all_nontrivial. Qed.
