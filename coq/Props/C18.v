(** C18 — pinned statements (keep-alive, connect timeout).  Only [Theorem .. exact ..].
    Time is discrete virtual time in ms; "prompt polling" is the hypothesis [prompt] (no event is
    handled after a pending timer deadline before the timer arm has run).  PARTIAL: tokio's timer
    wheel, the order select! picks when the timer and a PINGRESP are ready at the same instant,
    and real-time scheduling delays are outside the model. *)
From Rumqtt Require Import Client.KeepAlive Client.KeepAliveProofs Client.State4 Client.Run4.

Theorem c18_ka_period : forall ka c tr s' outs, 0 < ka -> existsb is_fail tr = false ->
  prompt ka (fst (kstep ka kinit (Connect c))) tr = true ->
  krun ka (fst (kstep ka kinit (Connect c))) tr = (s', outs) -> no_err outs = true ->
  exists n, outs = pings (c + ka) ka n /\ deadline s' = Some (c + ka + N.of_nat n * ka).
Proof. exact ka_period. Qed.

Theorem c18_ka_detect : forall ka tr s d s' outs,
  deadline s = Some d -> await s = true -> existsb is_fail tr = false ->
  prompt ka s tr = true -> existsb is_pingresp tr = false -> List.In (Tick d) tr ->
  krun ka s tr = (s', outs) ->
  exists rest, outs = ErrAwait d :: rest \/ (outs = ErrCollision d :: rest /\ (coll s = true \/ existsb is_parked tr = true)).
Proof. exact ka_detect. Qed.

Theorem c18_ka_detect_second_interval : forall ka p sil, p <= sil -> (p + ka) + ka <= sil + 2 * ka.
Proof. exact ka_detect_second_interval. Qed.

Theorem c18_ka_no_false_alarm : forall ka tr s s' outs,
  coll s = false -> existsb is_parked tr = false -> existsb is_fail tr = false ->
  (await s = true -> exists d, deadline s = Some d /\ existsb (reply_before d) tr = true) ->
  sorted tr = true -> prompt ka s tr = true -> answered ka s tr = true ->
  krun ka s tr = (s', outs) -> no_err outs = true.
Proof. exact ka_no_false_alarm. Qed.

Theorem c18_ka_zero : forall tr s s' outs, deadline s = None -> krun 0 s tr = (s', outs) -> outs = [] /\ deadline s' = None.
Proof. exact ka_zero. Qed.

Theorem c18_connect_timeout : forall tm h,
  (h = None \/ (exists x, h = Some x /\ tm < x)) -> poll_connect tm h = NetworkTimeout tm.
Proof. exact connect_timeout. Qed.

Theorem c18_collision_timeout_distinct : forall ka tr s s' outs t,
  coll s = false -> existsb is_parked tr = false -> krun ka s tr = (s', outs) -> ~ List.In (ErrCollision t) outs.
Proof. exact collision_timeout_distinct. Qed.

Theorem c18_outgoing_ping_is_kping : forall s d t,
  match outgoing_ping s with
  | Ok (s', Some PPingReq) => kping (kabs d s) t = (kabs d s', PingReqAt t)
  | Err (_, EAwaitPingResp) => snd (kping (kabs d s) t) = ErrAwait t
  | Err (_, ECollisionTimeout) => snd (kping (kabs d s) t) = ErrCollision t
  | _ => False
  end.
Proof. exact outgoing_ping_is_kping. Qed.

Theorem c18_other_traffic_keeps_await : forall s o s',
  o <> Out RPingReq -> o <> Inc PPingResp -> o <> Clean ->
  next step s o = Some s' -> await_pingresp s' = await_pingresp s.
Proof. exact other_traffic_keeps_await. Qed.

Theorem c18_connect_in_time : forall tm x, x < tm -> poll_connect tm (Some x) = Connected x.
Proof. exact connect_in_time. Qed.

Theorem c18_v5_server_ka_zero_refuted_before_fix :
  snd (krun_v5_orig 0 kinit [Connect 0; Tick 0; Tick 0]) = [PingReqAt 0; ErrAwait 0]
  /\ snd (krun 0 kinit [Connect 0; Tick 0; Tick 0; Tick 100000]) = [].
Proof. exact v5_server_ka_zero_refuted. Qed.

Theorem c18_ka_no_false_alarm_after_reconnect : forall ka s t0 c tr s' outs, 0 < ka ->
  existsb is_parked tr = false -> existsb is_fail tr = false ->
  sorted tr = true ->
  prompt ka (fst (kstep ka (fst (kstep ka s (ConnFail t0))) (Connect c))) tr = true ->
  answered ka (fst (kstep ka (fst (kstep ka s (ConnFail t0))) (Connect c))) tr = true ->
  krun ka (fst (kstep ka (fst (kstep ka s (ConnFail t0))) (Connect c))) tr = (s', outs) -> no_err outs = true.
Proof. exact ka_no_false_alarm_after_reconnect. Qed.

Theorem c18_error_runs_clean : forall s t, is_err (snd (kping s t)) = true -> fst (kping s t) = kclean s.
Proof. exact error_is_clean. Qed.

Theorem c18_ka_independent_of_window : forall ka s t d, deadline s = Some d -> d <= t ->
  (exists s' o, kstep ka s (Tick t) = (s', [o]) /\ ping_time o = t /\
     (o = ErrCollision t <-> coll s = true /\ 1 <= cpc s)) /\
  (forall c n, c = false \/ n = 0 ->
     snd (kstep ka (mkK (deadline s) (await s) c n) (Tick t)) = [if await s then ErrAwait t else PingReqAt t]).
Proof. exact ka_independent_of_window. Qed.
