(** C20 — pinned statements (per-connection half: notification -> packet -> Protocol::write). *)
From Rumqtt Require Import Router.Types Stack.Model Stack.Spec Stack.Proofs.

Theorem c20_to_packet_none : forall n,
  to_packet n = None <-> (n = NUnschedule \/ exists t p, n = NShadow t p).
Proof. exact Stack.Proofs.c20_to_packet_none. Qed.

Theorem c20_emittable : forall n : notification, RouterEmits n.
Proof. exact Stack.Proofs.c20_emittable. Qed.

Theorem c20_encodable_dispatch : forall n, RouterEmits n ->
  match to_packet n with
  | None => n = NUnschedule \/ exists t p, n = NShadow t p
  | Some pk => has_arm V4 (okind pk) (ohas_props pk) = true /\
               has_arm V5 (okind pk) (ohas_props pk) = true
  end.
Proof. exact Stack.Proofs.c20_encodable_dispatch. Qed.

Theorem c20_write_no_panic : forall pr n pk, RouterEmits n -> to_packet n = Some pk ->
  exists v, write_view pr pk = Ok v.
Proof. exact Stack.Proofs.c20_write_no_panic. Qed.

Theorem c20_batch_no_panic : forall pr ns, exists vs, writev_view pr (fst (drain ns)) = Ok vs.
Proof. exact Stack.Proofs.c20_batch_no_panic. Qed.

Theorem c20_content : forall c p props,
  exists pk, to_packet (NForward c p props) = Some pk /\
             write_view V4 pk = Ok (OPublish p None) /\
             write_view V5 pk = Ok (OPublish p props).
Proof. exact Stack.Proofs.c20_content. Qed.

Theorem c20_f2_unfixed_refuted :
  exists n pk, RouterEmits n /\ to_packet n = Some pk /\ write_view_unfixed V4 pk = Panic 1.
Proof. exact Stack.Proofs.f2_unfixed_refuted. Qed.
