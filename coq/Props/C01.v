(** C01 — pinned statements.  Safety part: nothing unmatched, original payload/topic.
    Exactness and order: per sweep of a data request and for consecutive sweeps (below, with the
    cursor invariant and the one-request-per-subscription invariant).  NOT theorems yet: the
    composition over a whole run per subscription (that between two sweeps nothing but a
    disconnect/resume rewind changes a request's cursor) and completeness at quiescence; those
    are checked on implementation traces by the monitor (see MANIFEST level_note). *)
From Rumqtt Require Import Router.Model Router.LogAll Router.DataLogInv Router.DataLogStep.

(** In every state reachable from [init] by ANY sequence of ops and oracles: every entry stored
    in the commit log of filter f is a publish whose topic matches f (by [matches], i.e. the
    MQTT rule of C12) with retain = false; the filter index and the topic->filters cache only
    name existing logs with matching filters. *)
Theorem c01_log_invariant : forall cfg ops st0 st,
  init cfg = Ok st0 -> run st0 ops = Ok st -> DLInv (r_datalog st).
Proof. exact reachable_inv. Qed.

(** Whatever one sweep of a data request adds to any link buffer: every log-sourced forward is
    a stored entry of the request's log — topic matching that log's filter, stored payload,
    stored topic (or empty when a topic alias stands for it), retain = false — and the logs
    are not modified by forwarding. *)
Theorem c01_forward_matches : forall st id rq st' rq' status d,
  DLInv (r_datalog st) ->
  slab_get (dl_native (r_datalog st)) (dr_idx rq) = Some d ->
  forward_device_data st id rq = Ok (st', rq', status) ->
  r_datalog st' = r_datalog st /\
  exists k added,
    (forall j, out_of st' j = if j =? k then out_of st k ++ added else out_of st j) /\
    Forall (FwdOk (d_filter d)) added.
Proof. exact forward_device_data_ok. Qed.

Theorem c01_step_preserves : forall st orc o st' out,
  DLInv (r_datalog st) -> step_with st orc o = Ok (st', out) -> DLInv (r_datalog st').
Proof. exact step_with_inv. Qed.

(** ---- exactness / order (per sweep), and the cursor invariant behind it -------------------

    [CursorInv st] (Router/ExactThm.v): every filter log is well-formed ([WF], C13) for some
    ghost history; every data request the router holds (tracker, waiter list, notifications,
    saved session) has a cursor that its log has [Issued], at or before the log's end; so has
    every cursor in an inflight entry; the cursor of a shared-subscription group is a cursor
    of the log its members' requests read, and all requests of one group read the same log.
    [CInv] (Router/ExactInv.v) is the inductive form.  [Bounded st]: every filter log has had
    fewer than 2^62 entries appended ([B62]); it is a hypothesis on the LAST state of a run
    only (logs only grow), the configuration hypothesis is [max_outgoing_packet_count < 2^62].
    No hypothesis on ops or oracles. *)
From Rumqtt Require Import Log.Spec Router.ExactInv Router.ExactStep3 Router.ExactSweep Router.ExactThm Router.ExactExamples.
From Rumqtt Require Import Router.Model Router.RunDefs.

Theorem c01_cursor_inv_reachable : forall cfg st,
  cf_max_outgoing cfg < B62 -> reachable cfg st -> Bounded st -> CursorInv st.
Proof. exact reachable_cursorinv. Qed.

Theorem c01_cinv_init : forall cfg st, cf_max_outgoing cfg < B62 -> init cfg = Ok st -> CInv st.
Proof. exact init_cinv. Qed.

Theorem c01_cinv_step : forall st orc o st' out,
  CInv st -> Bounded st -> step_with st orc o = Ok (st', out) ->
  CInv st' /\ dl_le (r_datalog st) (r_datalog st').
Proof. exact step_with_cinv. Qed.

(** along any run that ends in a bounded state: the invariant at the end, the logs only grew
    ([dl_le]: ghost histories extended at the end, issued cursors still issued), and the start
    was bounded as well *)
Theorem c01_cinv_run : forall ops st st',
  CInv st -> run st ops = Ok st' -> Bounded st' ->
  CInv st' /\ dl_le (r_datalog st) (r_datalog st') /\ Bounded st.
Proof. exact run_cinv. Qed.

Theorem c01_cinv_cursor_inv : forall st, CInv st -> CursorInv st.
Proof. exact cinv_cursorinv. Qed.

(** One sweep ([forward_device_data]) of a request that is not served through a shared group,
    [all] = ghost history of its filter log, [p] = the position of its cursor (the log's base
    if the cursor is stale): after the retained replays [rs] of a first sweep ([rs = []]
    otherwise) the link receives exactly the forwards of [firstn (slots - |rs|) (skipn p all)]
    — same payload, retain, dup, topic (or an empty topic when a broker alias stands for it),
    the granted QoS — in append order, tagged with offsets p, p+1, ..; nothing else but a
    possible [Unschedule]; the request continues at offset p + (number forwarded) with an
    issued, non-stale cursor; FilterCaughtup / PartialRead say whether that is the log's end. *)
Theorem c01_sweep_exact : forall st id rq st' rq' cs d all,
  CInv st -> Bounded st ->
  nget (r_datalog st) (dr_idx rq) = Some d -> WF pubdata_size (d_log d) all ->
  Issued (d_log d) (dr_cursor rq) -> snd (dr_cursor rq) <= lenN all ->
  unshared st rq ->
  forward_device_data st id rq = Ok (st', rq', cs) ->
  exists o, slab_get (r_obufs st) id = Some o /\
  let p := pos_of (d_log d) (dr_cursor rq) in
  let slots := sweep_slots st o rq in
  r_datalog st' = r_datalog st /\ base_of (d_log d) <= p /\ p <= lenN all /\
  ((cs = SInflightFull /\ slots = 0 /\ st' = st /\ rq' = rq) \/
   (cs <> SInflightFull /\ cs <> SkipRequest /\
    exists rs ns tail,
      let es := firstn (N.to_nat (slots - lenN rs)) (skipn (N.to_nat p) all) in
      (forall k, out_of st' k = if k =? o_link o then out_of st k ++ (rs ++ ns) ++ tail else out_of st k) /\
      Forall is_retained_fwd rs /\ lenN rs <= slots /\ (dr_fwd_retained rq = false -> rs = []) /\
      fwds_from (dr_qos rq) p es ns /\
      ((tail = [] /\ cs <> BufferFull) \/ (tail = [NUnschedule] /\ cs = BufferFull)) /\
      rq' = {| dr_filter := dr_filter rq; dr_idx := dr_idx rq; dr_qos := dr_qos rq;
               dr_cursor := dr_cursor rq'; dr_read := dr_read rq + (lenN rs + lenN es);
               dr_fwd_retained := false; dr_group := dr_group rq |} /\
      Issued (d_log d) (dr_cursor rq') /\ stale (d_log d) (dr_cursor rq') = false /\
      snd (dr_cursor rq') = p + lenN es /\
      (cs = FilterCaughtup -> p + lenN es = lenN all \/ slots = 0) /\
      (cs = PartialRead -> p + lenN es < lenN all) /\
      (p + lenN es = lenN all -> cs = FilterCaughtup \/ cs = BufferFull))).
Proof. exact sweep_exact. Qed.

(** Two sweeps of the same request with ANY run in between (publishes to this or other logs,
    other clients, disconnects ..): the second sweep forwards the segment of the extended
    history [all ++ xs] that starts where the first one stopped — consecutive, no gap, no
    overlap, append order — provided the continuation cursor is still within retention;
    otherwise it restarts at the oldest retained entry, at or after the continuation (the
    entries in between were evicted unforwarded: the "backlog within retention" proviso). *)
Theorem c01_two_sweeps : forall st1 id1 rq st1' rq1 cs1 d1 all ops st2 id2 st2' rq2 cs2,
  CInv st1 ->
  nget (r_datalog st1) (dr_idx rq) = Some d1 -> WF pubdata_size (d_log d1) all ->
  Issued (d_log d1) (dr_cursor rq) -> snd (dr_cursor rq) <= lenN all ->
  dr_group rq = None ->
  forward_device_data st1 id1 rq = Ok (st1', rq1, cs1) -> cs1 <> SInflightFull ->
  run st1' ops = Ok st2 -> Bounded st2 ->
  forward_device_data st2 id2 rq1 = Ok (st2', rq2, cs2) -> cs2 <> SInflightFull ->
  exists d2 xs o1 o2 nret,
    nget (r_datalog st2) (dr_idx rq) = Some d2 /\ WF pubdata_size (d_log d2) (all ++ xs) /\
    slab_get (r_obufs st1) id1 = Some o1 /\ slab_get (r_obufs st2) id2 = Some o2 /\
    let p1 := pos_of (d_log d1) (dr_cursor rq) in
    let es1 := firstn (N.to_nat (sweep_slots st1 o1 rq - nret)) (skipn (N.to_nat p1) all) in
    let p2 := pos_of (d_log d2) (dr_cursor rq1) in
    let es2 := firstn (N.to_nat (sweep_slots st2 o2 rq1)) (skipn (N.to_nat p2) (all ++ xs)) in
    sweep_out st1 st1' o1 (dr_qos rq) p1 nret es1 /\
    sweep_out st2 st2' o2 (dr_qos rq) p2 0 es2 /\
    (stale (d_log d2) (dr_cursor rq1) = false -> p2 = p1 + lenN es1) /\
    (stale (d_log d2) (dr_cursor rq1) = true -> p2 = base_of (d_log d2) /\ p1 + lenN es1 <= p2).
Proof. exact two_sweeps. Qed.

(** the hypotheses are satisfiable by reachable states ([ex_hyps] = those of [c01_two_sweeps]),
    and what the proviso means: with two retained segments the second sweep forwards m2, m3;
    with one, the continuation cursor (0,1) went stale, the sweep restarts at base 2 and m2
    (offset 1) is never forwarded *)
Theorem c01_example_within_retention :
  exists st1 rq st1' rq1 cs1 d1 st2 st2' rq2 cs2 d2,
    ex_hyps 2 st1 rq st1' rq1 cs1 d1 [ex_x1] st2 st2' rq2 cs2 /\
    nget (r_datalog st2) 0 = Some d2 /\
    dr_cursor rq = (0, 0) /\ dr_cursor rq1 = (0, 1) /\ stale (d_log d2) (dr_cursor rq1) = false /\
    ex_obs (out_of st1' 0) = [(Some (0, 0), 1)] /\
    ex_obs (out_of st2' 0) = [(Some (0, 0), 1); (Some (0, 1), 1100); (Some (1, 2), 1)] /\
    dr_cursor rq2 = (1, 3) /\ cs2 = FilterCaughtup.
Proof. exact ex_two_sweeps_within_retention. Qed.

Theorem c01_example_beyond_retention :
  exists st1 rq st1' rq1 cs1 d1 st2 st2' rq2 cs2 d2,
    ex_hyps 1 st1 rq st1' rq1 cs1 d1 [ex_x1] st2 st2' rq2 cs2 /\
    nget (r_datalog st2) 0 = Some d2 /\
    dr_cursor rq = (0, 0) /\ dr_cursor rq1 = (0, 1) /\ stale (d_log d2) (dr_cursor rq1) = true /\
    base_of (d_log d2) = 2 /\ end_of (d_log d2) = 3 /\
    ex_obs (out_of st1' 0) = [(Some (0, 0), 1)] /\
    ex_obs (out_of st2' 0) = [(Some (0, 0), 1); (Some (1, 2), 1)] /\
    dr_cursor rq2 = (1, 3) /\ cs2 = FilterCaughtup.
Proof. exact ex_two_sweeps_stale. Qed.

(** ---- request location (RInv 2): exactly one data request per subscription ------------------
    [CNT st [] id f] (Router/NoPanicDevInv.v) = number of data requests of connection [id] with
    subscription filter [f] in its tracker, in the waiter lists of all filter logs and in
    [notifications].  Hypotheses: a valid configuration and well-typed ops (SUBSCRIBE QoS <= 2,
    as for C03).  Together with [c01_cursor_inv_reachable] and [c01_sweep_exact]: every
    subscription of a live connection is served by one request whose cursor walks its filter
    log entry by entry. *)
From Rumqtt Require Import Router.Inv Router.NoPanic Router.NoPanicDevBase Router.NoPanicDevInv Router.ExactLoc3.
From Rumqtt Require Import Router.Model Router.RunDefs.

Theorem c01_request_location : forall cfg st0 ops st,
  cfg_ok cfg -> init cfg = Ok st0 -> ops_wf ops -> run st0 ops = Ok st ->
  forall id c f, slab_get (r_conns st) id = Some c ->
    CNT st [] id f = if set_mem str_eqb f (c_subs c) then 1%nat else 0%nat.
Proof. exact request_location. Qed.

Theorem c01_request_location_saved : forall cfg st0 ops st,
  cfg_ok cfg -> init cfg = Ok st0 -> ops_wf ops -> run st0 ops = Ok st ->
  forall client ss f, In (client, Some ss) (r_graveyard st) ->
    cnt f (tr_reqs (ss_tracker ss)) = if set_mem str_eqb f (ss_subs ss) then 1%nat else 0%nat.
Proof. exact request_location_saved. Qed.

(** "after that subscription took effect": SUBSCRIBE creates the request with the cursor
    [next_native_offset] returns, the current END of the filter's log ([all] = its history then).
    Swept in any later state [st2] whose logs extend those of the subscribe state
    ([dl_le], e.g. by [c01_cinv_run] along any run): within retention the sweep forwards the
    first [slots] entries of [xs], the messages appended AFTER the subscription — nothing
    accepted before it; beyond retention it restarts at the base, which is at or after [|all|]. *)
Theorem c01_sweep_after_subscribe : forall st f st0 idx cu st2 id rq st2' rq2 cs,
  CInv st -> next_native_offset st f = Ok (st0, idx, cu) ->
  CInv st2 -> Bounded st2 -> dl_le (r_datalog st0) (r_datalog st2) ->
  dr_idx rq = idx -> dr_cursor rq = cu -> dr_group rq = None ->
  forward_device_data st2 id rq = Ok (st2', rq2, cs) -> cs <> SInflightFull ->
  exists d0 all d2 xs o nret,
    nget (r_datalog st0) idx = Some d0 /\ WF pubdata_size (d_log d0) all /\
    nget (r_datalog st2) idx = Some d2 /\ WF pubdata_size (d_log d2) (all ++ xs) /\
    slab_get (r_obufs st2) id = Some o /\
    (stale (d_log d2) cu = false ->
       sweep_out st2 st2' o (dr_qos rq) (lenN all) nret (firstn (N.to_nat (sweep_slots st2 o rq - nret)) xs)) /\
    (stale (d_log d2) cu = true ->
       lenN all <= base_of (d_log d2) /\
       sweep_out st2 st2' o (dr_qos rq) (base_of (d_log d2)) nret
         (firstn (N.to_nat (sweep_slots st2 o rq - nret)) (skipn (N.to_nat (base_of (d_log d2))) (all ++ xs)))).
Proof. exact sweep_after_subscribe. Qed.

(** ---- the wake-up discipline (RInv 3) and completeness at quiescence --------------------------
    Definitions (Router/Wake.v, WakePark.v, WakeThm.v, WakeCor.v):
    [owed_run st0 [] ops] — ghost, a function of the op history: the links that took an
    [Unschedule] out of their buffer ([OpDrain k] handing out a buffer that contains one) and have
    not sent [Event::Ready] since ([OpReady id] clears the link of [id]); [owes_ready st0 ops k]
    = membership of link [k] in it.
    [WakeInv st owed] = [WakeS] — for every tracker: Ready -> queued; Paused Caughtup -> no
    request held and no ack committed; Paused InflightFull -> inflight buffer not empty;
    Paused Busy -> Unschedule in the link buffer or the link owes a Ready —
    and [ParkInv] — every request parked on filter log [i] reads log [i] and (unless served
    through a shared group) its cursor is the END of that log.
    [quiescent st owed]: no live Ready connection in the ready queue, notifications empty, every
    inflight buffer empty, no Unschedule in a link buffer, no link owing a Ready.
    Hypotheses: valid configuration, 1 <= max_outgoing_packet_count < 2^62, well-typed ops
    (SUBSCRIBE QoS <= 2), and — for the parked-cursor clause only — fewer than 2^62 entries per
    filter log in the LAST state.  No hypothesis on the op sequence or the oracles. *)
From Rumqtt Require Import Router.WindowFrame Router.WindowStep Router.Wake Router.WakePark Router.WakeThm Router.WakeCor Router.WakeExamples.
From Rumqtt Require Import Router.Model Router.RunDefs.

Theorem c01_no_lost_wakeup : forall (cfg : config) (st0 : rstate) (ops : list (list oracle * rop)) (st : rstate),
  cfg_ok cfg -> init cfg = Ok st0 -> ops_wf ops -> run st0 ops = Ok st ->
  forall (id : N) (t : tracker) (a : acklog) (o : outgoing),
    slab_get (r_trackers st) id = Some t -> slab_get (r_acks st) id = Some a -> slab_get (r_obufs st) id = Some o ->
    (tr_reqs t <> [] \/ a_committed a <> [] ->
       (tr_status t = Ready /\ In id (r_ready st)) \/
       (tr_status t = Paused InflightFull /\ o_inflight o <> []) \/
       (tr_status t = Paused Busy /\
        (In NUnschedule (out_of st (o_link o)) \/ owes_ready st0 ops (o_link o) = true))) /\
    (tr_status t = Paused Caughtup -> tr_reqs t = [] /\ a_committed a = []) /\
    (tr_status t = Ready -> In id (r_ready st)) /\
    (tr_status t = Paused InflightFull -> o_inflight o <> []) /\
    (tr_status t = Paused Busy ->
       In NUnschedule (out_of st (o_link o)) \/ owes_ready st0 ops (o_link o) = true).
Proof. exact no_lost_wakeup. Qed.

Theorem c01_wake_inv_reachable : forall (cfg : config) (st0 : rstate) (ops : list (list oracle * rop)) (st : rstate),
  cfg_ok cfg -> 1 <= cf_max_outgoing cfg < B62 -> init cfg = Ok st0 -> ops_wf ops ->
  run st0 ops = Ok st -> Bounded st ->
  WakeInv st (owed_run st0 [] ops).
Proof. exact wake_reachable. Qed.

Theorem c01_wake_inv_step : forall (st : rstate) (owed : list N) (orc : list oracle) (o : rop) (st' : rstate) (out : rout),
  RInv st -> LinkInv st -> WakeS st owed -> step_with st orc o = Ok (st', out) ->
  WakeS st' (owed_step st owed o).
Proof. exact step_with_wakes. Qed.

Theorem c01_park_inv_step : forall (st : rstate) (orc : list oracle) (o : rop) (st' : rstate) (out : rout),
  CInv st -> Bounded st -> 1 <= cf_max_outgoing (r_cfg st) -> ParkInv st ->
  step_with st orc o = Ok (st', out) -> ParkInv st'.
Proof. exact step_with_park. Qed.

Theorem c01_parked_at_end : forall (cfg : config) (st0 : rstate) (ops : list (list oracle * rop)) (st : rstate),
  cfg_ok cfg -> 1 <= cf_max_outgoing cfg < B62 -> init cfg = Ok st0 -> ops_wf ops ->
  run st0 ops = Ok st -> Bounded st ->
  forall (i : N) (d : data) (id : N) (rq : drequest), nget (r_datalog st) i = Some d -> In (id, rq) (d_waiters d) ->
    dr_idx rq = i /\ (dr_group rq = None -> snd (dr_cursor rq) = end_of (d_log d)).
Proof. exact parked_at_end. Qed.

(** completeness at quiescence: every live connection holds nothing in its tracker and has no
    committed ack; each of its subscriptions has exactly one data request anywhere
    ([c01_request_location]) and it is parked ([cnti] = its count over all waiter lists) on the
    log it reads with its cursor at the end of that log: by [c01_sweep_exact] /
    [c01_two_sweeps] everything appended before was forwarded (or evicted unforwarded beyond
    retention), nothing accepted is still undelivered *)
Theorem c01_complete_quiescent : forall (cfg : config) (st0 : rstate) (ops : list (list oracle * rop)) (st : rstate),
  cfg_ok cfg -> 1 <= cf_max_outgoing cfg < B62 -> init cfg = Ok st0 -> ops_wf ops ->
  run st0 ops = Ok st -> Bounded st ->
  quiescent st (owed_run st0 [] ops) ->
  forall (id : N) (c : connection), slab_get (r_conns st) id = Some c ->
  exists (t : tracker) (a : acklog),
    slab_get (r_trackers st) id = Some t /\ slab_get (r_acks st) id = Some a /\
    tr_status t = Paused Caughtup /\ tr_reqs t = [] /\ a_committed a = [] /\
    forall f : str, set_mem str_eqb f (c_subs c) = true ->
      cnti f id (items_of st) = 1%nat /\
      exists (i : N) (d : data) (rq : drequest),
        nget (r_datalog st) i = Some d /\ In (id, rq) (d_waiters d) /\ dr_filter rq = f /\ dr_idx rq = i /\
        (dr_group rq = None -> snd (dr_cursor rq) = end_of (d_log d)).
Proof. exact complete_quiescent. Qed.

(** non-trivial reachable witnesses: Paused Busy with a request pending and the Unschedule in the
    link buffer; the same after the link drained it (nothing in the buffer: the ghost holds) and
    after the owed Ready; Paused InflightFull with a full window; a quiescent state with the
    request parked at offset 250 = the end of its log *)
Theorem c01_wake_example_busy :
  let st := wx_st wx_busy_ops in let owed := wx_owed wx_busy_ops in
  wx_run wx_busy_ops = Ok (st, owed) /\ reachable wx_cfg st /\ WakeInv st owed /\
  exists (t : tracker) (o : outgoing),
    slab_get (r_trackers st) 0 = Some t /\ slab_get (r_obufs st) 0 = Some o /\
    tr_status t = Paused Busy /\ lenN (tr_reqs t) = 1 /\ r_ready st = [] /\
    In NUnschedule (out_of st (o_link o)) /\ lenN (out_of st (o_link o)) = 201 /\ owed = [].
Proof. exact wake_busy_witness. Qed.

Theorem c01_wake_example_owed :
  let st := wx_st wx_owed_ops in let owed := wx_owed wx_owed_ops in
  let st' := wx_st wx_ready_ops in let owed' := wx_owed wx_ready_ops in
  wx_run wx_owed_ops = Ok (st, owed) /\ reachable wx_cfg st /\ WakeInv st owed /\
  wx_run wx_ready_ops = Ok (st', owed') /\ WakeInv st' owed' /\
  exists (t : tracker) (o : outgoing) (t' : tracker),
    slab_get (r_trackers st) 0 = Some t /\ slab_get (r_obufs st) 0 = Some o /\
    tr_status t = Paused Busy /\ lenN (tr_reqs t) = 1 /\ r_ready st = [] /\
    out_of st (o_link o) = [] /\ owed = [o_link o] /\
    slab_get (r_trackers st') 0 = Some t' /\ tr_status t' = Ready /\ lenN (tr_reqs t') = 1 /\
    r_ready st' = [0] /\ owed' = [].
Proof. exact wake_owed_witness. Qed.

Theorem c01_wake_example_inflightfull :
  let st := wx_st wx_full_ops in let owed := wx_owed wx_full_ops in
  wx_run wx_full_ops = Ok (st, owed) /\ reachable wx_cfg st /\ WakeInv st owed /\
  exists (t : tracker) (o : outgoing),
    slab_get (r_trackers st) 0 = Some t /\ slab_get (r_obufs st) 0 = Some o /\
    tr_status t = Paused InflightFull /\ lenN (tr_reqs t) = 1 /\ r_ready st = [] /\
    lenN (o_inflight o) = 100 /\ has_unsched (out_of st (o_link o)) = false /\ owed = [].
Proof. exact wake_inflightfull_witness. Qed.

Theorem c01_wake_example_quiescent :
  let st := wx_st wx_quiet_ops in let owed := wx_owed wx_quiet_ops in
  wx_run wx_quiet_ops = Ok (st, owed) /\ reachable wx_cfg st /\ WakeInv st owed /\ quiescent st owed /\
  exists (c : connection) (t : tracker) (a : acklog) (d : data) (rq : drequest),
    slab_get (r_conns st) 0 = Some c /\ c_subs c = [[116]] /\
    slab_get (r_trackers st) 0 = Some t /\ slab_get (r_acks st) 0 = Some a /\
    tr_status t = Paused Caughtup /\ tr_reqs t = [] /\ a_committed a = [] /\
    cnti [116] 0 (items_of st) = 1%nat /\
    nget (r_datalog st) 0 = Some d /\ d_waiters d = [(0, rq)] /\ dr_filter rq = [116] /\
    dr_cursor rq = (1, 250) /\ end_of (d_log d) = 250.
Proof. exact wake_quiescent_witness. Qed.

(** ---- [MQTT-4.7.3-1] (Router/EmptyTopic.v): a PUBLISH with an empty topic name and no topic
    alias is refused.  [alias_of props] = the alias property; [empty_topic_reason props] = 0x82
    (RC_PROTOCOL), or 0x81 when the publish also carries a subscription identifier (tested
    first).  [processed] (Router/WindowDisc.v): the batch of [id] reaches the packet in state [s].
    The event closes [id] with that reason; every commit log and the retained store are after the
    event what they were when the packet was reached: nothing is appended anywhere. *)
From Rumqtt Require Import Router.WindowDisc Router.WindowThm Router.WindowExamples Router.EmptyTopic.
From Rumqtt Require Router.RetainedBase.
From Rumqtt Require Import Router.Model Router.RunDefs.

Theorem c01_empty_topic_rejected : forall (st : rstate) (id : N) (inc : incoming) (b : linkbuf) (s : rstate)
    (fls : flags) (p : publish) (props : option pprops) (st' : rstate),
  slab_get (r_ibufs st) id = Some inc -> nthN (r_links st) (i_link inc) = Some b ->
  processed id (i_client inc) (link_put st (i_link inc) (set_lk_in b [])) flags0 (lk_in b) s fls (PPublish p props) ->
  p_topic p = [] -> alias_of props = None -> p_qos p <> 2 ->
  handle_device_payload st id = Ok st' ->
  exists s1 fl1 st3,
    handle_packet s id (i_client inc) (PPublish p props) fls = Ok (s1, fl1, true) /\
    r_datalog s1 = r_datalog s /\ r_datalog st3 = r_datalog s /\
    handle_disconnection st3 id (Some (empty_topic_reason props)) = Ok st' /\
    RetainedBase.dl_logs (r_datalog st') = RetainedBase.dl_logs (r_datalog s) /\
    dl_retained (r_datalog st') = dl_retained (r_datalog s) /\
    slab_get (r_obufs st') id = None /\
    forall id', id' <> id ->
      slab_get (r_conns st') id' = slab_get (r_conns st3) id' /\
      slab_get (r_obufs st') id' = slab_get (r_obufs st3) id' /\
      slab_get (r_trackers st') id' = slab_get (r_trackers st3) id' /\
      slab_get (r_acks st') id' = slab_get (r_acks st3) id' /\
      slab_get (r_ibufs st') id' = slab_get (r_ibufs st3) id'.
Proof. exact empty_topic_closes. Qed.

Theorem c01_empty_topic_append : forall (st : rstate) (id : N) (p : publish) (props : option pprops)
    (st' : rstate) (res : append_res),
  append_to_commitlog st id p props = Ok (st', res) ->
  p_topic p = [] -> alias_of props = None ->
  st' = st /\ res = AppErr (Some (empty_topic_reason props)).
Proof. exact append_empty_topic. Qed.

Theorem c01_empty_topic_packet : forall (st : rstate) (id : N) (client : str) (p : publish) (props : option pprops)
    (fl : flags) (st1 : rstate) (fl1 : flags) (brk : bool),
  handle_packet st id client (PPublish p props) fl = Ok (st1, fl1, brk) ->
  p_topic p = [] -> alias_of props = None -> p_qos p <> 2 ->
  brk = true /\ f_disconnect fl1 = true /\ f_reason fl1 = Some (empty_topic_reason props) /\
  r_datalog st1 = r_datalog st /\ r_obufs st1 = r_obufs st /\ r_links st1 = r_links st.
Proof. exact empty_topic_rejected. Qed.

Theorem c01_empty_topic_qos2 : forall (st : rstate) (id : N) (client : str) (pkid : N) (rs : bool) (fl : flags)
    (st1 : rstate) (fl1 : flags) (brk : bool) (l : acklog) (p : publish) (props : option pprops)
    (rec : list (publish * option pprops)),
  handle_packet st id client (PPubRel pkid rs) fl = Ok (st1, fl1, brk) ->
  slab_get (r_acks st) id = Some l -> a_recorded l = (p, props) :: rec ->
  p_topic p = [] -> alias_of props = None ->
  brk = true /\ f_disconnect fl1 = true /\
  r_datalog st1 = r_datalog st /\ r_obufs st1 = r_obufs st /\ r_links st1 = r_links st.
Proof. exact empty_topic_rejected_qos2. Qed.

Theorem c01_empty_topic_example :
  from_init exe_ops = Ok exe_st /\ reachable ex_cfg exe_st /\
  in_of exe_st 1 = [empty_pub] /\
  run exe_st (plain [OpData 1; OpConsume; OpConsume]) = Ok exe_st1 /\
  out_of exe_st1 1 = out_of exe_st 1 ++ [NDisconnect RC_PROTOCOL] /\
  out_of exe_st1 0 = out_of exe_st 0 /\
  slab_get (r_obufs exe_st1) 1 = None /\ slab_get (r_obufs exe_st1) 0 <> None /\
  RetainedBase.dl_logs (r_datalog exe_st1) = RetainedBase.dl_logs (r_datalog exe_st) /\
  dl_retained (r_datalog exe_st1) = [].
Proof. exact empty_topic_witness. Qed.

(** ---- whole runs (Router/TraceRun*.v): exactly once, in order, gap-free within retention, nothing
    from before the SUBSCRIBE, complete at quiescence, original content — for EVERY run from [init].
    Ghost.  [run_d st0 ops = Ok (st, tr)] is the model's [run] with one more result, the delivery
    trace [tr]; it is computed by instrumented copies of the model's own functions and erases to
    [run] ([c01_run_ghost_erases]; every run has its trace: [c01_run_has_trace]).  An event
    [(id, (k, f, i), e)]: connection key [id]; LINK number [k] — links are never reused, so [k]
    identifies the connection between its Connect and its removal (keys [id] are recycled;
    [c01_run_event_owner]: the events of a live connection's link carry its key) —; subscription
    filter [f] (the SUBSCRIBE's path); filter log [i].  Only requests that are NOT shared
    ([dr_group = None]) produce events:
      [KSub e]    a SUBSCRIBE for a filter the connection did not hold was processed; [e] = the
                  END of log [i] at that moment ([c01_run_sub_event]);
      [KFwd off p] [forward_device_data] for that request appended [NForward (Some (_, off)) p _] to
                  the connection's link buffer ([c01_run_fwd_event]; retained replays carry no
                  cursor and are not events);
      [KJump from to] a sweep started with a STALE cursor ([stale], the log rolled past it): it
                  continues at the log's base [to], the entries [from, to) were evicted
                  unforwarded — the "within retention" proviso ([c01_run_jump_event]);
      [KRes cl c0] a Connect of client [cl] RESUMED a saved session on a new link: one marker per
                  restored non-shared request, under the NEW key, [c0] = the offset of the cursor
                  it was restored with ([c01_run_res_event]); the first sweep starts at [c0].
                  What [c0] is, across connection epochs, is C08's business (Props/C08.v);
      [KEnd cl r w] a connection of [cl] with clean_session = false was removed; end markers are
                  not part of [ktrace] (see Props/C08.v).
    [ktrace K tr] = the events of key K = (k, f, i) in order; [nxt]: where the request continues
    after an event (forward off -> off + 1, jump -> to, subscribe -> e); [kchain]: every event
    starts where the previous one continues ([ok_next]; a [KRes] follows nothing; every jump goes
    forward, also right after a [KRes]: Router/TraceRunBound.v); [covered x l]: offset [x] is forwarded in [l], or inside a
    jump of [l], or below a subscribe marker of [l].
    Hypotheses of every theorem: valid configuration, max_outgoing_packet_count < 2^62, well-typed
    ops (SUBSCRIBE QoS <= 2), fewer than 2^62 entries per filter log in the LAST state; for
    completeness also max_outgoing_packet_count >= 1 and a quiescent final state.  NO hypothesis
    on ops or oracles.
    The key names the right log ([c01_run_key_shape], no hypothesis at all): [f] is a plain filter
    (no "$share/" prefix) and [i] = [filter_indexes f]; by [c01_log_invariant] that log's filter
    is [f] and every entry in it is a publish whose topic matches [f].
    From acceptance to the logs ([c01_accept_reaches_all], Router/TraceRunAccept.v): in every
    reachable state a publish that [append_to_commitlog] accepts is appended, exactly once, to
    the log of EVERY filter in [filter_indexes] that matches its topic and to no log whose filter
    does not match — the topic->filters cache [publish_filters] is complete and duplicate-free
    in every reachable state ([c01_match_cache_complete]), whatever the HashMap order (oracle). *)
From Rumqtt Require Import Router.TraceRun Router.TraceRunThm Router.TraceRunContent Router.TraceRunShape Router.TraceRunFinal Router.TraceRunAccept Router.TraceRunExamples.
From Rumqtt Require Import Router.Model Router.RunDefs.

Theorem c01_run_ghost_erases : forall (ops : list (list oracle * rop)) (st : rstate),
  drop2 (run_d st ops) = run st ops.
Proof. exact run_erase. Qed.

Theorem c01_run_step_ghost_erases : forall (st : rstate) (orc : list oracle) (o : rop),
  drop3 (step_with_d st orc o) = step_with st orc o.
Proof. exact step_with_erase. Qed.

Theorem c01_run_has_trace : forall (ops : list (list oracle * rop)) (st st' : rstate),
  run st ops = Ok st' -> exists tr, run_d st ops = Ok (st', tr).
Proof. exact run_has_trace. Qed.

(** the trace of every key is a chain, and starts with a subscribe or a resume marker *)
Theorem c01_run_chain : forall (cfg : config) (st0 : rstate) (ops : list (list oracle * rop)) (st : rstate) (tr : list dev),
  cfg_ok cfg -> cf_max_outgoing cfg < B62 -> init cfg = Ok st0 -> ops_wf ops ->
  run_d st0 ops = Ok (st, tr) -> Bounded st ->
  forall K : dkey, kchain (ktrace K tr).
Proof. exact c01_run_chain_thm. Qed.

Theorem c01_run_key_head : forall (cfg : config) (st0 : rstate) (ops : list (list oracle * rop)) (st : rstate) (tr : list dev),
  cfg_ok cfg -> cf_max_outgoing cfg < B62 -> init cfg = Ok st0 -> ops_wf ops ->
  run_d st0 ops = Ok (st, tr) -> Bounded st ->
  forall (K : dkey) (a : kev) (l : list kev), ktrace K tr = a :: l ->
    (exists (cl : str) (c0 : N), a = KRes cl c0) \/ exists e : N, a = KSub e.
Proof. exact c01_run_key_head_thm. Qed.

(** (a) no duplicate, acceptance order: the offsets forwarded for a key increase strictly *)
Theorem c01_run_no_dup_in_order : forall (cfg : config) (st0 : rstate) (ops : list (list oracle * rop)) (st : rstate) (tr : list dev),
  cfg_ok cfg -> cf_max_outgoing cfg < B62 -> init cfg = Ok st0 -> ops_wf ops ->
  run_d st0 ops = Ok (st, tr) -> Bounded st ->
  forall (k : N) (f : str) (i : N),
    increasing (fwd_offs (ktrace (k, f, i) tr)) /\ NoDup (fwd_offs (ktrace (k, f, i) tr)).
Proof. exact c01_run_no_dup_in_order_thm. Qed.

(** (b) gap-free: two forwards adjacent in a key's trace are consecutive offsets; every offset
    strictly between two forwards of the key is accounted for by the events in between (a jump
    over it: evicted before the sweep reached it; or a re-subscription above it) *)
Theorem c01_run_gap_free : forall (cfg : config) (st0 : rstate) (ops : list (list oracle * rop)) (st : rstate) (tr : list dev),
  cfg_ok cfg -> cf_max_outgoing cfg < B62 -> init cfg = Ok st0 -> ops_wf ops ->
  run_d st0 ops = Ok (st, tr) -> Bounded st ->
  forall (K : dkey) (l1 : list kev) (o1 : N) (p1 : publish) (mid : list kev) (o2 : N) (p2 : publish) (l2 : list kev),
    ktrace K tr = l1 ++ KFwd o1 p1 :: mid ++ KFwd o2 p2 :: l2 ->
    o1 < o2 /\ (mid = [] -> o2 = o1 + 1) /\ (forall x : N, o1 < x < o2 -> covered x mid).
Proof. exact c01_run_gap_free_thm. Qed.

(** (c) nothing from before the subscription: after [KSub e] every forward of the key is at or
    above [e], and the next event is the forward of [e] itself, a jump from [e], or a later
    re-subscription *)
Theorem c01_run_starts_after_subscribe : forall (cfg : config) (st0 : rstate) (ops : list (list oracle * rop)) (st : rstate) (tr : list dev),
  cfg_ok cfg -> cf_max_outgoing cfg < B62 -> init cfg = Ok st0 -> ops_wf ops ->
  run_d st0 ops = Ok (st, tr) -> Bounded st ->
  forall (K : dkey) (l1 : list kev) (e : N) (l2 : list kev),
    ktrace K tr = l1 ++ KSub e :: l2 ->
    (forall (off : N) (p : publish), In (KFwd off p) l2 -> e <= off) /\
    (forall (b : kev) (l3 : list kev), l2 = b :: l3 ->
       match b with KFwd off _ => off = e | KJump from to => from = e /\ e <= to | KSub e' => e <= e'
                  | KRes _ _ => False | KEnd _ _ _ => False end).
Proof. exact c01_run_starts_after_subscribe_thm. Qed.

(** (d) complete at quiescence: every live connection's every subscription has its one request
    parked at the end of its log ([c01_complete_quiescent]); if it is not shared, its key has a
    history that starts with the SUBSCRIBE marker or (resumed session) the resume marker, and
    every offset from a subscribe marker of the key up to the end of the log is accounted for
    after the marker: forwarded (once, by (a)), jumped over (evicted), or below a later
    re-subscription *)
Theorem c01_run_complete : forall (cfg : config) (st0 : rstate) (ops : list (list oracle * rop)) (st : rstate) (tr : list dev),
  cfg_ok cfg -> cf_max_outgoing cfg < B62 -> init cfg = Ok st0 -> ops_wf ops ->
  run_d st0 ops = Ok (st, tr) -> Bounded st ->
  1 <= cf_max_outgoing cfg -> quiescent st (owed_run st0 [] ops) ->
  forall (id : N) (c : connection) (o : outgoing),
    slab_get (r_conns st) id = Some c -> slab_get (r_obufs st) id = Some o ->
  forall f : str, set_mem str_eqb f (c_subs c) = true ->
  exists (i : N) (d : data) (rq : drequest),
    nget (r_datalog st) i = Some d /\ In (id, rq) (d_waiters d) /\ dr_filter rq = f /\ dr_idx rq = i /\
    (dr_group rq = None ->
     snd (dr_cursor rq) = end_of (d_log d) /\
     (exists (a : kev) (l : list kev), ktrace (o_link o, f, i) tr = a :: l /\
        ((exists (cl : str) (c0 : N), a = KRes cl c0) \/ exists e : N, a = KSub e)) /\
     forall (l1 : list kev) (e : N) (l2 : list kev), ktrace (o_link o, f, i) tr = l1 ++ KSub e :: l2 ->
       forall x : N, e <= x < end_of (d_log d) -> covered x l2).
Proof. exact c01_run_complete_thm. Qed.

(** the same for a plain (not shared) subscription [f], everything named: [i] is the log of [f],
    the one request of the subscription is not shared and parked at the end of that log *)
Theorem c01_run_complete_plain : forall (cfg : config) (st0 : rstate) (ops : list (list oracle * rop)) (st : rstate) (tr : list dev),
  cfg_ok cfg -> cf_max_outgoing cfg < B62 -> init cfg = Ok st0 -> ops_wf ops ->
  run_d st0 ops = Ok (st, tr) -> Bounded st ->
  1 <= cf_max_outgoing cfg -> quiescent st (owed_run st0 [] ops) ->
  forall (id : N) (c : connection) (o : outgoing),
    slab_get (r_conns st) id = Some c -> slab_get (r_obufs st) id = Some o ->
  forall f : str, set_mem str_eqb f (c_subs c) = true -> extract_group f = None ->
  exists (i : N) (d : data) (rq : drequest),
    al_get str_eqb f (dl_findex (r_datalog st)) = Some i /\
    nget (r_datalog st) i = Some d /\ d_filter d = f /\
    In (id, rq) (d_waiters d) /\ dr_filter rq = f /\ dr_idx rq = i /\ dr_group rq = None /\
    snd (dr_cursor rq) = end_of (d_log d) /\
    (exists (a : kev) (l : list kev), ktrace (o_link o, f, i) tr = a :: l /\
       ((exists (cl : str) (c0 : N), a = KRes cl c0) \/ exists e : N, a = KSub e)) /\
    forall (l1 : list kev) (a : kev) (l2 : list kev), ktrace (o_link o, f, i) tr = l1 ++ a :: l2 ->
      forall x : N, nxt a <= x < end_of (d_log d) -> covered x l2.
Proof. exact run_complete_plain. Qed.

Theorem c01_run_key_shape : forall (cfg : config) (st0 : rstate) (ops : list (list oracle * rop)) (st : rstate) (tr : list dev),
  init cfg = Ok st0 -> run_d st0 ops = Ok (st, tr) ->
  forall (id k : N) (f : str) (i : N) (a : kev), In (id, (k, f, i), a) tr ->
    extract_group f = None /\ al_get str_eqb f (dl_findex (r_datalog st)) = Some i.
Proof. exact run_key_shape. Qed.

Theorem c01_run_covered_no_resubscribe : forall (x : N) (l : list kev),
  no_sub l -> covered x l ->
  (exists p : publish, In (KFwd x p) l) \/ (exists from to : N, In (KJump from to) l /\ from <= x < to).
Proof. exact covered_no_sub. Qed.

(** (e) original content: every log of the final state has ONE history [all] consistent with
    the log ([WF], C13) such that every forward ever made from that log carries the entry
    appended at its offset: same payload, retain, dup; same topic, or an empty topic when a
    broker topic alias stands for it; QoS = the granted one ([prel]) *)
Theorem c01_run_content : forall (cfg : config) (st0 : rstate) (ops : list (list oracle * rop)) (st : rstate) (tr : list dev),
  cf_max_outgoing cfg < B62 -> init cfg = Ok st0 -> run_d st0 ops = Ok (st, tr) -> Bounded st ->
  forall (i : N) (d : data), nget (r_datalog st) i = Some d ->
  exists all : list pubdata, WF pubdata_size (d_log d) all /\
    forall (id k : N) (f : str) (off : N) (p : publish), In (id, (k, f, i), KFwd off p) tr ->
      exists (e : pubdata) (q : N), nth_error all (N.to_nat off) = Some e /\ prel q (fst e) p.
Proof. exact run_content. Qed.

Theorem c01_run_event_owner : forall (cfg : config) (st0 : rstate) (ops : list (list oracle * rop)) (st : rstate) (tr : list dev),
  cfg_ok cfg -> cf_max_outgoing cfg < B62 -> init cfg = Ok st0 -> ops_wf ops ->
  run_d st0 ops = Ok (st, tr) -> Bounded st ->
  forall (id k : N) (f : str) (i : N) (a : kev) (c : N) (o : outgoing),
    In (id, (k, f, i), a) tr -> slab_get (r_obufs st) c = Some o -> o_link o = k -> id = c.
Proof. exact c01_run_event_owner_thm. Qed.

Theorem c01_run_event_in_log : forall (cfg : config) (st0 : rstate) (ops : list (list oracle * rop)) (st : rstate) (tr : list dev),
  cfg_ok cfg -> cf_max_outgoing cfg < B62 -> init cfg = Ok st0 -> ops_wf ops ->
  run_d st0 ops = Ok (st, tr) -> Bounded st ->
  forall (id k : N) (f : str) (i : N) (a : kev),
    In (id, (k, f, i), a) tr -> exists d : data, nget (r_datalog st) i = Some d /\ nxt a <= end_of (d_log d).
Proof. exact c01_run_event_in_log_thm. Qed.

(** what the events of one sweep / one SUBSCRIBE / one Connect are *)
Theorem c01_run_fwd_event : forall (st : rstate) (id : N) (rq : drequest) (st' : rstate) (cs : consume_status)
    (id' : N) (K : dkey) (off : N) (p : publish),
  In (id', K, KFwd off p) (fdd_ghost st id rq st' cs) ->
  dr_group rq = None /\ id' = id /\
  exists o : outgoing, slab_get (r_obufs st) id = Some o /\ K = (o_link o, dr_filter rq, dr_idx rq) /\
    exists (seg : N) (pr : option pprops),
      In (NForward (Some (seg, off)) p pr) (skipn (length (out_of st (o_link o))) (out_of st' (o_link o))).
Proof. exact fdd_ghost_fwd. Qed.

Theorem c01_run_jump_event : forall (st : rstate) (id : N) (rq : drequest) (st' : rstate) (cs : consume_status)
    (id' : N) (K : dkey) (from to : N),
  In (id', K, KJump from to) (fdd_ghost st id rq st' cs) ->
  dr_group rq = None /\ cs <> SInflightFull /\
  exists d : data, nget (r_datalog st) (dr_idx rq) = Some d /\ stale (d_log d) (dr_cursor rq) = true /\
                   from = snd (dr_cursor rq) /\ to = base_of (d_log d).
Proof. exact fdd_ghost_jump. Qed.

Theorem c01_run_sub_event : forall (st : rstate) (f : str) (st1 : rstate) (idx : N) (cu : cursor) (id : N) (path : str)
    (grp : option str) (id' : N) (K : dkey) (a : kev),
  CInv st -> next_native_offset st f = Ok (st1, idx, cu) ->
  In (id', K, a) (pf_ghost st1 id cu idx path grp) ->
  grp = None /\ id' = id /\
  exists (conn : connection) (o : outgoing) (d : data),
    slab_get (r_conns st1) id = Some conn /\ set_mem str_eqb path (c_subs conn) = false /\
    slab_get (r_obufs st1) id = Some o /\ K = (o_link o, path, idx) /\
    nget (r_datalog st1) idx = Some d /\ a = KSub (end_of (d_log d)).
Proof. exact pf_ghost_sub. Qed.

Theorem c01_run_res_event : forall (st' : rstate) (client : str) (link id' : N) (K : dkey) (a : kev),
  In (id', K, a) (conn_ghost st' client link) ->
  al_get str_eqb client (r_cmap st') = Some id' /\
  exists (o : outgoing) (t : tracker) (rq : drequest),
    slab_get (r_obufs st') id' = Some o /\ o_link o = link /\
    slab_get (r_trackers st') id' = Some t /\ In rq (tr_reqs t) /\ dr_group rq = None /\
    K = (link, dr_filter rq, dr_idx rq) /\ a = KRes client (snd (dr_cursor rq)).
Proof. exact conn_ghost_res. Qed.

(** the hypotheses are met by concrete runs (Router/TraceRunExamples.v).  Subscribers a (QoS 1,
    link 0) and b (QoS 0, link 1) on "t"; 103 publishes — a gets 100 and is paused by its full
    window —; 12 large publishes roll the two-segment log past both cursors (base 109); then
    both are swept from stale cursors (jumps 100->109 and 103->109), all is acknowledged and
    drained: quiescent.  [kshort]: (0, off, 0) forward, (1, from, to) jump, (2, e, 0) subscribe,
    (3, c0, 0) resume marker. *)
Theorem c01_run_example_paused :
  let st := tx_st tx_ops_mid in let tr := tx_tr tx_ops_mid in
  tx_run tx_ops_mid = Ok (st, tr) /\
  (exists st0, cfg_ok tx_cfg /\ cf_max_outgoing tx_cfg < B62 /\ init tx_cfg = Ok st0 /\ ops_wf tx_ops_mid /\
               run_d st0 tx_ops_mid = Ok (st, tr) /\ Bounded st) /\
  exists (t : tracker) (o : outgoing) (d : data),
    slab_get (r_trackers st) 0 = Some t /\ slab_get (r_obufs st) 0 = Some o /\ nget (r_datalog st) 0 = Some d /\
    tr_status t = Paused InflightFull /\ lenN (o_inflight o) = 100 /\ map dr_cursor (tr_reqs t) = [(0, 100)] /\
    base_of (d_log d) = 109 /\ end_of (d_log d) = 115 /\ stale (d_log d) (0, 100) = true /\
    map kshort (ktrace (0, [116], 0) tr) = (2, 0, 0) :: fwds 0 100 /\
    map kshort (ktrace (1, [116], 0) tr) = (2, 0, 0) :: fwds 0 103.
Proof. exact trace_run_mid. Qed.

Theorem c01_run_example_quiescent :
  let st := tx_st tx_ops in let tr := tx_tr tx_ops in
  tx_run tx_ops = Ok (st, tr) /\
  exists st0,
    (cfg_ok tx_cfg /\ cf_max_outgoing tx_cfg < B62 /\ init tx_cfg = Ok st0 /\ ops_wf tx_ops /\
     run_d st0 tx_ops = Ok (st, tr) /\ Bounded st) /\
    1 <= cf_max_outgoing tx_cfg /\ quiescent st (owed_run st0 [] tx_ops) /\
    map kshort (ktrace (0, [116], 0) tr) = (2, 0, 0) :: fwds 0 100 ++ (1, 100, 109) :: fwds 109 6 /\
    map kshort (ktrace (1, [116], 0) tr) = (2, 0, 0) :: fwds 0 103 ++ (1, 103, 109) :: fwds 109 6 /\
    lenN tr = 219 /\
    exists (ca cb : connection) (d : data),
      slab_get (r_conns st) 0 = Some ca /\ c_subs ca = [[116]] /\
      slab_get (r_conns st) 1 = Some cb /\ c_subs cb = [[116]] /\
      nget (r_datalog st) 0 = Some d /\ base_of (d_log d) = 109 /\ end_of (d_log d) = 115 /\
      map (fun w : N * drequest => (fst w, dr_cursor (snd w), dr_group (snd w))) (d_waiters d)
        = [(1, (3, 115), None); (0, (3, 115), None)].
Proof. exact trace_run_quiescent. Qed.

(** a persistent session resumed: the old key (link 0) got Sub 0, Fwd 0, 1, 2 (never
    acknowledged); the new connection of the same client has key 0 again but link 2: its key
    starts with the resume marker and gets 0, 1, 2 again — re-delivery across epochs *)
Theorem c01_run_example_resume :
  let st := tx_st tx_ops_resume in let tr := tx_tr tx_ops_resume in
  tx_run tx_ops_resume = Ok (st, tr) /\
  (exists st0, cfg_ok tx_cfg /\ cf_max_outgoing tx_cfg < B62 /\ init tx_cfg = Ok st0 /\ ops_wf tx_ops_resume /\
               run_d st0 tx_ops_resume = Ok (st, tr) /\ Bounded st) /\
  map kshort (ktrace (0, [116], 0) tr) = (2, 0, 0) :: fwds 0 3 /\
  map kshort (ktrace (2, [116], 0) tr) = (3, 0, 0) :: fwds 0 3 /\
  exists o : outgoing, slab_get (r_obufs st) 0 = Some o /\ o_link o = 2 /\ lenN (o_inflight o) = 3.
Proof. exact trace_run_resume. Qed.

(** ---- from acceptance to the filter logs.  [PFInv dl]: every cached list of [publish_filters] is
    duplicate-free and contains the log number of every filter of [filter_indexes] matching the
    cached topic; [AInv] = [DLInv] (soundness, above) and [PFInv].  [appended dl dl' i item]: log
    [i] exists before and after, with the same filter, and every history of it is extended by
    exactly [item]; [unappended dl dl' i]: same log content. *)
Theorem c01_match_cache_complete : forall (cfg : config) (st0 : rstate) (ops : list (list oracle * rop)) (st : rstate),
  init cfg = Ok st0 -> RunDefs.run st0 ops = Ok st ->
  DLInv (r_datalog st) /\
  forall (t : str) (v : list N), In (t, v) (dl_pfilters (r_datalog st)) ->
    NoDup v /\ forall (f : str) (i : N), In (f, i) (dl_findex (r_datalog st)) -> matches t f = Ok true -> In i v.
Proof. exact reachable_pf. Qed.

Theorem c01_accept_reaches_all : forall (cfg : config) (st0 : rstate) (ops : list (list oracle * rop)) (st : rstate)
    (id : N) (p : publish) (props : option pprops) (st' : rstate),
  init cfg = Ok st0 -> RunDefs.run st0 ops = Ok st ->
  append_to_commitlog st id p props = Ok (st', AppOk) ->
  exists (topic : str) (item : pubdata),
    p_payload (fst item) = p_payload p /\ p_topic (fst item) = topic /\ p_retain (fst item) = false /\
    (match props with Some pr => pp_alias pr | None => None end = None -> topic = p_topic p) /\
    dl_findex (r_datalog st') = dl_findex (r_datalog st) /\
    (forall (f : str) (i : N), In (f, i) (dl_findex (r_datalog st)) -> matches topic f = Ok true ->
       appended (r_datalog st) (r_datalog st') i item) /\
    (forall (i : N) (d : data), nget (r_datalog st) i = Some d -> matches topic (d_filter d) <> Ok true ->
       unappended (r_datalog st) (r_datalog st') i).
Proof. exact accept_reaches_all_reachable. Qed.

(** subscriptions "t" (log 0), "+" (log 1), "x" (log 2); a publish on "t" is appended to logs 0
    and 1 (oracle order [1; 0]), not to log 2 *)
Theorem c01_accept_example :
  exists st0, init tx_cfg = Ok st0 /\ RunDefs.run st0 ax_ops = Ok (tx_st ax_ops) /\
  append_to_commitlog (set_r_oracle (tx_st ax_ops) [OMatches [1; 0]]) 3 ax_pub None = Ok (ax_st', AppOk) /\
  dl_findex (r_datalog (tx_st ax_ops)) = [([116], 0); ([43], 1); ([120], 2)] /\
  ends (tx_st ax_ops) = [Some 0; Some 0; Some 0] /\ ends ax_st' = [Some 1; Some 1; Some 0].
Proof. exact accept_example. Qed.
