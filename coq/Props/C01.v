(** C01 — pinned statements (safety part: nothing unmatched, original payload/topic).
    Exactness/order per subscription and completeness at quiescence are not yet theorems;
    they are checked on implementation traces by the monitor (see MANIFEST level_note). *)
From Rumqtt Require Import Router.Model Router.LogAll Router.DataLogInv Router.DataLogStep.

(** In every state reachable from [init] by ANY sequence of ops and oracles: every entry stored
    in the commit log of filter f is a publish whose topic matches f (by [matches], i.e. the
    MQTT rule of C12) with retain = false; the filter index and the topic->filters cache only
    name existing logs with matching filters. *)
Theorem c01_log_invariant : forall cfg ops st0 st,
  init cfg = Ok st0 -> run st0 ops = Ok st -> DLInv (r_datalog st).
Proof. exact reachable_inv. Qed.

(** Whatever one sweep of a data request adds to any link buffer: every log-sourced forward is
    a stored entry of the request's log — topic matching that log's filter, stored payload,
    stored topic (or empty when a topic alias stands for it), retain = false — and the logs
    are not modified by forwarding. *)
Theorem c01_forward_matches : forall st id rq st' rq' status d,
  DLInv (r_datalog st) ->
  slab_get (dl_native (r_datalog st)) (dr_idx rq) = Some d ->
  forward_device_data st id rq = Ok (st', rq', status) ->
  r_datalog st' = r_datalog st /\
  exists k added,
    (forall j, out_of st' j = if j =? k then out_of st k ++ added else out_of st j) /\
    Forall (FwdOk (d_filter d)) added.
Proof. exact forward_device_data_ok. Qed.

Theorem c01_step_preserves : forall st orc o st' out,
  DLInv (r_datalog st) -> step_with st orc o = Ok (st', out) -> DLInv (r_datalog st').
Proof. exact step_with_inv. Qed.
