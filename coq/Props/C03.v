(** C03 — pinned statements (M-ROUTER).  Only [Theorem .. exact ..].
    [RInv], [cfg_ok], [op_wf], [ops_wf] are defined in Router/Inv.v and Router/NoPanic.v;
    [run] is Router/RunDefs.v.  [op_wf] only says that SUBSCRIBE filters carry a QoS <= 2
    (the Rust field is the enum [QoS]); [cfg_ok] = segment size >= 1024 and count >= 1.
    [RInvD st] = [RInv st /\ DevI st] (Router/NoPanicDev.v): additionally the data requests of
    each connection carry pairwise different filters, all inside its subscription set. *)
From Rumqtt Require Import Router.Inv Router.NoPanic Router.NoPanicServe Router.NoPanicDevInv Router.NoPanicDev3 Router.NoPanicDev.
From Rumqtt Require Import Router.Model Router.RunDefs.

Theorem c03_init_total : forall cfg, cfg_ok cfg -> exists st0, init cfg = Ok st0.
Proof. exact init_total. Qed.

Theorem c03_rinv_init : forall cfg st0, cfg_ok cfg -> init cfg = Ok st0 -> RInv st0.
Proof. exact rinv_init. Qed.

Theorem c03_rinv_step : forall st orc o st' out,
  RInv st -> op_wf o -> step_with st orc o = Ok (st', out) -> RInv st' /\ r_cfg st' = r_cfg st.
Proof. exact rinv_step. Qed.

Theorem c03_rinv_reachable : forall cfg st0 ops st,
  cfg_ok cfg -> init cfg = Ok st0 -> ops_wf ops -> run st0 ops = Ok st -> RInv st.
Proof. exact rinv_reachable. Qed.

Theorem c03_panic_profile : forall st orc o t,
  RInv st -> op_wf o -> step_with st orc o = Panic t ->
  t = P_ADD \/ (cf_debug_assertions (r_cfg st) = true /\ t = P_DBG_DUP).
Proof. exact rinv_panic. Qed.

Theorem c03_no_panic_release : forall st orc o t,
  RInv st -> op_wf o -> cf_debug_assertions (r_cfg st) = false ->
  step_with st orc o = Panic t -> t = P_ADD.
Proof. exact no_panic_release. Qed.

Theorem c03_no_panic_release_run : forall cfg st0 ops t,
  cfg_ok cfg -> cf_debug_assertions cfg = false -> init cfg = Ok st0 -> ops_wf ops ->
  run st0 ops = Panic t -> t = P_ADD.
Proof. exact no_panic_release_from_init. Qed.

Theorem c03_still_serving : forall st c,
  RInv st -> validate_clientid (cr_client c) = true ->
  al_get str_eqb (cr_client c) (r_cmap st) = None ->
  al_get str_eqb (cr_client c) (r_graveyard st) = None ->
  slab_len (r_conns st) < cf_max_connections (r_cfg st) ->
  exists st' id a,
    step_with st [] (OpConnect c) = Ok (st', OutUnit) /\
    al_get str_eqb (cr_client c) (r_cmap st') = Some id /\
    slab_get (r_acks st') id = Some a /\ a_committed a = [AConnAck id false] /\
    In id (r_ready st') /\ RInv st'.
Proof. exact still_serving. Qed.

Theorem c03_rinv_nonvacuous :
  exists st0 st,
    init ex_cfg = Ok st0 /\ run st0 ex_ops = Ok st /\ RInv st /\
    slab_len (r_conns st) = 1 /\ r_graveyard st = [([98], None)] /\
    (exists o, slab_get (r_obufs st) 0 = Some o /\ o_inflight o = [(1, 0, Some (0, 0))]) /\
    (exists d, slab_get (dl_native (r_datalog st)) 0 = Some d /\ lenN (d_waiters d) = 1 /\
               lenN (concat (map (@s_data pubdata) (segs (d_log d)))) = 1).
Proof. exact rinv_nonvacuous. Qed.

Theorem c03_rinvd_init : forall cfg st0, cfg_ok cfg -> init cfg = Ok st0 -> RInvD st0.
Proof. exact rinvd_init. Qed.

Theorem c03_rinvd_step : forall st orc o st' out,
  RInvD st -> op_wf o -> step_with st orc o = Ok (st', out) -> RInvD st'.
Proof. exact rinvd_step. Qed.

Theorem c03_rinvd_reachable : forall cfg st0 ops st,
  cfg_ok cfg -> init cfg = Ok st0 -> ops_wf ops -> run st0 ops = Ok st -> RInvD st.
Proof. exact rinvd_reachable. Qed.

Theorem c03_no_panic_dev : forall st orc o t,
  RInvD st -> op_wf o -> step_with st orc o = Panic t -> t = P_ADD.
Proof. exact no_panic_any. Qed.

Theorem c03_no_panic : forall cfg st0 ops t,
  cfg_ok cfg -> init cfg = Ok st0 -> ops_wf ops -> run st0 ops = Panic t -> t = P_ADD.
Proof. exact no_panic_from_init. Qed.

Theorem c03_rinvd_nonvacuous :
  exists st0 st, init ex_cfg = Ok st0 /\ run st0 ex_ops = Ok st /\ RInvD st /\
                 cf_debug_assertions (r_cfg st) = true /\ slab_len (r_conns st) = 1.
Proof. exact rinvd_nonvacuous. Qed.
