(** C14 (isolation between clients) -- pinned statements (M-ROUTER).  Only [Theorem .. exact ..].

    Vocabulary (Router/IsolationFrame.v, IsolationWake.v, IsolationInv.v, Isolation.v):
    [client_at st w]      client id of the live connection with slab key w (None: key vacant);
    [proj st w]           what belongs to key w: its entries in connections / ibufs / obufs / ackslog /
                          trackers, its requests in notifications, the two buffers of its link;
    [waiting st w idx]    its requests parked in the waiter queue of filter log idx, in queue order;
    [rdy w st]            its occurrences in the ready queue;
    [sub_mem st w f]      is w a member of subscription_map[f];
    [wsel k l]            the second components of the pairs of l whose first component is k;
    [proj_wake mv woke p] p with mv appended to the tracker's requests, status Ready if woke;
    [addressed st w o]    o carries key w (DeviceData / Ready / Disconnect / Shadow), or is a push /
                          drain on w's link, or a Connect with w's client id, or the consume call
                          that serves w (w at the head of the ready queue);
    [others_run w st ops st'] ops runs from st to st' and no event is addressed to w in the state it meets;
    [ahead w l]           the entries of the ready queue l in front of the first occurrence of w;
    [untouched w st st']  proj unchanged, parked requests the same up to their order inside one
                          waiter queue, occurrences in the ready queue and memberships in
                          subscription_map unchanged;
    [quiet_packet]        every packet but PUBLISH and PUBREL;
    [CmapInv], [IoLink]   connection_map has distinct client ids each mapped to a live connection
                          with that id; Incoming and Outgoing of a key name the same link;
                          [LinkInv] (C09): links exist and no two keys share one.  All hold in every
                          reachable state ([c14_invariants_reachable]).

    The last sentence of the property is refuted ([c14_stale_refuted]); what does hold of stale
    signals is [c14_stale_vacant_ignored] and [c14_stale_outside_K10]. *)
From Coq Require Import Permutation.
From Rumqtt Require Import Router.Inv Router.NoPanic Router.NoPanicServe.
From Rumqtt Require Import Router.WindowFrame Router.Window Router.WindowStep Router.Acks.
From Rumqtt Require Import Router.IsolationFrame Router.IsolationServe Router.IsolationWake Router.IsolationInv Router.Isolation Router.IsolationReady Router.IsolationExamples.
From Rumqtt Require Import Router.Model Router.RunDefs.

Theorem c14_invariants_reachable : forall (cfg : config) (st0 : rstate) (ops : list (list oracle * rop)) (st : rstate),
  cfg_ok cfg -> init cfg = Ok st0 -> ops_wf ops -> run st0 ops = Ok st ->
  RInv st /\ CmapInv st /\ IoLink st /\ LinkInv st.
Proof. exact isoinv_reachable. Qed.

Theorem c14_frame : forall (st : rstate) (orc : list oracle) (o : rop) (st' : rstate) (out : rout) (w : N) (cw : str),
  RInv st -> CmapInv st -> IoLink st -> LinkInv st -> op_wf o ->
  client_at st w = Some cw -> ~ addressed st w o ->
  step_with st orc o = Ok (st', out) ->
  client_at st' w = Some cw /\
  exists (mv : list (N * drequest)) (woke : bool),
    proj st' w = proj_wake (map snd mv) woke (proj st w) /\
    (forall idx, Permutation (waiting st w idx) (waiting st' w idx ++ wsel idx mv)) /\
    (if woke then tstat st w = Some (Paused Caughtup) /\ rdy w st' = rdy w st ++ [w]
     else rdy w st' = rdy w st) /\
    (forall f, sub_mem st' w f = sub_mem st w f) /\
    match o with OpData _ | OpWill _ => True | _ => mv = [] /\ woke = false end.
Proof. exact c14_frame_thm. Qed.

Theorem c14_frame_reachable : forall (cfg : config) (st0 : rstate) (ops : list (list oracle * rop)) (st : rstate)
    (orc : list oracle) (o : rop) (st' : rstate) (out : rout) (w : N) (cw : str),
  cfg_ok cfg -> init cfg = Ok st0 -> ops_wf ops -> run st0 ops = Ok st -> op_wf o ->
  client_at st w = Some cw -> ~ addressed st w o ->
  step_with st orc o = Ok (st', out) ->
  client_at st' w = Some cw /\
  exists (mv : list (N * drequest)) (woke : bool),
    proj st' w = proj_wake (map snd mv) woke (proj st w) /\
    (forall idx, Permutation (waiting st w idx) (waiting st' w idx ++ wsel idx mv)) /\
    (if woke then tstat st w = Some (Paused Caughtup) /\ rdy w st' = rdy w st ++ [w]
     else rdy w st' = rdy w st) /\
    (forall f, sub_mem st' w f = sub_mem st w f) /\
    match o with OpData _ | OpWill _ => True | _ => mv = [] /\ woke = false end.
Proof. exact c14_frame_reachable_thm. Qed.

Theorem c14_frame_run : forall (w : N) (cw : str) (st : rstate) (ops : list (list oracle * rop)) (st' : rstate),
  RInv st -> CmapInv st -> IoLink st -> LinkInv st -> client_at st w = Some cw ->
  others_run w st ops st' ->
  (RInv st' /\ CmapInv st' /\ IoLink st' /\ LinkInv st') /\ client_at st' w = Some cw /\
  exists (mv : list (N * drequest)) (woke : bool),
    proj st' w = proj_wake (map snd mv) woke (proj st w) /\
    (forall idx, Permutation (waiting st w idx) (waiting st' w idx ++ wsel idx mv)) /\
    (if woke then tstat st w = Some (Paused Caughtup) /\ rdy w st' = rdy w st ++ [w]
     else rdy w st' = rdy w st) /\
    (forall f, sub_mem st' w f = sub_mem st w f).
Proof. exact c14_frame_run_thm. Qed.

Theorem c14_ready_progress : forall (st : rstate) (orc : list oracle) (o : rop) (st' : rstate) (out : rout) (w : N),
  In w (r_ready st) -> ~ addressed st w o ->
  step_with st orc o = Ok (st', out) ->
  In w (r_ready st') /\
  ahead w (r_ready st') = match o with OpConsume => tl (ahead w (r_ready st)) | _ => ahead w (r_ready st) end.
Proof. exact c14_ready_progress_thm. Qed.

Theorem c14_frame_quiet : forall (st : rstate) (orc : list oracle) (o : rop) (st' : rstate) (out : rout) (w : N) (cw : str),
  RInv st -> CmapInv st -> IoLink st -> LinkInv st -> op_wf o ->
  client_at st w = Some cw -> ~ addressed st w o ->
  match o with OpData _ | OpWill _ => False | _ => True end ->
  step_with st orc o = Ok (st', out) ->
  client_at st' w = Some cw /\ untouched w st st'.
Proof. exact c14_frame_quiet_thm. Qed.

Theorem c14_other_disconnect : forall (st : rstate) (orc : list oracle) (id : N) (st' : rstate) (out : rout) (w : N) (cw : str),
  RInv st -> CmapInv st -> IoLink st -> LinkInv st ->
  client_at st w = Some cw -> id <> w ->
  step_with st orc (OpDisconnect id) = Ok (st', out) ->
  client_at st' w = Some cw /\ untouched w st st'.
Proof. exact c14_other_disconnect_thm. Qed.

Theorem c14_other_connect : forall (st : rstate) (orc : list oracle) (c : connect_req) (st' : rstate) (out : rout) (w : N) (cw : str),
  RInv st -> CmapInv st -> IoLink st -> LinkInv st ->
  client_at st w = Some cw -> cr_client c <> cw ->
  step_with st orc (OpConnect c) = Ok (st', out) ->
  client_at st' w = Some cw /\ untouched w st st'.
Proof. exact c14_other_connect_thm. Qed.

Theorem c14_other_bad_ack : forall (st : rstate) (orc : list oracle) (id : N) (st' : rstate) (out : rout) (w : N) (cw : str),
  RInv st -> CmapInv st -> IoLink st -> LinkInv st ->
  client_at st w = Some cw -> id <> w ->
  (forall inc, slab_get (r_ibufs st) id = Some inc -> Forall quiet_packet (in_of st (i_link inc))) ->
  step_with st orc (OpData id) = Ok (st', out) ->
  client_at st' w = Some cw /\ untouched w st st'.
Proof. exact c14_other_bad_ack_thm. Qed.

Theorem c14_own_requests_served : forall (st : rstate) (w : N) (st' : rstate) (inc : incoming) (b : linkbuf),
  handle_device_payload st w = Ok st' ->
  slab_get (r_ibufs st) w = Some inc -> nthN (r_links st) (i_link inc) = Some b ->
  exists added,
    batch_acks w (i_client inc) (link_put st (i_link inc) (set_lk_in b [])) flags0 (lk_in b) added /\
    (slab_get (r_obufs st') w <> None ->
       (forall id', id' <> w -> slab_get (r_acks st') id' = slab_get (r_acks st) id') /\
       match slab_get (r_acks st) w with
       | Some l => exists l', slab_get (r_acks st') w = Some l' /\ a_committed l' = a_committed l ++ added
       | None => slab_get (r_acks st') w = None /\ added = []
       end).
Proof. exact c14_own_requests_served_thm. Qed.

Theorem c14_own_acks_local : forall (st1 st2 : rstate) (id : N) (pk : packet) (a : list ack),
  slab_get (r_obufs st1) id = slab_get (r_obufs st2) id -> registered st1 id pk a -> registered st2 id pk a.
Proof. exact registered_local. Qed.

Theorem c14_stale_refuted :
  exists (cfg : config) (k : N) (h1 h2 h3 : list (list oracle * rop)) (st0 stA stB st' : rstate),
    init cfg = Ok st0 /\ ops_wf (h1 ++ h2 ++ h3) /\
    run st0 h1 = Ok stA /\ client_at stA k = Some CL_A /\
    run stA h2 = Ok stB /\ client_at stB k = Some CL_B /\
    al_get str_eqb CL_B (r_cmap stB) = Some k /\ al_get str_eqb CL_A (r_cmap stB) = None /\
    h3 = [([], OpDisconnect k)] /\
    run stB h3 = Ok st' /\ client_at st' k = None /\
    al_get str_eqb CL_B (r_cmap st') = None /\ slab_len (r_conns st') = 0.
Proof. exact c14_stale_refuted_thm. Qed.

Theorem c14_stale_vacant_ignored : forall (st : rstate) (orc : list oracle) (o : rop) (k : N) (st' : rstate) (out : rout),
  RInv st ->
  match o with
  | OpData id | OpReady id | OpDisconnect id | OpShadow id _ => id = k
  | _ => False
  end ->
  slab_get (r_conns st) k = None ->
  step_with st orc o = Ok (st', out) -> st' = set_r_oracle st [] /\ out = OutUnit.
Proof. exact c14_stale_vacant_ignored_thm. Qed.

Theorem c14_stale_outside_K10 : forall (st : rstate) (orc : list oracle) (o : rop) (k : N) (st' : rstate) (out : rout) (w : N) (cw : str),
  RInv st -> CmapInv st -> IoLink st -> LinkInv st ->
  match o with
  | OpData id | OpReady id | OpDisconnect id | OpShadow id _ => id = k
  | _ => False
  end ->
  client_at st w = Some cw -> k <> w ->
  step_with st orc o = Ok (st', out) ->
  client_at st' w = Some cw /\
  exists (mv : list (N * drequest)) (woke : bool),
    proj st' w = proj_wake (map snd mv) woke (proj st w) /\
    (forall idx, Permutation (waiting st w idx) (waiting st' w idx ++ wsel idx mv)) /\
    (if woke then tstat st w = Some (Paused Caughtup) /\ rdy w st' = rdy w st ++ [w]
     else rdy w st' = rdy w st) /\
    (forall f, sub_mem st' w f = sub_mem st w f) /\
    match o with OpData _ => True | _ => mv = [] /\ woke = false end.
Proof. exact c14_stale_outside_K10_thm. Qed.

Theorem c14_frame_nonvacuous :
  exists st0 st st1 st',
    init ex_cfg = Ok st0 /\ run st0 iso_ops = Ok st /\
    RInv st /\ CmapInv st /\ IoLink st /\ LinkInv st /\
    client_at st 0 = Some [97] /\ client_at st 1 = Some [98] /\
    (exists o, pj_obuf (proj st 0) = Some o /\ o_inflight o = [(1, 0, Some (0, 0))]) /\
    lenN (waiting st 0 0) = 1 /\ lenN (pj_out (proj st 0)) = 3 /\
    ~ addressed st 0 (OpPush 1 (PPubAck 7)) /\
    step_with st [] (OpPush 1 (PPubAck 7)) = Ok (st1, OutUnit) /\
    ~ addressed st1 0 (OpData 1) /\
    step_with st1 [] (OpData 1) = Ok (st', OutUnit) /\
    client_at st' 1 = None /\ client_at st' 0 = Some [97] /\
    proj st' 0 = proj st 0 /\ waiting st' 0 0 = waiting st 0 0 /\ rdy 0 st' = rdy 0 st.
Proof. exact c14_frame_example. Qed.

Theorem c14_frame_wake_nonvacuous :
  exists st0 st st',
    init ex_cfg = Ok st0 /\ run st0 iso_ops = Ok st /\
    run st [([], OpPush 1 (PPublish ex_pub2 None)); ([], OpData 1)] = Ok st' /\
    tstat st 0 = Some (Paused Caughtup) /\ waiting st 0 0 <> [] /\
    proj st' 0 = proj_wake (waiting st 0 0) true (proj st 0) /\
    waiting st' 0 0 = [] /\ rdy 0 st' = rdy 0 st ++ [0].
Proof. exact c14_frame_wake_example. Qed.

Theorem c14_waiters_reordered :
  exists st0 st st',
    init ex_cfg = Ok st0 /\ run st0 reorder_ops = Ok st /\
    client_at st 1 = Some [97] /\ ~ addressed st 1 (OpDisconnect 0) /\
    map dr_filter (waiting st 1 0) = [[116]; SH_G_T] /\
    step_with st [] (OpDisconnect 0) = Ok (st', OutUnit) /\
    proj st' 1 = proj st 1 /\
    waiting st' 1 0 = rev (waiting st 1 0) /\ waiting st' 1 0 <> waiting st 1 0.
Proof. exact c14_waiters_reordered_example. Qed.

(** Link layer (Stack.Model.epilogue = the tail of the per-connection task remote()): when the ROUTER
    dropped the link (the task's start() ended with the Link error) the task sends NO Disconnect
    event for that connection id — the id may already belong to a connection established later
    (the router itself has no epoch check: c14_stale_refuted / known finding K10). *)
From Rumqtt Require Stack.Model Stack.Proofs.

Theorem c14_no_late_disconnect_after_router_drop : forall w,
  fst (Stack.Model.epilogue (Stack.Model.classify (Some Stack.Model.ELink)) w) = false.
Proof. exact Stack.Proofs.c14_no_late_disconnect_after_router_drop. Qed.

Theorem c14_disconnect_event_only_without_router_drop : forall r w,
  fst (Stack.Model.epilogue (Stack.Model.classify r) w) = true -> r <> Some Stack.Model.ELink.
Proof. exact Stack.Proofs.c14_disconnect_event_only_without_router_drop. Qed.
