(** C05 — pinned statements (MQTT 3.1.1 part).  Only [Theorem .. exact ..]. *)
From Rumqtt Require Import Codec.Wire Codec.V4 Codec.WireProofs Codec.FramingProofs Codec.V4TotalProofs Codec.V4Proofs.
From Rumqtt Require Import Codec.V5Props Codec.V5 Codec.V5TotalProofs Codec.V5Proofs.

Theorem c05_read_total : forall fl bs max t, read fl bs max <> RPanic t.
Proof. exact read_total. Qed.

Theorem c05_read_frame_packet : forall fl bs max p rest, read fl bs max = Packet p rest ->
  exists h frame, parse_fixed_header bs = Ok h /\ bs = frame ++ rest /\
                  len frame = frame_length h /\ remaining_len h <= max /\ 2 <= len frame.
Proof. exact read_frame_packet. Qed.

Theorem c05_read_frame_malformed : forall fl bs max e rest, read fl bs max = Malformed e rest ->
  (rest = bs /\ (e = MalformedRemainingLength \/ e = PayloadSizeLimitExceeded)) \/
  exists h frame, parse_fixed_header bs = Ok h /\ bs = frame ++ rest /\
                  len frame = frame_length h /\ remaining_len h <= max.
Proof. exact read_frame_malformed. Qed.

Theorem c05_read_frame_over_max : forall fl bs max h, parse_fixed_header bs = Ok h -> max < remaining_len h ->
  read fl bs max = Malformed PayloadSizeLimitExceeded bs.
Proof. exact read_frame_over_max. Qed.

Theorem c05_read_frame_need_more : forall fl bs max k, read fl bs max = NeedMore k ->
  (parse_fixed_header bs = Err (InsufficientBytes k) /\ 1 <= k /\ len bs <= 4) \/
  exists h, parse_fixed_header bs = Ok h /\ remaining_len h <= max /\ len bs < frame_length h /\
            1 <= k /\ k <= frame_length h - len bs.
Proof. exact read_frame_need_more. Qed.

Theorem c05_header_prefix_stable : forall s h more, parse_fixed_header s = Ok h ->
  parse_fixed_header (s ++ more) = Ok h.
Proof. exact pfh_ok_prefix. Qed.

Theorem c05_header_bounds : forall s h, parse_fixed_header s = Ok h ->
  2 <= fixed_header_len h <= 5 /\ fixed_header_len h <= len s.
Proof. exact pfh_ok_bounds. Qed.

Theorem c05_prefix_stable_packet : forall fl bs max p rest more,
  read fl bs max = Packet p rest -> read fl (bs ++ more) max = Packet p (rest ++ more).
Proof. exact prefix_stable_packet. Qed.

Theorem c05_prefix_stable_malformed : forall fl bs max e rest more,
  read fl bs max = Malformed e rest -> read fl (bs ++ more) max = Malformed e (rest ++ more).
Proof. exact prefix_stable_malformed. Qed.

Theorem c05_chunking_independent : forall fl max chunks,
  run_stream4 fl max chunks = run_stream4 fl max [concat chunks].
Proof. exact chunking_independent4. Qed.

Theorem c05_stream_no_panic : forall fl max chunks t, ~ In (EvPanic t) (fst (run_stream4 fl max chunks)).
Proof. exact stream_no_panic. Qed.

Theorem c05_read_no_out_of_fuel : forall fl bs max rest, read fl bs max <> Malformed OutOfFuel rest.
Proof. exact read_no_out_of_fuel. Qed.

Theorem c05_stream_no_out_of_fuel : forall fl max chunks,
  ~ In (EvError OutOfFuel) (fst (run_stream4 fl max chunks)).
Proof. exact stream_no_out_of_fuel. Qed.

Theorem c05_decodable_example :
  exists bs, write Client 100 ex_connect5 = Ok (bs, 14) /\ read Client bs 100 = Packet ex_connect5 []
             /\ read Broker bs 100 = Malformed InvalidProtocolLevel [].
Proof. exact asym_connect_level5. Qed.

Theorem c05_read_total_v5 : forall fl bs max t, read5 fl bs max <> RPanic t.
Proof. exact read_total_v5. Qed.

Theorem c05_read_frame_packet_v5 : forall fl bs max p rest, read5 fl bs max = Packet p rest ->
  exists h frame, parse_fixed_header bs = Ok h /\ bs = frame ++ rest /\
                  len frame = frame_length h /\ remaining_len h <= eff_max max /\ 2 <= len frame.
Proof. exact read_frame_packet_v5. Qed.

Theorem c05_read_frame_malformed_v5 : forall fl bs max e rest, read5 fl bs max = Malformed e rest ->
  (rest = bs /\ (e = MalformedRemainingLength \/ e = PayloadSizeLimitExceeded)) \/
  exists h frame, parse_fixed_header bs = Ok h /\ bs = frame ++ rest /\
                  len frame = frame_length h /\ remaining_len h <= eff_max max.
Proof. exact read_frame_malformed_v5. Qed.

Theorem c05_read_frame_over_max_v5 : forall fl bs mx h, parse_fixed_header bs = Ok h -> mx < remaining_len h ->
  read5 fl bs (Some mx) = Malformed PayloadSizeLimitExceeded bs.
Proof. exact read_frame_over_max_v5. Qed.

Theorem c05_read_frame_need_more_v5 : forall fl bs max k, read5 fl bs max = NeedMore k ->
  (parse_fixed_header bs = Err (InsufficientBytes k) /\ 1 <= k /\ len bs <= 4) \/
  exists h, parse_fixed_header bs = Ok h /\ remaining_len h <= eff_max max /\ len bs < frame_length h /\
            1 <= k /\ k <= frame_length h - len bs.
Proof. exact read_frame_need_more_v5. Qed.

Theorem c05_header_remaining_bound : forall s h, parse_fixed_header s = Ok h -> remaining_len h <= MAX_REMAINING.
Proof. exact pfh_remaining_bound. Qed.

Theorem c05_prefix_stable_packet_v5 : forall fl bs max p rest more,
  read5 fl bs max = Packet p rest -> read5 fl (bs ++ more) max = Packet p (rest ++ more).
Proof. exact prefix_stable_packet_v5. Qed.

Theorem c05_prefix_stable_malformed_v5 : forall fl bs max e rest more,
  read5 fl bs max = Malformed e rest -> read5 fl (bs ++ more) max = Malformed e (rest ++ more).
Proof. exact prefix_stable_malformed_v5. Qed.

Theorem c05_chunking_independent_v5 : forall fl max chunks,
  run_stream5 fl max chunks = run_stream5 fl max [concat chunks].
Proof. exact chunking_independent_v5. Qed.

Theorem c05_read_no_out_of_fuel_v5 : forall fl bs max rest, read5 fl bs max <> Malformed OutOfFuel rest.
Proof. exact read_no_out_of_fuel_v5. Qed.

Theorem c05_read_frame_v5_refuted : exists bs h,
  parse_fixed_header bs = Ok h /\ frame_length h <= len bs /\
  read5_gen unfixed Client bs None = NeedMore 1 /\ read5_gen unfixed Broker bs (Some 100) = NeedMore 1 /\
  read5 Client bs None = Malformed MalformedPacket [] /\ read5 Broker bs (Some 100) = Malformed MalformedPacket [].
Proof. exact read_frame_v5_refuted. Qed.

Theorem c05_disconnect_reason_only_v5 :
  read5 Client [224; 1; 4] None = Malformed MalformedPacket [] /\ read5 Broker [224; 1; 4] (Some 100) = Malformed MalformedPacket [].
Proof. exact disconnect5_reason_only. Qed.
