(** C05 — pinned statements.  Only [Theorem .. exact ..]. *)
From Rumqtt Require Import Codec.Wire Codec.V4 Codec.WireProofs.

Theorem c05_len_len_boundaries :
  len_len 0 = 1 /\ len_len 127 = 1 /\ len_len 128 = 2 /\ len_len 16383 = 2 /\ len_len 16384 = 3 /\
  len_len 2097151 = 3 /\ len_len 2097152 = 4 /\ len_len 268435455 = 4.
Proof. exact len_len_boundaries. Qed.
