(** C13 — pinned statements.  Only [Theorem .. exact ..]. *)
From Rumqtt Require Import Log.Proofs Log.ReadTop Log.AppendProofs.

Theorem c13_new_spec : forall (T : Type) (size : T -> N) (ms mm : N),
  (1024 <= ms -> 1 <= mm ->
   exists l : log T, new ms mm = Ok l /\ WF size l [] /\ max_seg l = ms /\ max_mem l = mm /\
                     head l = 0 /\ tail l = 0 /\ segs l = [seg_new]) /\
  (ms < 1024 \/ mm < 1 -> is_panic (@new T ms mm) = true).
Proof. exact @new_spec. Qed.

Theorem c13_readv_total : forall (T : Type) (size : T -> N) (l : log T) (all : list T) (c : cursor) (n : N),
  WFs size l all -> 2 * lenN all < U64 -> snd c + n < U64 ->
  exists r, readv l c n = Ok r.
Proof. exact @readv_total. Qed.

Theorem c13_readv_exact : forall (T : Type) (size : T -> N) (l : log T) (all : list T) (c : cursor) (n : N),
  WF size l all -> Issued l c -> 2 * lenN all < U64 -> snd c + n < U64 ->
  exists pos out,
    readv l c n = Ok (pos, out) /\
    let p := pos_of l c in
    base_of l <= p /\ p <= lenN all /\
    map fst out = firstn (N.to_nat n) (skipn (N.to_nat p) all) /\
    map (fun e => snd (snd e)) out = Nseq p (length out) /\
    Forall (fun e => Covers l (fst (snd e)) (snd (snd e))) out /\
    pos_start pos = (if stale l c then (head l, base_of l) else c) /\
    Issued l (pos_end pos) /\ stale l (pos_end pos) = false /\
    snd (pos_end pos) = p + lenN out /\
    (Covers l (fst (pos_end pos)) (snd (pos_end pos)) \/
     (fst (pos_end pos) = tail l /\ snd (pos_end pos) = lenN all)) /\
    (is_done pos = true <-> p + lenN out = lenN all).
Proof. exact @readv_exact. Qed.

Theorem c13_readv_resume : forall (T : Type) (size : T -> N) (l : log T) (all : list T) (c : cursor) (n1 n2 : N)
    (pos1 : position) (out1 : list (T * cursor)) (pos2 : position) (out2 : list (T * cursor)),
  WF size l all -> Issued l c -> 2 * lenN all < U64 ->
  snd c + (n1 + n2) < U64 -> snd (pos_end pos1) + n2 < U64 ->
  readv l c n1 = Ok (pos1, out1) ->
  readv l (pos_end pos1) n2 = Ok (pos2, out2) ->
  readv l c (n1 + n2) =
    Ok ((if is_done pos2 then Done else Next) (pos_start pos1) (pos_end pos2), out1 ++ out2).
Proof. exact @readv_resume. Qed.

Theorem c13_readv_resume_append : forall (T : Type) (size : T -> N) (l l' : log T) (all : list T) (c : cursor) (n1 n2 : N)
    (pos1 : position) (out1 : list (T * cursor)) (x : T) (r : cursor),
  WF size l all -> Issued l c -> 2 * (lenN all + 1) < U64 -> snd c + n1 < U64 ->
  size x + max_seg l <= U64 ->
  readv l c n1 = Ok (pos1, out1) -> append size l x = Ok (l', r) ->
  snd (pos_end pos1) + n2 < U64 ->
  exists pos2 out2,
    readv l' (pos_end pos1) n2 = Ok (pos2, out2) /\
    let q := if stale l' (pos_end pos1) then base_of l' else pos_of l c + lenN out1 in
    pos_of l c + lenN out1 <= q /\
    map fst out2 = firstn (N.to_nat n2) (skipn (N.to_nat q) (all ++ [x])) /\
    (is_done pos2 = true <-> q + lenN out2 = lenN all + 1).
Proof. exact @readv_resume_append. Qed.

Theorem c13_covers_unique : forall (T : Type) (size : T -> N) (l : log T) (all : list T) (sg sg' o : N),
  WFs size l all -> Covers l sg o -> Covers l sg' o -> sg = sg'.
Proof. exact @covers_unique. Qed.

Theorem c13_append_spec : forall (T : Type) (size : T -> N) (l : log T) (all : list T) (x : T),
  WF size l all -> size x + max_seg l <= U64 -> lenN all + 1 < U64 ->
  exists l',
    append size l x = Ok (l', (tail l', lenN all + 1)) /\
    WF size l' (all ++ [x]) /\
    append_shape size l l' x /\
    max_seg l' = max_seg l /\ max_mem l' = max_mem l /\
    lenN (segs l') <= max_mem l' /\
    (base_of l' = base_of l \/
     exists s0 rest, segs l = s0 :: rest /\ base_of l' = base_of l + seg_len s0) /\
    Covers l' (tail l') (lenN all).
Proof. exact @append_spec. Qed.

Theorem c13_issued_preserved : forall (T : Type) (size : T -> N) (l l' : log T) (all : list T) (x : T) (r c : cursor),
  WF size l all -> size x + max_seg l <= U64 -> lenN all + 1 < U64 ->
  append size l x = Ok (l', r) -> Issued l c -> Issued l' c.
Proof. exact @issued_preserved. Qed.

Theorem c13_next_offset_issued : forall (T : Type) (size : T -> N) (l : log T) (all : list T),
  WF size l all -> lenN all < U64 ->
  next_offset l = Ok (tail l, lenN all) /\ Issued l (tail l, lenN all) /\ stale l (tail l, lenN all) = false.
Proof. exact @next_offset_issued. Qed.

Theorem c13_wf_reachable : forall (T : Type) (size : T -> N) (ms mm : N) (ops : list (op T)),
  1024 <= ms -> 1 <= mm ->
  2 * lenN (appended ops) < U64 ->
  Forall (op_ok size ms (lenN (appended ops))) ops ->
  exists st az,
    (do s0 <- init ms mm; run size s0 ops) = Ok (st, az) /\
    length az = length ops /\
    WF size (lg st) (appended ops) /\
    Forall (Issued (lg st)) (pool st) /\
    lenN (segs (lg st)) <= mm /\ max_seg (lg st) = ms /\ max_mem (lg st) = mm.
Proof. exact @history_inv. Qed.

Theorem c13_retention_bound : forall (T : Type) (size : T -> N) (ms mm : N) (ops : list (op T)),
  1024 <= ms -> 1 <= mm ->
  2 * lenN (appended ops) < U64 ->
  Forall (op_ok size ms (lenN (appended ops))) ops ->
  exists st az,
    (do s0 <- init ms mm; run size s0 ops) = Ok (st, az) /\
    1 <= lenN (segs (lg st)) /\ lenN (segs (lg st)) <= mm /\
    tail (lg st) + 1 = head (lg st) + lenN (segs (lg st)).
Proof. exact @retention_bound. Qed.
