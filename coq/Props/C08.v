(** C08 (persistent sessions) — pinned statements.  Only [Theorem .. exact ..]. *)
From Rumqtt Require Import Router.SessionReads Router.RetainedReplay Log.Spec.

Theorem c08_resume : forall cfg ops st outs id conn outg trk cr orc1 orc2 st1 out1 st2 out2,
  run_from cfg ops = Ok (st, outs) ->
  slab_get (r_conns st) id = Some conn -> slab_get (r_obufs st) id = Some outg ->
  slab_get (r_trackers st) id = Some trk ->
  c_clean conn = false -> cr_client cr = c_client conn -> cr_clean cr = false ->
  step_with st orc1 (OpDisconnect id) = Ok (st1, out1) ->
  (cf_max_connections (r_cfg st1) <=? slab_len (r_conns st1)) = false ->
  step_with st1 orc2 (OpConnect cr) = Ok (st2, out2) ->
  exists id' conn' o' t',
    slab_get (r_conns st2) id' = Some conn' /\ slab_get (r_obufs st2) id' = Some o' /\
    get_tracker st2 id' = Ok t' /\
    slab_get (r_acks st2) id' =
      Some {| a_committed := AConnAck id' true :: map APubRel (o_pubrels outg); a_recorded := [] |} /\
    c_subs conn' = c_subs conn /\ o_pubrels o' = o_pubrels outg /\ o_inflight o' = [] /\
    tr_reqs t' = map (fun rq => match first_cursor (o_inflight outg) (dr_idx rq) with
                                | Some cu => set_dr_cursor rq cu
                                | None => rq
                                end)
                     (tr_reqs trk ++ snd (dl_clean (r_datalog st) id)).
Proof. exact resume_ops. Qed.

Theorem c08_resume_reachable : forall cfg st id reason st1 conn outg trk connB link st',
  reachable cfg st ->
  handle_disconnection st id reason = Ok st1 ->
  slab_get (r_conns st) id = Some conn -> slab_get (r_obufs st) id = Some outg ->
  slab_get (r_trackers st) id = Some trk ->
  c_clean conn = false -> c_client connB = c_client conn -> c_clean connB = false ->
  (cf_max_connections (r_cfg st1) <=? slab_len (r_conns st1)) = false ->
  handle_new_connection st1 connB link = Ok st' ->
  exists id' conn' o' t',
    slab_get (r_conns st') id' = Some conn' /\ slab_get (r_obufs st') id' = Some o' /\
    get_tracker st' id' = Ok t' /\
    slab_get (r_acks st') id' =
      Some {| a_committed := AConnAck id' true :: map APubRel (o_pubrels outg); a_recorded := [] |} /\
    c_subs conn' = c_subs conn /\ o_pubrels o' = o_pubrels outg /\ o_inflight o' = [] /\
    tr_reqs t' = map (fun rq => match first_cursor (o_inflight outg) (dr_idx rq) with
                                | Some cu => set_dr_cursor rq cu
                                | None => rq
                                end)
                     (tr_reqs trk ++ snd (dl_clean (r_datalog st) id)).
Proof. exact resume_reachable. Qed.

Theorem c08_resume_reads : forall st id rq st' rq' status o d all,
  forward_device_data st id rq = Ok (st', rq', status) -> get_obuf st id = Ok o ->
  dr_group rq = None -> dr_fwd_retained rq = false -> status <> SInflightFull ->
  native_get (r_datalog st) (dr_idx rq) = Ok d ->
  let slots := if dr_qos rq =? 0 then cf_max_outgoing (r_cfg st) else MAX_INFLIGHT - lenN (o_inflight o) in
  let p := pos_of (d_log d) (dr_cursor rq) in
  WF pubdata_size (d_log d) all -> Issued (d_log d) (dr_cursor rq) ->
  2 * lenN all < U64 -> snd (dr_cursor rq) + slots < U64 ->
  exists from_log ns tail,
    map fst from_log = firstn (N.to_nat slots) (skipn (N.to_nat p) all) /\
    map (fun e => snd (snd e)) from_log = Nseq p (length from_log) /\
    out_of st' (o_link o) = out_of st (o_link o) ++ ns ++ tail /\
    (tail = [] \/ tail = [NUnschedule]) /\
    Forall2 (fun (e : pubdata * cursor) n =>
               exists p' pr', n = NForward (Some (snd e)) p' pr' /\ same_msg (dr_qos rq) (fst (fst e)) p')
            from_log ns /\
    snd (dr_cursor rq') = p + lenN from_log /\
    p + lenN from_log <= lenN all.
Proof. exact forward_log_window. Qed.

Theorem c08_session_invariant : forall cfg st,
  reachable cfg st -> SessInv st.
Proof. exact reachable_SessInv. Qed.

Theorem c08_ids_invariant : forall cfg st,
  reachable cfg st -> IdInv st.
Proof. exact reachable_IdInv. Qed.

Theorem c08_connect : forall st conn link st' st1,
  SessInv st ->
  handle_new_connection st conn link = Ok st' ->
  validate_clientid (c_client conn) = true -> takeover st (c_client conn) = Ok st1 ->
  (cf_max_connections (r_cfg st1) <=? slab_len (r_conns st1)) = false ->
  let rs := resumed_session st1 conn in
  exists id conn' o' t',
    slab_get (r_conns st') id = Some conn' /\ slab_get (r_obufs st') id = Some o' /\
    get_tracker st' id = Ok t' /\
    slab_get (r_acks st') id =
      Some {| a_committed := AConnAck id (session_present st1 conn) :: map APubRel (o_pubrels o'); a_recorded := [] |} /\
    al_get str_eqb (c_client conn) (r_cmap st') = Some id /\
    c_client conn' = c_client conn /\ c_clean conn' = c_clean conn /\ o_client o' = c_client conn /\
    o_inflight o' = [] /\
    c_subs conn' = match rs with Some ss => ss_subs ss | None => c_subs conn end /\
    tr_reqs t' = match rs with Some ss => tr_reqs (ss_tracker ss) | None => [] end /\
    tr_id t' = match rs with Some ss => tr_id (ss_tracker ss) | None => c_client conn end /\
    o_pubrels o' = match rs with Some ss => ss_pubrels ss | None => [] end /\
    al_get str_eqb (c_client conn) (r_graveyard st') = None /\
    (forall c, c <> c_client conn -> al_get str_eqb c (r_graveyard st') = al_get str_eqb c (r_graveyard st1)).
Proof. exact connect_session. Qed.

Theorem c08_clean : forall st conn link st' st1,
  SessInv st ->
  handle_new_connection st conn link = Ok st' ->
  validate_clientid (c_client conn) = true -> takeover st (c_client conn) = Ok st1 ->
  (cf_max_connections (r_cfg st1) <=? slab_len (r_conns st1)) = false ->
  c_clean conn = true ->
  exists id conn' o' t',
    slab_get (r_conns st') id = Some conn' /\ slab_get (r_obufs st') id = Some o' /\
    get_tracker st' id = Ok t' /\
    slab_get (r_acks st') id = Some {| a_committed := [AConnAck id false]; a_recorded := [] |} /\
    al_get str_eqb (c_client conn) (r_cmap st') = Some id /\
    c_clean conn' = true /\ c_subs conn' = c_subs conn /\ tr_reqs t' = [] /\ tr_id t' = c_client conn /\
    o_pubrels o' = [] /\ o_inflight o' = [] /\
    al_get str_eqb (c_client conn) (r_graveyard st') = None.
Proof. exact connect_clean. Qed.

Theorem c08_clean_then_persistent : forall st connA linkA stA connB linkB stB stA0,
  SessInv st ->
  handle_new_connection st connA linkA = Ok stA ->
  validate_clientid (c_client connA) = true -> takeover st (c_client connA) = Ok stA0 ->
  (cf_max_connections (r_cfg stA0) <=? slab_len (r_conns stA0)) = false ->
  c_clean connA = true ->
  c_client connB = c_client connA ->
  handle_new_connection stA connB linkB = Ok stB ->
  forall stB0, takeover stA (c_client connB) = Ok stB0 ->
  (cf_max_connections (r_cfg stB0) <=? slab_len (r_conns stB0)) = false ->
  exists id conn' o' t',
    slab_get (r_conns stB) id = Some conn' /\ slab_get (r_obufs stB) id = Some o' /\
    get_tracker stB id = Ok t' /\
    slab_get (r_acks stB) id = Some {| a_committed := [AConnAck id false]; a_recorded := [] |} /\
    c_subs conn' = c_subs connB /\ tr_reqs t' = [] /\ o_pubrels o' = [] /\ o_inflight o' = [].
Proof. exact clean_then_persistent. Qed.

Theorem c08_no_session : forall st conn link st' st1,
  SessInv st ->
  handle_new_connection st conn link = Ok st' ->
  validate_clientid (c_client conn) = true -> takeover st (c_client conn) = Ok st1 ->
  (cf_max_connections (r_cfg st1) <=? slab_len (r_conns st1)) = false ->
  (al_get str_eqb (c_client conn) (r_graveyard st1) = None \/
   al_get str_eqb (c_client conn) (r_graveyard st1) = Some None) ->
  exists id conn' o' t',
    slab_get (r_conns st') id = Some conn' /\ slab_get (r_obufs st') id = Some o' /\
    get_tracker st' id = Ok t' /\
    slab_get (r_acks st') id = Some {| a_committed := [AConnAck id false]; a_recorded := [] |} /\
    c_subs conn' = c_subs conn /\ tr_reqs t' = [] /\ o_pubrels o' = [] /\ o_inflight o' = [].
Proof. exact connect_no_session. Qed.

Theorem c08_resume_state : forall st conn link st' st1 ss,
  SessInv st ->
  handle_new_connection st conn link = Ok st' ->
  validate_clientid (c_client conn) = true -> takeover st (c_client conn) = Ok st1 ->
  (cf_max_connections (r_cfg st1) <=? slab_len (r_conns st1)) = false ->
  c_clean conn = false -> al_get str_eqb (c_client conn) (r_graveyard st1) = Some (Some ss) ->
  exists id conn' o' t',
    slab_get (r_conns st') id = Some conn' /\ slab_get (r_obufs st') id = Some o' /\
    get_tracker st' id = Ok t' /\
    slab_get (r_acks st') id =
      Some {| a_committed := AConnAck id true :: map APubRel (ss_pubrels ss); a_recorded := [] |} /\
    al_get str_eqb (c_client conn) (r_cmap st') = Some id /\
    c_subs conn' = ss_subs ss /\ tr_reqs t' = tr_reqs (ss_tracker ss) /\ tr_id t' = tr_id (ss_tracker ss) /\
    o_pubrels o' = ss_pubrels ss /\ o_inflight o' = [] /\
    al_get str_eqb (c_client conn) (r_graveyard st') = None.
Proof. exact connect_resume. Qed.

Theorem c08_disconnect_saves : forall st id reason st' conn outg trk,
  handle_disconnection st id reason = Ok st' ->
  slab_get (r_conns st) id = Some conn -> slab_get (r_obufs st) id = Some outg ->
  slab_get (r_trackers st) id = Some trk ->
  al_get str_eqb (tr_id trk) (r_graveyard st') = Some (saved_session st id conn outg trk) /\
  (forall c, c <> tr_id trk -> al_get str_eqb c (r_graveyard st') = al_get str_eqb c (r_graveyard st)).
Proof. exact hdisc_saves. Qed.

Theorem c08_disconnect_then_resume : forall st id reason st1 conn outg trk connB link st',
  SessInv st ->
  handle_disconnection st id reason = Ok st1 ->
  slab_get (r_conns st) id = Some conn -> slab_get (r_obufs st) id = Some outg ->
  slab_get (r_trackers st) id = Some trk ->
  c_clean conn = false -> tr_id trk = c_client connB ->
  handle_new_connection st1 connB link = Ok st' ->
  validate_clientid (c_client connB) = true -> takeover st1 (c_client connB) = Ok st1 ->
  (cf_max_connections (r_cfg st1) <=? slab_len (r_conns st1)) = false ->
  c_clean connB = false ->
  exists id' conn' o' t',
    slab_get (r_conns st') id' = Some conn' /\ slab_get (r_obufs st') id' = Some o' /\
    get_tracker st' id' = Ok t' /\
    slab_get (r_acks st') id' =
      Some {| a_committed := AConnAck id' true :: map APubRel (o_pubrels outg); a_recorded := [] |} /\
    c_subs conn' = c_subs conn /\ o_pubrels o' = o_pubrels outg /\ o_inflight o' = [] /\
    tr_reqs t' = map (fun rq => match first_cursor (o_inflight outg) (dr_idx rq) with
                                | Some cu => set_dr_cursor rq cu
                                | None => rq
                                end)
                     (tr_reqs trk ++ snd (dl_clean (r_datalog st) id)).
Proof. exact disconnect_then_resume. Qed.

Theorem c08_retransmission_map_spec : forall infl fidx,
  al_get N.eqb fidx (retransmission_map infl []) = first_cursor infl fidx.
Proof. exact retransmission_map_spec. Qed.

Theorem c08_first_cursor_some : forall infl fidx cu,
  first_cursor infl fidx = Some cu <->
  exists pre pk post, infl = pre ++ (pk, fidx, Some cu) :: post /\
                      Forall (fun e => ~ (snd (fst e) = fidx /\ snd e <> None)) pre.
Proof. exact first_cursor_some. Qed.

Theorem c08_first_cursor_none : forall infl fidx,
  first_cursor infl fidx = None <-> Forall (fun e => ~ (snd (fst e) = fidx /\ snd e <> None)) infl.
Proof. exact first_cursor_none. Qed.

Theorem c08_rewind : forall rqs,
  forall retr gs rqs' gs',
  rewind_requests rqs retr gs = Ok (rqs', gs') -> rqs' = map (rewind retr) rqs.
Proof. exact rewind_requests_spec. Qed.

(** ---- an unsolicited acknowledgement does not cost the session its window (Router/SessionBadAck.v)
    [processed] / [unsolicited] are those of C09 (Router/WindowDisc.v): the batch of connection
    [id] reaches, in state [s], an ack that is not for the head of the window [o].  The event
    closes [id]; the state [st3] the close runs on still has exactly [o] at [id], so the session
    saved for a persistent client keeps the pending releases and is rewound with the
    retransmission map of the WHOLE window: every saved request on the head's filter restarts at
    the head's cursor. *)
From Rumqtt Require Import Router.RunDefs Router.WindowFrame Router.WindowThm Router.WindowDisc Router.WindowExamples Router.SessionBadAck.
From Rumqtt Require Import Router.Model.

Theorem c08_bad_ack_keeps_window : forall (st : rstate) (id : N) (inc : incoming) (b : linkbuf) (s : rstate)
    (fls : flags) (p : packet) (o : outgoing) (st' : rstate),
  slab_get (r_ibufs st) id = Some inc -> nthN (r_links st) (i_link inc) = Some b ->
  processed id (i_client inc) (link_put st (i_link inc) (set_lk_in b [])) flags0 (lk_in b) s fls p ->
  slab_get (r_obufs s) id = Some o -> unsolicited o p ->
  handle_device_payload st id = Ok st' ->
  exists st3 reason conn trk,
    handle_disconnection st3 id reason = Ok st' /\
    slab_get (r_obufs st3) id = Some o /\
    slab_get (r_conns st3) id = Some conn /\ slab_get (r_trackers st3) id = Some trk /\
    slab_get (r_obufs st') id = None /\
    al_get str_eqb (tr_id trk) (r_graveyard st') = Some (saved_session st3 id conn o trk) /\
    (c_clean conn = false ->
     exists ss,
       al_get str_eqb (tr_id trk) (r_graveyard st') = Some (Some ss) /\
       ss_pubrels ss = o_pubrels o /\
       tr_reqs (ss_tracker ss) =
         map (rewind (retransmission_map (o_inflight o) []))
             (tr_reqs trk ++ snd (dl_clean (r_datalog st3) id)) /\
       forall pk fidx cu rest, o_inflight o = (pk, fidx, Some cu) :: rest ->
         al_get N.eqb fidx (retransmission_map (o_inflight o) []) = Some cu /\
         forall rq, dr_idx rq = fidx ->
           dr_cursor (rewind (retransmission_map (o_inflight o) []) rq) = cu).
Proof. exact bad_ack_keeps_window. Qed.

Theorem c08_bad_ack_example :
  from_init exb_ops = Ok exb_st /\ RunDefs.reachable ex_cfg exb_st /\
  (exists inc b o conn,
    slab_get (r_ibufs exb_st) 0 = Some inc /\ nthN (r_links exb_st) (i_link inc) = Some b /\
    lk_in b = [PPubAck 2] /\
    slab_get (r_obufs (link_put exb_st (i_link inc) (set_lk_in b []))) 0 = Some o /\
    o_inflight o = [(1, 0, Some (0, 0)); (2, 0, Some (0, 1)); (3, 0, Some (0, 2))] /\
    unsolicited o (PPubAck 2) /\
    processed 0 (i_client inc) (link_put exb_st (i_link inc) (set_lk_in b [])) flags0 (lk_in b)
              (link_put exb_st (i_link inc) (set_lk_in b [])) flags0 (PPubAck 2) /\
    slab_get (r_conns exb_st) 0 = Some conn /\ c_clean conn = false) /\
  RunDefs.run exb_st (plain [OpData 0]) = Ok exb_st1 /\
  slab_get (r_obufs exb_st1) 0 = None /\
  (exists ss, al_get str_eqb [115] (r_graveyard exb_st1) = Some (Some ss) /\
              map dr_cursor (tr_reqs (ss_tracker ss)) = [(0, 0)]) /\
  RunDefs.run exb_st1 (plain [pconn 115; OpConsume; OpConsume]) = Ok exb_st2 /\
  fwd_payloads (out_of exb_st2 2) = [[1]; [2]; [3]].
Proof. exact bad_ack_witness. Qed.

(** ---- C08 at the level of WHOLE RUNS, across connection epochs (Router/TraceResume*.v, on the
    delivery trace of Router/TraceRun.v).  [run_d st0 ops = Ok (st, tr)]: the model's [run] with
    its delivery trace.  An epoch is a link number.  [KEnd cl r w] under key (L1, f, i): the
    connection of client [cl] on link L1 with clean_session = false was removed (Disconnect event,
    DISCONNECT packet, router-initiated close, take-over) and its non-shared request for
    (filter f, log i) saved with cursor offset [r], the RESUME POINT; [w] = the offsets of the
    entries of log i in its window at that moment.  [KRes cl c0] under (L2, f, i): a Connect of
    [cl] restored that request on the fresh link L2 with cursor offset [c0].  [KEnd] is not part of
    [ktrace]. *)
From Rumqtt Require Import Router.Wake Router.WakeCor Router.ExactInv Router.Inv Router.NoPanic.
From Rumqtt Require Import Router.WakeExamples Router.TraceRun Router.TraceRunThm Router.TraceRunExamples.
From Rumqtt Require Import Router.TraceResume Router.TraceResumeWin Router.TraceResumeEnd Router.TraceResumeThm Router.TraceResumeExamples.
From Rumqtt Require Import Router.Model Router.RunDefs.

(** (a) the resume point.  Every resume marker is preceded by the end marker of the SAME client
    for the same (f, i) under an older link, carrying the same offset, with no other end/resume
    marker of that client and (f, i) in between ([quiet]); that offset is the oldest entry of log i
    in the window at the removal if there is one, else the place where the old key's trace continues
    ([nxt] of its last event); the new key's trace starts with the marker, and its next event starts
    there (a forward AT c0, a jump FROM c0 FORWARD to the log's base, or a re-SUBSCRIBE at or after
    c0): no saved cursor is ahead of its log (Router/TraceRunBound.v). *)
Theorem c08_run_resume_point : forall (cfg : config) (st0 : rstate) (ops : list (list oracle * rop)) (st : rstate) (tr : list dev),
  cfg_ok cfg -> cf_max_outgoing cfg < B62 -> init cfg = Ok st0 -> ops_wf ops ->
  run_d st0 ops = Ok (st, tr) -> Bounded st ->
  forall (tr1 : list dev) (id2 L2 : N) (f : str) (i : N) (cl : str) (c0 : N) (tr2 : list dev),
    tr = tr1 ++ (id2, (L2, f, i), KRes cl c0) :: tr2 ->
  exists (id1 L1 : N) (w : list N) (ta tb : list dev) (a : kev) (l2 : list kev),
    tr1 = ta ++ (id1, (L1, f, i), KEnd cl c0 w) :: tb /\ quiet cl f i tb /\ L1 < L2 /\
    last_opt (ktrace (L1, f, i) ta) = Some a /\ c0 = match w with x :: _ => x | [] => nxt a end /\
    ktrace (L2, f, i) tr = KRes cl c0 :: l2 /\
    match l2 with
    | KFwd off _ :: _ => off = c0
    | KJump from to :: _ => from = c0 /\ c0 <= to
    | KSub e :: _ => c0 <= e
    | _ :: _ => False
    | [] => True
    end.
Proof. exact c08_run_resume_point_thm. Qed.

(** (b) + first half of (c).  EXTRA HYPOTHESIS [always_b (noshare_b L1 i) st0 ops = true]: in every
    state the run passes through, the connection of link L1 tracks no SHARED request reading log i
    (the window and the retransmission map are keyed by the log alone, so forwards of a
    "$share/g/f" subscription of the same client would enter the same window).  Then the offsets
    forwarded with QoS > 0 under (L1, f, i) before the end marker ([qfo]; the QoS of a forward is
    the QoS of the subscription) are [l1 ++ w]: those still in the window are >= the resume point,
    those that left it (acknowledged in order) are < the resume point. *)
Theorem c08_run_unacked_again : forall (cfg : config) (st0 : rstate) (ops : list (list oracle * rop)) (st : rstate) (tr : list dev),
  cfg_ok cfg -> cf_max_outgoing cfg < B62 -> init cfg = Ok st0 -> ops_wf ops ->
  run_d st0 ops = Ok (st, tr) -> Bounded st ->
  forall L1 i : N, always_b (noshare_b L1 i) st0 ops = true ->
  forall (ta : list dev) (id1 : N) (f cl : str) (r : N) (w : list N) (tb : list dev),
    tr = ta ++ (id1, (L1, f, i), KEnd cl r w) :: tb ->
  exists l1 : list N,
    qfo (ktrace (L1, f, i) ta) = l1 ++ w /\
    (forall x : N, In x w -> r <= x) /\
    (forall x : N, In x l1 -> x < r).
Proof. exact c08_run_unacked_again_thm. Qed.

(** (c) across the two epochs, same extra hypothesis: an offset acknowledged in the old epoch is
    below the resume point and is NOT forwarded in the new epoch. *)
Theorem c08_run_acked_not_again : forall (cfg : config) (st0 : rstate) (ops : list (list oracle * rop)) (st : rstate) (tr : list dev),
  cfg_ok cfg -> cf_max_outgoing cfg < B62 -> init cfg = Ok st0 -> ops_wf ops ->
  run_d st0 ops = Ok (st, tr) -> Bounded st ->
  forall L1 i : N, always_b (noshare_b L1 i) st0 ops = true ->
  forall (ta : list dev) (id1 : N) (f cl : str) (c0 : N) (w : list N) (tb : list dev) (id2 L2 : N) (tr2 : list dev),
    tr = ta ++ (id1, (L1, f, i), KEnd cl c0 w) :: tb ++ (id2, (L2, f, i), KRes cl c0) :: tr2 ->
  exists (l1 : list N) (l2 : list kev),
    qfo (ktrace (L1, f, i) ta) = l1 ++ w /\ ktrace (L2, f, i) tr = KRes cl c0 :: l2 /\
    forall x : N, In x l1 -> x < c0 /\ ~ In x (fwd_offs l2).
Proof. exact c08_run_acked_not_again_thm. Qed.

(** QoS 0 and empty windows, no extra hypothesis: if the window holds nothing of log i at the
    removal (always so for a QoS 0 subscription), EVERY offset forwarded under the old key lies
    below the resume point ... *)
Theorem c08_run_no_window_nothing_again : forall (cfg : config) (st0 : rstate) (ops : list (list oracle * rop)) (st : rstate) (tr : list dev),
  cfg_ok cfg -> cf_max_outgoing cfg < B62 -> init cfg = Ok st0 -> ops_wf ops ->
  run_d st0 ops = Ok (st, tr) -> Bounded st ->
  forall (ta : list dev) (id1 L1 : N) (f : str) (i : N) (cl : str) (r : N) (tb : list dev),
    tr = ta ++ (id1, (L1, f, i), KEnd cl r []) :: tb ->
  forall x : N, In x (fwd_offs (ktrace (L1, f, i) ta)) -> x < r.
Proof. exact c08_run_no_window_thm. Qed.

(** ... and whatever a resumed key forwards lies at or after its resume point: a forward of the
    old epoch, of any QoS, is sent again only if its offset is >= the resume point — for a QoS 0 forward exactly when an older QoS>0 forward of the same
    key was still unacknowledged. *)
Theorem c08_run_resumed_from_resume_point : forall (cfg : config) (st0 : rstate) (ops : list (list oracle * rop)) (st : rstate) (tr : list dev),
  cfg_ok cfg -> cf_max_outgoing cfg < B62 -> init cfg = Ok st0 -> ops_wf ops ->
  run_d st0 ops = Ok (st, tr) -> Bounded st ->
  forall (K : dkey) (cl : str) (c0 : N) (l2 : list kev), ktrace K tr = KRes cl c0 :: l2 ->
  forall y : N, In y (fwd_offs l2) -> c0 <= y.
Proof. exact c08_run_resumed_from_thm. Qed.

(** (d) away-complete: the run ends quiescent with the resumed connection alive: its subscription
    [f] has its one request parked; if that is not shared and the key's trace starts with a resume
    marker, EVERY offset from the resume point to the end of the log — the unacknowledged ones and
    everything accepted while the client was away — is accounted for after the marker: forwarded
    (exactly once: [c01_run_no_dup_in_order]), jumped over (evicted) or below a later re-SUBSCRIBE. *)
Theorem c08_run_away_complete : forall (cfg : config) (st0 : rstate) (ops : list (list oracle * rop)) (st : rstate) (tr : list dev),
  cfg_ok cfg -> cf_max_outgoing cfg < B62 -> init cfg = Ok st0 -> ops_wf ops ->
  run_d st0 ops = Ok (st, tr) -> Bounded st ->
  1 <= cf_max_outgoing cfg -> quiescent st (owed_run st0 [] ops) ->
  forall (id : N) (c : connection) (o : outgoing),
    slab_get (r_conns st) id = Some c -> slab_get (r_obufs st) id = Some o ->
  forall f : str, set_mem str_eqb f (c_subs c) = true ->
  exists (i : N) (d : data) (rq : drequest),
    nget (r_datalog st) i = Some d /\ In (id, rq) (d_waiters d) /\ dr_filter rq = f /\ dr_idx rq = i /\
    (dr_group rq = None ->
     forall (cl : str) (c0 : N) (l2 : list kev), ktrace (o_link o, f, i) tr = KRes cl c0 :: l2 ->
     forall x : N, c0 <= x < end_of (d_log d) -> covered x l2).
Proof. exact c08_run_away_complete_thm. Qed.

(** (e), the new end: the epoch created by a Connect with clean_session = true (its link is the
    number of links when the Connect starts) has no resume marker anywhere in the run, and every
    key of it starts with a subscribe marker. *)
Theorem c08_run_clean_starts_empty : forall (cfg : config) (st0 : rstate) (ops1 : list (list oracle * rop))
    (orc : list oracle) (c : connect_req) (ops2 : list (list oracle * rop)) (st : rstate) (tr : list dev),
  cfg_ok cfg -> cf_max_outgoing cfg < B62 -> init cfg = Ok st0 -> ops_wf (ops1 ++ (orc, OpConnect c) :: ops2) ->
  run_d st0 (ops1 ++ (orc, OpConnect c) :: ops2) = Ok (st, tr) -> Bounded st ->
  cr_clean c = true ->
  forall (s1 : rstate) (tr1 : list dev), run_d st0 ops1 = Ok (s1, tr1) ->
  (forall (id : N) (f : str) (i : N) (cl : str) (c0 : N), ~ In (id, (lenN (r_links s1), f, i), KRes cl c0) tr) /\
  (forall (f : str) (i : N) (a : kev) (l : list kev), ktrace (lenN (r_links s1), f, i) tr = a :: l -> exists e : N, a = KSub e).
Proof. exact c08_run_clean_starts_empty_thm. Qed.

(** (e), the old end, at run level: the connection created by a Connect with clean_session = true
    never produces an end marker (the clean flag of a connection record is the flag of the Connect
    that created its link: Router/TraceResumeClean.v) — and by (a) a resume marker needs one *)
Theorem c08_run_clean_disconnect_no_end_marker : forall (cfg : config) (st0 : rstate) (ops1 : list (list oracle * rop))
    (orc : list oracle) (c : connect_req) (ops2 : list (list oracle * rop)) (st : rstate) (tr : list dev),
  cfg_ok cfg -> cf_max_outgoing cfg < B62 -> init cfg = Ok st0 -> ops_wf (ops1 ++ (orc, OpConnect c) :: ops2) ->
  run_d st0 (ops1 ++ (orc, OpConnect c) :: ops2) = Ok (st, tr) -> Bounded st ->
  cr_clean c = true ->
  forall (s1 : rstate) (tr1 : list dev), run_d st0 ops1 = Ok (s1, tr1) ->
  forall (id : N) (f : str) (i : N) (cl : str) (r : N) (w : list N),
    ~ In (id, (lenN (r_links s1), f, i), KEnd cl r w) tr.
Proof. exact c08_run_clean_disconnect_no_end_thm. Qed.

(** the same at the level of one removal *)
Theorem c08_clean_disconnect_no_end_marker : forall (st : rstate) (id : N) (st' : rstate) (c : connection),
  slab_get (r_conns st) id = Some c -> c_clean c = true -> disc_ghost st id st' = [].
Proof. exact disc_ghost_clean. Qed.

(** the run of the task statement: three forwards, the first acknowledged, disconnect (resume point
    1, window [1; 2]), two more publishes, reconnect: the new key's trace is Res@1, Fwd 1, 2, 3, 4;
    all hypotheses of the theorems above hold *)
Theorem c08_run_example_resume :
  let st := tx_st rx_ops in let tr := tx_tr rx_ops in
  tx_run rx_ops = Ok (st, tr) /\
  exists st0,
    run_hyps tx_cfg st0 rx_ops st tr /\ 1 <= cf_max_outgoing tx_cfg /\ quiescent st (owed_run st0 [] rx_ops) /\
    always_b (noshare_b 0 0) st0 rx_ops = true /\
    map evshort tr = [(0, 0, (2, 0, 0)); (0, 0, (0, 0, 0)); (0, 0, (0, 1, 0)); (0, 0, (0, 2, 0));
                      (0, 0, (4, 1, 2));
                      (0, 2, (3, 1, 0)); (0, 2, (0, 1, 0)); (0, 2, (0, 2, 0)); (0, 2, (0, 3, 0)); (0, 2, (0, 4, 0))] /\
    ends_of tr = [(0, 1, [1; 2])] /\
    map kshort (ktrace (0, [116], 0) tr) = (2, 0, 0) :: fwds 0 3 /\
    map kshort (ktrace (2, [116], 0) tr) = (3, 1, 0) :: fwds 1 4 /\
    qfo (ktrace (0, [116], 0) tr) = [0] ++ [1; 2] /\
    exists c o d,
      slab_get (r_conns st) 0 = Some c /\ c_subs c = [[116]] /\ slab_get (r_obufs st) 0 = Some o /\ o_link o = 2 /\
      o_inflight o = [] /\ nget (r_datalog st) 0 = Some d /\ end_of (d_log d) = 5 /\
      map (fun w : N * drequest => (fst w, dr_cursor (snd w), dr_group (snd w))) (d_waiters d) = [(0, (0, 5), None)].
Proof. exact resume_run_example. Qed.

(** the same with the client coming back with clean_session = true: no resume marker, the new key
    starts with Sub@5 *)
Theorem c08_run_example_clean :
  let st := tx_st cx_ops in let tr := tx_tr cx_ops in
  tx_run cx_ops = Ok (st, tr) /\
  (exists st0, run_hyps tx_cfg st0 cx_ops st tr) /\
  map evshort tr = [(0, 0, (2, 0, 0)); (0, 0, (0, 0, 0)); (0, 0, (0, 1, 0)); (0, 0, (0, 2, 0));
                    (0, 0, (4, 1, 2));
                    (0, 2, (2, 5, 0)); (0, 2, (0, 5, 0))] /\
  nth_error cx_ops (length rx_away) = Some ([], wx_conn 114) /\
  lenN (r_links (tx_st (wx_plain rx_away))) = 2.
Proof. exact clean_run_example. Qed.

(** why (b), (c) carry the extra hypothesis: a persistent client holding "t" and "$share/g/t" (one
    log, one window, one retransmission cursor): its three plain forwards (packet ids 1, 2, 3) are
    all acknowledged, the window holds the three shared forwards, the plain request is rewound to
    offset 0 and after the reconnect the plain key is sent 0, 1, 2 again *)
Theorem c08_run_shared_same_log_witness :
  let st := tx_st sx_ops in let tr := tx_tr sx_ops in
  tx_run sx_ops = Ok (st, tr) /\
  (exists st0, run_hyps tx_cfg st0 sx_ops st tr /\ always_b (noshare_b 0 0) st0 sx_ops = false) /\
  map fwd_pk (ktrace (0, [116], 0) tr) = [None; Some (0, 1); Some (1, 2); Some (2, 3)] /\
  window_of (tx_st (wx_plain sx_pre)) 0 = [(4, 0, Some 0); (5, 0, Some 1); (6, 0, Some 2)] /\
  ends_of tr = [(0, 0, [0; 1; 2])] /\
  map evshort tr = [(0, 0, (2, 0, 0)); (0, 0, (0, 0, 0)); (0, 0, (0, 1, 0)); (0, 0, (0, 2, 0));
                    (0, 0, (4, 0, 3));
                    (0, 2, (3, 0, 0)); (0, 2, (0, 0, 0)); (0, 2, (0, 1, 0)); (0, 2, (0, 2, 0))].
Proof. exact share_rewind_witness. Qed.

(** session_present and the trace, as far as the markers go: the ConnAck committed for the
    connection a Connect creates (the one on the link the Connect made) carries session_present =
    false if the Connect is clean, and true if the Connect restored a request, i.e. a resume marker
    of the new link is in the trace.  NOT an equivalence: end/resume markers are per saved
    NON-SHARED REQUEST, so a saved session without such requests is resumed (session_present =
    true) without leaving a marker. *)
Theorem c08_run_session_present_partial : forall (cfg : config) (st0 : rstate) (ops1 : list (list oracle * rop))
    (orc : list oracle) (c : connect_req) (ops2 : list (list oracle * rop)) (st : rstate) (tr : list dev),
  cfg_ok cfg -> cf_max_outgoing cfg < B62 -> init cfg = Ok st0 -> ops_wf (ops1 ++ (orc, OpConnect c) :: ops2) ->
  run_d st0 (ops1 ++ (orc, OpConnect c) :: ops2) = Ok (st, tr) -> Bounded st ->
  forall (s1 : rstate) (tr1 : list dev), run_d st0 ops1 = Ok (s1, tr1) ->
  forall (s2 : rstate) (out : rout), step_with s1 orc (OpConnect c) = Ok (s2, out) ->
  forall (id : N) (o : outgoing) (l : acklog) (sp : bool) (rest : list ack),
    slab_get (r_obufs s2) id = Some o -> o_link o = lenN (r_links s1) ->
    slab_get (r_acks s2) id = Some l -> a_committed l = AConnAck id sp :: rest ->
    (cr_clean c = true -> sp = false) /\
    ((exists (id2 : N) (f : str) (i : N) (cl : str) (c0 : N), In (id2, (lenN (r_links s1), f, i), KRes cl c0) tr) -> sp = true).
Proof. exact c08_run_session_present_thm. Qed.

(** a resume over a rollover: the saved cursor (offset 0) is stale at the reconnect, the first
    sweep of the restored request jumps FORWARD to the log's base: Res@0, Jump 0 -> 7, Fwd 7 .. 14 *)
Theorem c08_run_example_resume_jump :
  let st := tx_st jx_ops in let tr := tx_tr jx_ops in
  tx_run jx_ops = Ok (st, tr) /\
  (exists st0, run_hyps tx_cfg st0 jx_ops st tr) /\
  ends_of tr = [(0, 0, [0; 1; 2])] /\
  map kshort (ktrace (2, [116], 0) tr) = (3, 0, 0) :: (1, 0, 7) :: fwds 7 8.
Proof. exact resume_jump_example. Qed.

(** the connection of the clean reconnect (link 2) is removed: still only the end marker of link 0;
    the ConnAck of the reconnect: session_present = true when persistent, false when clean *)
Theorem c08_run_example_clean_end :
  (exists st0, run_hyps tx_cfg st0 (cx_ops ++ wx_plain [OpDisconnect 0; OpDrain 2])
                 (tx_st (cx_ops ++ wx_plain [OpDisconnect 0; OpDrain 2])) (tx_tr (cx_ops ++ wx_plain [OpDisconnect 0; OpDrain 2]))) /\
  ends_of (tx_tr (cx_ops ++ wx_plain [OpDisconnect 0; OpDrain 2])) = [(0, 1, [1; 2])] /\
  slab_get (r_obufs (tx_st (cx_ops ++ wx_plain [OpDisconnect 0; OpDrain 2]))) 0 = None /\
  committed_of (tx_st (wx_plain (rx_away ++ [tx_pconn 114]))) 0 = [AConnAck 0 true] /\
  committed_of (tx_st (wx_plain (rx_away ++ [wx_conn 114]))) 0 = [AConnAck 0 false].
Proof. exact clean_end_example. Qed.
