(** C08 (persistent sessions) — pinned statements.  Only [Theorem .. exact ..]. *)
From Rumqtt Require Import Router.SessionReads Router.RetainedReplay Log.Spec.

Theorem c08_resume : forall cfg ops st outs id conn outg trk cr orc1 orc2 st1 out1 st2 out2,
  run_from cfg ops = Ok (st, outs) ->
  slab_get (r_conns st) id = Some conn -> slab_get (r_obufs st) id = Some outg ->
  slab_get (r_trackers st) id = Some trk ->
  c_clean conn = false -> cr_client cr = c_client conn -> cr_clean cr = false ->
  step_with st orc1 (OpDisconnect id) = Ok (st1, out1) ->
  (cf_max_connections (r_cfg st1) <=? slab_len (r_conns st1)) = false ->
  step_with st1 orc2 (OpConnect cr) = Ok (st2, out2) ->
  exists id' conn' o' t',
    slab_get (r_conns st2) id' = Some conn' /\ slab_get (r_obufs st2) id' = Some o' /\
    get_tracker st2 id' = Ok t' /\
    slab_get (r_acks st2) id' =
      Some {| a_committed := AConnAck id' true :: map APubRel (o_pubrels outg); a_recorded := [] |} /\
    c_subs conn' = c_subs conn /\ o_pubrels o' = o_pubrels outg /\ o_inflight o' = [] /\
    tr_reqs t' = map (fun rq => match first_cursor (o_inflight outg) (dr_idx rq) with
                                | Some cu => set_dr_cursor rq cu
                                | None => rq
                                end)
                     (tr_reqs trk ++ snd (dl_clean (r_datalog st) id)).
Proof. exact resume_ops. Qed.

Theorem c08_resume_reachable : forall cfg st id reason st1 conn outg trk connB link st',
  reachable cfg st ->
  handle_disconnection st id reason = Ok st1 ->
  slab_get (r_conns st) id = Some conn -> slab_get (r_obufs st) id = Some outg ->
  slab_get (r_trackers st) id = Some trk ->
  c_clean conn = false -> c_client connB = c_client conn -> c_clean connB = false ->
  (cf_max_connections (r_cfg st1) <=? slab_len (r_conns st1)) = false ->
  handle_new_connection st1 connB link = Ok st' ->
  exists id' conn' o' t',
    slab_get (r_conns st') id' = Some conn' /\ slab_get (r_obufs st') id' = Some o' /\
    get_tracker st' id' = Ok t' /\
    slab_get (r_acks st') id' =
      Some {| a_committed := AConnAck id' true :: map APubRel (o_pubrels outg); a_recorded := [] |} /\
    c_subs conn' = c_subs conn /\ o_pubrels o' = o_pubrels outg /\ o_inflight o' = [] /\
    tr_reqs t' = map (fun rq => match first_cursor (o_inflight outg) (dr_idx rq) with
                                | Some cu => set_dr_cursor rq cu
                                | None => rq
                                end)
                     (tr_reqs trk ++ snd (dl_clean (r_datalog st) id)).
Proof. exact resume_reachable. Qed.

Theorem c08_resume_reads : forall st id rq st' rq' status o d all,
  forward_device_data st id rq = Ok (st', rq', status) -> get_obuf st id = Ok o ->
  dr_group rq = None -> dr_fwd_retained rq = false -> status <> SInflightFull ->
  native_get (r_datalog st) (dr_idx rq) = Ok d ->
  let slots := if dr_qos rq =? 0 then cf_max_outgoing (r_cfg st) else MAX_INFLIGHT - lenN (o_inflight o) in
  let p := pos_of (d_log d) (dr_cursor rq) in
  WF pubdata_size (d_log d) all -> Issued (d_log d) (dr_cursor rq) ->
  2 * lenN all < U64 -> snd (dr_cursor rq) + slots < U64 ->
  exists from_log ns tail,
    map fst from_log = firstn (N.to_nat slots) (skipn (N.to_nat p) all) /\
    map (fun e => snd (snd e)) from_log = Nseq p (length from_log) /\
    out_of st' (o_link o) = out_of st (o_link o) ++ ns ++ tail /\
    (tail = [] \/ tail = [NUnschedule]) /\
    Forall2 (fun (e : pubdata * cursor) n =>
               exists p' pr', n = NForward (Some (snd e)) p' pr' /\ same_msg (dr_qos rq) (fst (fst e)) p')
            from_log ns /\
    snd (dr_cursor rq') = p + lenN from_log /\
    p + lenN from_log <= lenN all.
Proof. exact forward_log_window. Qed.

Theorem c08_session_invariant : forall cfg st,
  reachable cfg st -> SessInv st.
Proof. exact reachable_SessInv. Qed.

Theorem c08_ids_invariant : forall cfg st,
  reachable cfg st -> IdInv st.
Proof. exact reachable_IdInv. Qed.

Theorem c08_connect : forall st conn link st' st1,
  SessInv st ->
  handle_new_connection st conn link = Ok st' ->
  validate_clientid (c_client conn) = true -> takeover st (c_client conn) = Ok st1 ->
  (cf_max_connections (r_cfg st1) <=? slab_len (r_conns st1)) = false ->
  let rs := resumed_session st1 conn in
  exists id conn' o' t',
    slab_get (r_conns st') id = Some conn' /\ slab_get (r_obufs st') id = Some o' /\
    get_tracker st' id = Ok t' /\
    slab_get (r_acks st') id =
      Some {| a_committed := AConnAck id (session_present st1 conn) :: map APubRel (o_pubrels o'); a_recorded := [] |} /\
    al_get str_eqb (c_client conn) (r_cmap st') = Some id /\
    c_client conn' = c_client conn /\ c_clean conn' = c_clean conn /\ o_client o' = c_client conn /\
    o_inflight o' = [] /\
    c_subs conn' = match rs with Some ss => ss_subs ss | None => c_subs conn end /\
    tr_reqs t' = match rs with Some ss => tr_reqs (ss_tracker ss) | None => [] end /\
    tr_id t' = match rs with Some ss => tr_id (ss_tracker ss) | None => c_client conn end /\
    o_pubrels o' = match rs with Some ss => ss_pubrels ss | None => [] end /\
    al_get str_eqb (c_client conn) (r_graveyard st') = None /\
    (forall c, c <> c_client conn -> al_get str_eqb c (r_graveyard st') = al_get str_eqb c (r_graveyard st1)).
Proof. exact connect_session. Qed.

Theorem c08_clean : forall st conn link st' st1,
  SessInv st ->
  handle_new_connection st conn link = Ok st' ->
  validate_clientid (c_client conn) = true -> takeover st (c_client conn) = Ok st1 ->
  (cf_max_connections (r_cfg st1) <=? slab_len (r_conns st1)) = false ->
  c_clean conn = true ->
  exists id conn' o' t',
    slab_get (r_conns st') id = Some conn' /\ slab_get (r_obufs st') id = Some o' /\
    get_tracker st' id = Ok t' /\
    slab_get (r_acks st') id = Some {| a_committed := [AConnAck id false]; a_recorded := [] |} /\
    al_get str_eqb (c_client conn) (r_cmap st') = Some id /\
    c_clean conn' = true /\ c_subs conn' = c_subs conn /\ tr_reqs t' = [] /\ tr_id t' = c_client conn /\
    o_pubrels o' = [] /\ o_inflight o' = [] /\
    al_get str_eqb (c_client conn) (r_graveyard st') = None.
Proof. exact connect_clean. Qed.

Theorem c08_clean_then_persistent : forall st connA linkA stA connB linkB stB stA0,
  SessInv st ->
  handle_new_connection st connA linkA = Ok stA ->
  validate_clientid (c_client connA) = true -> takeover st (c_client connA) = Ok stA0 ->
  (cf_max_connections (r_cfg stA0) <=? slab_len (r_conns stA0)) = false ->
  c_clean connA = true ->
  c_client connB = c_client connA ->
  handle_new_connection stA connB linkB = Ok stB ->
  forall stB0, takeover stA (c_client connB) = Ok stB0 ->
  (cf_max_connections (r_cfg stB0) <=? slab_len (r_conns stB0)) = false ->
  exists id conn' o' t',
    slab_get (r_conns stB) id = Some conn' /\ slab_get (r_obufs stB) id = Some o' /\
    get_tracker stB id = Ok t' /\
    slab_get (r_acks stB) id = Some {| a_committed := [AConnAck id false]; a_recorded := [] |} /\
    c_subs conn' = c_subs connB /\ tr_reqs t' = [] /\ o_pubrels o' = [] /\ o_inflight o' = [].
Proof. exact clean_then_persistent. Qed.

Theorem c08_no_session : forall st conn link st' st1,
  SessInv st ->
  handle_new_connection st conn link = Ok st' ->
  validate_clientid (c_client conn) = true -> takeover st (c_client conn) = Ok st1 ->
  (cf_max_connections (r_cfg st1) <=? slab_len (r_conns st1)) = false ->
  (al_get str_eqb (c_client conn) (r_graveyard st1) = None \/
   al_get str_eqb (c_client conn) (r_graveyard st1) = Some None) ->
  exists id conn' o' t',
    slab_get (r_conns st') id = Some conn' /\ slab_get (r_obufs st') id = Some o' /\
    get_tracker st' id = Ok t' /\
    slab_get (r_acks st') id = Some {| a_committed := [AConnAck id false]; a_recorded := [] |} /\
    c_subs conn' = c_subs conn /\ tr_reqs t' = [] /\ o_pubrels o' = [] /\ o_inflight o' = [].
Proof. exact connect_no_session. Qed.

Theorem c08_resume_state : forall st conn link st' st1 ss,
  SessInv st ->
  handle_new_connection st conn link = Ok st' ->
  validate_clientid (c_client conn) = true -> takeover st (c_client conn) = Ok st1 ->
  (cf_max_connections (r_cfg st1) <=? slab_len (r_conns st1)) = false ->
  c_clean conn = false -> al_get str_eqb (c_client conn) (r_graveyard st1) = Some (Some ss) ->
  exists id conn' o' t',
    slab_get (r_conns st') id = Some conn' /\ slab_get (r_obufs st') id = Some o' /\
    get_tracker st' id = Ok t' /\
    slab_get (r_acks st') id =
      Some {| a_committed := AConnAck id true :: map APubRel (ss_pubrels ss); a_recorded := [] |} /\
    al_get str_eqb (c_client conn) (r_cmap st') = Some id /\
    c_subs conn' = ss_subs ss /\ tr_reqs t' = tr_reqs (ss_tracker ss) /\ tr_id t' = tr_id (ss_tracker ss) /\
    o_pubrels o' = ss_pubrels ss /\ o_inflight o' = [] /\
    al_get str_eqb (c_client conn) (r_graveyard st') = None.
Proof. exact connect_resume. Qed.

Theorem c08_disconnect_saves : forall st id reason st' conn outg trk,
  handle_disconnection st id reason = Ok st' ->
  slab_get (r_conns st) id = Some conn -> slab_get (r_obufs st) id = Some outg ->
  slab_get (r_trackers st) id = Some trk ->
  al_get str_eqb (tr_id trk) (r_graveyard st') = Some (saved_session st id conn outg trk) /\
  (forall c, c <> tr_id trk -> al_get str_eqb c (r_graveyard st') = al_get str_eqb c (r_graveyard st)).
Proof. exact hdisc_saves. Qed.

Theorem c08_disconnect_then_resume : forall st id reason st1 conn outg trk connB link st',
  SessInv st ->
  handle_disconnection st id reason = Ok st1 ->
  slab_get (r_conns st) id = Some conn -> slab_get (r_obufs st) id = Some outg ->
  slab_get (r_trackers st) id = Some trk ->
  c_clean conn = false -> tr_id trk = c_client connB ->
  handle_new_connection st1 connB link = Ok st' ->
  validate_clientid (c_client connB) = true -> takeover st1 (c_client connB) = Ok st1 ->
  (cf_max_connections (r_cfg st1) <=? slab_len (r_conns st1)) = false ->
  c_clean connB = false ->
  exists id' conn' o' t',
    slab_get (r_conns st') id' = Some conn' /\ slab_get (r_obufs st') id' = Some o' /\
    get_tracker st' id' = Ok t' /\
    slab_get (r_acks st') id' =
      Some {| a_committed := AConnAck id' true :: map APubRel (o_pubrels outg); a_recorded := [] |} /\
    c_subs conn' = c_subs conn /\ o_pubrels o' = o_pubrels outg /\ o_inflight o' = [] /\
    tr_reqs t' = map (fun rq => match first_cursor (o_inflight outg) (dr_idx rq) with
                                | Some cu => set_dr_cursor rq cu
                                | None => rq
                                end)
                     (tr_reqs trk ++ snd (dl_clean (r_datalog st) id)).
Proof. exact disconnect_then_resume. Qed.

Theorem c08_retransmission_map_spec : forall infl fidx,
  al_get N.eqb fidx (retransmission_map infl []) = first_cursor infl fidx.
Proof. exact retransmission_map_spec. Qed.

Theorem c08_first_cursor_some : forall infl fidx cu,
  first_cursor infl fidx = Some cu <->
  exists pre pk post, infl = pre ++ (pk, fidx, Some cu) :: post /\
                      Forall (fun e => ~ (snd (fst e) = fidx /\ snd e <> None)) pre.
Proof. exact first_cursor_some. Qed.

Theorem c08_first_cursor_none : forall infl fidx,
  first_cursor infl fidx = None <-> Forall (fun e => ~ (snd (fst e) = fidx /\ snd e <> None)) infl.
Proof. exact first_cursor_none. Qed.

Theorem c08_rewind : forall rqs,
  forall retr gs rqs' gs',
  rewind_requests rqs retr gs = Ok (rqs', gs') -> rqs' = map (rewind retr) rqs.
Proof. exact rewind_requests_spec. Qed.

(** ---- an unsolicited acknowledgement does not cost the session its window (Router/SessionBadAck.v)
    [processed] / [unsolicited] are those of C09 (Router/WindowDisc.v): the batch of connection
    [id] reaches, in state [s], an ack that is not for the head of the window [o].  The event
    closes [id]; the state [st3] the close runs on still has exactly [o] at [id], so the session
    saved for a persistent client keeps the pending releases and is rewound with the
    retransmission map of the WHOLE window: every saved request on the head's filter restarts at
    the head's cursor. *)
From Rumqtt Require Import Router.RunDefs Router.WindowFrame Router.WindowThm Router.WindowDisc Router.WindowExamples Router.SessionBadAck.
From Rumqtt Require Import Router.Model.

Theorem c08_bad_ack_keeps_window : forall (st : rstate) (id : N) (inc : incoming) (b : linkbuf) (s : rstate)
    (fls : flags) (p : packet) (o : outgoing) (st' : rstate),
  slab_get (r_ibufs st) id = Some inc -> nthN (r_links st) (i_link inc) = Some b ->
  processed id (i_client inc) (link_put st (i_link inc) (set_lk_in b [])) flags0 (lk_in b) s fls p ->
  slab_get (r_obufs s) id = Some o -> unsolicited o p ->
  handle_device_payload st id = Ok st' ->
  exists st3 reason conn trk,
    handle_disconnection st3 id reason = Ok st' /\
    slab_get (r_obufs st3) id = Some o /\
    slab_get (r_conns st3) id = Some conn /\ slab_get (r_trackers st3) id = Some trk /\
    slab_get (r_obufs st') id = None /\
    al_get str_eqb (tr_id trk) (r_graveyard st') = Some (saved_session st3 id conn o trk) /\
    (c_clean conn = false ->
     exists ss,
       al_get str_eqb (tr_id trk) (r_graveyard st') = Some (Some ss) /\
       ss_pubrels ss = o_pubrels o /\
       tr_reqs (ss_tracker ss) =
         map (rewind (retransmission_map (o_inflight o) []))
             (tr_reqs trk ++ snd (dl_clean (r_datalog st3) id)) /\
       forall pk fidx cu rest, o_inflight o = (pk, fidx, Some cu) :: rest ->
         al_get N.eqb fidx (retransmission_map (o_inflight o) []) = Some cu /\
         forall rq, dr_idx rq = fidx ->
           dr_cursor (rewind (retransmission_map (o_inflight o) []) rq) = cu).
Proof. exact bad_ack_keeps_window. Qed.

Theorem c08_bad_ack_example :
  from_init exb_ops = Ok exb_st /\ RunDefs.reachable ex_cfg exb_st /\
  (exists inc b o conn,
    slab_get (r_ibufs exb_st) 0 = Some inc /\ nthN (r_links exb_st) (i_link inc) = Some b /\
    lk_in b = [PPubAck 2] /\
    slab_get (r_obufs (link_put exb_st (i_link inc) (set_lk_in b []))) 0 = Some o /\
    o_inflight o = [(1, 0, Some (0, 0)); (2, 0, Some (0, 1)); (3, 0, Some (0, 2))] /\
    unsolicited o (PPubAck 2) /\
    processed 0 (i_client inc) (link_put exb_st (i_link inc) (set_lk_in b [])) flags0 (lk_in b)
              (link_put exb_st (i_link inc) (set_lk_in b [])) flags0 (PPubAck 2) /\
    slab_get (r_conns exb_st) 0 = Some conn /\ c_clean conn = false) /\
  RunDefs.run exb_st (plain [OpData 0]) = Ok exb_st1 /\
  slab_get (r_obufs exb_st1) 0 = None /\
  (exists ss, al_get str_eqb [115] (r_graveyard exb_st1) = Some (Some ss) /\
              map dr_cursor (tr_reqs (ss_tracker ss)) = [(0, 0)]) /\
  RunDefs.run exb_st1 (plain [pconn 115; OpConsume; OpConsume]) = Ok exb_st2 /\
  fwd_payloads (out_of exb_st2 2) = [[1]; [2]; [3]].
Proof. exact bad_ack_witness. Qed.
