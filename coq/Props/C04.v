(** C04 — pinned statements (MQTT 3.1.1 part).  Only [Theorem .. exact ..]. *)
From Rumqtt Require Import Codec.Wire Codec.V4 Codec.WireProofs Codec.V4Proofs.
From Rumqtt Require Import Codec.V5Props Codec.V5 Codec.V5PropsProofs Codec.V5TotalProofs Codec.V5Proofs.
From Rumqtt Require Import Gen.Tables Codec.GenTie.

Theorem c04_length_write_remaining : forall n r, n <= 268435455 ->
  exists bs, write_remaining_length n = Ok bs /\ len bs = len_len n /\
             vlen (bs ++ r) = Ok (len_len n, n).
Proof. exact length_write_remaining. Qed.

Theorem c04_write_remaining_length_too_long : forall n, 268435455 < n ->
  write_remaining_length n = Err PayloadTooLong.
Proof. exact write_remaining_length_too_long. Qed.

Theorem c04_write_remaining_length_no_out_of_fuel : forall n, write_remaining_length n <> Err OutOfFuel.
Proof. exact write_remaining_length_no_out_of_fuel. Qed.

Theorem c04_len_len_boundaries :
  len_len 0 = 1 /\ len_len 127 = 1 /\ len_len 128 = 2 /\ len_len 16383 = 2 /\ len_len 16384 = 3 /\
  len_len 2097151 = 3 /\ len_len 2097152 = 4 /\ len_len 268435455 = 4.
Proof. exact len_len_boundaries. Qed.

Theorem c04_rt_v4 : forall fl p maxo, wf_v4 fl p = true -> (fl = Client -> size fl p <= maxo) ->
  exists bs, write fl maxo p = Ok (bs, size fl p) /\ len bs = size fl p /\
    forall max rest, plen fl p <= max -> read fl (bs ++ rest) max = Packet (norm p) rest.
Proof. exact rt_v4. Qed.

Theorem c04_interop_v4 : forall fl1 fl2 p maxo,
  wf_v4 fl1 p = true -> wf_v4 fl2 (norm p) = true -> (fl1 = Client -> size fl1 p <= maxo) ->
  exists bs, write fl1 maxo p = Ok (bs, size fl1 p) /\
    forall max rest, plen fl1 p <= max -> read fl2 (bs ++ rest) max = Packet (norm p) rest.
Proof. exact interop_v4. Qed.

Theorem c04_interop_client_to_broker : forall p maxo,
  wf_v4 Client p = true -> wf_v4 Broker (norm p) = true -> (Client = Client -> size Client p <= maxo) ->
  exists bs, write Client maxo p = Ok (bs, size Client p) /\
    forall max rest, plen Client p <= max -> read Broker (bs ++ rest) max = Packet (norm p) rest.
Proof. exact (interop_v4 Client Broker). Qed.

Theorem c04_interop_broker_to_client : forall p maxo,
  wf_v4 Broker p = true -> wf_v4 Client (norm p) = true -> (Broker = Client -> size Broker p <= maxo) ->
  exists bs, write Broker maxo p = Ok (bs, size Broker p) /\
    forall max rest, plen Broker p <= max -> read Client (bs ++ rest) max = Packet (norm p) rest.
Proof. exact (interop_v4 Broker Client). Qed.

Theorem c04_norm_idem : forall p, norm (norm p) = norm p.
Proof. exact norm_idem. Qed.

Theorem c04_write_client_too_large : forall p maxo, repr Client p = true -> maxo < size Client p ->
  write Client maxo p = Err OutgoingPacketTooLarge.
Proof. exact write_client_too_large. Qed.

Theorem c04_wf_examples :
  forallb (fun p => wf_v4 Client p && wf_v4 Broker p)
    [ex_connect; ConnAck true 5; ex_publish; PubAck 1 0; PubRec 255 0; PubRel 256 0; PubComp 65535 0;
     ex_subscribe; ex_suback; ex_unsubscribe; UnsubAck 9 []; PingReq; PingResp; Disconnect 0] = true
  /\ wf_v4 Client ex_connect5 = true /\ wf_v4 Broker ex_connect5 = false
  /\ wf_v4 Broker ex_publish_raw = true /\ wf_v4 Client ex_publish_raw = false
  /\ wf_v4 Broker ex_suback_router = true /\ wf_v4 Client ex_suback_router = false
  /\ wf_v4 Client (norm ex_suback_router) = true
  /\ wf_v4 Broker (PubAck 3 4) = true /\ wf_v4 Broker (UnsubAck 3 [0; 1]) = true /\ wf_v4 Broker (Disconnect 4) = true.
Proof. exact wf_examples. Qed.

Theorem c04_asym_connect_level5 :
  exists bs, write Client 100 ex_connect5 = Ok (bs, 14) /\ read Client bs 100 = Packet ex_connect5 []
             /\ read Broker bs 100 = Malformed InvalidProtocolLevel [].
Proof. exact asym_connect_level5. Qed.

Theorem c04_asym_publish_topic :
  exists bs, write Broker 0 ex_publish_raw = Ok (bs, 6) /\ read Broker bs 100 = Packet ex_publish_raw []
             /\ read Client bs 100 = Malformed TopicNotUtf8 [].
Proof. exact asym_publish_topic. Qed.

Theorem c04_asym_suback_constructors :
  exists bs, write Broker 0 ex_suback_router = Ok (bs, 6)
             /\ read Broker bs 100 = Packet (SubAck 7 [RcSuccess AtLeastOnce; RcFailure]) []
             /\ read Client bs 100 = Packet (SubAck 7 [RcSuccess AtLeastOnce; RcFailure]) [].
Proof. exact asym_suback_constructors. Qed.

Theorem c04_broker_connack_unreachable :
  write Broker 0 (ConnAck false 6) = Panic P_UNREACHABLE /\ wf_v4 Broker (ConnAck false 6) = false.
Proof. exact broker_connack_unreachable. Qed.

Theorem c04_read_props_write_v5 : forall tab ps rest,
  repr_props tab ps = true ->
  (match ps with Some [] => true | _ => wf_props tab ps end) = true ->
  exists bs, write_props tab ps = Ok bs /\ len bs = props_len tab ps /\
             read_props 0 tab (bs ++ rest) = Ok (match ps with Some [] => None | _ => ps end, rest).
Proof. exact read_props_write. Qed.

Theorem c04_rt_v5 : forall fl p maxo, wf5 fl p = true ->
  (fl = Client -> forall mx, maxo = Some mx -> size5 p <= mx) ->
  exists bs, write5 fl maxo p = Ok (bs, size5 p) /\ len bs = size5 p /\
    forall max rest, plen5 p <= eff_max max -> read5 fl (bs ++ rest) max = Packet (norm5 fl p) rest.
Proof. exact rt_v5. Qed.

Theorem c04_interop_v5 : forall fl1 fl2 p maxo, wf5 fl1 p = true ->
  (fl1 = Client -> forall mx, maxo = Some mx -> size5 p <= mx) ->
  exists bs, write5 fl1 maxo p = Ok (bs, size5 p) /\
    forall max rest, plen5 p <= eff_max max -> read5 fl2 (bs ++ rest) max = Packet (norm5 fl2 p) rest.
Proof. exact interop_v5. Qed.

Theorem c04_write_client_too_large_v5 : forall p mx, repr5 Client p = true -> mx < size5 p ->
  write5 Client (Some mx) p = Err OutgoingPacketTooLarge.
Proof. exact write5_client_too_large. Qed.

Theorem c04_wf_examples_v5 :
  forallb (fun p => wf5 Client p && wf5 Broker p)
    [ex5_connect; ex5_connack; ex5_publish; PubAck5 1 0 None; PubAck5 1 0 (Some []); PubRec5 255 145 None;
     PubRel5 256 146 (Some [(31, VStr [120])]); PubComp5 65535 0 (Some [(38, VPair [107] [118])]);
     ex5_subscribe; SubAck5 9 [RcSuccess ExactlyOnce; RcFailure; RcOther 162] None; Unsubscribe5 2 [[97; 47; 43]; []] (Some [(38, VPair [] [])]);
     UnsubAck5 9 [0; 17; 145] None; PingReq5; PingResp5; Disconnect5 0 None;
     Disconnect5 142 (Some [(17, VU32 9); (31, VStr [98; 121; 101]); (28, VStr [111])])] = true
  /\ wf5 Broker ex5_suback_router = true /\ wf5 Client ex5_suback_router = false
  /\ wf5 Client (recode Client ex5_suback_router) = true.
Proof. exact wf5_examples. Qed.

Theorem c04_rt_v5_subscription_ids_refuted :
  wf5 Client ex5_subids = true /\ wf5 Broker ex5_subids = true /\
  exists bs, write5 Client None ex5_subids = Ok (bs, 16) /\
    read5_gen unfixed Client bs None =
      Packet (Publish5 false AtMostOnce false [116] 0 [3; 0; 0; 120] (Some [(11, VVarInt 1); (11, VVarInt 2); (11, VVarInt 3)])) [] /\
    read5_gen unfixed Broker bs (Some 100) = read5_gen unfixed Client bs None /\
    read5 Client bs None = Packet ex5_subids [] /\ read5 Broker bs (Some 100) = Packet ex5_subids [].
Proof. exact rt_v5_subscription_ids_refuted. Qed.

Theorem c04_rt_v5_disconnect_refuted :
  wf5 Client (Disconnect5 0 None) = true /\ write5 Client None (Disconnect5 0 None) = Ok ([224; 0], 2) /\
  read5_gen unfixed Client [224; 0] None = Malformed PayloadRequired [] /\
  read5_gen unfixed Broker [224; 0] (Some 100) = Packet (Disconnect5 0 None) [] /\
  read5 Client [224; 0] None = Packet (Disconnect5 0 None) [].
Proof. exact rt_v5_disconnect_refuted. Qed.

Theorem c04_asym_suback_constructors_v5 :
  exists bs, write5 Broker None (SubAck5 7 [RcSuccess AtLeastOnce; RcFailure] None) = Ok (bs, 7) /\
    read5 Client bs None = Packet (SubAck5 7 [RcSuccess AtLeastOnce; RcUnspecified] None) [] /\
    read5 Broker bs (Some 100) = Packet (SubAck5 7 [RcQoS AtLeastOnce; RcUnspecified] None) [].
Proof. exact asym5_suback_constructors. Qed.

Theorem c04_asym_empty_properties_v5 :
  write5 Client None (PubAck5 5 0 (Some [])) = Ok ([64; 4; 0; 5; 0; 0], 6) /\
  write5 Client None (PubAck5 5 0 None) = Ok ([64; 2; 0; 5], 4) /\
  read5 Client [64; 4; 0; 5; 0; 0] None = Packet (PubAck5 5 0 None) [].
Proof. exact asym5_empty_properties. Qed.

Theorem c04_asym_connack_v4_codes_v5 :
  write5 Client None (ConnAck5 false 2 None) = Panic P_UNREACHABLE /\ write5 Broker None (ConnAck5 false 1 None) = Panic P_UNREACHABLE
  /\ write5 Broker None (ConnAck5 false 2 None) = Err Unrepresentable /\ wf5 Client (ConnAck5 false 2 None) = false.
Proof. exact asym5_connack_v4_codes. Qed.

(* ---- tie to the code tables regenerated from the Rust sources of both crates (Gen/Tables.v) ---- *)
Theorem c04_tie_connect_props : block_ties connect_tab [broker_connect_props; client_connect_props].
Proof. exact tie_connect_props. Qed.

Theorem c04_tie_will_props : block_ties will_tab [broker_connect_will_props; client_connect_will_props].
Proof. exact tie_will_props. Qed.

Theorem c04_tie_connack_props : block_ties connack_tab [broker_connack_props0; client_connack_props0].
Proof. exact tie_connack_props. Qed.

Theorem c04_tie_publish_props : block_ties publish_tab [broker_publish_props0; client_publish_props0].
Proof. exact tie_publish_props. Qed.

Theorem c04_tie_ack_props : block_ties ack_tab
  [broker_puback_props0; broker_pubrec_props0; broker_pubrel_props0; broker_pubcomp_props0;
   broker_suback_props0; broker_unsuback_props0;
   client_puback_props0; client_pubrec_props0; client_pubrel_props0; client_pubcomp_props0;
   client_suback_props0; client_unsuback_props0].
Proof. exact tie_ack_props. Qed.

Theorem c04_tie_subscribe_props : block_ties subscribe_tab [broker_subscribe_props0; client_subscribe_props0].
Proof. exact tie_subscribe_props. Qed.

Theorem c04_tie_unsubscribe_props : block_ties unsubscribe_tab [broker_unsubscribe_props0; client_unsubscribe_props0].
Proof. exact tie_unsubscribe_props. Qed.

Theorem c04_tie_disconnect_props : block_ties disconnect_tab [broker_disconnect_props0; client_disconnect_props0].
Proof. exact tie_disconnect_props. Qed.

Theorem c04_tie_block_ties_means : forall tab ls, block_ties tab ls <->
  (forall l, In l ls -> forall id, in_table tab id = mem id l).
Proof. exact tie_block_ties_means. Qed.

Theorem c04_tie_puback_codes : code_ties puback_reasons
  [broker_puback_dec; broker_pubrec_dec; client_puback_dec; client_pubrec_dec]
  [broker_puback_enc; broker_pubrec_enc; client_puback_enc; client_pubrec_enc]
  [broker_puback_inverse; broker_pubrec_inverse; client_puback_inverse; client_pubrec_inverse].
Proof. exact tie_puback_codes. Qed.

Theorem c04_tie_pubrel_codes : code_ties pubrel_reasons
  [broker_pubrel_dec; broker_pubcomp_dec; client_pubrel_dec; client_pubcomp_dec]
  [broker_pubrel_enc; broker_pubcomp_enc; client_pubrel_enc; client_pubcomp_enc]
  [broker_pubrel_inverse; broker_pubcomp_inverse; client_pubrel_inverse; client_pubcomp_inverse].
Proof. exact tie_pubrel_codes. Qed.

Theorem c04_tie_connack_codes : code_ties connack_codes
  [broker_connack_dec; client_connack_dec] [broker_connack_enc; client_connack_enc]
  [broker_connack_inverse; client_connack_inverse].
Proof. exact tie_connack_codes. Qed.

Theorem c04_tie_unsuback_codes : code_ties unsuback_reasons
  [broker_unsuback_dec; client_unsuback_dec] [broker_unsuback_enc; client_unsuback_enc]
  [broker_unsuback_inverse; client_unsuback_inverse].
Proof. exact tie_unsuback_codes. Qed.

Theorem c04_tie_disconnect_codes : code_ties disconnect_reasons
  [broker_disconnect_dec; client_disconnect_dec] [broker_disconnect_enc; client_disconnect_enc]
  [broker_disconnect_inverse; client_disconnect_inverse].
Proof. exact tie_disconnect_codes. Qed.

Theorem c04_tie_code_ties_means : forall model decs encs inv, code_ties model decs encs inv <->
  ((forall l, In l decs -> forall c, mem c model = mem c l) /\
   (forall l, In l encs -> forall c, mem c model = mem c l) /\
   (forall b, In b inv -> b = true)).
Proof. exact tie_code_ties_means. Qed.

Theorem c04_tie_property_ids : forall id,
  (match kind_of_id id with Some _ => true | None => false end) = mem id broker_property_ids /\
  (match kind_of_id id with Some _ => true | None => false end) = mem id client_property_ids.
Proof. exact tie_property_ids. Qed.

Theorem c04_tie_suback_codes : forall fl c,
  (match rc5_reason fl c with Ok _ => true | _ => false end) = mem c broker_suback_dec /\
  (match rc5_reason fl c with Ok _ => true | _ => false end) = mem c client_suback_dec.
Proof. exact tie_suback_codes. Qed.
