(** C04 — pinned statements (MQTT 3.1.1 part).  Only [Theorem .. exact ..]. *)
From Rumqtt Require Import Codec.Wire Codec.V4 Codec.WireProofs Codec.V4Proofs.

Theorem c04_length_write_remaining : forall n r, n <= 268435455 ->
  exists bs, write_remaining_length n = Ok bs /\ len bs = len_len n /\
             vlen (bs ++ r) = Ok (len_len n, n).
Proof. exact length_write_remaining. Qed.

Theorem c04_write_remaining_length_too_long : forall n, 268435455 < n ->
  write_remaining_length n = Err PayloadTooLong.
Proof. exact write_remaining_length_too_long. Qed.

Theorem c04_write_remaining_length_no_out_of_fuel : forall n, write_remaining_length n <> Err OutOfFuel.
Proof. exact write_remaining_length_no_out_of_fuel. Qed.

Theorem c04_len_len_boundaries :
  len_len 0 = 1 /\ len_len 127 = 1 /\ len_len 128 = 2 /\ len_len 16383 = 2 /\ len_len 16384 = 3 /\
  len_len 2097151 = 3 /\ len_len 2097152 = 4 /\ len_len 268435455 = 4.
Proof. exact len_len_boundaries. Qed.

Theorem c04_rt_v4 : forall fl p maxo, wf_v4 fl p = true -> (fl = Client -> size fl p <= maxo) ->
  exists bs, write fl maxo p = Ok (bs, size fl p) /\ len bs = size fl p /\
    forall max rest, plen fl p <= max -> read fl (bs ++ rest) max = Packet (norm p) rest.
Proof. exact rt_v4. Qed.

Theorem c04_interop_v4 : forall fl1 fl2 p maxo,
  wf_v4 fl1 p = true -> wf_v4 fl2 (norm p) = true -> (fl1 = Client -> size fl1 p <= maxo) ->
  exists bs, write fl1 maxo p = Ok (bs, size fl1 p) /\
    forall max rest, plen fl1 p <= max -> read fl2 (bs ++ rest) max = Packet (norm p) rest.
Proof. exact interop_v4. Qed.

Theorem c04_interop_client_to_broker : forall p maxo,
  wf_v4 Client p = true -> wf_v4 Broker (norm p) = true -> (Client = Client -> size Client p <= maxo) ->
  exists bs, write Client maxo p = Ok (bs, size Client p) /\
    forall max rest, plen Client p <= max -> read Broker (bs ++ rest) max = Packet (norm p) rest.
Proof. exact (interop_v4 Client Broker). Qed.

Theorem c04_interop_broker_to_client : forall p maxo,
  wf_v4 Broker p = true -> wf_v4 Client (norm p) = true -> (Broker = Client -> size Broker p <= maxo) ->
  exists bs, write Broker maxo p = Ok (bs, size Broker p) /\
    forall max rest, plen Broker p <= max -> read Client (bs ++ rest) max = Packet (norm p) rest.
Proof. exact (interop_v4 Broker Client). Qed.

Theorem c04_norm_idem : forall p, norm (norm p) = norm p.
Proof. exact norm_idem. Qed.

Theorem c04_write_client_too_large : forall p maxo, repr Client p = true -> maxo < size Client p ->
  write Client maxo p = Err OutgoingPacketTooLarge.
Proof. exact write_client_too_large. Qed.

Theorem c04_wf_examples :
  forallb (fun p => wf_v4 Client p && wf_v4 Broker p)
    [ex_connect; ConnAck true 5; ex_publish; PubAck 1 0; PubRec 255 0; PubRel 256 0; PubComp 65535 0;
     ex_subscribe; ex_suback; ex_unsubscribe; UnsubAck 9 []; PingReq; PingResp; Disconnect 0] = true
  /\ wf_v4 Client ex_connect5 = true /\ wf_v4 Broker ex_connect5 = false
  /\ wf_v4 Broker ex_publish_raw = true /\ wf_v4 Client ex_publish_raw = false
  /\ wf_v4 Broker ex_suback_router = true /\ wf_v4 Client ex_suback_router = false
  /\ wf_v4 Client (norm ex_suback_router) = true
  /\ wf_v4 Broker (PubAck 3 4) = true /\ wf_v4 Broker (UnsubAck 3 [0; 1]) = true /\ wf_v4 Broker (Disconnect 4) = true.
Proof. exact wf_examples. Qed.

Theorem c04_asym_connect_level5 :
  exists bs, write Client 100 ex_connect5 = Ok (bs, 14) /\ read Client bs 100 = Packet ex_connect5 []
             /\ read Broker bs 100 = Malformed InvalidProtocolLevel [].
Proof. exact asym_connect_level5. Qed.

Theorem c04_asym_publish_topic :
  exists bs, write Broker 0 ex_publish_raw = Ok (bs, 6) /\ read Broker bs 100 = Packet ex_publish_raw []
             /\ read Client bs 100 = Malformed TopicNotUtf8 [].
Proof. exact asym_publish_topic. Qed.

Theorem c04_asym_suback_constructors :
  exists bs, write Broker 0 ex_suback_router = Ok (bs, 6)
             /\ read Broker bs 100 = Packet (SubAck 7 [RcSuccess AtLeastOnce; RcFailure]) []
             /\ read Client bs 100 = Packet (SubAck 7 [RcSuccess AtLeastOnce; RcFailure]) [].
Proof. exact asym_suback_constructors. Qed.

Theorem c04_broker_connack_unreachable :
  write Broker 0 (ConnAck false 6) = Panic P_UNREACHABLE /\ wf_v4 Broker (ConnAck false 6) = false.
Proof. exact broker_connack_unreachable. Qed.
