(** C15 (retained messages) — pinned statements.  Only [Theorem .. exact ..]. *)
From Rumqtt Require Import Router.RetainedReplay Router.RetainedReqs Topic.Spec.
From Coq Require Import Permutation.

Theorem c15_retain_map : forall t d m,
  store_ok m ->
  let m' := retain_map t d m in
  (p_retain (fst d) = false -> m' = m) /\
  (p_retain (fst d) = true -> p_payload (fst d) <> [] -> al_get str_eqb t m' = Some d) /\
  (p_retain (fst d) = true -> p_payload (fst d) = [] -> al_get str_eqb t m' = None) /\
  (forall t', t' <> t -> al_get str_eqb t' m' = al_get str_eqb t' m) /\
  store_ok m'.
Proof. exact retain_map_spec. Qed.

Theorem c15_store : forall st id p props st' conn,
  append_to_commitlog st id p props = Ok (st', AppOk) -> get_conn st id = Ok conn ->
  store_ok (dl_retained (r_datalog st)) ->
  let p1 := resolve conn p props in
  let t := p_topic p1 in
  let m := dl_retained (r_datalog st) in
  let m' := dl_retained (r_datalog st') in
  utf8_valid t = true /\
  (p_retain p = false -> m' = m) /\
  (p_retain p = true -> p_payload p <> [] -> al_get str_eqb t m' = Some (p1, clear_alias props)) /\
  (p_retain p = true -> p_payload p = [] -> al_get str_eqb t m' = None) /\
  (forall t', t' <> t -> al_get str_eqb t' m' = al_get str_eqb t' m) /\
  store_ok m'.
Proof. exact c15_store_lemma. Qed.

Theorem c15_store_refused : forall st id p props st' reason,
  append_to_commitlog st id p props = Ok (st', AppErr reason) ->
  dl_retained (r_datalog st') = dl_retained (r_datalog st).
Proof. exact c15_store_refused. Qed.

Theorem c15_store_will : forall st client st' w,
  handle_last_will st client = Ok st' -> al_get str_eqb client (r_wills st) = Some w ->
  utf8_valid (w_topic w) = true -> w_topic w <> [] -> store_ok (dl_retained (r_datalog st)) ->
  let t := w_topic w in
  let m := dl_retained (r_datalog st) in
  let m' := dl_retained (r_datalog st') in
  (w_retain w = false -> m' = m) /\
  (w_retain w = true -> w_message w <> [] -> al_get str_eqb t m' = Some (will_publish w, will_props w)) /\
  (w_retain w = true -> w_message w = [] -> al_get str_eqb t m' = None) /\
  (forall t', t' <> t -> al_get str_eqb t' m' = al_get str_eqb t' m) /\
  store_ok m'.
Proof. exact c15_store_will. Qed.

Theorem c15_latest : forall cfg ops st outs t,
  run_from cfg ops = Ok (st, outs) ->
  al_get str_eqb t (dl_retained (r_datalog st)) = latest t (history_from cfg ops).
Proof. exact retained_latest. Qed.

Theorem c15_store_invariant : forall cfg st,
  reachable cfg st -> store_ok (dl_retained (r_datalog st)).
Proof. exact reachable_store_ok. Qed.

Theorem c15_logs_unflagged : forall cfg st,
  reachable cfg st -> LU st.
Proof. exact reachable_LU. Qed.

Theorem c15_live_unflagged : forall cfg st id rq st' rq' status o,
  reachable cfg st ->
  forward_device_data st id rq = Ok (st', rq', status) -> get_obuf st id = Ok o ->
  exists sel ns_ret ns_live tail,
    out_of st' (o_link o) = out_of st (o_link o) ++ ns_ret ++ ns_live ++ tail /\
    (forall k, k <> o_link o -> out_of st' k = out_of st k) /\
    (tail = [] \/ tail = [NUnschedule]) /\
    Forall2 (is_replay_fwd (dr_qos rq)) sel ns_ret /\
    Forall is_live_fwd ns_live /\
    (dr_fwd_retained rq = false -> sel = []) /\
    (forall d, In d sel -> exists st1 rs, read_retained st (dr_filter rq) = Ok (st1, rs) /\ In d rs).
Proof. exact reachable_forward_pushes. Qed.

Theorem c15_replay_flagged : forall cfg st id rq st' rq' status o,
  reachable cfg st ->
  forward_device_data st id rq = Ok (st', rq', status) -> get_obuf st id = Ok o ->
  dr_group rq = None ->
  let slots := if dr_qos rq =? 0 then cf_max_outgoing (r_cfg st) else MAX_INFLIGHT - lenN (o_inflight o) in
  (status = SInflightFull /\ st' = st /\ rq' = rq) \/
  (dr_fwd_retained rq' = false /\
   exists sel ns_ret ns_live tail,
     (if dr_fwd_retained rq
      then exists st1 rs, read_retained st (dr_filter rq) = Ok (st1, rs) /\ sel = firstnN slots rs /\
             Permutation rs (map snd (matching_retained (dr_filter rq) (dl_retained (r_datalog st))))
      else sel = []) /\
     out_of st' (o_link o) = out_of st (o_link o) ++ ns_ret ++ ns_live ++ tail /\
     (forall k, k <> o_link o -> out_of st' k = out_of st k) /\
     (tail = [] \/ tail = [NUnschedule]) /\
     Forall2 (fun d n => exists p' pr', n = NForward None p' pr' /\ same_msg (dr_qos rq) (fst d) p' /\ p_retain p' = true) sel ns_ret /\
     Forall is_live_fwd ns_live).
Proof. exact reachable_replay_exact. Qed.

Theorem c15_replay_every_request : forall cfg st id t rq st' rq' status o,
  reachable cfg st -> slab_get (r_trackers st) id = Some t -> In rq (tr_reqs t) ->
  forward_device_data st id rq = Ok (st', rq', status) -> get_obuf st id = Ok o ->
  (dr_fwd_retained rq = false /\ dr_fwd_retained rq' = false /\
   exists ns_live tail,
     out_of st' (o_link o) = out_of st (o_link o) ++ ns_live ++ tail /\
     (tail = [] \/ tail = [NUnschedule]) /\ Forall is_live_fwd ns_live) \/
  (dr_fwd_retained rq = true /\ dr_group rq = None /\
   let slots := if dr_qos rq =? 0 then cf_max_outgoing (r_cfg st) else MAX_INFLIGHT - lenN (o_inflight o) in
   ((status = SInflightFull /\ st' = st /\ rq' = rq) \/
    (dr_fwd_retained rq' = false /\
     exists st1 rs ns_ret ns_live tail,
       read_retained st (dr_filter rq) = Ok (st1, rs) /\
       Permutation.Permutation rs (map snd (matching_retained (dr_filter rq) (dl_retained (r_datalog st)))) /\
       out_of st' (o_link o) = out_of st (o_link o) ++ ns_ret ++ ns_live ++ tail /\
       (tail = [] \/ tail = [NUnschedule]) /\
       Forall2 (fun d n => exists p' pr', n = NForward None p' pr' /\ same_msg (dr_qos rq) (fst d) p' /\ p_retain p' = true)
               (firstnN slots rs) ns_ret /\
       Forall is_live_fwd ns_live))).
Proof. exact reachable_request_replay. Qed.

Theorem c15_requests_invariant : forall cfg st,
  reachable cfg st -> ReqInv st.
Proof. exact reachable_ReqInv. Qed.

Theorem c15_replay_matches : forall st f st1 rs,
  read_retained st f = Ok (st1, rs) ->
  NoDup (map fst (dl_retained (r_datalog st))) ->
  Permutation rs (map snd (matching_retained f (dl_retained (r_datalog st)))).
Proof. exact read_retained_spec. Qed.

Theorem c15_replay_mqtt : forall st f st1 rs d,
  read_retained st f = Ok (st1, rs) ->
  NoDup (map fst (dl_retained (r_datalog st))) ->
  filter_ok f -> (forall t d', In (t, d') (dl_retained (r_datalog st)) -> topic_ok t) ->
  (In d rs <-> exists t, al_get str_eqb t (dl_retained (r_datalog st)) = Some d /\
                         starts_with_dollar t = false /\ lmatch (split t) (split f)).
Proof. exact read_retained_mqtt. Qed.

Theorem c15_no_replay : forall st id cu fidx path qos grp subid st' conn t,
  prepare_filter st id cu fidx path qos grp subid = Ok st' ->
  get_conn st id = Ok conn -> get_tracker st id = Ok t ->
  if set_mem str_eqb path (c_subs conn)
  then r_trackers st' = r_trackers st /\ r_datalog st' = r_datalog st /\ r_notif st' = r_notif st /\
       r_links st' = r_links st /\ r_ready st' = r_ready st
  else exists t', get_tracker st' id = Ok t' /\
       tr_reqs t' = tr_reqs t ++ [{| dr_filter := path; dr_idx := fidx; dr_qos := qos; dr_cursor := cu; dr_read := 0;
                                     dr_fwd_retained := match grp with None => true | Some _ => false end;
                                     dr_group := grp |}].
Proof. exact prepare_filter_request. Qed.

Theorem c15_no_replay_unflagged : forall st id rq st' rq' status o,
  forward_device_data st id rq = Ok (st', rq', status) -> get_obuf st id = Ok o -> LU st ->
  dr_fwd_retained rq = false ->
  dr_fwd_retained rq' = false /\
  exists ns_live tail,
    out_of st' (o_link o) = out_of st (o_link o) ++ ns_live ++ tail /\
    (tail = [] \/ tail = [NUnschedule]) /\ Forall is_live_fwd ns_live.
Proof. exact no_replay_without_flag. Qed.
