(** C19 — pinned statements (router half; the per-connection admission path is M-STACK). *)
From Rumqtt Require Import Router.Inv Router.NoPanic Router.NoPanicServe.
From Rumqtt Require Import Router.Model Router.Admission Router.RunDefs.

Theorem c19_clientid_rejected : forall st conn link,
  (In PLUS (c_client conn) \/ In DOLLAR (c_client conn) \/ In HASH (c_client conn) \/ In SLASH (c_client conn)) ->
  handle_new_connection st conn link = Ok st.
Proof. exact clientid_rejected. Qed.

Theorem c19_unique : forall st k1 k2 c1 c2,
  RInv st -> slab_get (r_conns st) k1 = Some c1 -> slab_get (r_conns st) k2 = Some c2 ->
  c_client c1 = c_client c2 -> k1 = k2.
Proof. exact rinv_unique. Qed.

Theorem c19_limit : forall st, RInv st -> slab_len (r_conns st) <= cf_max_connections (r_cfg st).
Proof. exact rinv_limit. Qed.

Theorem c19_unique_reachable : forall cfg st0 ops st k1 k2 c1 c2,
  cfg_ok cfg -> init cfg = Ok st0 -> ops_wf ops -> run st0 ops = Ok st ->
  slab_get (r_conns st) k1 = Some c1 -> slab_get (r_conns st) k2 = Some c2 ->
  c_client c1 = c_client c2 -> k1 = k2.
Proof. exact reachable_unique. Qed.

Theorem c19_limit_reachable : forall cfg st0 ops st,
  cfg_ok cfg -> init cfg = Ok st0 -> ops_wf ops -> run st0 ops = Ok st ->
  slab_len (r_conns st) <= cf_max_connections cfg.
Proof. exact reachable_limit. Qed.

(** Admission decision of the per-connection task (M-STACK: mqtt_connect + handle_auth as the
    pure function [admission], compared with the real task [remote()] by the stack driver). *)
From Rumqtt Require Stack.Model Stack.Spec Stack.Proofs.

Theorem c19_admit_iff : forall s auth fr,
  Stack.Model.admission s auth fr = Stack.Model.Admit <-> Stack.Spec.admissible s auth fr.
Proof. exact Stack.Proofs.c19_admit_iff. Qed.

Theorem c19_admit_explicit : forall s auth fr, Stack.Model.admission s auth fr = Stack.Model.Admit ->
  exists p, fr = Stack.Model.FirstPacket p /\ Stack.Model.fp_kind p = Stack.Model.KConnect /\
    Stack.Model.fp_level_ok p = true /\ Stack.Model.fp_keep_alive p <> 0 /\
    (Stack.Model.fp_client_id p <> [] \/ Stack.Model.fp_clean p = true) /\
    ((Stack.Model.st_auth s = None /\ Stack.Model.st_external s = false) \/
     (Stack.Model.st_external s = true /\ exists l, Stack.Model.fp_login p = Some l /\
        auth (Stack.Model.fp_client_id p) (Stack.Model.lg_user l) (Stack.Model.lg_pass l) = true) \/
     (Stack.Model.st_external s = false /\ exists l pairs, Stack.Model.fp_login p = Some l /\
        Stack.Model.st_auth s = Some pairs /\ al_get str_eqb (Stack.Model.lg_user l) pairs = Some (Stack.Model.lg_pass l))).
Proof. exact Stack.Proofs.c19_admit_explicit. Qed.

Theorem c19_reject_connack : forall s auth fr code,
  Stack.Model.admission s auth fr = Stack.Model.Reject_connack code ->
  code = Stack.Model.ClientIdentifierNotValid /\
  exists p, fr = Stack.Model.FirstPacket p /\ Stack.Model.fp_kind p = Stack.Model.KConnect /\
    Stack.Model.fp_level_ok p = true /\ Stack.Model.fp_client_id p = [] /\ Stack.Model.fp_clean p = false /\
    Stack.Model.fp_keep_alive p <> 0 /\ Stack.Spec.creds_accepted s auth p.
Proof. exact Stack.Proofs.c19_reject_connack. Qed.

(** the admission decision does not depend on the CONNECT properties (session expiry interval,
    receive maximum, maximum packet size, topic alias maximum) *)
Theorem c19_props_irrelevant : forall s auth p props,
  Stack.Model.admission s auth (Stack.Model.FirstPacket (Stack.Model.set_fp_props p props)) =
  Stack.Model.admission s auth (Stack.Model.FirstPacket p).
Proof. exact Stack.Proofs.c19_props_irrelevant. Qed.
