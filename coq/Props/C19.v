(** C19 — pinned statements (router half; the per-connection admission path is M-STACK). *)
From Rumqtt Require Import Router.Model Router.Admission.

Theorem c19_clientid_rejected : forall st conn link,
  (In PLUS (c_client conn) \/ In DOLLAR (c_client conn) \/ In HASH (c_client conn) \/ In SLASH (c_client conn)) ->
  handle_new_connection st conn link = Ok st.
Proof. exact clientid_rejected. Qed.
