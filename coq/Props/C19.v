(** C19 — pinned statements (router half; the per-connection admission path is M-STACK). *)
From Rumqtt Require Import Router.Inv Router.NoPanic Router.NoPanicServe.
From Rumqtt Require Import Router.Model Router.Admission Router.RunDefs.

Theorem c19_clientid_rejected : forall st conn link,
  (In PLUS (c_client conn) \/ In DOLLAR (c_client conn) \/ In HASH (c_client conn) \/ In SLASH (c_client conn)) ->
  handle_new_connection st conn link = Ok st.
Proof. exact clientid_rejected. Qed.

Theorem c19_unique : forall st k1 k2 c1 c2,
  RInv st -> slab_get (r_conns st) k1 = Some c1 -> slab_get (r_conns st) k2 = Some c2 ->
  c_client c1 = c_client c2 -> k1 = k2.
Proof. exact rinv_unique. Qed.

Theorem c19_limit : forall st, RInv st -> slab_len (r_conns st) <= cf_max_connections (r_cfg st).
Proof. exact rinv_limit. Qed.

Theorem c19_unique_reachable : forall cfg st0 ops st k1 k2 c1 c2,
  cfg_ok cfg -> init cfg = Ok st0 -> ops_wf ops -> run st0 ops = Ok st ->
  slab_get (r_conns st) k1 = Some c1 -> slab_get (r_conns st) k2 = Some c2 ->
  c_client c1 = c_client c2 -> k1 = k2.
Proof. exact reachable_unique. Qed.

Theorem c19_limit_reachable : forall cfg st0 ops st,
  cfg_ok cfg -> init cfg = Ok st0 -> ops_wf ops -> run st0 ops = Ok st ->
  slab_len (r_conns st) <= cf_max_connections cfg.
Proof. exact reachable_limit. Qed.
