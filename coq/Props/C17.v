(** C17 (shared subscriptions), lemma level — pinned statements.  Only [Theorem .. exact ..]. *)
From Rumqtt Require Import Router.Shared Log.Spec.

Theorem c17_cases : forall st id rq st' rq' status o,
  forward_device_data st id rq = Ok (st', rq', status) ->
  get_obuf st id = Ok o ->
  let sg := req_group st rq in
  let rq0 := match sg with Some (_, g) => set_dr_cursor rq (g_cursor g) | None => rq end in
  let slots0 := if dr_qos rq =? 0 then cf_max_outgoing (r_cfg st) else MAX_INFLIGHT - lenN (o_inflight o) in
  let slots := match sg with
               | Some (_, g) => match g_strategy g with RoundRobin => 1 | _ => slots0 end
               | None => slots0
               end in
  let skip := match sg with
              | Some (_, g) => negb (ostr_eqb (Some (o_client o)) (current_client g))
              | None => false
              end in
  (status = SInflightFull /\ st' = st /\ rq' = rq0) \/
  exists sel d pos from_log,
    (if dr_fwd_retained rq
     then exists st1 rs, read_retained st (dr_filter rq) = Ok (st1, rs) /\ sel = firstnN slots rs
     else sel = []) /\
    native_get (r_datalog st) (dr_idx rq) = Ok d /\
    readv (d_log d) (dr_cursor rq0) (slots - lenN sel) = Ok (pos, from_log) /\
    dr_fwd_retained rq' = false /\
    dr_filter rq' = dr_filter rq /\ dr_idx rq' = dr_idx rq /\ dr_qos rq' = dr_qos rq /\ dr_group rq' = dr_group rq /\
    if skip then
      (exists orc, st' = set_r_oracle st orc) /\ dr_cursor rq' = dr_cursor rq0 /\ dr_read rq' = dr_read rq /\
      status = (if is_done pos && match srcs sel from_log with [] => true | _ => false end
                then FilterCaughtup else SkipRequest)
    else
      dr_cursor rq' = pos_end pos /\ dr_read rq' = dr_read rq + lenN (srcs sel from_log) /\
      status <> SInflightFull /\ status <> SkipRequest /\
      exists ns,
        out_of st' (o_link o) = out_of st (o_link o) ++ ns ++ (match status with BufferFull => [NUnschedule] | _ => [] end) /\
        (forall k, k <> o_link o -> out_of st' k = out_of st k) /\
        Forall2 (fwd_of (dr_qos rq)) (srcs sel from_log) ns /\
        match srcs sel from_log with
        | [] => status = FilterCaughtup /\ exists orc, st' = set_r_oracle st orc
        | _ :: _ =>
            match sg with
            | Some (name, g) =>
                exists sta stb g1, update_next_client sta g = Ok (stb, g1) /\
                  r_groups st' = al_set str_eqb name (set_g_cursor g1 (pos_end pos)) (r_groups st)
            | None => r_groups st' = r_groups st
            end
        end.
Proof. exact forward_cases. Qed.

Theorem c17_skip : forall st id rq st' rq' status o name g,
  forward_device_data st id rq = Ok (st', rq', status) -> get_obuf st id = Ok o ->
  req_group st rq = Some (name, g) ->
  current_client g <> Some (o_client o) ->
  dr_cursor rq' = g_cursor g /\
  (exists orc, st' = set_r_oracle st orc) /\
  (status = SInflightFull \/
   exists sel d pos from_log,
     native_get (r_datalog st) (dr_idx rq) = Ok d /\
     readv (d_log d) (g_cursor g) (group_slots st o rq g - lenN sel) = Ok (pos, from_log) /\
     status = (if is_done pos && match srcs sel from_log with [] => true | _ => false end
               then FilterCaughtup else SkipRequest)).
Proof. exact shared_skip. Qed.

Theorem c17_skip_parks_only_when_empty : forall st id rq st' rq' status o name g,
  forward_device_data st id rq = Ok (st', rq', status) -> get_obuf st id = Ok o ->
  req_group st rq = Some (name, g) -> current_client g <> Some (o_client o) ->
  status = FilterCaughtup ->
  exists (sel : list pubdata) d pos,
    native_get (r_datalog st) (dr_idx rq) = Ok d /\
    readv (d_log d) (g_cursor g) (group_slots st o rq g - lenN sel) = Ok (pos, []) /\
    sel = [] /\ is_done pos = true.
Proof. exact shared_skip_parks_only_when_empty. Qed.

Theorem c17_skip_frame : forall st id rq st' rq' status o name g,
  forward_device_data st id rq = Ok (st', rq', status) -> get_obuf st id = Ok o ->
  req_group st rq = Some (name, g) -> current_client g <> Some (o_client o) ->
  r_links st' = r_links st /\ r_groups st' = r_groups st /\ r_obufs st' = r_obufs st /\
  r_datalog st' = r_datalog st /\ r_conns st' = r_conns st /\ r_trackers st' = r_trackers st.
Proof. exact shared_skip_frame. Qed.

Theorem c17_current : forall st id rq st' rq' status o name g,
  forward_device_data st id rq = Ok (st', rq', status) -> get_obuf st id = Ok o ->
  req_group st rq = Some (name, g) -> current_client g = Some (o_client o) ->
  (status = SInflightFull /\ st' = st /\ rq' = set_dr_cursor rq (g_cursor g)) \/
  exists sel d pos from_log,
    native_get (r_datalog st) (dr_idx rq) = Ok d /\
    readv (d_log d) (g_cursor g) (group_slots st o rq g - lenN sel) = Ok (pos, from_log) /\
    dr_cursor rq' = pos_end pos /\
    match srcs sel from_log with
    | [] => status = FilterCaughtup /\ exists orc, st' = set_r_oracle st orc
    | _ :: _ =>
        status <> SInflightFull /\ status <> SkipRequest /\
        exists sta stb g1,
          update_next_client sta g = Ok (stb, g1) /\
          r_groups st' = al_set str_eqb name (set_g_cursor g1 (dr_cursor rq')) (r_groups st)
    end.
Proof. exact shared_current. Qed.

Theorem c17_advance : forall st id rq st' rq' status o name g,
  forward_device_data st id rq = Ok (st', rq', status) -> get_obuf st id = Ok o ->
  req_group st rq = Some (name, g) -> current_client g = Some (o_client o) ->
  status = BufferFull \/ status = PartialRead ->
  exists g',
    al_get str_eqb name (r_groups st') = Some g' /\
    g_cursor g' = dr_cursor rq' /\ g_clients g' = g_clients g /\ g_strategy g' = g_strategy g /\
    match g_strategy g with
    | RoundRobin => g_idx g' = (g_idx g + 1) mod lenN (g_clients g)
    | Random => g_idx g' < lenN (g_clients g)
    | Sticky => g_idx g' = g_idx g
    end /\
    (forall other, other <> name -> al_get str_eqb other (r_groups st') = al_get str_eqb other (r_groups st)).
Proof. exact shared_advance. Qed.

Theorem c17_next_client : forall st g st1 g1,
  update_next_client st g = Ok (st1, g1) ->
  (exists orc, st1 = set_r_oracle st orc) /\
  g_clients g1 = g_clients g /\ g_cursor g1 = g_cursor g /\ g_strategy g1 = g_strategy g /\
  match g_strategy g with
  | RoundRobin => g_idx g1 = (g_idx g + 1) mod lenN (g_clients g)
  | Random => g_idx g1 < lenN (g_clients g)
  | Sticky => g_idx g1 = g_idx g
  end.
Proof. exact update_next_client_spec. Qed.

Theorem c17_monotone : forall st id rq st' rq' status o name g d all,
  forward_device_data st id rq = Ok (st', rq', status) -> get_obuf st id = Ok o ->
  req_group st rq = Some (name, g) -> current_client g = Some (o_client o) ->
  status <> SInflightFull ->
  native_get (r_datalog st) (dr_idx rq) = Ok d ->
  WF pubdata_size (d_log d) all -> Issued (d_log d) (g_cursor g) ->
  2 * lenN all < U64 -> snd (g_cursor g) + group_slots st o rq g < U64 ->
  pos_of (d_log d) (g_cursor g) <= snd (dr_cursor rq') /\
  snd (dr_cursor rq') <= lenN all /\
  (stale (d_log d) (g_cursor g) = false -> snd (g_cursor g) <= snd (dr_cursor rq')).
Proof. exact shared_monotone. Qed.

(** C17 at the level of whole runs (ghost [gfwd], hypotheses [no_rewind_b] / [rejoin_fresh_b]:
    Router/SharedRun.v; proofs: Router/SharedRun*.v). *)
From Coq Require Import Sorted.
From Rumqtt Require Import Router.ExactInv Router.SharedRun Router.SharedRunThm.
From Rumqtt Require Import Router.Model Router.RunDefs.

Theorem c17_ghost_step : forall st o, drop3 (step_g st o) = step st o.
Proof. exact step_g_state. Qed.

Theorem c17_ghost_step_with : forall st orc o, drop3 (step_with_g st orc o) = step_with st orc o.
Proof. exact step_with_g_state. Qed.

Theorem c17_ghost_consume_loop : forall id fuel st requests skipped,
  drop2 (consume_loop_g fuel st id requests skipped) = consume_loop fuel st id requests skipped.
Proof. exact consume_loop_g_state. Qed.

Theorem c17_no_rewind_b_spec : forall st ops, no_rewind_b st ops = true <-> no_rewind st ops.
Proof. exact no_rewind_b_spec. Qed.

Theorem c17_rejoin_fresh_b_spec : forall st ops, rejoin_fresh_b st ops = true <-> rejoin_fresh st ops.
Proof. exact rejoin_fresh_b_spec. Qed.

Theorem c17_no_rejoin_create_fresh : forall st ops, no_rejoin_create st ops -> rejoin_fresh st ops.
Proof. exact no_rejoin_create_fresh. Qed.

Theorem c17_bounded_b_spec : forall st, bounded_b st = true -> Bounded st.
Proof. exact bounded_b_spec. Qed.

Theorem c17_at_most_once : forall cfg st0 ops st',
  cf_max_outgoing cfg < B62 -> init cfg = Ok st0 -> run st0 ops = Ok st' -> Bounded st' ->
  no_rewind_b st0 ops = true -> rejoin_fresh_b st0 ops = true ->
  forall name, StronglySorted N.lt (offs_of name (gfwd st0 ops)) /\ NoDup (offs_of name (gfwd st0 ops)).
Proof. exact run_at_most_once. Qed.

Theorem c17_member_only : forall cfg st0 ops st',
  init cfg = Ok st0 -> run st0 ops = Ok st' ->
  forall name g client off, In (name, g, client, off) (gfwd_full st0 ops) ->
    current_client g = Some client /\ In client (g_clients g).
Proof. exact run_member_only_from_init. Qed.

Theorem c17_member_order : forall cfg st0 ops st',
  cf_max_outgoing cfg < B62 -> init cfg = Ok st0 -> run st0 ops = Ok st' -> Bounded st' ->
  no_rewind_b st0 ops = true -> rejoin_fresh_b st0 ops = true ->
  forall name client, StronglySorted N.lt (offs_of_member name client (gfwd st0 ops)).
Proof. exact run_member_order. Qed.

Theorem c17_hypotheses_hold :
  match init C15Example.cfg0 with
  | Ok st0 =>
      match run st0 C17Example.ops with
      | Ok st' =>
          bounded_b st' = true /\
          no_rewind_b st0 C17Example.ops = true /\ rejoin_fresh_b st0 C17Example.ops = true /\
          gfwd st0 C17Example.ops = [([103;47;116], [97], 0); ([103;47;116], [98], 1); ([103;47;116], [97], 2)]
      | _ => False
      end
  | _ => False
  end.
Proof. exact C17RunExample.hypotheses_hold. Qed.

Theorem c17_rewind_witness :
  match init C15Example.cfg0 with
  | Ok st0 =>
      (exists st', run st0 C17RunExample.rewind_ops = Ok st') /\
      gfwd st0 C17RunExample.rewind_ops =
        [([103;47;116], [97], 0); ([103;47;116], [98], 1);
         ([103;47;116], [98], 0); ([103;47;116], [98], 1); ([103;47;116], [98], 2)] /\
      no_rewind_b st0 C17RunExample.rewind_ops = false /\
      map gh_rewind (ghosts st0 C17RunExample.rewind_ops) = repeat false 20 ++ [true] ++ repeat false 10 /\
      rejoin_fresh_b st0 C17RunExample.rewind_ops = true /\ no_rejoin_create_b st0 C17RunExample.rewind_ops = true
  | _ => False
  end.
Proof. exact C17RunExample.rewind_witness. Qed.

Theorem c17_rewind_breaks_at_most_once :
  match init C15Example.cfg0 with
  | Ok st0 => ~ NoDup (offs_of [103;47;116] (gfwd st0 C17RunExample.rewind_ops))
  | _ => False
  end.
Proof. exact C17RunExample.rewind_breaks_at_most_once. Qed.

Theorem c17_stale_rejoin_witness :
  match init C15Example.cfg0 with
  | Ok st0 =>
      (exists st', run st0 C17RunExample.rejoin_ops = Ok st') /\
      gfwd st0 C17RunExample.rejoin_ops =
        [([103;47;116], [98], 0); ([103;47;116], [98], 1);
         ([103;47;116], [97], 0); ([103;47;116], [97], 1)] /\
      no_rewind_b st0 C17RunExample.rejoin_ops = true /\
      rejoin_fresh_b st0 C17RunExample.rejoin_ops = false /\
      map gh_rejoin (ghosts st0 C17RunExample.rejoin_ops) = repeat [] 20 ++ [[([103;47;116], 0)]] ++ repeat [] 4
  | _ => False
  end.
Proof. exact C17RunExample.stale_rejoin_witness. Qed.

Theorem c17_stale_rejoin_breaks_at_most_once :
  match init C15Example.cfg0 with
  | Ok st0 => ~ NoDup (offs_of [103;47;116] (gfwd st0 C17RunExample.rejoin_ops))
  | _ => False
  end.
Proof. exact C17RunExample.stale_rejoin_breaks_at_most_once. Qed.

Theorem c17_takeover_is_in_scope :
  match init C15Example.cfg0 with
  | Ok st0 =>
      (exists st', run st0 C17RunExample.takeover_ops = Ok st') /\
      gfwd st0 C17RunExample.takeover_ops = [([103;47;116], [97], 0); ([103;47;116], [97], 1)] /\
      no_rewind_b st0 C17RunExample.takeover_ops = true /\ rejoin_fresh_b st0 C17RunExample.takeover_ops = true /\
      no_rejoin_create_b st0 C17RunExample.takeover_ops = false
  | _ => False
  end.
Proof. exact C17RunExample.takeover_is_in_scope. Qed.

Theorem c17_ghost_event : forall st id rq st' name g client off,
  In (name, g, client, off) (fdd_ghost st id rq st') <->
  dr_group rq = Some name /\ al_get str_eqb name (r_groups st) = Some g /\
  exists o, slab_get (r_obufs st) id = Some o /\ o_client o = client /\
    exists seg p pr, In (NForward (Some (seg, off)) p pr)
                        (skipn (length (link_out st (o_link o))) (link_out st' (o_link o))).
Proof. exact fdd_ghost_event. Qed.

(** C17, completeness clause: "once publishers have stopped, all members have acknowledged and
    the broker is idle, every message has been forwarded to some member while the group stayed
    non-empty" (invariant [GroupParkInv], membership invariant [MemInv]; proofs:
    Router/GroupWake*.v).  [pos_of l c] is the position a read of log [l] from cursor [c] starts
    at (the cursor's offset, or the oldest retained entry if its segment was evicted). *)
From Rumqtt Require Import Router.Inv Router.NoPanic Router.NoPanicDevInv Router.ExactLoc3 Router.WindowFrame.
From Rumqtt Require Import Router.SharedRunStep Router.Wake Router.WakePark Router.WakeCor Router.WakeExamples.
From Rumqtt Require Import Router.GroupWake Router.GroupWakeStep Router.GroupWakeIdx Router.GroupWakeMem Router.GroupWakeMem6 Router.GroupWakeThm Router.GroupWakeExamples.
From Rumqtt Require Import Router.Model Router.RunDefs.

Theorem c17_serving_keeps_group_park_inv : forall st id rq st' rq' cs,
  CInv st -> Bounded st -> 1 <= cf_max_outgoing (r_cfg st) -> ParkInv st -> GroupParkInv st ->
  RqOk (r_datalog st) rq ->
  forward_device_data st id rq = Ok (st', rq', cs) ->
  GroupParkInv st' /\
  (cs = FilterCaughtup ->
   forall name g d, dr_group rq' = Some name -> al_get str_eqb name (r_groups st') = Some g ->
     nget (r_datalog st') (dr_idx rq') = Some d -> pos_of (d_log d) (g_cursor g) = end_of (d_log d)).
Proof. exact fdd_gpark. Qed.

Theorem c17_group_park_inv_step : forall st o st' out gh,
  CInv st -> Bounded st -> 1 <= cf_max_outgoing (r_cfg st) -> ParkInv st -> GK st -> GroupParkInv st ->
  step_g st o = Ok (st', out, gh) -> gh_rewind gh = false -> connect_ok st o ->
  GK st' /\ GroupParkInv st'.
Proof. exact step_gpark. Qed.

Theorem c17_group_park_inv_reachable : forall cfg st0 ops st,
  cfg_ok cfg -> 1 <= cf_max_outgoing cfg < B62 -> init cfg = Ok st0 -> ops_wf ops ->
  run st0 ops = Ok st -> Bounded st -> no_rewind_b st0 ops = true ->
  forall name g i d id rq,
    al_get str_eqb name (r_groups st) = Some g ->
    nget (r_datalog st) i = Some d -> In (id, rq) (d_waiters d) -> dr_group rq = Some name ->
    pos_of (d_log d) (g_cursor g) = end_of (d_log d).
Proof. exact group_park_inv_reachable. Qed.

Theorem c17_group_park_offset : forall cfg st0 ops st,
  cfg_ok cfg -> 1 <= cf_max_outgoing cfg < B62 -> init cfg = Ok st0 -> ops_wf ops ->
  run st0 ops = Ok st -> Bounded st -> no_rewind_b st0 ops = true ->
  forall name g i d id rq,
    al_get str_eqb name (r_groups st) = Some g ->
    nget (r_datalog st) i = Some d -> In (id, rq) (d_waiters d) -> dr_group rq = Some name ->
    stale (d_log d) (g_cursor g) = false -> snd (g_cursor g) = end_of (d_log d).
Proof. exact group_park_offset. Qed.

Theorem c17_members_inv_reachable : forall cfg st0 ops st,
  cfg_ok cfg -> init cfg = Ok st0 -> ops_wf ops -> run st0 ops = Ok st -> MemInv st.
Proof. exact mem_reachable. Qed.

Theorem c17_no_parked_orphan : forall st, MemInv st -> NoOrphanW st.
Proof. exact MemInv_NoOrphanW. Qed.

Theorem c17_member_request : forall cfg st0 ops st,
  cfg_ok cfg -> init cfg = Ok st0 -> ops_wf ops -> run st0 ops = Ok st ->
  forall name c, gmem st name c ->
  exists id t, cli st id = Some c /\ slab_get (r_trackers st) id = Some t /\
    ((exists rq, In rq (tr_reqs t) /\ dr_filter rq = gpath name /\ dr_group rq = Some name) \/
     (exists i d rq, nget (r_datalog st) i = Some d /\ In (id, rq) (d_waiters d) /\
                     dr_filter rq = gpath name /\ dr_group rq = Some name)).
Proof. exact member_request. Qed.

Theorem c17_complete_quiescent : forall cfg st0 ops st,
  cfg_ok cfg -> 1 <= cf_max_outgoing cfg < B62 -> init cfg = Ok st0 -> ops_wf ops ->
  run st0 ops = Ok st -> Bounded st -> no_rewind_b st0 ops = true ->
  quiescent st (owed_run st0 [] ops) ->
  forall name g, al_get str_eqb name (r_groups st) = Some g ->
    exists d, glog (r_datalog st) name = Some d /\ pos_of (d_log d) (g_cursor g) = end_of (d_log d).
Proof. exact complete_quiescent. Qed.

Theorem c17_turn_holder_runnable : forall cfg st0 ops st,
  cfg_ok cfg -> 1 <= cf_max_outgoing cfg < B62 -> init cfg = Ok st0 -> ops_wf ops ->
  run st0 ops = Ok st -> Bounded st -> no_rewind_b st0 ops = true ->
  forall name g d c,
    al_get str_eqb name (r_groups st) = Some g -> glog (r_datalog st) name = Some d ->
    pos_of (d_log d) (g_cursor g) <> end_of (d_log d) ->
    current_client g = Some c ->
    exists id t o rq,
      cli st id = Some c /\ slab_get (r_trackers st) id = Some t /\ slab_get (r_obufs st) id = Some o /\
      In rq (tr_reqs t) /\ dr_filter rq = gpath name /\ dr_group rq = Some name /\
      ((tr_status t = Ready /\ In id (r_ready st)) \/
       (tr_status t = Paused InflightFull /\ o_inflight o <> []) \/
       (tr_status t = Paused Busy /\
        (In NUnschedule (WindowFrame.out_of st (o_link o)) \/ In (o_link o) (owed_run st0 [] ops)))).
Proof. exact turn_holder_runnable. Qed.

Theorem c17_rewind_strands_messages :
  exists st0 ops st g d id rq,
    cfg_ok C15Example.cfg0 /\ 1 <= cf_max_outgoing C15Example.cfg0 < B62 /\ init C15Example.cfg0 = Ok st0 /\
    ops_wf ops /\ run st0 ops = Ok st /\
    Bounded st /\ quiescent st (owed_run st0 [] ops) /\ rejoin_fresh_b st0 ops = true /\
    no_rewind_b st0 ops = false /\
    al_get str_eqb C17WakeExample.key (r_groups st) = Some g /\ g_clients g <> [] /\
    glog (r_datalog st) C17WakeExample.key = Some d /\
    In (id, rq) (d_waiters d) /\ dr_group rq = Some C17WakeExample.key /\ cli st id = current_client g /\
    pos_of (d_log d) (g_cursor g) = 0 /\ end_of (d_log d) = 2.
Proof. exact C17WakeExample.rewind_strands_messages. Qed.

Theorem c17_strand_state :
  match init C15Example.cfg0 with
  | Ok st0 =>
      match run st0 C17WakeExample.strand_ops with
      | Ok st =>
          C17WakeExample.gview st =
            [(C17WakeExample.key, [[98]], 0, (0, 0), Some [98],
              Some (0, 2, [(1, (0, 2), Some C17WakeExample.key)]))] /\
          C17WakeExample.tview st = [None; Some (Paused Caughtup, []); Some (Paused Caughtup, [])] /\
          forallb (fun x : list oracle * rop => op_wf_b (snd x)) C17WakeExample.strand_ops = true /\
          bounded_b st = true /\ quiescent_b st (owed_run st0 [] C17WakeExample.strand_ops) = true /\
          rejoin_fresh_b st0 C17WakeExample.strand_ops = true /\
          no_rejoin_create_b st0 C17WakeExample.strand_ops = true /\
          no_rewind_b st0 C17WakeExample.strand_ops = false
      | _ => False
      end
  | _ => False
  end.
Proof. exact C17WakeExample.strand_state. Qed.

Theorem c17_strand_then_publish :
  match init C15Example.cfg0 with
  | Ok st0 =>
      match run st0 (C17WakeExample.strand_ops ++ C17WakeExample.more_ops) with
      | Ok st =>
          C17WakeExample.gview st =
            [(C17WakeExample.key, [[98]], 0, (0, 3), Some [98],
              Some (3, 3, [(1, (0, 3), Some C17WakeExample.key)]))] /\
          gfwd st0 (C17WakeExample.strand_ops ++ C17WakeExample.more_ops) =
            [(C17WakeExample.key, [97], 0); (C17WakeExample.key, [98], 1); (C17WakeExample.key, [98], 0);
             (C17WakeExample.key, [98], 1); (C17WakeExample.key, [98], 2)]
      | _ => False
      end
  | _ => False
  end.
Proof. exact C17WakeExample.strand_then_publish. Qed.

Theorem c17_quiet_state :
  match init C15Example.cfg0 with
  | Ok st0 =>
      match run st0 C17WakeExample.quiet_ops with
      | Ok st =>
          C17WakeExample.gview st =
            [(C17WakeExample.key, [[97]; [98]], 1, (0, 1), Some [98],
              Some (1, 1, [(0, (0, 1), Some C17WakeExample.key); (1, (0, 1), Some C17WakeExample.key)]))] /\
          C17WakeExample.tview st =
            [Some (Paused Caughtup, []); Some (Paused Caughtup, []); Some (Paused Caughtup, [])] /\
          forallb (fun x : list oracle * rop => op_wf_b (snd x)) C17WakeExample.quiet_ops = true /\
          bounded_b st = true /\ no_rewind_b st0 C17WakeExample.quiet_ops = true /\
          quiescent_b st (owed_run st0 [] C17WakeExample.quiet_ops) = true
      | _ => False
      end
  | _ => False
  end.
Proof. exact C17WakeExample.quiet_state. Qed.

Theorem c17_complete_quiescent_applies :
  let st := C17WakeExample.gw_st C17WakeExample.quiet_ops in
  run C17WakeExample.gw_st0 C17WakeExample.quiet_ops = Ok st /\
  exists g d,
    al_get str_eqb C17WakeExample.key (r_groups st) = Some g /\ g_clients g = [[97]; [98]] /\
    glog (r_datalog st) C17WakeExample.key = Some d /\ pos_of (d_log d) (g_cursor g) = end_of (d_log d).
Proof. exact C17WakeExample.complete_quiescent_applies. Qed.

Theorem c17_pending_state :
  match init C15Example.cfg0 with
  | Ok st0 =>
      match run st0 C17WakeExample.pending_ops with
      | Ok st =>
          C17WakeExample.gview st =
            [(C17WakeExample.key, [[97]; [98]], 0, (0, 0), Some [97], Some (0, 1, []))] /\
          C17WakeExample.tview st =
            [Some (Ready, [Some C17WakeExample.key]); Some (Ready, [Some C17WakeExample.key]); Some (Ready, [])] /\
          r_ready st = [2; 0; 1] /\
          forallb (fun x : list oracle * rop => op_wf_b (snd x)) C17WakeExample.pending_ops = true /\
          bounded_b st = true /\ no_rewind_b st0 C17WakeExample.pending_ops = true
      | _ => False
      end
  | _ => False
  end.
Proof. exact C17WakeExample.pending_state. Qed.

Theorem c17_turn_holder_applies :
  let st := C17WakeExample.gw_st C17WakeExample.pending_ops in
  run C17WakeExample.gw_st0 C17WakeExample.pending_ops = Ok st /\
  exists id t o rq,
    cli st id = Some [97] /\ slab_get (r_trackers st) id = Some t /\ slab_get (r_obufs st) id = Some o /\
    In rq (tr_reqs t) /\ dr_filter rq = gpath C17WakeExample.key /\ dr_group rq = Some C17WakeExample.key /\
    ((tr_status t = Ready /\ In id (r_ready st)) \/
     (tr_status t = Paused InflightFull /\ o_inflight o <> []) \/
     (tr_status t = Paused Busy /\
      (In NUnschedule (WindowFrame.out_of st (o_link o)) \/
       In (o_link o) (owed_run C17WakeExample.gw_st0 [] C17WakeExample.pending_ops)))).
Proof. exact C17WakeExample.turn_holder_applies. Qed.

Theorem c17_turn_holder_exists : forall cfg st name g,
  reachable cfg st -> al_get str_eqb name (r_groups st) = Some g ->
  exists c, current_client g = Some c /\ In c (g_clients g).
Proof. exact turn_holder_exists. Qed.

Theorem c17_backlog_is_served : forall cfg st0 ops st,
  cfg_ok cfg -> 1 <= cf_max_outgoing cfg < B62 -> init cfg = Ok st0 -> ops_wf ops ->
  run st0 ops = Ok st -> Bounded st -> no_rewind_b st0 ops = true ->
  forall name g d,
    al_get str_eqb name (r_groups st) = Some g -> glog (r_datalog st) name = Some d ->
    pos_of (d_log d) (g_cursor g) <> end_of (d_log d) ->
    exists c id t o rq,
      current_client g = Some c /\ In c (g_clients g) /\
      cli st id = Some c /\ slab_get (r_trackers st) id = Some t /\ slab_get (r_obufs st) id = Some o /\
      In rq (tr_reqs t) /\ dr_filter rq = gpath name /\ dr_group rq = Some name /\
      ((tr_status t = Ready /\ In id (r_ready st)) \/
       (tr_status t = Paused InflightFull /\ o_inflight o <> []) \/
       (tr_status t = Paused Busy /\
        (In NUnschedule (WindowFrame.out_of st (o_link o)) \/ In (o_link o) (owed_run st0 [] ops)))).
Proof. exact backlog_is_served. Qed.

(** ... at run level, for a phase without membership changes (partial: see Router/GroupWakeCov.v) *)
From Rumqtt Require Import Router.GroupWakeCov Router.GroupWakeCovThm.
From Rumqtt Require Import Router.Model Router.RunDefs.

Theorem c17_steady_phase_covered : forall st1 ops2 st2 name,
  CInv st1 -> run st1 ops2 = Ok st2 -> Bounded st2 ->
  (forall d c, glog (r_datalog st2) name = Some d -> stale (d_log d) c = false) ->
  steady_b st1 ops2 = true ->
  forall g1 g2,
    al_get str_eqb name (r_groups st1) = Some g1 -> al_get str_eqb name (r_groups st2) = Some g2 ->
    forall off, snd (g_cursor g1) <= off < snd (g_cursor g2) -> In off (offs_of name (gfwd st1 ops2)).
Proof. exact steady_phase_covered. Qed.

Theorem c17_run_complete_partial : forall cfg st0 ops1 st1 ops2 st2,
  cfg_ok cfg -> 1 <= cf_max_outgoing cfg < B62 -> init cfg = Ok st0 -> ops_wf ops1 -> ops_wf ops2 ->
  run st0 ops1 = Ok st1 -> run st1 ops2 = Ok st2 -> Bounded st2 ->
  no_rewind_b st0 (ops1 ++ ops2) = true -> steady_b st1 ops2 = true ->
  quiescent st2 (owed_run st0 [] (ops1 ++ ops2)) ->
  forall name g1 g2 d,
    al_get str_eqb name (r_groups st1) = Some g1 -> al_get str_eqb name (r_groups st2) = Some g2 ->
    glog (r_datalog st2) name = Some d -> (forall c, stale (d_log d) c = false) ->
    forall off, snd (g_cursor g1) <= off < end_of (d_log d) -> In off (offs_of name (gfwd st1 ops2)).
Proof. exact run_complete_steady. Qed.

Theorem c17_run_complete_partial_applies :
  let st1 := C17WakeExample.gw_st C17CovExample.ops1 in
  let st2 := C17WakeExample.gw_st (C17CovExample.ops1 ++ C17CovExample.ops2) in
  run C17WakeExample.gw_st0 C17CovExample.ops1 = Ok st1 /\ run st1 C17CovExample.ops2 = Ok st2 /\
  steady_b st1 C17CovExample.ops2 = true /\
  gfwd st1 C17CovExample.ops2 =
    [(C17WakeExample.key, [97], 0); (C17WakeExample.key, [98], 1); (C17WakeExample.key, [97], 2)] /\
  forall off, 0 <= off < 3 -> In off (offs_of C17WakeExample.key (gfwd st1 C17CovExample.ops2)).
Proof. exact C17CovExample.steady_example. Qed.

(** ... at run level, in general: per-incarnation creation positions [starts] (ghost computed with
    the model's own functions, Router/GroupWakeRun.v), coverage invariant [CovM]. *)
From Rumqtt Require Import Router.GroupWakeRun Router.GroupWakeRunThm.
From Rumqtt Require Import Router.Model Router.RunDefs.

Theorem c17_starts_upd : forall st st' m name,
  al_get str_eqb name (upd_starts st st' m) =
  match al_get str_eqb name (r_groups st') with
  | None => None
  | Some g' => Some (match al_get str_eqb name (r_groups st), al_get str_eqb name m with
                     | Some _, Some s => s
                     | _, _ => read_pos (r_datalog st') name (g_cursor g')
                     end)
  end.
Proof. exact al_get_upd. Qed.

Theorem c17_coverage_step : forall st o st' out gh m gf,
  CInv st -> Bounded st -> GK st -> CovM st m gf ->
  step_g st o = Ok (st', out, gh) -> gh_rewind gh = false ->
  CovM st' (starts_step st o st' m) (gf ++ map forget (gh_fwd gh)).
Proof. exact step_covm. Qed.

Theorem c17_starts_total : forall cfg st0 ops st,
  cf_max_outgoing cfg < B62 -> init cfg = Ok st0 -> run st0 ops = Ok st -> Bounded st -> no_rewind_b st0 ops = true ->
  forall name g, al_get str_eqb name (r_groups st) = Some g -> exists s, al_get str_eqb name (starts st0 ops) = Some s.
Proof. exact starts_total. Qed.

Theorem c17_run_complete : forall cfg st0 ops st,
  cfg_ok cfg -> 1 <= cf_max_outgoing cfg < B62 -> init cfg = Ok st0 -> ops_wf ops ->
  run st0 ops = Ok st -> Bounded st -> no_rewind_b st0 ops = true ->
  quiescent st (owed_run st0 [] ops) ->
  forall name g d s,
    al_get str_eqb name (r_groups st) = Some g -> glog (r_datalog st) name = Some d ->
    (forall c, stale (d_log d) c = false) ->
    al_get str_eqb name (starts st0 ops) = Some s ->
    forall off, s <= off < end_of (d_log d) -> In off (offs_of name (gfwd st0 ops)).
Proof. exact run_complete. Qed.

Theorem c17_run_exactly_once : forall cfg st0 ops st,
  cfg_ok cfg -> 1 <= cf_max_outgoing cfg < B62 -> init cfg = Ok st0 -> ops_wf ops ->
  run st0 ops = Ok st -> Bounded st -> no_rewind_b st0 ops = true -> rejoin_fresh_b st0 ops = true ->
  quiescent st (owed_run st0 [] ops) ->
  forall name g d s,
    al_get str_eqb name (r_groups st) = Some g -> glog (r_datalog st) name = Some d ->
    (forall c, stale (d_log d) c = false) ->
    al_get str_eqb name (starts st0 ops) = Some s ->
    forall off, s <= off < end_of (d_log d) -> count_occ N.eq_dec (offs_of name (gfwd st0 ops)) off = 1%nat.
Proof. exact run_exactly_once. Qed.

Theorem c17_run_member_share_order : forall cfg st0 ops st',
  cf_max_outgoing cfg < B62 -> init cfg = Ok st0 -> run st0 ops = Ok st' -> Bounded st' ->
  no_rewind_b st0 ops = true -> rejoin_fresh_b st0 ops = true ->
  forall name client, StronglySorted N.lt (offs_of_member name client (gfwd st0 ops)).
Proof. exact run_member_order. Qed.

Theorem c17_reincarnation_state :
  let st := C17WakeExample.gw_st C17RunCompleteExample.reinc_ops in
  run C17WakeExample.gw_st0 C17RunCompleteExample.reinc_ops = Ok st /\
  C17WakeExample.gview st =
    [(C17WakeExample.key, [[97]], 0, (0, 3), Some [97], Some (3, 3, [(0, (0, 3), Some C17WakeExample.key)]))] /\
  starts C17WakeExample.gw_st0 C17RunCompleteExample.reinc_ops = [(C17WakeExample.key, 2)] /\
  gfwd C17WakeExample.gw_st0 C17RunCompleteExample.reinc_ops =
    [(C17WakeExample.key, [97], 0); (C17WakeExample.key, [97], 2)] /\
  forallb (fun x : list oracle * rop => op_wf_b (snd x)) C17RunCompleteExample.reinc_ops = true /\
  bounded_b st = true /\
  quiescent_b st (owed_run C17WakeExample.gw_st0 [] C17RunCompleteExample.reinc_ops) = true /\
  no_rewind_b C17WakeExample.gw_st0 C17RunCompleteExample.reinc_ops = true /\
  rejoin_fresh_b C17WakeExample.gw_st0 C17RunCompleteExample.reinc_ops = true.
Proof. exact C17RunCompleteExample.reinc_state. Qed.

Theorem c17_run_exactly_once_applies :
  forall off, 2 <= off < 3 ->
  count_occ N.eq_dec (offs_of C17WakeExample.key (gfwd C17WakeExample.gw_st0 C17RunCompleteExample.reinc_ops)) off = 1%nat.
Proof. exact C17RunCompleteExample.run_exactly_once_applies. Qed.
