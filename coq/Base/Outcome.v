(** Outcome monad: a modelled Rust function either returns a value, returns an
    error value (Rust [Err]), or panics.  [Panic] is produced exactly where the
    Rust code would panic; no function is totalised with a default. *)
From Coq Require Export List NArith Bool Lia.
Export ListNotations.
Open Scope N_scope.

Inductive Outcome (E A : Type) : Type :=
| Ok (a : A)
| Err (e : E)
| Panic (tag : N).
Arguments Ok {E A} a.
Arguments Err {E A} e.
Arguments Panic {E A} tag.

Definition bind {E A B} (x : Outcome E A) (f : A -> Outcome E B) : Outcome E B :=
  match x with
  | Ok a => f a
  | Err e => Err e
  | Panic t => Panic t
  end.

Notation "'do' x <- a ; b" := (bind a (fun x => b))
  (at level 200, x pattern, a at level 100, b at level 200).

Definition is_panic {E A} (x : Outcome E A) : bool :=
  match x with Panic _ => true | _ => false end.

Definition str := list N.   (* UTF-8 bytes of a Rust &str / String, or raw Bytes *)

Fixpoint str_eqb (a b : str) : bool :=
  match a, b with
  | [], [] => true
  | x :: a', y :: b' => (x =? y) && str_eqb a' b'
  | _, _ => false
  end.

Definition lenN {A} (l : list A) : N := N.of_nat (length l).
