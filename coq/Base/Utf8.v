(** UTF-8 well-formedness of a byte string, following Unicode Table 3-7 — the rule
    [std::str::from_utf8] / [String::from_utf8] implement.  Compared with the Rust
    functions by the correspondence checks that use it. *)
From Rumqtt Require Export Base.Outcome.

Definition in_rng (lo hi b : N) : bool := (lo <=? b) && (b <=? hi).
Definition cont (b : N) : bool := in_rng 128 191 b.

Fixpoint utf8_valid (s : list N) : bool :=
  match s with
  | [] => true
  | b0 :: r =>
      if b0 <? 128 then utf8_valid r
      else if in_rng 194 223 b0 then
        match r with b1 :: r1 => cont b1 && utf8_valid r1 | _ => false end
      else if in_rng 224 239 b0 then
        match r with
        | b1 :: b2 :: r2 =>
            (if b0 =? 224 then in_rng 160 191 b1
             else if b0 =? 237 then in_rng 128 159 b1
             else cont b1) && cont b2 && utf8_valid r2
        | _ => false
        end
      else if in_rng 240 244 b0 then
        match r with
        | b1 :: b2 :: b3 :: r3 =>
            (if b0 =? 240 then in_rng 144 191 b1
             else if b0 =? 244 then in_rng 128 143 b1
             else cont b1) && cont b2 && cont b3 && utf8_valid r3
        | _ => false
        end
      else false
  end.
