(** M-STACK proofs: admission (C19), epilogue (C16), notification -> packet -> writer (C20). *)
From Rumqtt Require Import Base.Outcome Router.Types Topic.Proofs Stack.Model Stack.Spec.

Lemma str_eqb_true_iff a b : str_eqb a b = true <-> a = b.
Proof. destruct (str_eqb_spec a b) as [E | NE]; split; intro H; auto; try discriminate; contradiction. Qed.

(* ------------------------------------------------------------------ C19: admission *)

Lemma handle_auth_spec s auth p :
  handle_auth s auth (fp_login p) (fp_client_id p) = true <-> creds_accepted s auth p.
Proof.
  unfold handle_auth, creds_accepted, no_auth_configured.
  destruct s as [tbl ext]; cbn [st_auth st_external].
  destruct tbl as [pairs | ]; destruct ext; destruct (fp_login p) as [l | ].
  - (* table, callback, login *)
    split.
    + intro H. right; left. split; [reflexivity | ]. exists l. split; [reflexivity | exact H].
    + intros [[H _] | [[_ [l' [Hl Ha]]] | [H _]]]; try discriminate.
      injection Hl as <-. exact Ha.
  - split; [discriminate | ].
    intros [[H _] | [[_ [l' [Hl _]]] | [H _]]]; discriminate.
  - (* table only, login *)
    split.
    + intro H. right; right. split; [reflexivity | ]. exists l, pairs.
      split; [reflexivity | ]. split; [reflexivity | ].
      destruct (al_get str_eqb (lg_user l) pairs) as [stored | ]; [ | discriminate].
      apply str_eqb_true_iff in H. now subst.
    + intros [[H _] | [[H _] | [_ [l' [pairs' [Hl [Hp Hg]]]]]]]; try discriminate.
      injection Hl as <-. injection Hp as <-. rewrite Hg. apply str_eqb_true_iff. reflexivity.
  - split; [discriminate | ].
    intros [[H _] | [[H _] | [_ [l' [pairs' [Hl _]]]]]]; discriminate.
  - (* callback only, login *)
    split.
    + intro H. right; left. split; [reflexivity | ]. exists l. split; [reflexivity | exact H].
    + intros [[_ H] | [[_ [l' [Hl Ha]]] | [H _]]]; try discriminate.
      injection Hl as <-. exact Ha.
  - split; [discriminate | ].
    intros [[_ H] | [[_ [l' [Hl _]]] | [H _]]]; discriminate.
  - split; [intros _; left; split; reflexivity | reflexivity].
  - split; [intros _; left; split; reflexivity | reflexivity].
Qed.

(** admitted => the C19 rule holds *)
Lemma c19_admit : forall s auth fr, admission s auth fr = Admit -> admissible s auth fr.
Proof.
  intros s auth fr H. unfold admission in H.
  destruct fr as [ | | p]; try discriminate.
  destruct (fp_kind p) eqn:Hk; try discriminate.
  destruct (fp_level_ok p) eqn:Hl; cbn [negb] in H; [ | discriminate].
  destruct (handle_auth s auth (fp_login p) (fp_client_id p)) eqn:Ha; cbn [negb] in H; [ | discriminate].
  destruct (fp_keep_alive p =? 0) eqn:Hka; [discriminate | ].
  exists p. split; [reflexivity | ]. split; [exact Hk | ]. split; [exact Hl | ].
  split; [now apply N.eqb_neq | ].
  split.
  - destruct (fp_client_id p) as [ | c r]; [ | left; discriminate].
    destruct (fp_clean p); [right; reflexivity | discriminate].
  - now apply handle_auth_spec.
Qed.

(** the C19 rule holds => admitted (so: admitted iff the rule says so) *)
Lemma c19_admit_complete : forall s auth fr, admissible s auth fr -> admission s auth fr = Admit.
Proof.
  intros s auth fr [p [-> [Hk [Hl [Hka [Hid Hc]]]]]].
  unfold admission. rewrite Hk, Hl. cbn [negb].
  apply handle_auth_spec in Hc. rewrite Hc. cbn [negb].
  apply N.eqb_neq in Hka. rewrite Hka.
  destruct (fp_client_id p) as [ | c r]; [ | reflexivity].
  destruct Hid as [Hid | Hid]; [contradiction | ]. now rewrite Hid.
Qed.

(** the same with the rule written out (no definition of Spec.v in the statement) *)
Lemma c19_admit_explicit : forall s auth fr, admission s auth fr = Admit ->
  exists p, fr = FirstPacket p /\
    fp_kind p = KConnect /\ fp_level_ok p = true /\
    fp_keep_alive p <> 0 /\
    (fp_client_id p <> [] \/ fp_clean p = true) /\
    ((st_auth s = None /\ st_external s = false) \/
     (st_external s = true /\
      exists l, fp_login p = Some l /\ auth (fp_client_id p) (lg_user l) (lg_pass l) = true) \/
     (st_external s = false /\
      exists l pairs, fp_login p = Some l /\ st_auth s = Some pairs /\
                      al_get str_eqb (lg_user l) pairs = Some (lg_pass l))).
Proof. exact c19_admit. Qed.

Lemma c19_admit_iff : forall s auth fr, admission s auth fr = Admit <-> admissible s auth fr.
Proof. intros s auth fr. split; [apply c19_admit | apply c19_admit_complete]. Qed.

(** admission does not depend on the CONNECT properties (session expiry, receive maximum,
    maximum packet size, topic alias maximum): whatever they are, the decision is the same *)
Lemma c19_props_irrelevant : forall s auth p props,
  admission s auth (FirstPacket (set_fp_props p props)) = admission s auth (FirstPacket p).
Proof. intros s auth p props. reflexivity. Qed.

(** in particular an empty client id with clean start = 0 is refused whatever the session
    expiry says *)
Example c19_empty_persistent_any_expiry : forall s auth p props,
  admission s auth (FirstPacket p) = Reject_connack ClientIdentifierNotValid ->
  admission s auth (FirstPacket (set_fp_props p props)) = Reject_connack ClientIdentifierNotValid.
Proof. intros s auth p props H. now rewrite c19_props_irrelevant. Qed.

(** an error CONNACK is written only for the empty client id of a persistent session, and
    only after credentials and keep-alive passed *)
Lemma c19_reject_connack : forall s auth fr code, admission s auth fr = Reject_connack code ->
  code = ClientIdentifierNotValid /\
  exists p, fr = FirstPacket p /\ fp_kind p = KConnect /\ fp_level_ok p = true /\
            fp_client_id p = [] /\ fp_clean p = false /\ fp_keep_alive p <> 0 /\
            creds_accepted s auth p.
Proof.
  intros s auth fr code H. unfold admission in H.
  destruct fr as [ | | p]; try discriminate.
  destruct (fp_kind p) eqn:Hk; try discriminate.
  destruct (fp_level_ok p) eqn:Hl; cbn [negb] in H; [ | discriminate].
  destruct (handle_auth s auth (fp_login p) (fp_client_id p)) eqn:Ha; cbn [negb] in H; [ | discriminate].
  destruct (fp_keep_alive p =? 0) eqn:Hka; [discriminate | ].
  destruct (fp_client_id p) as [ | c r] eqn:Hid; [ | discriminate].
  destruct (fp_clean p) eqn:Hcl; [discriminate | ].
  injection H as <-. split; [reflexivity | ].
  exists p. repeat split; try assumption; try reflexivity.
  - now apply N.eqb_neq.
  - apply handle_auth_spec. now rewrite Hid.
Qed.

(** every other first read: nothing is written at all *)
Lemma c19_not_admissible_silent_or_invalid_id : forall s auth fr,
  ~ admissible s auth fr ->
  admission s auth fr = Reject_no_connack \/
  admission s auth fr = Reject_connack ClientIdentifierNotValid.
Proof.
  intros s auth fr Hn.
  destruct (admission s auth fr) as [ | [] | ] eqn:E; auto.
  exfalso. apply Hn. now apply c19_admit.
Qed.

(** hypotheses are satisfiable: a CONNECT with the right password of a static table *)
Example c19_admit_example :
  let s := {| st_auth := Some [([117], [112])]; st_external := false |} in
  let p := {| fp_kind := KConnect; fp_level_ok := true; fp_keep_alive := 5; fp_client_id := [99];
              fp_clean := true; fp_login := Some {| lg_user := [117]; lg_pass := [112] |}; fp_props := None |} in
  admission s (fun _ _ _ => false) (FirstPacket p) = Admit /\
  admission s (fun _ _ _ => false)
    (FirstPacket {| fp_kind := KConnect; fp_level_ok := true; fp_keep_alive := 5; fp_client_id := [99];
                    fp_clean := true; fp_login := Some {| lg_user := [117]; lg_pass := [113] |}; fp_props := None |})
  = Reject_no_connack.
Proof. split; reflexivity. Qed.

(** order of the checks: a wrong password with keep-alive 0 and an empty persistent client id
    is rejected silently (auth first), not with the client-id CONNACK *)
Example c19_auth_before_clientid :
  admission {| st_auth := Some [([117], [112])]; st_external := false |} (fun _ _ _ => true)
    (FirstPacket {| fp_kind := KConnect; fp_level_ok := true; fp_keep_alive := 5; fp_client_id := [];
                    fp_clean := false; fp_login := None; fp_props := None |}) = Reject_no_connack.
Proof. reflexivity. Qed.

(* ------------------------------------------------------------------ C16: epilogue *)

(** a connection that is not taken over (nothing arrives on its will channel: the wait times
    out, at once when the will delay is 0): [Event::PublishWill] is sent whatever ended the
    link, and [Event::Disconnect] precedes it unless the router itself dropped the link *)
Lemma c16_decision : forall e,
  epilogue e WaitTimeout = (match e with RouterDrop => false | _ => true end, true).
Proof. intros []; reflexivity. Qed.

(** the only ways not to publish the will are on the takeover channel *)
Lemma c16_no_will_only_by_takeover : forall e w,
  snd (epilogue e w) = false -> w = WaitMsg Cancel \/ w = WaitClosed.
Proof. intros e [ | [ | ] | ]; cbn; intro H; auto; discriminate. Qed.

Lemma c16_send_disconnect : forall r w,
  fst (epilogue (classify r) w) = false <-> r = Some ELink.
Proof.
  intros r w. split.
  - destruct r as [[ | [] | | | [] | ] | ]; cbn; intro H; try discriminate; reflexivity.
  - intros ->. reflexivity.
Qed.

(** the PublishWill event of the epilogue names the client under the id the link registered
    with the router (where the will is stored): the CONNECT's id, or for an empty one the id
    the broker assigned *)
Lemma c16_will_event_id : forall connect_id generated,
  will_event_id (remote_ids connect_id generated) = registered_id connect_id (remote_ids connect_id generated).
Proof. intros [ | c r] generated; reflexivity. Qed.

Lemma c16_will_event_id_assigned : forall generated,
  id_assigned (remote_ids [] generated) = Some generated /\
  will_event_id (remote_ids [] generated) = generated.
Proof. intros generated. split; reflexivity. Qed.

Lemma c16_will_event_id_named : forall connect_id generated, connect_id <> [] ->
  id_assigned (remote_ids connect_id generated) = None /\
  will_event_id (remote_ids connect_id generated) = connect_id.
Proof. intros [ | c r] generated H; [contradiction | split; reflexivity]. Qed.

(** C14, link layer: a connection the router itself dropped ([RemoteLink::start] ends with
    [Error::Link]) sends no [Event::Disconnect] afterwards, whatever happens on its will
    channel: no late signal carrying a connection id the router may already have given to
    another client.  Conversely a Disconnect event is only sent when the link ended otherwise. *)
Lemma c14_no_late_disconnect_after_router_drop : forall w,
  fst (epilogue (classify (Some ELink)) w) = false.
Proof. intros w. reflexivity. Qed.

Lemma c14_disconnect_event_only_without_router_drop : forall r w,
  fst (epilogue (classify r) w) = true -> r <> Some ELink.
Proof. intros r w H E. subst r. discriminate H. Qed.

Example c16_decision_example :
  epilogue (classify (Some (ENetworkIo ConnectionAborted))) WaitTimeout = (true, true) /\
  epilogue (classify (Some ELink)) WaitTimeout = (false, true) /\
  epilogue (classify (Some ENetworkProtocol)) (WaitMsg Cancel) = (true, false).
Proof. repeat split. Qed.

(* ------------------------------------------------------------------ C20 *)

(** [to_packet] is a total function (by typing); it yields no packet exactly for Unschedule
    and the non-device notification *)
Lemma c20_to_packet_none : forall n,
  to_packet n = None <-> (n = NUnschedule \/ exists t p, n = NShadow t p).
Proof.
  intros n. split.
  - destruct n; cbn; intro H; try discriminate; [left; reflexivity | right; eauto].
  - intros [-> | [t [p ->]]]; reflexivity.
Qed.

(** every notification of the router's model type is one the router emits *)
Lemma c20_emittable : forall n : notification, RouterEmits n.
Proof. intros []; constructor. Qed.

Lemma to_packet_broker_kind n pk : to_packet n = Some pk -> broker_kind (okind pk) = true.
Proof.
  destruct n as [c p pr | a | | r | t p]; cbn; intro H; try discriminate; injection H as <-;
    try reflexivity.
  destruct a; reflexivity.
Qed.

(** after the repair of F2 the V4 writer has an arm for every broker-side packet kind, with
    or without properties; the V5 writer for everything *)
Lemma c20_arm_total : forall pr k props, broker_kind k = true -> has_arm pr k props = true.
Proof. intros [] [] props H; try reflexivity; discriminate. Qed.

(** every notification the router emits is either not written (Unschedule / Shadow) or a
    packet for which both writers have an arm *)
Lemma c20_encodable_dispatch : forall n, RouterEmits n ->
  match to_packet n with
  | None => n = NUnschedule \/ exists t p, n = NShadow t p
  | Some pk => has_arm V4 (okind pk) (ohas_props pk) = true /\
               has_arm V5 (okind pk) (ohas_props pk) = true
  end.
Proof.
  intros n _. destruct (to_packet n) as [pk | ] eqn:E.
  - apply to_packet_broker_kind in E. split; now apply c20_arm_total.
  - now apply c20_to_packet_none.
Qed.

(** hence no writer panics, on single packets and on whole batches *)
Lemma c20_write_no_panic : forall pr n pk, RouterEmits n -> to_packet n = Some pk ->
  exists v, write_view pr pk = Ok v.
Proof.
  intros pr n pk _ E. unfold write_view, write_view_with.
  rewrite (c20_arm_total pr _ _ (to_packet_broker_kind _ _ E)). eauto.
Qed.

Lemma drain_broker_kinds ns : Forall (fun pk => broker_kind (okind pk) = true) (fst (drain ns)).
Proof.
  induction ns as [ | n r IH]; cbn [drain]; [constructor | ].
  destruct (drain r) as [ps u]. destruct (to_packet n) as [pk | ] eqn:E; cbn [fst] in *; [ | exact IH].
  constructor; [now apply to_packet_broker_kind in E | exact IH].
Qed.

Lemma c20_batch_no_panic : forall pr ns, exists vs, writev_view pr (fst (drain ns)) = Ok vs.
Proof.
  intros pr ns. pose proof (drain_broker_kinds ns) as H.
  induction H as [ | pk ps Hk _ IH]; cbn [writev_view]; [eauto | ].
  unfold write_view, write_view_with. rewrite (c20_arm_total pr _ _ Hk).
  destruct IH as [vs ->]. cbn [bind]. eauto.
Qed.

(** content: a forwarded publish keeps topic, payload (the whole [publish]) through both
    writers; its properties are dropped by V4 and kept by V5 *)
Lemma c20_content : forall c p props,
  exists pk, to_packet (NForward c p props) = Some pk /\
             write_view V4 pk = Ok (OPublish p None) /\
             write_view V5 pk = Ok (OPublish p props).
Proof. intros c p props. exists (OPublish p props). repeat split. Qed.

(** finding F2, before the repair: the V4 writer had no arm for a forward that carries
    properties (an MQTT 5 publisher's message) and panicked *)
Lemma f2_unfixed_refuted :
  exists n pk, RouterEmits n /\ to_packet n = Some pk /\ write_view_unfixed V4 pk = Panic 1.
Proof.
  exists (NForward None {| p_dup := false; p_qos := 0; p_retain := false; p_topic := [116];
                           p_pkid := 0; p_payload := [] |} (Some pprops_default)).
  eexists. split; [constructor | ]. split; reflexivity.
Qed.

(** the unfixed table differs from the current one only on (broker kind, properties present) *)
Lemma f2_unfixed_diff : forall pr k props,
  has_arm_unfixed pr k props <> has_arm pr k props ->
  pr = V4 /\ props = true /\ broker_kind k = true.
Proof. intros [] [] []; cbn; intro H; try contradiction; repeat split. Qed.
