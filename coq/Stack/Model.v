(** M-STACK: the sequential decision logic of the broker's per-connection task
    ([rumqttd::server::broker::remote]), as pure functions.  No proofs here.

    - [admission]  = [link::remote::mqtt_connect] + [handle_auth]  (rumqttd/src/link/remote.rs)
    - [classify], [epilogue] = the tail of [remote()] after [link.start()] returned
                               (rumqttd/src/server/broker.rs)
    - [to_packet]  = [impl From<Notification> for MaybePacket] + [impl From<Ack> for Packet]
                     (rumqttd/src/router/mod.rs), used by [RemoteLink::start]
    - [has_arm], [write_view] = the dispatch tables of [Protocol::write] for V4 and V5
                     (rumqttd/src/protocol/v4/mod.rs, v5/mod.rs): which (packet kind,
                     properties present?) pairs have a match arm, and whether the properties
                     reach the wire.  Byte-level encoding is M-CODEC's business (C04).
    Tokio, the transport, the will-delay timer and the takeover race are not modelled. *)
From Rumqtt Require Import Base.Outcome Router.Types.

(* ---------------------------------------------------------------- admission *)

Inductive pkind :=
| KConnect | KConnAck | KPublish | KPubAck | KPubRec | KPubRel | KPubComp
| KSubscribe | KSubAck | KUnsubscribe | KUnsubAck | KPingReq | KPingResp | KDisconnect.

Record login := { lg_user : str; lg_pass : str }.

(** what [Network::read] hands to [mqtt_connect] as the first packet.  For a packet that is not
    a CONNECT only [fp_kind] is meaningful.  [fp_level_ok]: the CONNECT names the protocol
    level of the listener's decoder (4 for V4, 5 for V5); when it does not, the decoder returns
    [Error::InvalidProtocolLevel] and [Network::read] fails. *)
(** the CONNECT properties of MQTT 5 that the broker reads ([RemoteLink::new]); [mqtt_connect]
    binds them to [_props] and never looks at them: admission does not depend on them *)
Record cprops := {
  cp_session_expiry : option N; cp_receive_max : option N;
  cp_max_packet : option N; cp_topic_alias_max : option N }.
Definition cprops_none : cprops :=
  {| cp_session_expiry := None; cp_receive_max := None; cp_max_packet := None; cp_topic_alias_max := None |}.

Record first_packet := {
  fp_kind : pkind; fp_level_ok : bool; fp_keep_alive : N; fp_client_id : str;
  fp_clean : bool; fp_login : option login; fp_props : option cprops }.
Definition set_fp_props (p : first_packet) (v : option cprops) : first_packet :=
  {| fp_kind := fp_kind p; fp_level_ok := fp_level_ok p; fp_keep_alive := fp_keep_alive p;
     fp_client_id := fp_client_id p; fp_clean := fp_clean p; fp_login := fp_login p; fp_props := v |}.

Inductive first_read :=
| Timeout                 (* connection_timeout_ms elapsed *)
| ReadError               (* i/o error, EOF, malformed frame *)
| FirstPacket (p : first_packet).

(** [ConnectionSettings]: [auth] (static user -> password table; a HashMap, so keys are unique
    and lookup is by key) and whether [external_auth] is [Some].  The callback itself is a
    parameter of [admission]. *)
Record settings := { st_auth : option (list (str * str)); st_external : bool }.

Inductive connack_code := ClientIdentifierNotValid.

Inductive decision :=
| Reject_no_connack                     (* remote() returns; the stream is dropped *)
| Reject_connack (code : connack_code)  (* an error CONNACK is written, then as above *)
| Admit.                                (* mqtt_connect returns Ok(packet) *)

(** [handle_auth]; [ct_eq] on the bytes is equality of the byte strings. *)
Definition handle_auth (s : settings) (auth : str -> str -> str -> bool)
           (lg : option login) (client_id : str) : bool :=
  match st_auth s, st_external s with
  | None, false => true
  | _, _ =>
    match lg with
    | None => false
    | Some l =>
      if st_external s then auth client_id (lg_user l) (lg_pass l)
      else match st_auth s with
           | Some pairs =>
             match al_get str_eqb (lg_user l) pairs with
             | Some stored => str_eqb stored (lg_pass l)
             | None => false
             end
           | None => false
           end
    end
  end.

(** [mqtt_connect], in the order of the source: timeout / read error, Connect pattern,
    [handle_auth], keep-alive, empty client id of a persistent session. *)
Definition admission (s : settings) (auth : str -> str -> str -> bool) (fr : first_read) : decision :=
  match fr with
  | Timeout => Reject_no_connack
  | ReadError => Reject_no_connack
  | FirstPacket p =>
    match fp_kind p with
    | KConnect =>
      if negb (fp_level_ok p) then Reject_no_connack       (* decoder error, see above *)
      else if negb (handle_auth s auth (fp_login p) (fp_client_id p)) then Reject_no_connack
      else if fp_keep_alive p =? 0 then Reject_no_connack
      else match fp_client_id p with
           | [] => if fp_clean p then Admit else Reject_connack ClientIdentifierNotValid
           | _ :: _ => Admit
           end
    | _ => Reject_no_connack                               (* Error::NotConnectPacket *)
    end
  end.

(* ---------------------------------------------------------------- epilogue *)

Inductive io_kind := ConnectionAborted | ConnectionReset | InvalidData | BrokenPipe | OtherIo.

(** [remote::Error] as returned by [RemoteLink::start] *)
Inductive start_error :=
| ELink                       (* remote::Error::Link(_): the router dropped its end *)
| ENetworkIo (k : io_kind)    (* Network(network::Error::Io(_)) *)
| ENetworkProtocol            (* Network(network::Error::Protocol(_)) *)
| ENetworkKeepAlive           (* Network(network::Error::KeepAlive(_)) *)
| EIo (k : io_kind)           (* remote::Error::Io(_) *)
| EOtherError.

Inductive link_end := RouterDrop | PeerClosed | OtherError | Stopped.

(** the [match link.start().await] of [remote()]; [None] = [Ok(())] *)
Definition classify (r : option start_error) : link_end :=
  match r with
  | None => Stopped
  | Some ELink => RouterDrop
  | Some (ENetworkIo ConnectionAborted) => PeerClosed
  | Some (EIo ConnectionAborted) => PeerClosed
  | Some _ => OtherError
  end.

Inductive takeover_msg := Cancel | Fire.

(** outcome of [timeout(will_delay, will_rx.recv_async())].  With a will delay of 0 the
    timeout fires at once unless a message is already queued ([WaitMsg]); [WaitClosed] is
    [Ok(Err(RecvError))]: every sender dropped without a message. *)
Inductive will_wait := WaitTimeout | WaitMsg (m : takeover_msg) | WaitClosed.

(** (send [Event::Disconnect]?, send [Event::PublishWill]?) *)
Definition epilogue (e : link_end) (w : will_wait) : bool * bool :=
  let send_disconnect := match e with RouterDrop => false | _ => true end in
  let publish_will :=
    match w with
    | WaitMsg Fire => true
    | WaitMsg Cancel => false
    | WaitClosed => false
    | WaitTimeout => true
    end in
  (send_disconnect, publish_will).

(** The client ids [remote()] works with after admission.  [generated] stands for the
    "rumqtt-<uuid>" string of [Uuid::new_v4()]; no tenant (TLS tenant ids are not modelled).
    - [id_assigned]: [assigned_client_id], handed to [RemoteLink::new] and put into the CONNACK;
    - [id_local]: the local [client_id] after the block: key of the will-handler map and the id
      carried by [Event::PublishWill((client_id, tenant_id))] in the epilogue. *)
Record conn_ids := { id_assigned : option str; id_local : str }.

Definition remote_ids (connect_id generated : str) : conn_ids :=
  match connect_id with
  | [] => {| id_assigned := Some generated; id_local := generated |}
  | _ :: _ => {| id_assigned := None; id_local := connect_id |}
  end.

(** [RemoteLink::new]: [assigned_client_id.as_ref().unwrap_or(&connect.client_id)] is the id
    the link registers with the router, i.e. the key under which the router stores the will *)
Definition registered_id (connect_id : str) (ids : conn_ids) : str :=
  match id_assigned ids with
  | Some a => a
  | None => connect_id
  end.

Definition will_event_id (ids : conn_ids) : str := id_local ids.

(* ---------------------------------------------------------------- notification -> packet *)

(** broker -> client packets, as far as the dispatch of [Protocol::write] and the content
    claim of C20 need them.  [props] of the acks: the router never builds the
    [Ack::*WithProperties] variants (Router/Types.v has none), so [packet_of_ack] yields
    [false]; the field exists because [Protocol::write] can be handed either. *)
Inductive opacket :=
| OConnAck (session_present : bool) (props : bool)
| OPublish (p : publish) (props : option pprops)
| OPubAck (pkid : N) (props : bool)
| OPubRec (pkid : N) (props : bool)
| OPubRel (pkid : N) (props : bool)
| OPubComp (pkid : N) (props : bool)
| OSubAck (pkid : N) (codes : list N) (props : bool)
| OUnsubAck (pkid : N) (reasons : list N) (props : bool)
| OPingResp
| ODisconnect (reason : N) (props : bool).

Definition okind (pk : opacket) : pkind :=
  match pk with
  | OConnAck _ _ => KConnAck | OPublish _ _ => KPublish | OPubAck _ _ => KPubAck
  | OPubRec _ _ => KPubRec | OPubRel _ _ => KPubRel | OPubComp _ _ => KPubComp
  | OSubAck _ _ _ => KSubAck | OUnsubAck _ _ _ => KUnsubAck | OPingResp => KPingResp
  | ODisconnect _ _ => KDisconnect
  end.

Definition ohas_props (pk : opacket) : bool :=
  match pk with
  | OConnAck _ b | OPubAck _ b | OPubRec _ b | OPubRel _ b | OPubComp _ b
  | OSubAck _ _ b | OUnsubAck _ _ b | ODisconnect _ b => b
  | OPublish _ (Some _) => true
  | OPublish _ None => false
  | OPingResp => false
  end.

(** [impl From<Ack> for Packet]; the router's CONNACK always carries [Some(properties)]
    ([handle_new_connection]) *)
Definition packet_of_ack (a : ack) : opacket :=
  match a with
  | AConnAck _ sp => OConnAck sp true
  | APubAck k => OPubAck k false
  | ASubAck k codes => OSubAck k codes false
  | APubRec k => OPubRec k false
  | APubRel k => OPubRel k false
  | APubComp k => OPubComp k false
  | AUnsubAck k rs => OUnsubAck k rs false
  | APingResp => OPingResp
  end.

(** [impl From<Notification> for MaybePacket] *)
Definition to_packet (n : notification) : option opacket :=
  match n with
  | NForward _ p props => Some (OPublish p props)
  | NAck a => Some (packet_of_ack a)
  | NUnschedule => None
  | NDisconnect r => Some (ODisconnect r false)
  | NShadow _ _ => None                    (* "Unexpected notification here" *)
  end.

Inductive proto := V4 | V5.

(** dispatch of [V4::write] BEFORE the repair of finding F2: only property-less packets
    (and ConnAck) have an arm; everything else falls into [_ => unreachable!()] *)
Definition has_arm_unfixed (pr : proto) (k : pkind) (props : bool) : bool :=
  match pr with
  | V5 => true
  | V4 =>
    match k with
    | KConnAck | KPingReq | KPingResp => true
    | _ => negb props
    end
  end.

(** dispatch of [Protocol::write] as it is now: V4 ignores the properties of every packet
    kind a broker sends; a client-side packet with properties (Connect, Subscribe,
    Unsubscribe) still has no V4 arm *)
Definition has_arm (pr : proto) (k : pkind) (props : bool) : bool :=
  match pr with
  | V5 => true
  | V4 =>
    match k with
    | KConnect | KSubscribe | KUnsubscribe => negb props
    | _ => true
    end
  end.

(** what a V4 writer puts on the wire: the packet without its properties *)
Definition strip_props (pk : opacket) : opacket :=
  match pk with
  | OConnAck sp _ => OConnAck sp false
  | OPublish p _ => OPublish p None
  | OPubAck k _ => OPubAck k false
  | OPubRec k _ => OPubRec k false
  | OPubRel k _ => OPubRel k false
  | OPubComp k _ => OPubComp k false
  | OSubAck k c _ => OSubAck k c false
  | OUnsubAck k r _ => OUnsubAck k r false
  | OPingResp => OPingResp
  | ODisconnect r _ => ODisconnect r false
  end.

(** [Protocol::write] up to byte encoding: the packet the peer's decoder of the same protocol
    gets back (C04), or the panic of the catch-all arm *)
Definition write_view_with (arm : proto -> pkind -> bool -> bool) (pr : proto) (pk : opacket)
  : Outcome unit opacket :=
  if arm pr (okind pk) (ohas_props pk)
  then Ok (match pr with V4 => strip_props pk | V5 => pk end)
  else Panic 1.

Definition write_view := write_view_with has_arm.
Definition write_view_unfixed := write_view_with has_arm_unfixed.

(** [RemoteLink::start], router -> network half: one batch of notifications becomes the
    packets handed to [writev] plus the "unscheduled" flag *)
Fixpoint drain (ns : list notification) : list opacket * bool :=
  match ns with
  | [] => ([], false)
  | n :: r =>
    let '(ps, u) := drain r in
    match to_packet n with
    | Some pk => (pk :: ps, u)
    | None => (ps, true)
    end
  end.

(** [writev]: stops at the first packet that cannot be written *)
Fixpoint writev_view (pr : proto) (ps : list opacket) : Outcome unit (list opacket) :=
  match ps with
  | [] => Ok []
  | pk :: r =>
    do v <- write_view pr pk;
    do vs <- writev_view pr r;
    Ok (v :: vs)
  end.

(** number of packets one batch hands to [writev] *)
Definition batch_len (ns : list notification) : nat := length (fst (drain ns)).
