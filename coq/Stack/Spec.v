(** M-STACK: what C19 / C16 / C20 require of the per-connection task, stated independently of
    the model's control flow. *)
From Rumqtt Require Import Base.Outcome Router.Types Stack.Model.

(** neither static credentials nor a callback configured *)
Definition no_auth_configured (s : settings) : Prop :=
  st_auth s = None /\ st_external s = false.

(** the configuration accepts the credentials of the CONNECT: nothing is configured, or the
    callback (which takes precedence when present) accepts (client id, user, password), or
    there is no callback and the static table maps the user to exactly that password *)
Definition creds_accepted (s : settings) (auth : str -> str -> str -> bool) (p : first_packet) : Prop :=
  no_auth_configured s \/
  (st_external s = true /\
   exists l, fp_login p = Some l /\ auth (fp_client_id p) (lg_user l) (lg_pass l) = true) \/
  (st_external s = false /\
   exists l pairs, fp_login p = Some l /\ st_auth s = Some pairs /\
                   al_get str_eqb (lg_user l) pairs = Some (lg_pass l)).

(** the admission rule of property C19 (per-connection half; the client-id metacharacter
    test is the router's, theorem c19_clientid_rejected) *)
Definition admissible (s : settings) (auth : str -> str -> str -> bool) (fr : first_read) : Prop :=
  exists p, fr = FirstPacket p /\
    fp_kind p = KConnect /\ fp_level_ok p = true /\
    fp_keep_alive p <> 0 /\
    (fp_client_id p <> [] \/ fp_clean p = true) /\
    creds_accepted s auth p.

(** notifications the router model puts into a link's outgoing buffer (Router/Model.v:
    [push_out] call sites): forwards with any stored properties, every ack kind, a
    property-less Disconnect, Unschedule, and the shadow reply *)
Inductive RouterEmits : notification -> Prop :=
| RE_forward c p props : RouterEmits (NForward c p props)
| RE_ack a : RouterEmits (NAck a)
| RE_disconnect r : RouterEmits (NDisconnect r)
| RE_unschedule : RouterEmits NUnschedule
| RE_shadow t p : RouterEmits (NShadow t p).

(** packet kinds a broker writes to a client *)
Definition broker_kind (k : pkind) : bool :=
  match k with
  | KConnAck | KPublish | KPubAck | KPubRec | KPubRel | KPubComp
  | KSubAck | KUnsubAck | KPingResp | KDisconnect => true
  | _ => false
  end.
