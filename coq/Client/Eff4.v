(** Effect lemmas: what each handler of the v4 model does to the slot vectors, the parked
    collision, the notification queue and the reply — under the invariant. *)
From Coq Require Import Arith ZifyBool ZifyN ZifyNat.
From Rumqtt Require Import Client.VecLemmas Client.Run4 Client.Inv4.

(** the part of the state the flow properties talk about *)
Definition slots_eq (s s' : state) : Prop :=
  outgoing_pub s' = outgoing_pub s /\ outgoing_rel s' = outgoing_rel s /\ collision s' = collision s
  /\ max_inflight s' = max_inflight s /\ manual_acks s' = manual_acks s.

Lemma slots_eq_refl s : slots_eq s s.
Proof. repeat split. Qed.

(** result of a handler: final state, reply (None on Err), error *)
Definition res_state {A} (r : R A) : option state :=
  match r with Ok (s, _) => Some s | Err (s, _) => Some s | Panic _ => None end.

(** ---- place_publish *)
Lemma place_publish_eff s p :
  Inv s -> collision s = None -> 1 <= p_pkid p -> p_qos p <> Q0 ->
  (p_pkid p > max_inflight s /\ place_publish s p = Err (s, EUnsolicited (p_pkid p)))
  \/ (p_pkid p <= max_inflight s /\ busy s (p_pkid p) = true /\
      place_publish s p = Ok (push_event (set_collision s (Some p)) (EvOut (OAwaitAck (p_pkid p))), None))
  \/ (p_pkid p <= max_inflight s /\ busy s (p_pkid p) = false /\
      exists l, vset (outgoing_pub s) (p_pkid p) (Some p) = Some l /\
        place_publish s p = Ok (push_event (set_inflight (set_pub s l) (inflight s + 1)) (EvOut (OPublish (p_pkid p))),
                                Some (PPublish p))).
Proof.
  intros I Hc H1 Hq. unfold place_publish. cbv zeta.
  destruct (vget (outgoing_pub s) (p_pkid p)) as [slot|] eqn:Eg.
  2:{ left. split; [|reflexivity]. apply vget_none_ge in Eg. rewrite (i_lenp s I) in Eg. unfold idx in Eg. lia. }
  assert (Hle : p_pkid p <= max_inflight s).
  { apply vget_some_lt in Eg. rewrite (i_lenp s I) in Eg. apply idx_lt_len. exact Eg. }
  right. destruct (is_some slot || bit (outgoing_rel s) (p_pkid p)) eqn:Eb.
  - left. split; [exact Hle|]. split; [|reflexivity]. unfold busy. rewrite Eg.
    destruct slot; cbn [is_some] in Eb; [reflexivity|exact Eb].
  - right. destruct slot as [x|]; [discriminate|]. cbn [is_some orb] in Eb.
    split; [exact Hle|]. split; [unfold busy; rewrite Eg; exact Eb|].
    unfold pub_store, inflight_inc.
    destruct (vset_of_vget _ _ _ (Some p) Eg) as [l Hl]. rewrite Hl. cbn [bind]. sproj.
    destruct (inv_store s p l I H1 Hq Eg Eb Hl) as [Hinf _].
    { intros q Hcq. congruence. }
    pose proof (i_max2 s I). unfold U16_MAX in *.
    destruct (N.eqb_spec (inflight s) 65535); [lia|]. cbn [bind]. exists l. split; reflexivity.
Qed.

(** ---- resend_collided: the publish goes into its (free) slot and onto the wire *)
Lemma resend_collided_eff s p :
  Inv s -> collision s = None -> 1 <= p_pkid p -> p_qos p <> Q0 ->
  vget (outgoing_pub s) (p_pkid p) = Some None -> bit (outgoing_rel s) (p_pkid p) = false ->
  exists l, vset (outgoing_pub s) (p_pkid p) (Some p) = Some l /\
    resend_collided s p = Ok (set_cpc (push_event (set_inflight (set_pub s l) (inflight s + 1)) (EvOut (OPublish (p_pkid p)))) 0,
                              Some (PPublish p)).
Proof.
  intros I Hc H1 Hq Hfree Hrel. unfold resend_collided, pub_store, inflight_inc.
  destruct (vset_of_vget _ _ _ (Some p) Hfree) as [l Hl]. rewrite Hl. cbn [bind]. sproj.
  destruct (inv_store s p l I H1 Hq Hfree Hrel Hl) as [Hle _].
  { intros q Hcq. congruence. }
  pose proof (i_max2 s I). unfold U16_MAX in *.
  destruct (N.eqb_spec (inflight s) 65535); [lia|]. cbn [bind]. exists l. split; reflexivity.
Qed.

(** ---- the tail shared by PUBACK and PUBCOMP *)
Definition ack_tail (s : state) (id : N) : R (option packet) :=
  match check_collision s id with
  | (s, Some p) => resend_collided s p
  | (s, None) => Ok (s, None)
  end.

Lemma ack_tail_eff s id :
  Inv (set_collision s None) -> 1 <= id ->
  vget (outgoing_pub s) id = Some None -> bit (outgoing_rel s) id = false ->
  (forall q, collision s = Some q -> p_qos q <> Q0) ->
  (exists q l, collision s = Some q /\ p_pkid q = id /\ vset (outgoing_pub s) id (Some q) = Some l /\
     ack_tail s id = Ok (set_cpc (push_event (set_inflight (set_pub (set_collision s None) l) (inflight s + 1)) (EvOut (OPublish id))) 0,
                         Some (PPublish q)))
  \/ ((forall q, collision s = Some q -> p_pkid q <> id) /\ ack_tail s id = Ok (s, None)).
Proof.
  intros I H1 Hfree Hrel Hq. unfold ack_tail.
  destruct (check_collision_spec s id) as [[p [Hp [Hid ->]]] | [Hne ->]].
  - left. subst id.
    destruct (resend_collided_eff (set_collision s None) p I eq_refl H1 (Hq p Hp) Hfree Hrel) as [l [Hl Hr]].
    exists p, l. repeat split; auto.
  - right. split; auto.
Qed.

(** ---- handle_incoming_puback *)
Lemma handle_incoming_puback_eff s id :
  Inv s ->
  (* unsolicited: no publish in that slot *)
  (pub_at s id = None /\ exists s', handle_incoming_puback s id = Err (s', EUnsolicited id) /\ slots_eq s s' /\ events s' = events s
     /\ inflight s' = inflight s)
  \/ (exists p0 l, vget (outgoing_pub s) id = Some (Some p0) /\ vset (outgoing_pub s) id None = Some l /\
      let s1 := set_inflight (set_pub (set_last_puback s id) l) (inflight s - 1) in
      handle_incoming_puback s id = ack_tail s1 id /\ 1 <= id /\ 1 <= inflight s /\
      Inv (set_collision s1 None) /\ vget l id = Some None /\ bit (outgoing_rel s) id = false).
Proof.
  intros I. unfold handle_incoming_puback, pub_at.
  destruct (vget (outgoing_pub s) id) as [slot|] eqn:Eg.
  2:{ left. split; [reflexivity|]. exists s. repeat split. }
  assert (Hid : id <= max_inflight s).
  { apply vget_some_lt in Eg. rewrite (i_lenp s I) in Eg. apply idx_lt_len. exact Eg. }
  destruct slot as [p0|].
  2:{ left. split; [reflexivity|]. eexists. split; [reflexivity|]. repeat split. }
  right. unfold pub_store, inflight_dec. sproj.
  destruct (vset_of_vget _ _ _ None Eg) as [l Hl]. rewrite Hl. cbn [bind]. sproj.
  pose proof (inv_infl_pos_pub s id p0 I Eg) as Hpos.
  destruct (N.eqb_spec (inflight s) 0); [lia|]. cbn [bind].
  destruct (i_slot s I id p0 Eg) as [_ [H1 _]].
  exists p0, l. split; [reflexivity|]. split; [first [exact Hl | reflexivity]|]. cbv zeta.
  split; [reflexivity|]. split; [exact H1|]. split; [exact Hpos|]. split; [|split].
  - assert (I0 : Inv (set_inflight (set_pub (set_collision (set_last_puback s id) None) l) (inflight s - 1))).
    { apply (inv_free_pub (set_collision (set_last_puback s id) None) id p0 l); sproj.
      - apply inv_drop_collision, inv_set_last_puback; assumption.
      - exact Eg.
      - exact Hl.
      - split; [exact Hpos|]. intros q Hq. discriminate. }
    eapply inv_frame; [exact I0|..]; reflexivity.
  - eapply vget_vset_same; eauto.
  - apply (i_excl s I id p0 Eg).
Qed.

(** ---- handle_incoming_pubcomp *)
Lemma handle_incoming_pubcomp_eff s id :
  Inv s ->
  (bit (outgoing_rel s) id = false /\ handle_incoming_pubcomp s id = Err (s, EUnsolicited id))
  \/ (bit (outgoing_rel s) id = true /\ exists r, vset (outgoing_rel s) id false = Some r /\
      let s1 := set_inflight (set_rel s r) (inflight s - 1) in
      handle_incoming_pubcomp s id = ack_tail s1 id /\ 1 <= id /\ 1 <= inflight s /\
      Inv (set_collision s1 None) /\ vget (outgoing_pub s) id = Some None /\ bit r id = false).
Proof.
  intros I. unfold handle_incoming_pubcomp.
  destruct (bit (outgoing_rel s) id) eqn:Eb; cbn [negb]; [right|left; auto].
  split; [reflexivity|]. unfold rel_set, inflight_dec.
  assert (Hlt : (idx id < length (outgoing_rel s))%nat).
  { unfold bit in Eb. destruct (vget (outgoing_rel s) id) eqn:E; [|discriminate]. eapply vget_some_lt; eauto. }
  destruct (vset_some (outgoing_rel s) id false Hlt) as [l Hl]. rewrite Hl. cbn [bind]. sproj.
  pose proof (inv_infl_pos_rel s id I Eb) as Hpos.
  destruct (N.eqb_spec (inflight s) 0); [lia|]. cbn [bind].
  assert (H1 : 1 <= id).
  { destruct (N.eq_dec id 0) as [-> |]; [|lia]. rewrite (i_rel0 s I) in Eb. discriminate. }
  assert (Hnone : vget (outgoing_pub s) id = Some None).
  { rewrite (i_lenr s I), <- (i_lenp s I) in Hlt. destruct (vget_lt_some _ _ Hlt) as [[p|] Hp]; [|exact Hp].
    rewrite (i_excl s I id p Hp) in Eb. discriminate. }
  pose proof (count_true_vset _ _ _ _ Hl) as Hcnt. rewrite Eb in Hcnt. cbn [b2n] in Hcnt.
  pose proof (i_infl s I) as Hinf.
  exists l. split; [reflexivity|]. cbv zeta. split; [reflexivity|]. split; [exact H1|]. split; [exact Hpos|].
  split; [|split; [exact Hnone|]].
  - constructor; sproj; try apply I.
    + rewrite (vset_length _ _ _ _ Hl). apply I.
    + rewrite (bit_vset _ _ _ 0 _ Hl). destruct (id =? 0); [reflexivity|apply I].
    + intros j q Hj. rewrite (bit_vset _ _ _ j _ Hl). destruct (id =? j); [reflexivity|apply (i_excl s I j q Hj)].
    + lia.
    + intros q Hq. discriminate.
  - rewrite (bit_vset _ _ _ id _ Hl). rewrite N.eqb_refl. reflexivity.
Qed.

(** ---- handle_incoming_pubrec *)
Lemma handle_incoming_pubrec_eff s id :
  Inv s ->
  (pub_at s id = None /\ handle_incoming_pubrec s id = Err (s, EUnsolicited id))
  \/ (exists p0 l r, vget (outgoing_pub s) id = Some (Some p0) /\ vset (outgoing_pub s) id None = Some l /\
      vset (outgoing_rel s) id true = Some r /\
      handle_incoming_pubrec s id = Ok (push_event (set_rel (set_pub s l) r) (EvOut (OPubRel id)), Some (PPubRel id))).
Proof.
  intros I. unfold handle_incoming_pubrec, pub_at.
  destruct (vget (outgoing_pub s) id) as [[p0|]|] eqn:Eg; [right|left; auto|left; auto].
  unfold pub_store, rel_set. sproj.
  destruct (vset_of_vget _ _ _ None Eg) as [l Hl]. rewrite Hl. cbn [bind]. sproj.
  assert (Hlt : (idx id < length (outgoing_rel s))%nat).
  { apply vget_some_lt in Eg. rewrite (i_lenr s I), <- (i_lenp s I). exact Eg. }
  destruct (vset_some (outgoing_rel s) id true Hlt) as [r Hr]. rewrite Hr. cbn [bind]. sproj.
  exists p0, l, r. repeat split; auto.
Qed.
