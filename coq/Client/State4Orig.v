(** M-CLIENT (v4) as the code was BEFORE the fix: commits af37a3d (F4), 3b55918 (F9) and
    d47ed07 (F8) — kept as the record of those findings (witness lemmas: Client/Findings4.v).
    Same state, helpers and dispatch as Client/State4.v; differs in
    [handle_incoming_pubcomp] (no bookkeeping for a resolved collision),
    [outgoing_publish] (an id awaiting PUBCOMP is not considered busy) and
    [clean] (the parked collision is neither returned nor cleared).  No proofs here. *)
From Rumqtt Require Export Client.State4.

Definition outgoing_publish_orig (s : state) (p : publish) : R (option packet) :=
  match p_qos p with
  | Q0 => Ok (push_event s (EvOut (OPublish (p_pkid p))), Some (PPublish p))
  | _ =>
      do (s, p) <- (if p_pkid p =? 0
                    then do (s, id) <- next_pkid s; Ok (s, with_pkid p id)
                    else Ok (s, p));
      let pkid := p_pkid p in
      match vget (outgoing_pub s) pkid with
      | None => Err (s, EUnsolicited pkid)
      | Some slot =>
          if is_some slot
          then Ok (push_event (set_collision s (Some p)) (EvOut (OAwaitAck pkid)), None)
          else
            do (s, _) <- pub_store s pkid (Some p);
            do (s, _) <- inflight_inc s;
            Ok (push_event s (EvOut (OPublish pkid)), Some (PPublish p))
      end
  end.

Definition handle_outgoing_packet_orig (s : state) (r : request) : R (option packet) :=
  match r with
  | RPublish p => outgoing_publish_orig s p
  | _ => handle_outgoing_packet s r
  end.

Definition handle_incoming_pubcomp_orig (s : state) (id : N) : R (option packet) :=
  if negb (bit (outgoing_rel s) id) then Err (s, EUnsolicited id)
  else
    do (s, _) <- rel_set s id false;
    do (s, _) <- inflight_dec s;
    match check_collision s id with
    | (s, Some p) =>
        let s := push_event s (EvOut (OPublish (p_pkid p))) in
        Ok (set_cpc s 0, Some (PPublish p))
    | (s, None) => Ok (s, None)
    end.

Definition handle_incoming_packet_orig (s : state) (pk : packet) : R (option packet) :=
  match pk with
  | PPubComp id => handle_incoming_pubcomp_orig (push_event s (EvIn pk)) id
  | _ => handle_incoming_packet s pk
  end.

Definition clean_orig (s : state) : Outcome (state * error) (state * list request) :=
  let mid := S (idx (last_puback s)) in
  if Nat.ltb (length (outgoing_pub s)) mid then Panic P_SPLIT
  else
    let first_half := firstn mid (outgoing_pub s) in
    let second_half := skipn mid (outgoing_pub s) in
    let pubs := map RPublish (somes (second_half ++ first_half)) in
    let rels := map RPubRel (ones (outgoing_rel s)) in
    let s := set_pub s (repeat None (length (outgoing_pub s))) in
    let s := set_rel s (repeat false (length (outgoing_rel s))) in
    let s := set_incoming s [] in
    let s := set_await s false in
    let s := set_cpc s 0 in
    let s := set_inflight s 0 in
    Ok (s, pubs ++ rels).

Definition step_orig (s : state) (o : op) : R reply :=
  match o with
  | Out r => do (s, p) <- handle_outgoing_packet_orig s r; Ok (s, Wrote p)
  | Inc pk => do (s, p) <- handle_incoming_packet_orig s pk; Ok (s, Wrote p)
  | Clean => do (s, l) <- clean_orig s; Ok (s, Cleaned l)
  end.
