(** Loop-level statements about the v5 event loop model (Client/Loop5.v): the port of
    Client/LoopProofs.v.  Differences from v4 that show in the statements:
      - the window the request arm respects is the limit negotiated at the last CONNACK ([s5_max]);
      - [clean] of the v5 state machine returns exactly [held5] (index order), so what a failure
        leaves pending is a list equation, not a permutation;
      - a reconnect hands the CONNACK to the state machine: it succeeds unless the broker announces
        receive-maximum 0, in which case the connection attempt ends like any failure (clean(), the
        error is returned, the next poll() reconnects: commit 6b2911f; before it the connection stayed up). *)
From Coq Require Import Arith ZifyBool ZifyN ZifyNat.
From Rumqtt Require Import Client.VecLemmas Client.State5 Client.Inv5 Client.Eff5 Client.Flow5 Client.Loop5.

(** K7 for the v5 loop: some TakeRequest5 of the history handed the state machine a request outside
    its contract ([op_ok5]).  Parameterised by the loop variant, as in v4. *)
Definition take_ok5_gen (te : lstate5 -> bool) (l : lstate5) : bool :=
  if te l
  then match next_request5 l with Some (r, l1) => op_ok5 (st5 l1) (Out5 r) | None => true end
  else true.
Definition take_ok5 := take_ok5_gen take_enabled5.

Fixpoint k7_5_gen (te : lstate5 -> bool) (stp : lstate5 -> lop5 -> lres5) (l : lstate5) (h : list lop5) : bool :=
  match h with
  | [] => false
  | o :: r =>
      (match o with TakeRequest5 => negb (take_ok5_gen te l) | _ => false end)
      || match lnext5_gen stp l o with Some l' => k7_5_gen te stp l' r | None => false end
  end.
Definition k7_5 := k7_5_gen take_enabled5 lstep5.
Definition k7_5_orig := k7_5_gen take_enabled5_orig lstep5_orig.

Lemma read_batch5_inv pkts : forall s buf, Inv5 s ->
  match read_batch5 s pkts buf with Ok (s', _) => Inv5 s' | Err (s', _) => Inv5 s' | Panic _ => False end.
Proof.
  induction pkts as [| pk pkts IH]; intros s buf I; cbn [read_batch5]; [exact I|].
  pose proof (handle_incoming_packet5_inv s pk I) as H.
  destruct (handle_incoming_packet5 s pk) as [[s' [rp|]] | [s' e] | t]; cbn [post5] in H; try exact H; apply IH; exact H.
Qed.

Lemma loop_clean5_spec l : Inv5 (st5 l) ->
  Inv5 (st5 (loop_clean5 l)) /\ connected5 (loop_clean5 l) = false /\ chan5 (loop_clean5 l) = [] /\
  held5 (st5 (loop_clean5 l)) = [] /\
  pending5 (loop_clean5 l) = held5 (st5 l) ++ pending5 l ++ filter not_puback5 (chan5 l).
Proof.
  intros I. unfold loop_clean5.
  pose proof (clean5_returns_held (st5 l)) as [H1 H2]. pose proof (clean5_inv (st5 l) I) as [I' _].
  destruct (clean5 (st5 l)) as [s' reqs]. cbn [fst snd] in *. cbn [st5 connected5 chan5 pending5].
  rewrite H1. split; [exact I'|]. split; [reflexivity|]. split; [reflexivity|]. split; [exact H2|reflexivity].
Qed.

Lemma next_request5_st l r l1 : next_request5 l = Some (r, l1) -> st5 l1 = st5 l.
Proof.
  unfold next_request5. intros En. destruct (pending5 l); [destruct (chan5 l); [discriminate|]|]; inversion En; reflexivity.
Qed.

(** one loop op keeps the state invariant, provided a TakeRequest5 honours the contract *)
Theorem lstep5_inv l o : Inv5 (st5 l) -> (o = TakeRequest5 -> take_ok5 l = true) ->
  match lstep5 l o with
  | Stepped5 l' => Inv5 (st5 l') | Failed5 l' _ => Inv5 (st5 l') | Disabled5 => True | LPanic5 _ => False
  end.
Proof.
  intros I Hok. unfold take_ok5, take_ok5_gen in Hok. destruct o; unfold lstep5; cbn [lstep5_gen].
  - exact I.
  - destruct (s5_events (st5 l)) eqn:E; [exact Logic.I|]. cbn [st5]. apply inv5_u_events. exact I.
  - specialize (Hok eq_refl). destruct (take_enabled5 l); [|exact Logic.I].
    destruct (next_request5 l) as [[r l1]|] eqn:En; [|exact Logic.I].
    rewrite (next_request5_st _ _ _ En) in *.
    pose proof (handle_outgoing_packet5_inv (st5 l) r I Hok) as H.
    destruct (handle_outgoing_packet5 (st5 l) r) as [[s' [pk|]] | [s' e] | t]; cbn [post5] in H; try exact H; try contradiction.
    apply (loop_clean5_spec (with_st5 l1 s')). exact H.
  - exact I.
  - destruct (arm_ready5 l && negb _); [|exact Logic.I].
    pose proof (read_batch5_inv pkts (st5 l) [] I) as H.
    destruct (read_batch5 (st5 l) pkts []) as [[s' rp] | [s' e] | t]; try exact H; try contradiction.
    apply (loop_clean5_spec (with_st5 l s')). exact H.
  - destruct (arm_ready5 l); [|exact Logic.I].
    pose proof (read_batch5_inv pkts (st5 l) [] I) as H.
    destruct (read_batch5 (st5 l) pkts []) as [[s' rp] | [s' e] | t]; try contradiction;
      apply (loop_clean5_spec (with_st5 l s')); exact H.
  - destruct (arm_ready5 l); [|exact Logic.I].
    pose proof (outgoing_ping5_inv (st5 l) I) as H. cbn [handle_outgoing_packet5].
    destruct (outgoing_ping5 (st5 l)) as [[s' [pk|]] | [s' e] | t]; cbn [post5] in H; try exact H; try contradiction.
    apply (loop_clean5_spec (with_st5 l s')). exact H.
  - destruct (connected5 l); [|exact Logic.I]. apply loop_clean5_spec. exact I.
  - destruct (connected5 l); [exact Logic.I|].
    pose proof (handle_incoming_packet5_inv (st5 l) (P5ConnAck session_present 0 receive_max topic_alias_max) I) as H.
    destruct (handle_incoming_packet5 (st5 l) _) as [[s' rp] | [s' e] | t]; cbn [post5] in H; try exact H; try contradiction.
    match goal with |- Inv5 (st5 (loop_clean5 ?x)) => apply (loop_clean5_spec x) end. exact H.
Qed.

Theorem lrun5_inv h : forall l, Inv5 (st5 l) -> k7_5 l h = false -> exists l', lrun5 l h = Some l' /\ Inv5 (st5 l').
Proof.
  induction h as [| o h IH]; intros l I Hk; [exists l; split; [reflexivity|exact I]|].
  unfold k7_5 in Hk. cbn [k7_5_gen] in Hk. fold k7_5 in Hk. apply orb_false_iff in Hk. destruct Hk as [Hk1 Hk2].
  assert (Hok : o = TakeRequest5 -> take_ok5 l = true).
  { intros ->. unfold take_ok5. destruct (take_ok5_gen take_enabled5 l); [reflexivity|discriminate]. }
  pose proof (lstep5_inv l o I Hok) as H. unfold lrun5. cbn [lrun5_gen]. fold lrun5. unfold lnext5_gen in *.
  destruct (lstep5 l o) as [l' | l' e | | t]; try contradiction; apply IH; assumption.
Qed.

Theorem lrun5_inv_init max manual h : 1 <= max -> max <= 65535 -> k7_5 (linit5 max manual) h = false ->
  exists l, lrun5 (linit5 max manual) h = Some l /\ Inv5 (st5 l).
Proof. intros H1 H2. apply lrun5_inv. cbn [linit5 st5]. apply inv5_init; assumption. Qed.

(** (h): a request — pending or from the channel — is taken iff the window negotiated at the last
    CONNACK is open and no collision is parked: a pure function of the current state *)
Theorem take_guard5 l :
  connected5 l = true -> s5_events (st5 l) = [] -> (pending5 l <> [] \/ chan5 l <> []) ->
  (take_enabled5 l = true <-> s5_inflight (st5 l) < s5_max (st5 l) /\ s5_collision (st5 l) = None).
Proof.
  intros Hc He Hp. unfold take_enabled5, inflight_full5. rewrite Hc, He. cbn [andb].
  assert (Hne : negb (match pending5 l, chan5 l with [], [] => true | _, _ => false end) = true).
  { destruct (pending5 l), (chan5 l); cbn; try reflexivity. destruct Hp; congruence. }
  rewrite Hne, andb_true_r.
  destruct (s5_collision (st5 l)); cbn [is_some negb]; split.
  - intros H. rewrite andb_false_r in H. discriminate.
  - intros [_ H]. discriminate.
  - intros H. rewrite andb_true_r in H. split; [lia|reflexivity].
  - intros [H _]. rewrite andb_true_r. lia.
Qed.

(** what a reconnect does, for a CONNACK the state machine accepts (receive-maximum absent or >= 1):
    the carried-over requests are kept iff the session is present; the slot tables and the parked
    collision are untouched; the window is renegotiated; the CONNACK notification is queued LAST *)
Lemma reconnect5_spec l sp rm tam : connected5 l = false -> rm <> Some 0 ->
  exists l', lstep5 l (Reconnect5 sp rm tam) = Stepped5 l' /\
    pending5 l' = (if sp then pending5 l else []) /\ chan5 l' = chan5 l /\ wire5 l' = [] /\ connected5 l' = true /\
    yielded5 l' = yielded5 l /\
    s5_pub (st5 l') = s5_pub (st5 l) /\ s5_rel (st5 l') = s5_rel (st5 l) /\ s5_collision (st5 l') = s5_collision (st5 l) /\
    s5_inflight (st5 l') = s5_inflight (st5 l) /\
    s5_events (st5 l') = s5_events (st5 l) ++ [Ev5In (P5ConnAck sp 0 rm tam)] /\
    s5_max (st5 l') = match rm with Some m => N.min m (s5_max_limit (st5 l)) | None => s5_max (st5 l) end.
Proof.
  intros Hc Hrm. unfold lstep5. cbn [lstep5_gen]. rewrite Hc.
  change (handle_incoming_packet5 (st5 l) (P5ConnAck sp 0 rm tam))
    with (handle_incoming_connack5 (push5 (st5 l) (Ev5In (P5ConnAck sp 0 rm tam))) 0 rm tam).
  destruct (handle_incoming_connack5_eff (push5 (st5 l) (Ev5In (P5ConnAck sp 0 rm tam))) 0 rm tam)
    as [[H _] | [[_ [H _]] | [_ [_ [s' [E [Hp [Hr [Hcol [Hml [_ [Hev [Hin [_ Hmx]]]]]]]]]]]]]]; [congruence|congruence|].
  rewrite E. eexists. split; [reflexivity|]. cbn [with_st5 pending5 chan5 wire5 connected5 yielded5 st5].
  sproj5. repeat split; assumption.
Qed.

(** C11: no session -> nothing carried over is sent *)
Theorem reconnect5_no_session l rm tam : connected5 l = false -> rm <> Some 0 ->
  exists l', lstep5 l (Reconnect5 false rm tam) = Stepped5 l' /\ pending5 l' = [] /\ wire5 l' = [] /\ connected5 l' = true.
Proof.
  intros Hc Hrm. destruct (reconnect5_spec l false rm tam Hc Hrm) as [l' [E [Hp [_ [Hw [Hcn _]]]]]].
  exists l'. repeat split; assumption.
Qed.

(** what [clean] leaves pending, without any invariant *)
Lemma loop_clean5_pending l :
  pending5 (loop_clean5 l) = held5 (st5 l) ++ pending5 l ++ filter not_puback5 (chan5 l) /\
  connected5 (loop_clean5 l) = false /\ chan5 (loop_clean5 l) = [] /\ held5 (st5 (loop_clean5 l)) = [] /\
  wire5 (loop_clean5 l) = wire5 l.
Proof.
  unfold loop_clean5. pose proof (clean5_returns_held (st5 l)) as [H1 H2].
  destruct (clean5 (st5 l)) as [s' reqs]. cbn [fst snd] in *. cbn [st5 connected5 chan5 pending5 wire5].
  rewrite H1. repeat split. exact H2.
Qed.

(** the refused CONNACK (receive-maximum 0: F37) ends the connection attempt (fix: commit 6b2911f,
    F38): poll() returns the error, clean() has run: the loop is disconnected, everything the state
    machine held and everything that was queued is pending for the next connection *)
Theorem reconnect5_refused_closes l sp tam : connected5 l = false ->
  exists l', lstep5 l (Reconnect5 sp (Some 0) tam) = Failed5 l' (LE5State (E5ConnFail 130)) /\
    connected5 l' = false /\ chan5 l' = [] /\ held5 (st5 l') = [] /\
    pending5 l' = held5 (st5 l) ++ (if sp then pending5 l else []) ++ filter not_puback5 (chan5 l).
Proof.
  intros Hc. unfold lstep5. cbn [lstep5_gen]. rewrite Hc.
  change (handle_incoming_packet5 (st5 l) (P5ConnAck sp 0 (Some 0) tam))
    with (handle_incoming_connack5 (push5 (st5 l) (Ev5In (P5ConnAck sp 0 (Some 0) tam))) 0 (Some 0) tam).
  destruct (handle_incoming_connack5_eff (push5 (st5 l) (Ev5In (P5ConnAck sp 0 (Some 0) tam))) 0 (Some 0) tam)
    as [[H _] | [[_ [_ E]] | [_ [H _]]]]; [congruence| |congruence].
  rewrite E. eexists. split; [reflexivity|].
  match goal with |- context [loop_clean5 ?x] => destruct (loop_clean5_pending x) as [Hp [Hcn [Hch [Hh _]]]] end.
  split; [exact Hcn|]. split; [exact Hch|]. split; [exact Hh|]. rewrite Hp. cbn [with_st5 pending5 chan5 st5].
  f_equal. unfold held5. destruct tam; cbn [alias_taken5]; sproj5; reflexivity.
Qed.

(** before commit 6b2911f ([lstep5_keep]): poll() returned the error, nothing was cleaned, the
    connection stayed up and in use with the previous connection's window *)
Theorem reconnect5_refused_kept_before_fix l sp tam : connected5 l = false ->
  exists l', lstep5_keep l (Reconnect5 sp (Some 0) tam) = Failed5 l' (LE5State (E5ConnFail 130)) /\
    connected5 l' = true /\ pending5 l' = (if sp then pending5 l else []) /\ s5_max (st5 l') = s5_max (st5 l) /\
    s5_pub (st5 l') = s5_pub (st5 l) /\ s5_rel (st5 l') = s5_rel (st5 l) /\ s5_collision (st5 l') = s5_collision (st5 l).
Proof.
  intros Hc. unfold lstep5_keep. cbn [lstep5_gen]. rewrite Hc.
  change (handle_incoming_packet5 (st5 l) (P5ConnAck sp 0 (Some 0) tam))
    with (handle_incoming_connack5 (push5 (st5 l) (Ev5In (P5ConnAck sp 0 (Some 0) tam))) 0 (Some 0) tam).
  destruct (handle_incoming_connack5_eff (push5 (st5 l) (Ev5In (P5ConnAck sp 0 (Some 0) tam))) 0 (Some 0) tam)
    as [[H _] | [[_ [_ E]] | [_ [H _]]]]; [congruence| |congruence].
  rewrite E. eexists. split; [reflexivity|]. cbn [with_st5 pending5 connected5 st5].
  destruct tam; cbn [alias_taken5]; sproj5; repeat split.
Qed.

(** C02 across a refused CONNACK: a failure followed by a reconnect whose CONNACK is refused loses
    nothing: every held publish / release is still pending when the loop is down again *)
Theorem resume_refused_holds_all5 l tam : Inv5 (st5 l) -> connected5 l = true ->
  exists l1 l2, lstep5 l Fail5 = Stepped5 l1 /\
    lstep5 l1 (Reconnect5 true (Some 0) tam) = Failed5 l2 (LE5State (E5ConnFail 130)) /\ connected5 l2 = false /\
    forall r, holds5 (st5 l) r -> List.In r (pending5 l2).
Proof.
  intros I Hc. destruct (loop_clean5_spec l I) as [I1 [Hc1 [Hch [Hh Hpend]]]].
  destruct (reconnect5_refused_closes (loop_clean5 l) true tam Hc1) as [l2 [E [Hcn [_ [_ Hp]]]]].
  exists (loop_clean5 l), l2. unfold lstep5 at 1. cbn [lstep5_gen]. rewrite Hc. split; [reflexivity|].
  split; [exact E|]. split; [exact Hcn|]. intros r Hr. rewrite Hp, Hpend.
  apply in_or_app. right. apply in_or_app. left. apply in_or_app. left. apply in_held5; assumption.
Qed.

(** C11 / C02: what a failure leaves for the next connection, and that it is served first *)
Theorem fail_then_resume5 l rm tam : Inv5 (st5 l) -> connected5 l = true -> rm <> Some 0 ->
  exists l1 l2,
    lstep5 l Fail5 = Stepped5 l1 /\ lstep5 l1 (Reconnect5 true rm tam) = Stepped5 l2 /\
    pending5 l2 = held5 (st5 l) ++ pending5 l ++ filter not_puback5 (chan5 l) /\ chan5 l2 = [] /\
    held5 (st5 l2) = [] /\ wire5 l2 = [] /\ connected5 l2 = true /\ Inv5 (st5 l2).
Proof.
  intros I Hc Hrm. destruct (loop_clean5_spec l I) as [I1 [Hc1 [Hch [Hh Hpend]]]].
  destruct (reconnect5_spec (loop_clean5 l) true rm tam Hc1 Hrm)
    as [l2 [E [Hp [Hch2 [Hw [Hcn [_ [Hpub [Hrel [Hcol _]]]]]]]]]].
  exists (loop_clean5 l), l2. unfold lstep5 at 1. cbn [lstep5_gen]. rewrite Hc. split; [reflexivity|].
  split; [exact E|]. split; [rewrite Hp; exact Hpend|]. split; [rewrite Hch2; exact Hch|].
  split; [unfold held5 in *; rewrite Hpub, Hrel, Hcol; exact Hh|]. split; [exact Hw|]. split; [exact Hcn|].
  pose proof (lstep5_inv (loop_clean5 l) (Reconnect5 true rm tam) I1 ltac:(discriminate)) as H. rewrite E in H. exact H.
Qed.

(** pending is drained before the channel, in order; with the window open and nothing parked the
    retransmission needs no stimulus *)
Theorem pending_first5 l r rest :
  pending5 l = r :: rest ->
  next_request5 l = Some (r, mkLoop5 (st5 l) rest (chan5 l) (connected5 l) (wire5 l) (yielded5 l)) /\
  (connected5 l = true -> s5_events (st5 l) = [] -> s5_inflight (st5 l) < s5_max (st5 l) -> s5_collision (st5 l) = None ->
   take_enabled5 l = true).
Proof.
  intros Hp. split; [unfold next_request5; rewrite Hp; reflexivity|].
  intros Hc He Hi Hcol. apply take_guard5; auto. left. rewrite Hp. discriminate.
Qed.

(** every held publish / release is pending after fail + resume *)
Theorem resume_holds_all5 l rm tam : Inv5 (st5 l) -> connected5 l = true -> rm <> Some 0 ->
  exists l1 l2, lstep5 l Fail5 = Stepped5 l1 /\ lstep5 l1 (Reconnect5 true rm tam) = Stepped5 l2 /\
    forall r, holds5 (st5 l) r -> List.In r (pending5 l2).
Proof.
  intros I Hc Hrm. destruct (fail_then_resume5 l rm tam I Hc Hrm) as [l1 [l2 [H1 [H2 [Hpend _]]]]].
  exists l1, l2. split; [exact H1|]. split; [exact H2|]. intros r Hr. rewrite Hpend.
  apply in_or_app. left. apply in_held5; assumption.
Qed.

(** ---- the v5 halves of F7 (commit a6a5e44) and F31 (commit 0960300), as model-level witnesses *)
Definition pq1_5 (tag : N) : request5 := R5Publish (mkPub5 Q1 0 tag tag None).
Definition f7_loop5_history : list lop5 :=
  [Reconnect5 true None None; Yield5; UserSend5 (pq1_5 1); TakeRequest5; Yield5; UserSend5 (pq1_5 2); UserSend5 (pq1_5 3);
   Fail5; Reconnect5 true None None; Yield5; TakeRequest5; Yield5; TakeRequest5; Yield5; TakeRequest5; Yield5].

Lemma f7_loop5_witness :
  k7_5_orig (linit5 1 false) f7_loop5_history = true /\
  option_map (fun l => (held5 (st5 l), pending5 l, chan5 l, wire5 l)) (lrun5_orig (linit5 1 false) f7_loop5_history)
  = Some ([R5Publish (mkPub5 Q1 1 1 1 None); R5Publish (mkPub5 Q1 1 3 3 None)], [], [], [P5Publish (mkPub5 Q1 1 1 1 None)])
  /\ k7_5 (linit5 1 false) f7_loop5_history = false /\
  option_map (fun l => (held5 (st5 l), pending5 l, chan5 l, wire5 l)) (lrun5 (linit5 1 false) f7_loop5_history)
  = Some ([R5Publish (mkPub5 Q1 1 1 1 None)], [pq1_5 2; pq1_5 3], [], [P5Publish (mkPub5 Q1 1 1 1 None)]).
Proof. vm_compute. repeat split. Qed.

Definition f31_loop5_history : list lop5 :=
  [Reconnect5 true None None; Yield5; UserSend5 (R5Publish (mkPub5 Q2 0 1 1 None)); TakeRequest5; Yield5;
   Net5 [P5PubRec 1 0]; Yield5; Yield5; UserSend5 (pq1_5 2); Fail5; Reconnect5 true None None; Yield5; TakeRequest5; Yield5;
   Fail5; Reconnect5 true None None; Yield5; TakeRequest5; Yield5].

Lemma f31_loop5_witness :
  option_map wire5 (lrun5_orig (linit5 1 false) f31_loop5_history) = Some [P5Publish (mkPub5 Q1 1 2 2 None)]
  /\ option_map (fun l => (wire5 l, pending5 l)) (lrun5 (linit5 1 false) f31_loop5_history) = Some ([P5PubRel 1 0], [pq1_5 2]).
Proof. vm_compute. split; reflexivity. Qed.

(** a non-trivial history on which K7 is false: a window of 3 lowered to 1 by the CONNACK of the
    resumed session, backlog, acks *)
Example k7_5_false_nontrivial :
  k7_5 (linit5 3 false)
     [Reconnect5 true None None; Yield5; UserSend5 (pq1_5 1); UserSend5 (pq1_5 2); UserSend5 (pq1_5 3); TakeRequest5; Yield5;
      TakeRequest5; Yield5; Fail5; Reconnect5 true (Some 1) None; Yield5; TakeRequest5; Yield5; TakeRequest5; Yield5;
      Net5 [P5PubAck 1 0]; Yield5; TakeRequest5; Yield5] = false.
Proof. vm_compute. reflexivity. Qed.

(** receive-maximum renegotiated by the resumed session's CONNACK closes the request arm at the new
    limit: window 3, two publishes in flight, resume with receive-maximum 1: one retransmission goes
    out, the second waits for the ack of the first *)
Example receive_max_renegotiated5 :
  option_map (fun l => (wire5 l, pending5 l, take_enabled5 l))
    (lrun5 (linit5 3 false)
       [Reconnect5 true None None; Yield5; UserSend5 (pq1_5 1); UserSend5 (pq1_5 2); TakeRequest5; Yield5; TakeRequest5; Yield5;
        Fail5; Reconnect5 true (Some 1) None; Yield5; TakeRequest5; Yield5; TakeRequest5])
  = Some ([P5Publish (mkPub5 Q1 1 1 1 None)], [R5Publish (mkPub5 Q1 2 2 2 None)], false).
Proof. vm_compute. reflexivity. Qed.

(** the read batch limit loses nothing: what one readb call does not take is left for the next *)
Theorem readb_take5_keeps_all inbox :
  fst (readb_take5 inbox) ++ snd (readb_take5 inbox) = inbox /\ (length (fst (readb_take5 inbox)) <= 9)%nat.
Proof. unfold readb_take5. cbn [fst snd]. split; [apply firstn_skipn|apply firstn_le_length]. Qed.

(** pending_throttle: a request arm that select() cancels during the throttle wait has taken nothing *)
Theorem throttle_cancel_safe5 l : lstep5 l TakeCancelled5 = Stepped5 l /\
  forall l', lstep5 l TakeCancelled5 = Stepped5 l' -> pending5 l' = pending5 l /\ chan5 l' = chan5 l /\ st5 l' = st5 l.
Proof. split; [reflexivity|]. intros l' H. inversion H. subst. auto. Qed.

(** clean() hands back slots ABOVE the negotiated limit too ([clean5_returns_held] quantifies over
    every state; [Inv5] only bounds ids by the configured limit): ids 1..3 in flight, 1 and 2
    acknowledged, failure, the resumed session lowers receive-maximum to 2, id 3 is retransmitted,
    second failure: the publish with id 3 (> s5_max = 2) is pending again *)
Definition above_limit5_history : list lop5 :=
  [Reconnect5 true None None; Yield5; UserSend5 (pq1_5 1); UserSend5 (pq1_5 2); UserSend5 (pq1_5 3);
   TakeRequest5; Yield5; TakeRequest5; Yield5; TakeRequest5; Yield5; Net5 [P5PubAck 1 0; P5PubAck 2 0]; Yield5; Yield5;
   Fail5; Reconnect5 true (Some 2) None; Yield5; TakeRequest5; Yield5].

Example clean_above_negotiated_limit5 :
  option_map (fun l => (s5_max (st5 l), held5 (st5 l))) (lrun5 (linit5 3 false) above_limit5_history)
  = Some (2, [R5Publish (mkPub5 Q1 3 3 3 None)]) /\
  option_map (fun l => (pending5 l, held5 (st5 l), connected5 l)) (lrun5 (linit5 3 false) (above_limit5_history ++ [Fail5]))
  = Some ([R5Publish (mkPub5 Q1 3 3 3 None)], [], false).
Proof. vm_compute. repeat split. Qed.

(** ---- K-C02-v5-alias (known finding): the class predicate over a loop history.  Some TakeRequest5
    of the history hands the state machine a CARRIED publish (preset id: it comes from a previous
    clean()) whose topic alias exceeds the alias maximum in force ([s5_alias_max]: set by the CONNACK of
    this connection, or left over from an earlier one): [outgoing_publish5] refuses it (InvalidAlias)
    after [next_request5] has consumed it — the accepted, unacknowledged publish is dropped. *)
Definition alias_refused5 (l : lstate5) : bool :=
  take_enabled5 l &&
  match next_request5 l with
  | Some (R5Publish p, l1) =>
      negb (q_pkid p =? 0) && match q_alias p with Some a => s5_alias_max (st5 l1) <? a | None => false end
  | _ => false
  end.

Fixpoint k_alias5 (l : lstate5) (h : list lop5) : bool :=
  match h with
  | [] => false
  | o :: r =>
      (match o with TakeRequest5 => alias_refused5 l | _ => false end)
      || match lnext5 l o with Some l' => k_alias5 l' r | None => false end
  end.

Definition k_alias5_witness_history : list lop5 :=
  [Reconnect5 true None (Some 10); Yield5; UserSend5 (R5Publish (mkPub5 Q1 0 1 1 (Some 5)));
   TakeRequest5; Yield5; Fail5; Reconnect5 true None (Some 3); Yield5; TakeRequest5].

Example k_alias5_witness :
  k_alias5 (linit5 2 false) k_alias5_witness_history = true /\
  (* the same history with an alias the resumed connection allows is outside the class, and the publish is retransmitted *)
  k_alias5 (linit5 2 false)
    [Reconnect5 true None (Some 10); Yield5; UserSend5 (R5Publish (mkPub5 Q1 0 1 1 (Some 3)));
     TakeRequest5; Yield5; Fail5; Reconnect5 true None (Some 3); Yield5; TakeRequest5] = false /\
  (* a publish refused on its FIRST attempt (no id yet: never accepted) is outside the class *)
  k_alias5 (linit5 2 false)
    [Reconnect5 true None (Some 3); Yield5; UserSend5 (R5Publish (mkPub5 Q1 0 1 1 (Some 5))); TakeRequest5] = false /\
  option_map (fun l => (pending5 l, held5 (st5 l), chan5 l, connected5 l)) (lrun5 (linit5 2 false) k_alias5_witness_history)
  = Some ([], [], [], false).
Proof. vm_compute. repeat split. Qed.

(** in the class the request is consumed ([next_request5]) and the poll fails with InvalidAlias: the
    loop that remains is [clean] of the loop WITHOUT that request *)
Lemma alias_refused5_drops l : alias_refused5 l = true ->
  exists p l1 a, next_request5 l = Some (R5Publish p, l1) /\ q_alias p = Some a /\
    lstep5 l TakeRequest5 = Failed5 (loop_clean5 l1) (LE5State (E5InvalidAlias a (s5_alias_max (st5 l1)))).
Proof.
  unfold alias_refused5. intros H. apply andb_true_iff in H. destruct H as [Hte H].
  destruct (next_request5 l) as [[r l1]|] eqn:En; [|discriminate]. destruct r as [p| | | | | | | | | | |]; try discriminate.
  apply andb_true_iff in H. destruct H as [_ H]. destruct (q_alias p) as [a|] eqn:Ea; [|discriminate].
  exists p, l1, a. split; [reflexivity|]. split; [exact Ea|].
  unfold lstep5. cbn [lstep5_gen]. rewrite Hte, En. cbn [handle_outgoing_packet5]. unfold outgoing_publish5. rewrite Ea, H.
  destruct l1; reflexivity.
Qed.

(** retransmit first over a SECOND failure while the replay is incomplete and the channel is not
    empty (v5): pending is 1, 2, 3 (original ids) and only then 4, 5 *)
Definition replay_cut5_history : list lop5 :=
  [Reconnect5 true None None; Yield5; UserSend5 (pq1_5 1); UserSend5 (pq1_5 2); UserSend5 (pq1_5 3);
   TakeRequest5; Yield5; TakeRequest5; Yield5; TakeRequest5; Yield5;
   Fail5; Reconnect5 true None None; Yield5; TakeRequest5; Yield5; UserSend5 (pq1_5 4); UserSend5 (pq1_5 5); Fail5].

Example second_failure_during_replay5 :
  option_map (fun l => (pending5 l, chan5 l)) (lrun5 (linit5 10 false) replay_cut5_history)
  = Some ([R5Publish (mkPub5 Q1 1 1 1 None); R5Publish (mkPub5 Q1 2 2 2 None); R5Publish (mkPub5 Q1 3 3 3 None); pq1_5 4; pq1_5 5], []) /\
  option_map wire5 (lrun5 (linit5 10 false)
    (replay_cut5_history ++ [Reconnect5 true None None; Yield5; TakeRequest5; Yield5; TakeRequest5; Yield5; TakeRequest5; Yield5;
                             TakeRequest5; Yield5; TakeRequest5; Yield5]))
  = Some [P5Publish (mkPub5 Q1 1 1 1 None); P5Publish (mkPub5 Q1 2 2 2 None); P5Publish (mkPub5 Q1 3 3 3 None);
          P5Publish (mkPub5 Q1 4 4 4 None); P5Publish (mkPub5 Q1 5 5 5 None)].
Proof. vm_compute. split; reflexivity. Qed.

Theorem clean5_keeps_pending_before_channel l :
  pending5 (loop_clean5 l) = held5 (st5 l) ++ pending5 l ++ filter not_puback5 (chan5 l) /\ chan5 (loop_clean5 l) = [].
Proof. destruct (loop_clean5_pending l) as [H [_ [H2 _]]]. split; assumption. Qed.

Lemma second_failure_during_replay5_pending :
  option_map (fun l => (pending5 l, chan5 l)) (lrun5 (linit5 10 false) replay_cut5_history)
  = Some ([R5Publish (mkPub5 Q1 1 1 1 None); R5Publish (mkPub5 Q1 2 2 2 None); R5Publish (mkPub5 Q1 3 3 3 None); pq1_5 4; pq1_5 5], []).
Proof. exact (proj1 second_failure_during_replay5). Qed.
