(** C10 for the v5 client state machine: every packet from the broker is surfaced once, first; the
    acknowledgement flows (with reason codes, topic aliases, CONNACK, server DISCONNECT);
    unsolicited acks are errors that leave the bookkeeping alone; every write is announced by
    exactly one matching Outgoing notification and vice versa.  Port of Client/Events4.v. *)
From Coq Require Import Arith ZifyBool ZifyN ZifyNat.
From Rumqtt Require Import Client.VecLemmas Client.State5 Client.Inv5 Client.Eff5 Client.Flow5 Client.Wire5.

(** the Outgoing notification that announces a written packet *)
Definition announce5 (pk : packet5) : option outgoing :=
  match pk with
  | P5Publish p => Some (OPublish (q_pkid p))
  | P5PubAck i _ => Some (OPubAck i) | P5PubRec i _ => Some (OPubRec i)
  | P5PubRel i _ => Some (OPubRel i) | P5PubComp i _ => Some (OPubComp i)
  | P5Subscribe i _ => Some (OSubscribe i) | P5Unsubscribe i _ => Some (OUnsubscribe i)
  | P5PingReq => Some OPingReq | P5PingResp => Some OPingResp | P5Disconnect _ => Some ODisconnect
  | P5Auth | P5Connect | P5ConnAck _ _ _ _ | P5SubAck _ | P5UnsubAck _ => None
  end.

Definition ann_list5 (rep : option packet5) : list event5 :=
  match rep with
  | Some pk => match announce5 pk with Some o => [Ev5Out o] | None => [] end
  | None => []
  end.

(** the notifications one op may queue, given what it handed to the network.  [AwaitAck] announces
    a non-write (the publish was parked) and is the only Outgoing notification without a write. *)
Definition writes_match5 (o : op5) (rep : option packet5) (evs : list event5) : Prop :=
  match o with
  | Inc5 pk => evs = Ev5In pk :: ann_list5 rep
  | Out5 (R5Publish p) => evs = ann_list5 rep \/ (rep = None /\ exists k, evs = [Ev5Out (OAwaitAck k)])
  | _ => evs = ann_list5 rep
  end.

Ltac ev_same5 Hn := cbn [out2_5] in Hn; inversion Hn; subst; sproj5; eexists; split; [reflexivity|]; cbn [writes_match5 ann_list5 announce5]; auto.
Ltac ev_nil5 Hn := cbn [out2_5] in Hn; inversion Hn; subst; sproj5; exists []; rewrite app_nil_r; split; [reflexivity|]; cbn [writes_match5 ann_list5]; auto.

Lemma place_publish5_events s1 p1 s' rep :
  Inv5 s1 -> s5_collision s1 = None -> 1 <= q_pkid p1 -> q_qos p1 <> Q0 ->
  out2_5 (place_publish5 s1 p1) = Some (s', rep) ->
  exists evs, s5_events s' = s5_events s1 ++ evs /\
    (evs = ann_list5 rep \/ (rep = None /\ exists k, evs = [Ev5Out (OAwaitAck k)])).
Proof.
  intros I1 Hc1 H1 Hq1 Hpl.
  destruct (place_publish5_eff s1 p1 I1 Hc1 H1 Hq1) as [[_ He] | [[Hle [Hb He]] | [Hle [Hb [l [Hl He]]]]]];
    rewrite He in Hpl; cbn [out2_5] in Hpl; inversion Hpl; subst s' rep; clear Hpl; sproj5.
  - exists []. rewrite app_nil_r. auto.
  - eexists. split; [reflexivity|]. right. eauto.
  - eexists. split; [reflexivity|]. left. reflexivity.
Qed.

Lemma ack_tail5_events s1 id s2 rep :
  Inv5 (u_collision s1 None) -> 1 <= id ->
  vget (s5_pub s1) id = Some None -> bit (s5_rel s1) id = false ->
  (forall q, s5_collision s1 = Some q -> q_qos q <> Q0) ->
  out2_5 (ack_tail5 s1 id) = Some (s2, rep) -> s5_events s2 = s5_events s1 ++ ann_list5 rep.
Proof.
  intros I H1 Hfree Hrel Hq Hres.
  destruct (ack_tail5_eff s1 id I H1 Hfree Hrel Hq) as [[q [l [Hc [Hid [Hl He]]]]] | [Hne He]];
    rewrite He in Hres; cbn [out2_5] in Hres; inversion Hres; subst s2 rep; clear Hres; sproj5.
  - cbn [ann_list5 announce5]. rewrite Hid. reflexivity.
  - cbn [ann_list5]. rewrite app_nil_r. reflexivity.
Qed.

Lemma free_pub_then_tail5_events s0 id p0 s' rep :
  Inv5 s0 -> vget (s5_pub s0) id = Some (Some p0) ->
  out2_5 (free_pub_then_tail5 s0 id) = Some (s', rep) -> s5_events s' = s5_events s0 ++ ann_list5 rep.
Proof.
  intros I1 Eg Hn.
  destruct (free_pub_then_tail5_eff s0 id p0 I1 Eg) as [l [Hl Hrest]].
  cbv zeta in Hrest. destruct Hrest as [He [H1 [Hpos [I2 [Hfree Hrel]]]]]. rewrite He in Hn.
  erewrite (ack_tail5_events _ id s' rep I2 H1); sproj5; eauto.
  intros q Hq. apply (j_coll s0 I1 q Hq).
Qed.

Theorem step5_events s o s' rep :
  Inv5 s -> op_ok5 s o = true -> outcome5 s o = Some (s', rep) ->
  exists evs, s5_events s' = s5_events s ++ evs /\ writes_match5 o rep evs.
Proof.
  intros I Hok Hn. destruct o as [rq | pk |]; [rewrite outcome5_out in Hn|rewrite outcome5_inc in Hn|rewrite outcome5_clean in Hn; discriminate].
  - destruct rq; cbn [op_ok5 api_request5] in Hok; try discriminate; cbn [handle_outgoing_packet5] in Hn.
    + cbn [writes_match5]. unfold outgoing_publish5 in Hn.
      destruct (match q_alias p with Some a => if s5_alias_max s <? a then Some a else None | None => None end).
      { cbn [out2_5] in Hn. inversion Hn. subst. exists []. rewrite app_nil_r. split; [reflexivity|]. left. reflexivity. }
      destruct (q_qos p) eqn:Eq.
      { cbn [out2_5] in Hn. inversion Hn. subst. sproj5. eexists. split; [reflexivity|]. left. reflexivity. }
      all: assert (Hc0 : s5_collision s = None) by (destruct (s5_collision s); cbn in Hok; congruence).
      all: destruct (N.eqb_spec (q_pkid p) 0) as [E0 | E0].
      all: try (destruct (next_pkid5_spec s I) as [v [Hnp [Hv Hid]]]; rewrite Hnp in Hn; cbn [bind] in Hn;
                apply (place_publish5_events (u_last_pkid s v) (with_pkid5 p (s5_last_pkid s + 1))) in Hn;
                [exact Hn|apply inv5_u_last_pkid; assumption|exact Hc0|cbn [q_pkid with_pkid5]; lia|cbn [q_qos with_pkid5]; congruence]).
      all: apply (place_publish5_events s p) in Hn; [exact Hn|exact I|exact Hc0|lia|congruence].
    + ev_same5 Hn.
    + ev_same5 Hn.
    + apply andb_true_iff in Hok. destruct Hok as [Hok Hb]. apply andb_true_iff in Hok. destruct Hok as [H1 H2].
      assert (Hbf : busy5 s id = false) by (destruct (busy5 s id); [discriminate|reflexivity]).
      destruct (outgoing_pubrel5_eff s id I ltac:(lia) ltac:(lia) Hbf) as [rl [Hrl He]].
      rewrite He in Hn. ev_same5 Hn.
    + unfold outgoing_ping5 in Hn. destruct (is_some (s5_collision s)); sproj5.
      * destruct (2 <=? s5_cpc s + 1); cbn [bind] in Hn; [ev_nil5 Hn|].
        sproj5. destruct (s5_await_pingresp s); [ev_nil5 Hn|ev_same5 Hn].
      * cbn [bind] in Hn. destruct (s5_await_pingresp s); [ev_nil5 Hn|ev_same5 Hn].
    + unfold outgoing_subscribe5 in Hn. destruct (n =? 0); [ev_nil5 Hn|].
      destruct (next_pkid5_spec s I) as [v [Hnp [Hv Hid]]]. rewrite Hnp in Hn. cbn [bind] in Hn. ev_same5 Hn.
    + unfold outgoing_unsubscribe5 in Hn.
      destruct (next_pkid5_spec s I) as [v [Hnp [Hv Hid]]]. rewrite Hnp in Hn. cbn [bind] in Hn. ev_same5 Hn.
    + ev_same5 Hn.
  - unfold handle_incoming_packet5 in Hn. cbn [writes_match5].
    pose proof (inv5_push s (Ev5In pk) I) as I1.
    assert (Hev : s5_events (push5 s (Ev5In pk)) = s5_events s ++ [Ev5In pk]) by reflexivity.
    set (s0 := push5 s (Ev5In pk)) in *. clearbody s0.
    assert (Hfin : forall t, s5_events s' = s5_events s0 ++ t -> t = ann_list5 rep ->
              exists evs, s5_events s' = s5_events s ++ evs /\ evs = Ev5In pk :: ann_list5 rep).
    { intros t Ht Ht'. exists (Ev5In pk :: t). rewrite Ht, Hev, <- app_assoc. subst t. split; reflexivity. }
    destruct pk; try (cbn [out2_5] in Hn; inversion Hn; subst; apply (Hfin []); [sproj5; rewrite app_nil_r; reflexivity|reflexivity]).
    + (* connack *)
      destruct (handle_incoming_connack5_eff s0 code receive_max topic_alias_max)
        as [[_ He] | [[_ [_ He]] | [_ [_ [s2 [He [_ [_ [_ [_ [_ [Hevs _]]]]]]]]]]]]; rewrite He in Hn; cbn [out2_5] in Hn; inversion Hn; subst s' rep.
      * apply (Hfin []); [rewrite app_nil_r; reflexivity|reflexivity].
      * apply (Hfin []); [rewrite app_nil_r; apply alias_taken5_slots|reflexivity].
      * apply (Hfin []); [rewrite app_nil_r; exact Hevs|reflexivity].
    + (* publish *)
      unfold handle_incoming_publish5, outgoing_puback5, outgoing_pubrec5, outgoing_disconnect5 in Hn.
      destruct (q_alias p) as [a|]; [destruct (negb (q_topic p =? 0)); [|destruct (iset_mem (s5_aliases s0) a)]|];
        destruct (q_qos p); sproj5; try destruct (s5_manual s0); cbn [out2_5] in Hn; inversion Hn; subst;
        first [apply (Hfin []); [sproj5; rewrite app_nil_r; reflexivity|reflexivity]
              |eapply Hfin; [sproj5; reflexivity|reflexivity]].
    + (* puback *)
      destruct (handle_incoming_puback5_eff s0 id reason I1) as [[_ He] | [p0 [Eg He]]]; rewrite He in Hn.
      { cbn [out2_5] in Hn. inversion Hn. subst. apply (Hfin []); [rewrite app_nil_r; reflexivity|reflexivity]. }
      eapply Hfin; [|reflexivity]. eapply free_pub_then_tail5_events; eauto.
    + (* pubrec *)
      destruct (handle_incoming_pubrec5_eff s0 id reason I1)
        as [[_ He] | [[Hno [p0 [Eg He]]] | [Hyes [p0 [l [rl [Eg [Hl [Hrl He]]]]]]]]]; rewrite He in Hn.
      * cbn [out2_5] in Hn. inversion Hn. subst. apply (Hfin []); [rewrite app_nil_r; reflexivity|reflexivity].
      * eapply Hfin; [|reflexivity]. eapply free_pub_then_tail5_events; eauto.
      * cbn [out2_5] in Hn. inversion Hn. subst. eapply Hfin; [sproj5; reflexivity|reflexivity].
    + unfold handle_incoming_pubrel5 in Hn. destruct (negb _); cbn [out2_5] in Hn; inversion Hn; subst.
      * apply (Hfin []); [rewrite app_nil_r; reflexivity|reflexivity].
      * eapply Hfin; [sproj5; reflexivity|reflexivity].
    + destruct (handle_incoming_pubcomp5_eff s0 id reason I1) as [[_ He] | [Hb [rl [Hrl Hrest]]]].
      { rewrite He in Hn. cbn [out2_5] in Hn. inversion Hn. subst. apply (Hfin []); [rewrite app_nil_r; reflexivity|reflexivity]. }
      cbv zeta in Hrest. destruct Hrest as [He [H1 [Hpos [I2 [Hfree Hrel]]]]]. rewrite He in Hn.
      eapply Hfin; [|reflexivity].
      erewrite (ack_tail5_events _ id s' rep I2 H1); sproj5; eauto.
      intros q Hq. apply (j_coll s0 I1 q Hq).
Qed.

(** ---- the inbound flows *)
(** an inbound publish names a topic alias the client has never been told *)
Definition alias_unknown5 (s : state5) (p : publish5) : bool :=
  match q_alias p with
  | Some a => (q_topic p =? 0) && negb (iset_mem (s5_aliases s) a)
  | None => false
  end.

Definition incoming_reply_spec5 (s : state5) (pk : packet5) (r : R5 (option packet5)) : Prop :=
  match pk with
  | P5Publish p =>
      if alias_unknown5 s p
      then (* protocol error: DISCONNECT 0x82 is written, nothing is acknowledged or recorded *)
        r = Ok (push5 (push5 s (Ev5In pk)) (Ev5Out ODisconnect), Some (P5Disconnect 130))
      else
        exists s', r = Ok (s', match q_qos p with
                               | Q0 => None
                               | Q1 => if s5_manual s then None else Some (P5PubAck (q_pkid p) 0)
                               | Q2 => if s5_manual s then None else Some (P5PubRec (q_pkid p) 0)
                               end)
                   /\ (q_qos p = Q2 -> iset_mem (s5_incoming s') (q_pkid p) = true)
                   /\ (forall a, q_alias p = Some a -> q_topic p <> 0 -> iset_mem (s5_aliases s') a = true)
                   /\ slots_eq5 s s' /\ s5_inflight s' = s5_inflight s
  | P5PubRel id _ =>
      if iset_mem (s5_incoming s) id
      then exists s', r = Ok (s', Some (P5PubComp id 0)) /\ iset_mem (s5_incoming s') id = false
      else r = Err (push5 s (Ev5In pk), E5Unsolicited id)
  | P5PubAck id _ => pub_at5 s id = None -> r = Err (push5 s (Ev5In pk), E5Unsolicited id)
  | P5PubRec id reason =>
      match pub_at5 s id with
      | None => r = Err (push5 s (Ev5In pk), E5Unsolicited id)
      | Some _ =>
          if ack_ok reason
          then exists s', r = Ok (s', Some (P5PubRel id 0)) /\ bit (s5_rel s') id = true /\ pub_at5 s' id = None
          else exists s' rep, r = Ok (s', rep) /\ bit (s5_rel s') id = false
      end
  | P5PubComp id _ => bit (s5_rel s) id = false -> r = Err (push5 s (Ev5In pk), E5Unsolicited id)
  | P5SubAck _ | P5UnsubAck _ => r = Ok (push5 s (Ev5In pk), None)
  | P5PingResp => exists s', r = Ok (s', None)
  | P5ConnAck _ code rm tam =>
      if code =? 0
      then match rm with
           | Some 0 => (* protocol error; only topic_alias_max, which the code reads first, was taken over *)
               r = Err (alias_taken5 (push5 s (Ev5In pk)) tam, E5ConnFail 130)
           | _ =>
           exists s', r = Ok (s', None) /\ s5_pub s' = s5_pub s /\ s5_rel s' = s5_rel s /\ s5_collision s' = s5_collision s
                      /\ s5_inflight s' = s5_inflight s /\ s5_incoming s' = s5_incoming s
                      /\ s5_events s' = s5_events s ++ [Ev5In pk]
                      /\ s5_max s' = match rm with Some m => N.min m (s5_max_limit s) | None => s5_max s end
           end
      else r = Err (push5 s (Ev5In pk), E5ConnFail code)
  | P5Disconnect reason => r = Err (push5 s (Ev5In pk), E5ServerDisconnect reason)
  | P5Auth | P5Connect | P5Subscribe _ _ | P5Unsubscribe _ _ | P5PingReq => r = Err (push5 s (Ev5In pk), E5WrongPacket)
  end.

Lemma iset_mem_add5 l i : iset_mem (iset_add l i) i = true.
Proof.
  unfold iset_add. destruct (iset_mem l i) eqn:E; [exact E|]. unfold iset_mem. cbn [existsb]. rewrite N.eqb_refl. reflexivity.
Qed.

Lemma iset_mem_del5 l i : iset_mem (iset_del l i) i = false.
Proof.
  unfold iset_mem, iset_del. induction l as [| x l IH]; [reflexivity|]. cbn [filter].
  destruct (N.eqb_spec i x); cbn [negb]; [exact IH|]. cbn [existsb]. rewrite IH.
  destruct (N.eqb_spec i x); [congruence|reflexivity].
Qed.

Theorem incoming_flow5 s pk : Inv5 s -> incoming_reply_spec5 s pk (handle_incoming_packet5 s pk).
Proof.
  intros I. pose proof (inv5_push s (Ev5In pk) I) as I1.
  destruct pk; cbn [incoming_reply_spec5 handle_incoming_packet5]; try reflexivity.
  - (* connack *)
    destruct (handle_incoming_connack5_eff (push5 s (Ev5In (P5ConnAck session_present code receive_max topic_alias_max)))
                code receive_max topic_alias_max)
      as [[Hc He] | [[Hc [Hz He]] | [Hc [Hnz [s2 [He [Hp [Hr [Hcl [_ [_ [Hev [Hin [Hinc Hm]]]]]]]]]]]]]]; rewrite He.
    + destruct (N.eqb_spec code 0); [congruence|reflexivity].
    + subst code receive_max. rewrite N.eqb_refl. reflexivity.
    + subst code. rewrite N.eqb_refl.
      destruct receive_max as [[|m]|]; [congruence| |]; exists s2; repeat split; auto.
  - (* publish *)
    unfold handle_incoming_publish5, outgoing_puback5, outgoing_pubrec5, outgoing_disconnect5, alias_unknown5. sproj5.
    destruct (q_alias p) as [a|] eqn:Ea.
    + destruct (N.eqb_spec (q_topic p) 0) as [Et | Et]; cbn [negb andb].
      * destruct (iset_mem (s5_aliases s) a) eqn:Em; cbn [negb]; [|reflexivity].
        destruct (q_qos p); sproj5; destruct (s5_manual s); eexists; (split; [reflexivity|]);
          (split; [try discriminate; intros _; sproj5; apply iset_mem_add5|]);
          (split; [intros a0 _ Hne; congruence|]); repeat split.
      * destruct (q_qos p); sproj5; destruct (s5_manual s); eexists; (split; [reflexivity|]);
          (split; [try discriminate; intros _; sproj5; apply iset_mem_add5|]);
          (split; [intros a0 Ha0 _; inversion Ha0; subst a0; sproj5; apply iset_mem_add5|]); repeat split.
    + destruct (q_qos p); sproj5; destruct (s5_manual s); eexists; (split; [reflexivity|]);
        (split; [try discriminate; intros _; sproj5; apply iset_mem_add5|]);
        (split; [intros a0 Ha0; discriminate|]); repeat split.
  - (* puback *)
    intros Hn. destruct (handle_incoming_puback5_eff _ id reason I1) as [[_ He] | [p0 [Eg _]]]; [exact He|].
    unfold pub_at5 in Hn. sproj5. rewrite Eg in Hn. discriminate.
  - (* pubrec *)
    destruct (handle_incoming_pubrec5_eff _ id reason I1)
      as [[Hnone He] | [[Hno [p0 [Eg He]]] | [Hyes [p0 [l [rl [Eg [Hl [Hrl He]]]]]]]]].
    + unfold pub_at5 in *. sproj5. destruct (vget (s5_pub s) id) as [[x|]|]; try discriminate; exact He.
    + unfold pub_at5. sproj5. rewrite Eg. rewrite Hno.
      pose proof (handle_incoming_pubrec5_inv _ id reason I1) as Hpost. rewrite He in *.
      destruct (free_pub_then_tail5_eff _ id p0 I1 Eg) as [l [Hl Hrest]].
      cbv zeta in Hrest. destruct Hrest as [He2 [H1 [Hpos [I2 [Hfree Hrel]]]]]. rewrite He2 in *.
      match goal with |- context [ack_tail5 ?s1 id] =>
        destruct (ack_tail5_keeps s1 id) with (s2 := match res_state5 (ack_tail5 s1 id) with Some x => x | None => s1 end)
          as [_ [_ [_ [_ Hrl]]]]; auto end.
      { intros q Hq. apply (j_coll _ I1 q Hq). }
      { destruct (ack_tail5 _ id) as [[s2 x] | [s2 e] | t]; cbn [res_state5 post5] in *; [reflexivity|reflexivity|contradiction]. }
      destruct (ack_tail5 _ id) as [[s2 x] | [s2 e] | t] eqn:Et; cbn [res_state5 post5] in *; [| |contradiction].
      * exists s2, x. split; [reflexivity|]. rewrite Hrl. sproj5. exact Hrel.
      * exfalso. destruct (ack_tail5_eff _ id I2 H1 Hfree Hrel) as [[q [l' [_ [_ [_ He3]]]]] | [_ He3]];
          try (rewrite He3 in Et; discriminate). intros q Hq. apply (j_coll _ I1 q Hq).
    + unfold pub_at5. sproj5. rewrite Eg. rewrite Hyes. rewrite He. eexists. split; [reflexivity|]. sproj5.
      split; [rewrite (bit_vset _ _ _ id _ Hrl), N.eqb_refl; reflexivity|].
      unfold pub_at5. sproj5. rewrite (vget_vset_same _ _ _ _ Hl). reflexivity.
  - (* pubrel *)
    unfold handle_incoming_pubrel5. sproj5. destruct (iset_mem (s5_incoming s) id); cbn [negb]; [|reflexivity].
    eexists. split; [reflexivity|]. sproj5. apply iset_mem_del5.
  - (* pubcomp *) intros Hb. unfold handle_incoming_pubcomp5. sproj5. rewrite Hb. reflexivity.
  - eexists. reflexivity.
Qed.

(** never a panic (so [inflight -= 1] never underflows and no table index is out of range) — for
    EVERY incoming packet; the invariant survives too ([handle_incoming_packet5_inv]) *)
Theorem incoming_never_panics5 s pk : Inv5 s ->
  match handle_incoming_packet5 s pk with Panic _ => False | _ => True end.
Proof.
  intros I. pose proof (handle_incoming_packet5_inv s pk I) as H.
  destruct (handle_incoming_packet5 s pk) as [[? ?] | [? ?] | ?]; cbn [post5] in H; auto.
Qed.

(** ---- run level: the notification queue of a whole history is the concatenation, op by op, of
    what [writes_match5] allows — nothing else is ever queued *)
Theorem run5_events max manual h o s s' rep :
  1 <= max -> max <= 65535 -> contract5 (init5 max manual) (h ++ [o]) = true ->
  run5 (init5 max manual) h = Some s -> outcome5 s o = Some (s', rep) ->
  exists evs, s5_events s' = s5_events s ++ evs /\ writes_match5 o rep evs.
Proof.
  intros H1 H2 Hc Hr Ho. pose proof (inv5_init max manual H1 H2) as I0.
  destruct (contract5_last _ h o s I0 Hc Hr) as [I Hok]. apply step5_events; assumption.
Qed.

(** the statements apply to non-trivial reachable states: manual acks off and on, a known and an
    unknown topic alias, a refusing PUBREC, an unsolicited PUBCOMP above the limit, server DISCONNECT *)
Example events5_nontrivial :
  let h := [Inc5 (P5Publish (mkPub5 Q1 7 5 1 (Some 3))); Inc5 (P5Publish (mkPub5 Q2 8 0 1 (Some 3)));
            Inc5 (P5PubRel 8 146); Out5 (R5Publish (mkPub5 Q2 0 1 1 None)); Inc5 (P5PubRec 1 135);
            Inc5 (P5PubComp 60000 0); Inc5 (P5Publish (mkPub5 Q1 9 0 1 (Some 4))); Inc5 (P5Disconnect 139)] in
  contract5 (init5 2 false) h = true /\
  trace5 (init5 2 false) h =
    [Some (P5PubAck 7 0); Some (P5PubRec 8 0); Some (P5PubComp 8 0); Some (P5Publish (mkPub5 Q2 1 1 1 None)); None;
     None; Some (P5Disconnect 130); None] /\
  option_map (fun s => (s5_events s, s5_inflight s)) (run5 (init5 2 false) h) =
    Some ([Ev5In (P5Publish (mkPub5 Q1 7 5 1 (Some 3))); Ev5Out (OPubAck 7);
           Ev5In (P5Publish (mkPub5 Q2 8 0 1 (Some 3))); Ev5Out (OPubRec 8);
           Ev5In (P5PubRel 8 146); Ev5Out (OPubComp 8);
           Ev5Out (OPublish 1); Ev5In (P5PubRec 1 135); Ev5In (P5PubComp 60000 0);
           Ev5In (P5Publish (mkPub5 Q1 9 0 1 (Some 4))); Ev5Out ODisconnect; Ev5In (P5Disconnect 139)], 0).
Proof. vm_compute. repeat split. Qed.

Example events5_manual_acks :
  trace5 (init5 2 true) [Inc5 (P5Publish (mkPub5 Q1 7 5 1 None)); Inc5 (P5Publish (mkPub5 Q2 8 5 1 None)); Inc5 (P5PubRel 8 0)]
  = [None; None; Some (P5PubComp 8 0)].
Proof. vm_compute. reflexivity. Qed.
