(** C07 (d), (e), (g) for the v5 client state machine: ids on the wire, freshness of the id of
    every publish put on the wire, ids are freed only by their final acknowledgement, a parked
    collision is resolved by the acknowledgement of its id.  Port of Client/Wire4.v.

    Two limits exist in v5: [s5_max_limit] (configured; the size of the tables) and [s5_max]
    (negotiated: CONNACK's receive-maximum, changes at any later CONNACK).  What the code guarantees:
    an id ALLOCATED by the state machine lies in 1..[s5_max] of that moment; an id it is HANDED
    (a replayed publish / release, the resolution of a parked collision, the PUBREL answering a
    PUBREC) lies in 1..[s5_max_limit].  All of them lie in 1..[s5_max] as long as nothing held is
    above [s5_max] ([low5]), which every op keeps except the two named in [op_low5]. *)
From Coq Require Import Arith ZifyBool ZifyN ZifyNat.
From Rumqtt Require Import Client.VecLemmas Client.State5 Client.Inv5 Client.Eff5 Client.Flow5.

Definition wire_id_ok5 (max : N) (pk : packet5) : Prop :=
  match pk with
  | P5Publish p => q_qos p <> Q0 -> 1 <= q_pkid p <= max
  | P5Subscribe id _ | P5Unsubscribe id _ | P5PubRel id _ => 1 <= id <= max
  | _ => True
  end.

Lemma wire_id_ok5_mono a b pk : a <= b -> wire_id_ok5 a pk -> wire_id_ok5 b pk.
Proof. intros Hab H. destruct pk; cbn [wire_id_ok5] in *; try exact I; try lia. Qed.

(** what one op yields: next state and the packet handed to the network, if any *)
Definition out2_5 (r : R5 (option packet5)) : option (state5 * option packet5) :=
  match r with Ok (s', p) => Some (s', p) | Err (s', _) => Some (s', None) | Panic _ => None end.

Definition outcome5 (s : state5) (o : op5) : option (state5 * option packet5) :=
  match step5 s o with
  | Ok (s', Wrote5 p) => Some (s', p)
  | Ok (_, Cleaned5 _) => None
  | Err (s', _) => Some (s', None)
  | Panic _ => None
  end.

Lemma outcome5_out s r : outcome5 s (Out5 r) = out2_5 (handle_outgoing_packet5 s r).
Proof. unfold outcome5. cbn [step5]. destruct (handle_outgoing_packet5 s r) as [[? ?] | [? ?] | ?]; reflexivity. Qed.
Lemma outcome5_inc s pk : outcome5 s (Inc5 pk) = out2_5 (handle_incoming_packet5 s pk).
Proof. unfold outcome5. cbn [step5]. destruct (handle_incoming_packet5 s pk) as [[? ?] | [? ?] | ?]; reflexivity. Qed.
Lemma outcome5_clean s : outcome5 s Clean5 = None.
Proof. unfold outcome5. cbn [step5]. destruct (clean5 s). reflexivity. Qed.

(** the op asks the state machine to allocate the id *)
Definition fresh_id5 (o : op5) : bool :=
  match o with
  | Out5 (R5Publish p) => q_pkid p =? 0
  | Out5 (R5Subscribe _) | Out5 (R5Unsubscribe _) => true
  | _ => false
  end.

(** the op is a final word of the broker on id [i]: PUBACK / PUBCOMP (any reason code), or a
    PUBREC that refuses the publish *)
Definition frees5 (o : op5) (i : N) : Prop :=
  match o with
  | Inc5 (P5PubAck j _) | Inc5 (P5PubComp j _) => j = i
  | Inc5 (P5PubRec j reason) => j = i /\ ack_ok reason = false
  | _ => False
  end.

Definition is_connack5 (o : op5) : bool :=
  match o with Inc5 (P5ConnAck _ _ _ _) => true | _ => false end.

Definition wire_facts5 (s : state5) (o : op5) (s' : state5) (rep : option packet5) : Prop :=
  (forall pk, rep = Some pk -> wire_id_ok5 (s5_max_limit s) pk) /\
  (forall id n, rep = Some (P5Subscribe id n) \/ rep = Some (P5Unsubscribe id n) -> 1 <= id <= s5_max s) /\
  (forall p, rep = Some (P5Publish p) -> q_qos p <> Q0 ->
     vget (s5_pub s') (q_pkid p) = Some (Some p) /\
     ((busy5 s (q_pkid p) = false /\
       exists r, o = Out5 (R5Publish r) /\ p = with_pkid5 r (q_pkid p) /\ (q_pkid r <> 0 -> q_pkid p = q_pkid r)
                 /\ (q_pkid r = 0 -> q_pkid p <= s5_max s))
      \/ (frees5 o (q_pkid p) /\ s5_collision s = Some p))) /\
  (forall id x, rep = Some (P5PubRel id x) ->
     o = Out5 (R5PubRel id)
     \/ exists reason, o = Inc5 (P5PubRec id reason) /\ ack_ok reason = true /\ pub_at5 s id <> None) /\
  (forall i, busy5 s i = true -> busy5 s' i = false -> frees5 o i) /\
  (forall i, busy5 s i = false -> busy5 s' i = true ->
     (exists p, rep = Some (P5Publish p) /\ q_pkid p = i /\ q_qos p <> Q0) \/ o = Out5 (R5PubRel i)) /\
  (is_connack5 o = false -> s5_max s' = s5_max s).

Lemma wire_same5 s o s' rep :
  Inv5 s -> slots_eq5 s s' ->
  (forall pk, rep = Some pk -> wire_id_ok5 (s5_max s) pk) ->
  (forall p, rep = Some (P5Publish p) -> q_qos p = Q0) ->
  (forall id x, rep <> Some (P5PubRel id x)) ->
  wire_facts5 s o s' rep.
Proof.
  intros I [Hp [Hr [_ [Hm _]]]] Hid Hq Hnr.
  assert (Hb : forall i, busy5 s' i = busy5 s i) by (intros i; unfold busy5; rewrite Hp, Hr; reflexivity).
  split; [|split; [|split; [|split; [|split; [|split]]]]].
  - intros pk Hpk. eapply wire_id_ok5_mono; [apply (j_maxle s I)|auto].
  - intros id n [H | H]; apply Hid in H; exact H.
  - intros p Hrep Hq0. rewrite (Hq p Hrep) in Hq0. congruence.
  - intros id x H. exfalso. apply (Hnr id x H).
  - intros i H1 H2. rewrite Hb in H2. congruence.
  - intros i H1 H2. rewrite Hb in H2. congruence.
  - intros _. exact Hm.
Qed.

Ltac same5 I Hn :=
  cbn [out2_5] in Hn; inversion Hn; subst; apply wire_same5;
  [exact I | repeat split | intros pk Hpk; inversion Hpk; subst; cbn [wire_id_ok5]; auto | intros p0 Hp0; try discriminate
  | intros id0 x0 Hx0; discriminate].

(** the shared tail again, now for the wire facts *)
Lemma ack_tail5_wire s1 id s2 rep :
  Inv5 (u_collision s1 None) -> 1 <= id ->
  vget (s5_pub s1) id = Some None -> bit (s5_rel s1) id = false ->
  (forall q, s5_collision s1 = Some q -> q_qos q <> Q0) ->
  out2_5 (ack_tail5 s1 id) = Some (s2, rep) ->
  (forall j, j <> id -> busy5 s2 j = busy5 s1 j) /\ s5_max s2 = s5_max s1 /\
  (rep = None \/ exists q, rep = Some (P5Publish q) /\ q_pkid q = id /\ s5_collision s1 = Some q /\ s5_collision s2 = None
                            /\ vget (s5_pub s2) id = Some (Some q)).
Proof.
  intros I H1 Hfree Hrel Hq Hres.
  destruct (ack_tail5_eff s1 id I H1 Hfree Hrel Hq) as [[q [l [Hc [Hid [Hl He]]]]] | [Hne He]];
    rewrite He in Hres; cbn [out2_5] in Hres; inversion Hres; subst s2 rep; clear Hres.
  - split; [|split; [reflexivity|]].
    + intros j Hj. unfold busy5. sproj5. rewrite (vget_vset_other _ _ _ _ _ Hl); auto.
    + right. exists q. sproj5. repeat split; auto. eapply vget_vset_same; eauto.
  - split; auto.
Qed.

(** assembling the facts for an op that is a final word on id [id] *)
Lemma freed_wire5 s o s1 id s' rep :
  Inv5 s -> busy5 s id = true -> frees5 o id ->
  (forall j, j <> id -> busy5 s1 j = busy5 s j) -> s5_collision s1 = s5_collision s -> s5_max s1 = s5_max s ->
  (forall j, j <> id -> busy5 s' j = busy5 s1 j) -> s5_max s' = s5_max s1 ->
  (rep = None \/ exists q, rep = Some (P5Publish q) /\ q_pkid q = id /\ s5_collision s1 = Some q /\ s5_collision s' = None
                            /\ vget (s5_pub s') id = Some (Some q)) ->
  wire_facts5 s o s' rep.
Proof.
  intros I Hb Hf Hk1 Hc1 Hm1 Hk2 Hm2 Hrep.
  destruct (inv5_busy_le s id I Hb) as [Hid1 Hid2].
  split; [|split; [|split; [|split; [|split; [|split]]]]].
  - intros pk Hpk. destruct Hrep as [-> | [q [-> [Hq1 _]]]]; [discriminate|]. inversion Hpk. subst pk.
    cbn [wire_id_ok5]. intros _. rewrite Hq1. lia.
  - intros id0 n [H | H]; destruct Hrep as [-> | [q [-> _]]]; discriminate.
  - intros p Hp Hq. destruct Hrep as [-> | [q [Hr [Hq1 [Hcq [_ Hv]]]]]]; [discriminate|].
    rewrite Hr in Hp. inversion Hp. subst p. rewrite Hq1. split; [exact Hv|]. right. split; [exact Hf|congruence].
  - intros id0 x H. destruct Hrep as [-> | [q [-> _]]]; discriminate.
  - intros i Hbi Hbi'. destruct (N.eq_dec i id) as [-> | E]; [exact Hf|exfalso].
    rewrite (Hk2 i E), (Hk1 i E) in Hbi'. congruence.
  - intros i Hbi Hbi'. exfalso. destruct (N.eq_dec i id) as [-> | E]; [congruence|].
    rewrite (Hk2 i E), (Hk1 i E) in Hbi'. congruence.
  - intros _. congruence.
Qed.

Lemma place_publish5_wire s0 r s1 p1 s' rep :
  Inv5 s0 -> Inv5 s1 -> s5_collision s1 = None -> 1 <= q_pkid p1 -> q_qos p1 <> Q0 ->
  s5_pub s1 = s5_pub s0 -> s5_rel s1 = s5_rel s0 -> s5_max_limit s1 = s5_max_limit s0 -> s5_max s1 = s5_max s0 ->
  p1 = with_pkid5 r (q_pkid p1) -> (q_pkid r <> 0 -> q_pkid p1 = q_pkid r) -> (q_pkid r = 0 -> q_pkid p1 <= s5_max s0) ->
  out2_5 (place_publish5 s1 p1) = Some (s', rep) -> wire_facts5 s0 (Out5 (R5Publish r)) s' rep.
Proof.
  intros I0 I1 Hc1 H1 Hq1 Hp Hr Hl Hm Hp1 Hpre Hfresh Hpl.
  assert (Hbusy : forall j, busy5 s1 j = busy5 s0 j) by (intros j; unfold busy5; rewrite Hp, Hr; reflexivity).
  destruct (place_publish5_eff s1 p1 I1 Hc1 H1 Hq1) as [[_ He] | [[Hle [Hb He]] | [Hle [Hb [l [Hvl He]]]]]];
    rewrite He in Hpl; cbn [out2_5] in Hpl; inversion Hpl; subst s' rep; clear Hpl.
  - split; [intros pk Hpk; discriminate|]. split; [intros id0 n [H | H]; discriminate|]. split; [intros p0 Hp0; discriminate|].
    split; [intros id0 x H; discriminate|].
    split; [|split]; [intros i Hbi Hbi'|intros i Hbi Hbi'|intros _; exact Hm]; rewrite Hbusy in Hbi'; congruence.
  - split; [intros pk Hpk; discriminate|]. split; [intros id0 n [H | H]; discriminate|]. split; [intros p0 Hp0; discriminate|].
    split; [intros id0 x H; discriminate|].
    split; [|split]; [intros i Hbi Hbi'|intros i Hbi Hbi'|intros _; exact Hm]; rewrite <- Hbusy in Hbi; unfold busy5 in *; sproj5; congruence.
  - split; [|split; [|split; [|split; [|split; [|split]]]]].
    + intros pk Hpk. inversion Hpk. subst pk. cbn [wire_id_ok5]. intros _. lia.
    + intros id0 n [H | H]; discriminate.
    + intros p0 Hp0 _. inversion Hp0. subst p0. sproj5. split; [eapply vget_vset_same; eauto|].
      left. rewrite <- Hbusy. split; [exact Hb|]. exists r. auto.
    + intros id0 x H. discriminate.
    + intros i Hbi Hbi'. exfalso. rewrite <- Hbusy in Hbi. unfold busy5 in *. sproj5.
      rewrite (vget_vset _ _ _ i _ Hvl) in Hbi'. destruct (q_pkid p1 =? i); [discriminate|congruence].
    + intros i Hbi Hbi'. left. exists p1. split; [reflexivity|]. split; [|exact Hq1].
      destruct (N.eq_dec (q_pkid p1) i) as [E | E]; [exact E|exfalso].
      rewrite <- Hbusy in Hbi. unfold busy5 in *. sproj5. rewrite (vget_vset_other _ _ _ _ _ Hvl) in Hbi'; auto. congruence.
    + intros _. sproj5. exact Hm.
Qed.

Lemma publish5_wire s p s' rep :
  Inv5 s -> s5_collision s = None -> q_qos p <> Q0 ->
  out2_5 (outgoing_publish5 s p) = Some (s', rep) -> wire_facts5 s (Out5 (R5Publish p)) s' rep.
Proof.
  intros I Hc Hq Hn. unfold outgoing_publish5 in Hn.
  destruct (match q_alias p with Some a => if s5_alias_max s <? a then Some a else None | None => None end).
  { same5 I Hn. }
  destruct (q_qos p) eqn:Eq; [congruence| |].
  all: destruct (N.eqb_spec (q_pkid p) 0) as [E0 | E0].
  all: try (destruct (next_pkid5_spec s I) as [v [Hnp [Hv Hid]]]; rewrite Hnp in Hn; cbn [bind] in Hn;
            apply (place_publish5_wire s p (u_last_pkid s v) (with_pkid5 p (s5_last_pkid s + 1)));
            [exact I|apply inv5_u_last_pkid; assumption|exact Hc|cbn [q_pkid with_pkid5]; lia|cbn [q_qos with_pkid5]; congruence
            |reflexivity|reflexivity|reflexivity|reflexivity|reflexivity|intros; congruence|cbn [q_pkid with_pkid5]; intros; lia|exact Hn]).
  all: apply (place_publish5_wire s p s p);
       [exact I|exact I|exact Hc|lia|congruence|reflexivity|reflexivity|reflexivity|reflexivity
       |destruct p; reflexivity|reflexivity|intros; congruence|exact Hn].
Qed.

Theorem step5_wire s o s' rep :
  Inv5 s -> op_ok5 s o = true -> outcome5 s o = Some (s', rep) -> wire_facts5 s o s' rep.
Proof.
  intros I Hok Hn. destruct o as [rq | pk |]; [rewrite outcome5_out in Hn|rewrite outcome5_inc in Hn|rewrite outcome5_clean in Hn; discriminate].
  - destruct rq; cbn [op_ok5 api_request5] in Hok; try discriminate; cbn [handle_outgoing_packet5] in Hn.
    + (* publish *)
      destruct (q_qos p) eqn:Eq.
      { unfold outgoing_publish5 in Hn. rewrite Eq in Hn.
        destruct (match q_alias p with Some a => if s5_alias_max s <? a then Some a else None | None => None end).
        { same5 I Hn. }
        cbn [out2_5] in Hn. inversion Hn. subst. apply wire_same5.
        - exact I.
        - repeat split.
        - intros pk Hpk. inversion Hpk. subst. cbn [wire_id_ok5]. congruence.
        - intros p0 Hp0. inversion Hp0. subst. exact Eq.
        - intros id0 x0 Hx0. discriminate. }
      all: assert (Hc0 : s5_collision s = None) by (destruct (s5_collision s); cbn in Hok; congruence).
      all: apply publish5_wire; [exact I|exact Hc0|congruence|exact Hn].
    + same5 I Hn.
    + same5 I Hn.
    + (* replayed release *)
      apply andb_true_iff in Hok. destruct Hok as [Hok Hb]. apply andb_true_iff in Hok. destruct Hok as [H1 H2].
      assert (Hbf : busy5 s id = false) by (destruct (busy5 s id); [discriminate|reflexivity]).
      destruct (outgoing_pubrel5_eff s id I ltac:(lia) ltac:(lia) Hbf) as [rl [Hrl He]].
      rewrite He in Hn. cbn [out2_5] in Hn. inversion Hn. subst s' rep.
      split; [|split; [|split; [|split; [|split; [|split]]]]].
      * intros pk Hpk. inversion Hpk. cbn [wire_id_ok5]. lia.
      * intros id0 n [H | H]; discriminate.
      * intros p0 Hp0. discriminate.
      * intros id0 x H. inversion H. left. reflexivity.
      * intros i Hbi Hbi'. exfalso. unfold busy5 in *. sproj5. rewrite (bit_vset _ _ _ i _ Hrl) in Hbi'.
        destruct (id =? i); [rewrite orb_true_r in Hbi'; discriminate|congruence].
      * intros i Hbi Hbi'. right. f_equal. f_equal. unfold busy5 in *. sproj5. rewrite (bit_vset _ _ _ i _ Hrl) in Hbi'.
        destruct (N.eqb_spec id i); [assumption|congruence].
      * reflexivity.
    + unfold outgoing_ping5 in Hn. destruct (is_some (s5_collision s)); sproj5.
      * destruct (2 <=? s5_cpc s + 1); cbn [bind] in Hn; [same5 I Hn|].
        sproj5. destruct (s5_await_pingresp s); same5 I Hn.
      * cbn [bind] in Hn. destruct (s5_await_pingresp s); same5 I Hn.
    + unfold outgoing_subscribe5 in Hn. destruct (n =? 0); [same5 I Hn|].
      destruct (next_pkid5_spec s I) as [v [Hnp [Hv Hid]]]. rewrite Hnp in Hn. cbn [bind] in Hn. same5 I Hn.
    + unfold outgoing_unsubscribe5 in Hn.
      destruct (next_pkid5_spec s I) as [v [Hnp [Hv Hid]]]. rewrite Hnp in Hn. cbn [bind] in Hn. same5 I Hn.
    + same5 I Hn.
  - (* packet from the broker *)
    unfold handle_incoming_packet5 in Hn.
    pose proof (inv5_push s (Ev5In pk) I) as I1.
    assert (Hbusy : forall j, busy5 (push5 s (Ev5In pk)) j = busy5 s j) by reflexivity.
    assert (Hmax : s5_max (push5 s (Ev5In pk)) = s5_max s) by reflexivity.
    assert (Hcol : s5_collision (push5 s (Ev5In pk)) = s5_collision s) by reflexivity.
    assert (Hseq : slots_eq5 s (push5 s (Ev5In pk))) by (repeat split).
    set (s0 := push5 s (Ev5In pk)) in *. clearbody s0.
    assert (Hsame : forall s1 rp, slots_eq5 s0 s1 -> (forall pk0, rp = Some pk0 -> wire_id_ok5 (s5_max s) pk0) ->
              (forall p0, rp = Some (P5Publish p0) -> q_qos p0 = Q0) -> (forall id0 x0, rp <> Some (P5PubRel id0 x0)) ->
              wire_facts5 s (Inc5 pk) s1 rp).
    { intros s1 rp Heq Hid Hq0 Hnr. apply wire_same5; auto.
      destruct Hseq as [A1 [A2 [A3 [A4 [A5 A6]]]]]. destruct Heq as [B1 [B2 [B3 [B4 [B5 B6]]]]].
      repeat split; congruence. }
    destruct pk; try (cbn [out2_5] in Hn; inversion Hn; subst; apply Hsame;
                      [repeat split | intros pk0 Hpk0; discriminate | intros p0 Hp0; discriminate | intros id0 x0 Hx0; discriminate]).
    + (* connack *)
      destruct (handle_incoming_connack5_eff s0 code receive_max topic_alias_max)
        as [[_ He] | [[_ [_ He]] | [_ [_ [s2 [He [Hp [Hr [Hc _]]]]]]]]]; rewrite He in Hn; cbn [out2_5] in Hn; inversion Hn; subst s' rep.
      { apply Hsame; [apply slots_eq5_refl | intros pk0 Hpk0; discriminate | intros p1 Hp1; discriminate | intros id0 x0 Hx0; discriminate]. }
      { apply Hsame; [apply alias_taken5_slots | intros pk0 Hpk0; discriminate | intros p1 Hp1; discriminate | intros id0 x0 Hx0; discriminate]. }
      assert (Hb2 : forall i, busy5 s2 i = busy5 s i) by (intros i; rewrite <- Hbusy; unfold busy5; rewrite Hp, Hr; reflexivity).
      split; [intros pk0 Hpk0; discriminate|]. split; [intros id0 n [H | H]; discriminate|]. split; [intros p0 Hp0; discriminate|].
      split; [intros id0 x H; discriminate|].
      split; [|split]; [intros i Hbi Hbi'; rewrite Hb2 in Hbi'; congruence|intros i Hbi Hbi'; rewrite Hb2 in Hbi'; congruence|].
      cbn [is_connack5]. discriminate.
    + (* publish *) unfold handle_incoming_publish5, outgoing_puback5, outgoing_pubrec5, outgoing_disconnect5 in Hn.
      destruct (q_alias p) as [a|]; [destruct (negb (q_topic p =? 0)); [|destruct (iset_mem (s5_aliases s0) a)]|];
        destruct (q_qos p); sproj5; try destruct (s5_manual s0); cbn [out2_5] in Hn; inversion Hn; subst; (apply Hsame;
        [repeat split | intros pk0 Hpk0; inversion Hpk0; subst; cbn [wire_id_ok5]; auto
        | intros p0 Hp0; discriminate | intros id0 x0 Hx0; discriminate]).
    + (* puback *)
      destruct (handle_incoming_puback5_eff s0 id reason I1) as [[_ He] | [p0 [Eg He]]]; rewrite He in Hn.
      { cbn [out2_5] in Hn. inversion Hn. subst. apply Hsame;
          [apply slots_eq5_refl | intros pk0 Hpk0; discriminate | intros p1 Hp1; discriminate | intros id0 x0 Hx0; discriminate]. }
      destruct (free_pub_then_tail5_eff s0 id p0 I1 Eg) as [l [Hl Hrest]].
      cbv zeta in Hrest. destruct Hrest as [He2 [H1 [Hpos [I2 [Hfree Hrel]]]]]. rewrite He2 in Hn.
      set (s1 := u_inflight (u_pub s0 l) (s5_inflight s0 - 1)) in *.
      destruct (ack_tail5_wire s1 id s' rep I2 H1) as [Hk [Hm Hrep]]; subst s1; sproj5; auto.
      { intros q Hq. apply (j_coll s0 I1 q Hq). }
      apply (freed_wire5 s _ (u_inflight (u_pub s0 l) (s5_inflight s0 - 1)) id s' rep); auto.
      * rewrite <- Hbusy. unfold busy5. rewrite Eg. reflexivity.
      * cbn [frees5]. reflexivity.
      * intros j Hj. rewrite <- Hbusy. unfold busy5. sproj5. rewrite (vget_vset_other _ _ _ _ _ Hl); auto.
    + (* pubrec *)
      destruct (handle_incoming_pubrec5_eff s0 id reason I1)
        as [[_ He] | [[Hno [p0 [Eg He]]] | [Hyes [p0 [l [rl [Eg [Hl [Hrl He]]]]]]]]]; rewrite He in Hn.
      { cbn [out2_5] in Hn. inversion Hn. subst. apply Hsame;
          [apply slots_eq5_refl | intros pk0 Hpk0; discriminate | intros p1 Hp1; discriminate | intros id0 x0 Hx0; discriminate]. }
      { destruct (free_pub_then_tail5_eff s0 id p0 I1 Eg) as [l [Hl Hrest]].
        cbv zeta in Hrest. destruct Hrest as [He2 [H1 [Hpos [I2 [Hfree Hrel]]]]]. rewrite He2 in Hn.
        set (s1 := u_inflight (u_pub s0 l) (s5_inflight s0 - 1)) in *.
        destruct (ack_tail5_wire s1 id s' rep I2 H1) as [Hk [Hm Hrep]]; subst s1; sproj5; auto.
        { intros q Hq. apply (j_coll s0 I1 q Hq). }
        apply (freed_wire5 s _ (u_inflight (u_pub s0 l) (s5_inflight s0 - 1)) id s' rep); auto.
        * rewrite <- Hbusy. unfold busy5. rewrite Eg. reflexivity.
        * cbn [frees5]. auto.
        * intros j Hj. rewrite <- Hbusy. unfold busy5. sproj5. rewrite (vget_vset_other _ _ _ _ _ Hl); auto. }
      cbn [out2_5] in Hn. inversion Hn. subst s' rep.
      destruct (j_slot s0 I1 id p0 Eg) as [_ [H1 _]].
      assert (Hid : id <= s5_max_limit s0) by (eapply inv5_id_le; eauto).
      assert (Hlim : s5_max_limit s0 = s5_max_limit s) by apply Hseq.
      assert (Hb2 : forall i, busy5 (push5 (u_rel (u_pub s0 l) rl) (Ev5Out (OPubRel id))) i = busy5 s i).
      { intros i. rewrite <- Hbusy. unfold busy5. sproj5.
        rewrite (vget_vset _ _ _ i _ Hl), (bit_vset _ _ _ i _ Hrl).
        destruct (N.eqb_spec id i); [subst i; rewrite Eg; reflexivity|reflexivity]. }
      split; [|split; [|split; [|split; [|split; [|split]]]]].
      * intros pk0 Hpk0. inversion Hpk0. cbn [wire_id_ok5]. lia.
      * intros id0 n [H | H]; discriminate.
      * intros p1 Hp1. discriminate.
      * intros id0 x H. inversion H. subst id0 x. right. exists reason. split; [reflexivity|]. split; [exact Hyes|].
        assert (Hpa : pub_at5 s id = pub_at5 s0 id) by (unfold pub_at5; destruct Hseq as [A1 _]; rewrite A1; reflexivity).
        rewrite Hpa. unfold pub_at5. rewrite Eg. discriminate.
      * intros i Hbi Hbi'. rewrite Hb2 in Hbi'. congruence.
      * intros i Hbi Hbi'. rewrite Hb2 in Hbi'. congruence.
      * intros _. sproj5. exact Hmax.
    + (* pubrel *) unfold handle_incoming_pubrel5 in Hn. destruct (negb _); cbn [out2_5] in Hn; inversion Hn; subst; (apply Hsame;
        [repeat split | intros pk0 Hpk0; inversion Hpk0; subst; cbn [wire_id_ok5]; auto
        | intros p0 Hp0; discriminate | intros id0 x0 Hx0; discriminate]).
    + (* pubcomp *)
      destruct (handle_incoming_pubcomp5_eff s0 id reason I1) as [[_ He] | [Hb [rl [Hrl Hrest]]]].
      { rewrite He in Hn. cbn [out2_5] in Hn. inversion Hn. subst. apply Hsame;
          [apply slots_eq5_refl | intros pk0 Hpk0; discriminate | intros p1 Hp1; discriminate | intros id0 x0 Hx0; discriminate]. }
      cbv zeta in Hrest. destruct Hrest as [He [H1 [Hpos [I2 [Hfree Hrel]]]]]. rewrite He in Hn.
      set (s1 := u_inflight (u_rel s0 rl) (s5_inflight s0 - 1)) in *.
      destruct (ack_tail5_wire s1 id s' rep I2 H1) as [Hk [Hm Hrep]]; subst s1; sproj5; auto.
      { intros q Hq. apply (j_coll s0 I1 q Hq). }
      apply (freed_wire5 s _ (u_inflight (u_rel s0 rl) (s5_inflight s0 - 1)) id s' rep); auto.
      * rewrite <- Hbusy. unfold busy5. rewrite Hb. apply orb_true_r.
      * cbn [frees5]. reflexivity.
      * intros j Hj. rewrite <- Hbusy. unfold busy5. sproj5. rewrite (bit_vset _ _ _ j _ Hrl).
        destruct (N.eqb_spec id j); [congruence|reflexivity].
Qed.

(** (g) a parked collision is resolved by the broker's final word on its id: the parked publish
    goes on the wire, recorded, and the flag clears — in that same step.  Under [Inv5] the id of
    a parked publish is always busy ([j_coll]), so exactly one of the three is possible. *)
Theorem collision_resolved5 s q o s' rep :
  Inv5 s -> s5_collision s = Some q ->
  ((exists reason, o = Inc5 (P5PubAck (q_pkid q) reason)) /\ pub_at5 s (q_pkid q) <> None
   \/ (exists reason, o = Inc5 (P5PubComp (q_pkid q) reason)) /\ bit (s5_rel s) (q_pkid q) = true
   \/ (exists reason, o = Inc5 (P5PubRec (q_pkid q) reason) /\ ack_ok reason = false) /\ pub_at5 s (q_pkid q) <> None) ->
  outcome5 s o = Some (s', rep) ->
  rep = Some (P5Publish q) /\ s5_collision s' = None /\ vget (s5_pub s') (q_pkid q) = Some (Some q).
Proof.
  intros I Hc Ho Hn.
  assert (Htail : forall s1, Inv5 (u_collision s1 None) -> vget (s5_pub s1) (q_pkid q) = Some None ->
            bit (s5_rel s1) (q_pkid q) = false -> s5_collision s1 = Some q -> 1 <= q_pkid q ->
            out2_5 (ack_tail5 s1 (q_pkid q)) = Some (s', rep) ->
            rep = Some (P5Publish q) /\ s5_collision s' = None /\ vget (s5_pub s') (q_pkid q) = Some (Some q)).
  { intros s1 I2 Hfree Hrel Hc1 H1 Hres.
    destruct (ack_tail5_eff s1 (q_pkid q) I2 H1 Hfree Hrel) as [[q' [l' [Hc' [Hid [Hl' He']]]]] | [Hne He']].
    - intros x Hx. rewrite Hc1 in Hx. inversion Hx. subst x. apply (j_coll s I q Hc).
    - rewrite He' in Hres. cbn [out2_5] in Hres. inversion Hres. subst s' rep. rewrite Hc1 in Hc'. inversion Hc'. subst q'.
      sproj5. repeat split. eapply vget_vset_same; eauto.
    - exfalso. apply (Hne q Hc1). reflexivity. }
  destruct Ho as [[[reason ->] Hp] | [[[reason ->] Hb] | [[reason [-> Hno]] Hp]]]; rewrite outcome5_inc in Hn;
    cbn [handle_incoming_packet5] in Hn.
  - pose proof (inv5_push s (Ev5In (P5PubAck (q_pkid q) reason)) I) as I1.
    destruct (handle_incoming_puback5_eff _ (q_pkid q) reason I1) as [[Hnone _] | [p0 [Eg He]]].
    { exfalso. apply Hp. exact Hnone. }
    rewrite He in Hn. destruct (free_pub_then_tail5_eff _ (q_pkid q) p0 I1 Eg) as [l [Hl Hrest]].
    cbv zeta in Hrest. destruct Hrest as [He2 [H1 [Hpos [I2 [Hfree Hrel]]]]]. rewrite He2 in Hn.
    apply (Htail _ I2); sproj5; auto.
  - pose proof (inv5_push s (Ev5In (P5PubComp (q_pkid q) reason)) I) as I1.
    destruct (handle_incoming_pubcomp5_eff _ (q_pkid q) reason I1) as [[Hnone _] | [_ [rl [Hrl Hrest]]]].
    { sproj5. congruence. }
    cbv zeta in Hrest. destruct Hrest as [He [H1 [Hpos [I2 [Hfree Hrel]]]]]. rewrite He in Hn.
    apply (Htail _ I2); sproj5; auto.
  - pose proof (inv5_push s (Ev5In (P5PubRec (q_pkid q) reason)) I) as I1.
    destruct (handle_incoming_pubrec5_eff _ (q_pkid q) reason I1) as [[Hnone _] | [[_ [p0 [Eg He]]] | [Hyes _]]].
    { exfalso. apply Hp. exact Hnone. }
    2:{ congruence. }
    rewrite He in Hn. destruct (free_pub_then_tail5_eff _ (q_pkid q) p0 I1 Eg) as [l [Hl Hrest]].
    cbv zeta in Hrest. destruct Hrest as [He2 [H1 [Hpos [I2 [Hfree Hrel]]]]]. rewrite He2 in Hn.
    apply (Htail _ I2); sproj5; auto.
Qed.

(** an accepting PUBREC on the id of a parked publish does NOT resolve the collision: the id
    moves from the publish table to the release table and stays busy; PUBCOMP resolves it later *)
Lemma collision_survives_pubrec5 s q reason s' rep :
  Inv5 s -> s5_collision s = Some q -> ack_ok reason = true ->
  outcome5 s (Inc5 (P5PubRec (q_pkid q) reason)) = Some (s', rep) ->
  s5_collision s' = Some q /\ (busy5 s' (q_pkid q) = true).
Proof.
  intros I Hc Hyes Hn. rewrite outcome5_inc in Hn. cbn [handle_incoming_packet5] in Hn.
  pose proof (inv5_push s (Ev5In (P5PubRec (q_pkid q) reason)) I) as I1.
  destruct (j_coll s I q Hc) as [Hb _].
  destruct (handle_incoming_pubrec5_eff _ (q_pkid q) reason I1)
    as [[_ He] | [[Hno _] | [_ [p0 [l [rl [Eg [Hl [Hrl He]]]]]]]]]; [| congruence |];
    rewrite He in Hn; cbn [out2_5] in Hn; inversion Hn; subst s' rep; sproj5.
  - split; [exact Hc|exact Hb].
  - split; [exact Hc|]. unfold busy5. sproj5. rewrite (bit_vset _ _ _ _ _ Hrl), N.eqb_refl. apply orb_true_r.
Qed.

(** ---- all ids within the CURRENT negotiated limit *)
Definition low5 (s : state5) : Prop := forall i, busy5 s i = true -> i <= s5_max s.

Definition held_ids5 (s : state5) : list N := map q_pkid (somes (s5_pub s)) ++ ones (s5_rel s).

(** the two ops that can bring an id above the negotiated limit into play: a request that carries
    its own id (replay of what [clean5] returned) above it, and a CONNACK that lowers the limit
    below an id still held *)
Definition op_low5 (s : state5) (o : op5) : bool :=
  match o with
  | Out5 (R5Publish p) => match q_qos p with Q0 => true | _ => q_pkid p <=? s5_max s end
  | Out5 (R5PubRel i) => i <=? s5_max s
  | Inc5 (P5ConnAck _ code (Some rm) _) =>
      negb (code =? 0) || (rm =? 0) || forallb (fun i => i <=? N.min rm (s5_max_limit s)) (held_ids5 s)
  | _ => true
  end.

Lemma busy5_in_held_ids s i : Inv5 s -> busy5 s i = true -> In i (held_ids5 s).
Proof.
  intros I Hb. unfold held_ids5, busy5 in *. apply in_app_iff. apply orb_true_iff in Hb. destruct Hb as [Hb | Hb].
  - left. destruct (vget (s5_pub s) i) as [[p|]|] eqn:Eg; try discriminate.
    apply in_map_iff. exists p. split; [apply (j_slot s I i p Eg)|]. apply somes_in. exists (idx i). exact Eg.
  - right. apply ones_in. exact Hb.
Qed.

Theorem step5_low s o s' rep :
  Inv5 s -> low5 s -> op_ok5 s o = true -> op_low5 s o = true -> outcome5 s o = Some (s', rep) ->
  low5 s' /\ (forall pk, rep = Some pk -> wire_id_ok5 (s5_max s) pk).
Proof.
  intros I L Hok Hlow Hn.
  destruct (step5_wire s o s' rep I Hok Hn) as [W1 [W2 [W3 [W4 [W5 [W6 W7]]]]]].
  assert (Hwire : forall pk, rep = Some pk -> wire_id_ok5 (s5_max s) pk).
  { intros pk Hpk. specialize (W1 pk Hpk). destruct pk; cbn [wire_id_ok5] in *; try exact Logic.I.
    - intros Hq. specialize (W1 Hq). split; [lia|].
      destruct (W3 p Hpk Hq) as [_ [[_ [r [-> [Hp [Hpre Hfr]]]]] | [_ Hc]]].
      + destruct (N.eq_dec (q_pkid r) 0) as [E0 | E0]; [apply Hfr; exact E0|].
        rewrite (Hpre E0). cbn [op_low5] in Hlow.
        assert (Eq : q_qos r = q_qos p) by (rewrite Hp; reflexivity).
        rewrite Eq in Hlow. destruct (q_qos p); [congruence|lia|lia].
      + apply L. apply (j_coll s I p Hc).
    - split; [lia|]. destruct (W4 id reason Hpk) as [-> | [rs [-> [_ Hpa]]]].
      + cbn [op_low5] in Hlow. lia.
      + apply L. unfold busy5, pub_at5 in *. destruct (vget (s5_pub s) id) as [[x|]|]; try congruence. reflexivity.
    - apply (W2 id n). left. exact Hpk.
    - apply (W2 id n). right. exact Hpk. }
  split; [|exact Hwire].
  assert (Hold : forall i, busy5 s' i = true -> busy5 s i = true \/ i <= s5_max s).
  { intros i Hb'. destruct (busy5 s i) eqn:Hb; [left; reflexivity|right].
    destruct (W6 i Hb Hb') as [[p [Hp [Hid Hq]]] | ->].
    - specialize (Hwire _ Hp). cbn [wire_id_ok5] in Hwire. specialize (Hwire Hq). lia.
    - cbn [op_low5] in Hlow. lia. }
  destruct (is_connack5 o) eqn:Ec.
  - destruct o as [| [] |]; try discriminate.
    rewrite outcome5_inc in Hn. cbn [handle_incoming_packet5] in Hn.
    destruct (handle_incoming_connack5_eff (push5 s (Ev5In (P5ConnAck session_present code receive_max topic_alias_max)))
                code receive_max topic_alias_max)
      as [[Hc He] | [[Hc [Hz He]] | [Hc [Hnz [s2 [He [Hp [Hr [_ [_ [_ [_ [_ [_ Hm]]]]]]]]]]]]]];
      rewrite He in Hn; cbn [out2_5] in Hn; inversion Hn; subst s' rep.
    + intros i Hb. apply L. exact Hb.
    + intros i Hb. destruct topic_alias_max; apply L; exact Hb.
    + intros i Hb'. assert (Hb : busy5 s i = true) by (unfold busy5 in *; rewrite Hp, Hr in Hb'; exact Hb').
      rewrite Hm. sproj5. destruct receive_max as [m|]; [|apply L; exact Hb].
      cbn [op_low5] in Hlow. subst code. rewrite N.eqb_refl in Hlow. cbn [negb orb] in Hlow.
      destruct (N.eqb_spec m 0) as [Em | Em]; [congruence|]. cbn [orb] in Hlow.
      rewrite forallb_forall in Hlow. specialize (Hlow i (busy5_in_held_ids s i I Hb)). lia.
  - intros i Hb'. rewrite (W7 eq_refl). destruct (Hold i Hb') as [Hb | Hle]; [apply L; exact Hb|exact Hle].
Qed.

Lemma clean5_low s : low5 (fst (clean5 s)).
Proof.
  intros i Hb. unfold clean5, busy5 in Hb. cbn [fst] in Hb. sproj5. rewrite vget_repeat, bit_repeat_false in Hb.
  destruct (Nat.ltb _ _); discriminate.
Qed.

Lemma init5_low max manual : low5 (init5 max manual).
Proof.
  intros i Hb. unfold init5, busy5 in Hb. sproj5. rewrite vget_repeat, bit_repeat_false in Hb.
  destruct (Nat.ltb _ _); discriminate.
Qed.

Lemma next5_outcome s o s' : next5 s o = Some s' -> o <> Clean5 -> exists rep, outcome5 s o = Some (s', rep).
Proof.
  intros Hn Hnc. destruct o as [r | pk |]; [| |congruence].
  - rewrite outcome5_out. rewrite next5_out in Hn.
    destruct (handle_outgoing_packet5 s r) as [[s2 x] | [s2 e] | t]; cbn [res_state5 out2_5] in *; inversion Hn; eauto.
  - rewrite outcome5_inc. rewrite next5_inc in Hn.
    destruct (handle_incoming_packet5 s pk) as [[s2 x] | [s2 e] | t]; cbn [res_state5 out2_5] in *; inversion Hn; eauto.
Qed.

Fixpoint lowc5 (s : state5) (h : list op5) : bool :=
  match h with
  | [] => true
  | o :: r => op_low5 s o && match next5 s o with Some s' => lowc5 s' r | None => true end
  end.

Lemma lowc5_app s h1 h2 s1 : run5 s h1 = Some s1 -> lowc5 s (h1 ++ h2) = lowc5 s h1 && lowc5 s1 h2.
Proof.
  revert s. induction h1 as [| o h1 IH]; intros s H; cbn [run5] in H.
  - inversion H. reflexivity.
  - cbn [app lowc5]. destruct (next5 s o) as [s2|]; [|discriminate]. rewrite (IH s2 H). apply andb_assoc.
Qed.

Theorem run5_low s h s' : Inv5 s -> low5 s -> contract5 s h = true -> lowc5 s h = true -> run5 s h = Some s' ->
  Inv5 s' /\ low5 s'.
Proof.
  revert s. induction h as [| o h IH]; intros s I L Hc Hl Hr; cbn [run5] in Hr.
  { inversion Hr. subst. split; assumption. }
  cbn [contract5] in Hc. apply andb_true_iff in Hc. destruct Hc as [Hok Hc].
  cbn [lowc5] in Hl. apply andb_true_iff in Hl. destruct Hl as [Hlo Hl].
  destruct (next5 s o) as [s1|] eqn:En; [|discriminate].
  assert (I1 : Inv5 s1).
  { pose proof (step5_inv s o I Hok) as H. unfold next5 in En.
    destruct (step5 s o) as [[s2 x] | [s2 e] | t]; inversion En; subst; exact H. }
  apply (IH s1); auto.
  destruct (op5_is_clean o) eqn:Ecl.
  - destruct o; try discriminate. unfold next5 in En. cbn [step5] in En. pose proof (clean5_low s) as H.
    destruct (clean5 s) as [s2 l]. inversion En. subst. exact H.
  - assert (Hnc : o <> Clean5) by (intros ->; discriminate).
    destruct (next5_outcome s o s1 En Hnc) as [rep Ho]. apply (step5_low s o s1 rep I L Hok Hlo Ho).
Qed.

(** ---- run level, every configured limit 1..65535, any later CONNACK *)
Theorem run5_wire max manual h o s s' rep :
  1 <= max -> max <= 65535 -> contract5 (init5 max manual) (h ++ [o]) = true ->
  run5 (init5 max manual) h = Some s -> outcome5 s o = Some (s', rep) ->
  wire_facts5 s o s' rep /\ s5_max_limit s = max /\ 1 <= s5_max s <= max.
Proof.
  intros H1 H2 Hc Hr Ho. pose proof (inv5_init max manual H1 H2) as I0.
  destruct (contract5_last _ h o s I0 Hc Hr) as [I Hok].
  split; [apply step5_wire; assumption|].
  destruct (run5_frame _ h s Hr) as [Hl _]. cbn [init5 s5_max_limit] in Hl.
  split; [exact Hl|]. pose proof (j_max1 s I). pose proof (j_maxle s I). lia.
Qed.

Theorem run5_wire_low max manual h o s s' rep :
  1 <= max -> max <= 65535 -> contract5 (init5 max manual) (h ++ [o]) = true -> lowc5 (init5 max manual) (h ++ [o]) = true ->
  run5 (init5 max manual) h = Some s -> outcome5 s o = Some (s', rep) ->
  forall pk, rep = Some pk -> wire_id_ok5 (s5_max s) pk.
Proof.
  intros H1 H2 Hc Hl Hr Ho. pose proof (inv5_init max manual H1 H2) as I0.
  destruct (contract5_last _ h o s I0 Hc Hr) as [I Hok].
  rewrite (contract5_app _ h [o] s Hr) in Hc. apply andb_true_iff in Hc. destruct Hc as [Hc _].
  rewrite (lowc5_app _ h [o] s Hr) in Hl. apply andb_true_iff in Hl. destruct Hl as [Hl Hlo].
  cbn [lowc5] in Hlo. apply andb_true_iff in Hlo. destruct Hlo as [Hlo _].
  destruct (run5_low _ h s I0 (init5_low max manual) Hc Hl Hr) as [_ L].
  apply (step5_low s o s' rep I L Hok Hlo Ho).
Qed.

(** ---- the hypotheses are met by non-trivial reachable states, and each extra hypothesis of the
    [low5] statements is needed *)
Fixpoint trace5 (s : state5) (h : list op5) : list (option packet5) :=
  match h with
  | [] => []
  | o :: r => match next5 s o with
              | Some s' => (match outcome5 s o with Some (_, rep) => rep | None => None end) :: trace5 s' r
              | None => []
              end
  end.

Definition pq5 (q : qos) (tag : N) : op5 := Out5 (R5Publish (mkPub5 q 0 tag tag None)).

(** wrap-around at limit 2, a collision parked on a QoS 2 id, receive-maximum lowered to 1 by a
    later CONNACK while the collision is parked, the refusing PUBREC that resolves it, a second
    collision resolved by a PUBACK with a failure reason, an id allocated under the new limit:
    the history honours both contracts ([contract5], [lowc5]) *)
Example wire5_nontrivial :
  let h := [pq5 Q2 1; pq5 Q1 2; Inc5 (P5PubAck 2 0); pq5 Q1 3; Inc5 (P5ConnAck true 0 (Some 1) (Some 4));
            Inc5 (P5PubRec 1 135); pq5 Q1 4; Inc5 (P5PubAck 1 128); Out5 (R5Subscribe 1)] in
  contract5 (init5 2 false) h = true /\ lowc5 (init5 2 false) h = true /\
  trace5 (init5 2 false) h =
    [Some (P5Publish (mkPub5 Q2 1 1 1 None)); Some (P5Publish (mkPub5 Q1 2 2 2 None)); None; None; None;
     Some (P5Publish (mkPub5 Q1 1 3 3 None)); None; Some (P5Publish (mkPub5 Q1 1 4 4 None)); Some (P5Subscribe 1 1)] /\
  option_map (fun s => (s5_max s, s5_max_limit s, s5_inflight s, s5_collision s)) (run5 (init5 2 false) h) = Some (1, 2, 1, None).
Proof. vm_compute. repeat split. Qed.

(** [collision_resolved5] applies in the state after the first four ops above (third disjunct) *)
Example collision_resolved5_applies :
  exists s q, run5 (init5 2 false) [pq5 Q2 1; pq5 Q1 2; Inc5 (P5PubAck 2 0); pq5 Q1 3] = Some s /\
    s5_collision s = Some q /\ q = mkPub5 Q1 1 3 3 None /\ pub_at5 s (q_pkid q) <> None /\ ack_ok 135 = false.
Proof. eexists. eexists. vm_compute. repeat split; discriminate. Qed.

(** [op_low5] is needed, first clause: a publish handed back by [clean5] and replayed after a
    CONNACK that lowered receive-maximum keeps its id — 3, above the negotiated 1 (never above the
    configured 3).  This is what the event loop does on reconnect with a present session. *)
Example low5_needs_replay_clause :
  let h := [pq5 Q1 1; pq5 Q1 2; pq5 Q1 3; Clean5; Inc5 (P5ConnAck true 0 (Some 1) None);
            Out5 (R5Publish (mkPub5 Q1 3 3 3 None))] in
  contract5 (init5 3 false) h = true /\ lowc5 (init5 3 false) h = false /\
  option_map s5_max (run5 (init5 3 false) (firstn 5 h)) = Some 1 /\
  nth 5 (trace5 (init5 3 false) h) None = Some (P5Publish (mkPub5 Q1 3 3 3 None)).
Proof. vm_compute. repeat split. Qed.

(** second clause: a CONNACK that lowers receive-maximum below an id still held: the PUBREL that
    answers the PUBREC of id 2 goes out under a negotiated limit of 1 *)
Example low5_needs_connack_clause :
  let h := [pq5 Q2 1; pq5 Q2 2; Inc5 (P5ConnAck true 0 (Some 1) None); Inc5 (P5PubRec 2 0)] in
  contract5 (init5 3 false) h = true /\ lowc5 (init5 3 false) h = false /\
  option_map s5_max (run5 (init5 3 false) (firstn 3 h)) = Some 1 /\
  nth 3 (trace5 (init5 3 false) h) None = Some (P5PubRel 2 0).
Proof. vm_compute. repeat split. Qed.

(** F37 (fixed by commit b2fc5b9; the behaviour before it: Client/Findings5.v [f37_refuted]): a
    CONNACK announcing receive-maximum 0 is refused — from ANY state: an error, and the state is
    what it was but for the Incoming notification and the topic-alias maximum, which the code takes
    over before the test.  The limit and the allocator are untouched, so no contract clause about
    the broker is needed any more. *)
Theorem receive_max_zero_rejected5 s sp tam :
  step5 s (Inc5 (P5ConnAck sp 0 (Some 0) tam))
  = Err (alias_taken5 (push5 s (Ev5In (P5ConnAck sp 0 (Some 0) tam))) tam, E5ConnFail 130).
Proof. reflexivity. Qed.

Example receive_max_zero_rejected5_run :
  let h := [Inc5 (P5ConnAck true 0 (Some 0) (Some 7)); Out5 (R5Subscribe 1); Out5 (R5Subscribe 1); Out5 (R5Subscribe 1); pq5 Q1 1] in
  contract5 (init5 2 false) h = true /\ lowc5 (init5 2 false) h = true /\
  trace5 (init5 2 false) h = [None; Some (P5Subscribe 1 1); Some (P5Subscribe 2 1); Some (P5Subscribe 1 1);
                              Some (P5Publish (mkPub5 Q1 2 1 1 None))] /\
  option_map (fun s => (s5_max s, s5_alias_max s)) (run5 (init5 2 false) h) = Some (2, 7).
Proof. vm_compute. repeat split. Qed.
